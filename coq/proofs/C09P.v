(* C09P.v — proofs about the daily-log model (model/DailyLog.v) and the C09 run (run/Run_C09.v). *)
From DV Require Import Run_C09.
From Coq Require Import Permutation.
Open Scope Z_scope.

(* ------------------------------------------------------------------ basic reflection *)
Lemma key_eqb_eq : forall a b, key_eqb a b = true <-> a = b.
Proof.
  intros [[r1 e1] d1] [[r2 e2] d2]; unfold key_eqb; split.
  - intro H. apply andb_true_iff in H as [H Hd]. apply andb_true_iff in H as [Hr He].
    apply N.eqb_eq in Hr. apply N.eqb_eq in He. apply Z.eqb_eq in Hd. subst; reflexivity.
  - intro H; inversion H; subst. rewrite !N.eqb_refl, Z.eqb_refl. reflexivity.
Qed.
Lemma key_eqb_refl : forall a, key_eqb a a = true.
Proof. intro a; apply key_eqb_eq; reflexivity. Qed.
Lemma key_eqb_sym : forall a b, key_eqb a b = key_eqb b a.
Proof.
  intros a b. destruct (key_eqb a b) eqn:E.
  - apply key_eqb_eq in E; subst. symmetry; apply key_eqb_refl.
  - destruct (key_eqb b a) eqn:E2; [|reflexivity]. apply key_eqb_eq in E2; subst.
    rewrite key_eqb_refl in E; discriminate.
Qed.
Lemma key_mem_In : forall k ks, key_mem k ks = true <-> In k ks.
Proof.
  intros k ks; unfold key_mem; rewrite existsb_exists; split.
  - intros [x [Hin He]]. apply key_eqb_eq in He; subst; exact Hin.
  - intro H; exists k; split; [exact H | apply key_eqb_refl].
Qed.
Lemma key_mem_app : forall k a b, key_mem k (a ++ b) = key_mem k a || key_mem k b.
Proof. intros; unfold key_mem; apply existsb_app. Qed.

Lemma nlist_eqb_eq : forall a b, nlist_eqb a b = true <-> a = b.
Proof.
  unfold nlist_eqb; induction a as [|x a IH]; destruct b as [|y b]; cbn [list_eqb]; split; intro H;
    try reflexivity; try discriminate.
  - apply andb_true_iff in H as [H1 H2]. apply N.eqb_eq in H1. apply IH in H2. subst; reflexivity.
  - inversion H; subst. rewrite N.eqb_refl. apply IH. reflexivity.
Qed.
Lemma zlist_eqb_refl : forall l, zlist_eqb l l = true.
Proof. unfold zlist_eqb; induction l as [|x l IH]; cbn [list_eqb]; [reflexivity|]. rewrite Z.eqb_refl, IH; reflexivity. Qed.

(* ------------------------------------------------------------------ insertion sort *)
Lemma ninsert_perm : forall x l, Permutation (ninsert x l) (x :: l).
Proof.
  induction l as [|h t IH]; cbn [ninsert]; [apply Permutation_refl|].
  destruct (N.leb x h); [apply Permutation_refl|].
  eapply perm_trans; [apply perm_skip, IH | apply perm_swap].
Qed.
Lemma isort_perm : forall l, Permutation (isort l) l.
Proof.
  induction l as [|x l IH]; cbn [isort]; [apply perm_nil|].
  eapply perm_trans; [apply ninsert_perm | apply perm_skip, IH].
Qed.
Lemma ninsert_comm : forall x y l, ninsert x (ninsert y l) = ninsert y (ninsert x l).
Proof.
  intros x y l; induction l as [|h t IH].
  - cbn [ninsert]. destruct (N.leb x y) eqn:A, (N.leb y x) eqn:B; try reflexivity.
    + apply N.leb_le in A. apply N.leb_le in B. assert (x = y) by lia. subst; reflexivity.
    + apply N.leb_gt in A. apply N.leb_gt in B. lia.
  - cbn [ninsert]. destruct (N.leb y h) eqn:A, (N.leb x h) eqn:B; cbn [ninsert]; rewrite ?A, ?B.
    + destruct (N.leb x y) eqn:C, (N.leb y x) eqn:D; cbn [ninsert]; rewrite ?A, ?B; try reflexivity.
      * apply N.leb_le in C. apply N.leb_le in D. assert (x = y) by lia. subst; reflexivity.
      * apply N.leb_gt in C. apply N.leb_gt in D. lia.
    + assert (Hxy : N.leb x y = false).
      { apply N.leb_gt. apply N.leb_le in A. apply N.leb_gt in B. lia. }
      repeat (cbn [ninsert]; rewrite ?A, ?B, ?Hxy). reflexivity.
    + assert (Hyx : N.leb y x = false).
      { apply N.leb_gt. apply N.leb_le in B. apply N.leb_gt in A. lia. }
      repeat (cbn [ninsert]; rewrite ?A, ?B, ?Hyx). reflexivity.
    + rewrite IH; reflexivity.
Qed.
Lemma isort_perm_eq : forall l1 l2, Permutation l1 l2 -> isort l1 = isort l2.
Proof.
  induction 1; cbn [isort].
  - reflexivity.
  - rewrite IHPermutation; reflexivity.
  - apply ninsert_comm.
  - congruence.
Qed.
Lemma isort_nil : forall l, isort l = [] -> l = [].
Proof. intros l H. pose proof (isort_perm l) as P. rewrite H in P. apply Permutation_nil in P; exact P. Qed.

(* ------------------------------------------------------------------ the invariant *)
(* with pending marks p (keys marked earlier in the current writer batch, not yet written):
   every log row is dirty, or awaits a pending mark, or carries the recount of its key;
   every key without a row awaits a pending mark or stores nothing *)
Definition row_ok (s : state) (p : list lkey) (l : lrow) : Prop :=
  l_dirty l = true \/ key_mem (lrow_key l) p = true \/ (l_n l, l_daily l) = recount s (lrow_key l).
Definition PInv (p : list lkey) (s : state) (lg : list lrow) : Prop :=
  (forall l, In l lg -> row_ok s p l) /\
  (forall k, has_key k lg = false -> key_mem k p = true \/ content s k = []).
Definition LogInv (s : state) : Prop := PInv [] s (log s).

Lemma has_key_false : forall k lg, has_key k lg = false -> forall l, In l lg -> key_eqb (lrow_key l) k = false.
Proof.
  intros k lg H l Hin. unfold has_key in H.
  destruct (key_eqb (lrow_key l) k) eqn:E; [|reflexivity].
  assert (existsb (fun l0 => key_eqb (lrow_key l0) k) lg = true) by (apply existsb_exists; exists l; auto).
  congruence.
Qed.

(* ---- DailyMutations::write ---- *)
Lemma mark_row_key : forall l, lrow_key (mark_row l) = lrow_key l.
Proof. reflexivity. Qed.
Lemma new_row_key : forall k, lrow_key (new_row k) = k.
Proof. intros [[r e] d]; reflexivity. Qed.
Lemma new_row_dirty : forall k, l_dirty (new_row k) = true.
Proof. intros [[r e] d]; reflexivity. Qed.
Lemma insert_sorted_In : forall r lg x, In x (insert_sorted r lg) <-> x = r \/ In x lg.
Proof.
  intros r lg x; induction lg as [|l t IH]; cbn [insert_sorted].
  - cbn; intuition.
  - destruct (key_ltb (lrow_key r) (lrow_key l)); cbn [In]; [intuition|]. rewrite IH. intuition.
Qed.

(* a row of upsert k lg: either a dirty row with key k, or an untouched row of lg with another key *)
Lemma upsert_In : forall k lg x, In x (upsert k lg) ->
  (lrow_key x = k /\ l_dirty x = true) \/ (In x lg /\ lrow_key x <> k).
Proof.
  intros k lg x H; unfold upsert in H. destruct (has_key k lg) eqn:Hk.
  - apply in_map_iff in H as [l [Hx Hin]]. destruct (key_eqb (lrow_key l) k) eqn:E.
    + left. subst x. apply key_eqb_eq in E. rewrite mark_row_key. split; [exact E|reflexivity].
    + right. subst x. split; [exact Hin|]. intro C. rewrite C, key_eqb_refl in E; discriminate.
  - apply insert_sorted_In in H as [H|H].
    + left. subst x. split; [apply new_row_key | apply new_row_dirty].
    + right. split; [exact H|]. intro C. pose proof (has_key_false _ _ Hk _ H) as F.
      rewrite C, key_eqb_refl in F; discriminate.
Qed.
Lemma upsert_has_key : forall k lg k', has_key k' (upsert k lg) = key_eqb k k' || has_key k' lg.
Proof.
  intros k lg k'. unfold upsert. destruct (has_key k lg) eqn:Hk.
  - assert (M2 : forall lg0, existsb (fun l => key_eqb (lrow_key l) k') (map (fun l => if key_eqb (lrow_key l) k then mark_row l else l) lg0)
                 = existsb (fun l => key_eqb (lrow_key l) k') lg0).
    { induction lg0 as [|l2 t2 IH2]; [reflexivity|]. cbn [map existsb]. rewrite IH2.
      destruct (key_eqb (lrow_key l2) k); reflexivity. }
    unfold has_key at 1. rewrite M2. fold (has_key k' lg).
    destruct (key_eqb k k') eqn:E; [|reflexivity]. apply key_eqb_eq in E; subst. rewrite Hk; reflexivity.
  - assert (G : forall r lg0, has_key k' (insert_sorted r lg0) = key_eqb (lrow_key r) k' || has_key k' lg0).
    { intros r lg0; induction lg0 as [|l t IH]; cbn [insert_sorted].
      - reflexivity.
      - destruct (key_ltb (lrow_key r) (lrow_key l)); [reflexivity|].
        unfold has_key in *. cbn [existsb]. rewrite IH.
        destruct (key_eqb (lrow_key l) k'), (key_eqb (lrow_key r) k'); reflexivity. }
    rewrite G, new_row_key. reflexivity.
Qed.

Lemma write_marks_In : forall ks lg x, In x (write_marks ks lg) ->
  (key_mem (lrow_key x) ks = true /\ l_dirty x = true) \/ (In x lg /\ key_mem (lrow_key x) ks = false).
Proof.
  unfold write_marks. induction ks as [|k ks IH]; intros lg x H; cbn [fold_left] in H.
  - right; split; [exact H|reflexivity].
  - apply IH in H as [[Hm Hd]|[Hin Hm]].
    + left; split; [|exact Hd]. unfold key_mem in *; cbn [existsb]. rewrite Hm. apply orb_true_r.
    + apply upsert_In in Hin as [[Hk Hd]|[Hin Hk]].
      * left; split; [|exact Hd]. unfold key_mem; cbn [existsb]. rewrite Hk, key_eqb_refl. reflexivity.
      * right; split; [exact Hin|]. unfold key_mem in *; cbn [existsb]. rewrite Hm.
        destruct (key_eqb (lrow_key x) k) eqn:E; [|reflexivity]. apply key_eqb_eq in E; contradiction.
Qed.
Lemma write_marks_has_key : forall ks lg k, has_key k (write_marks ks lg) = key_mem k ks || has_key k lg.
Proof.
  unfold write_marks. induction ks as [|k0 ks IH]; intros lg k; cbn [fold_left].
  - reflexivity.
  - rewrite IH, upsert_has_key. unfold key_mem; cbn [existsb]. rewrite (key_eqb_sym k k0).
    destruct (key_eqb k0 k), (existsb (key_eqb k) ks), (has_key k lg); reflexivity.
Qed.

Lemma content_set_log : forall s lg k, content (set_log s lg) k = content s k.
Proof. reflexivity. Qed.
Lemma recount_set_log : forall s lg k, recount (set_log s lg) k = recount s k.
Proof. reflexivity. Qed.

(* the end of a writer batch turns the pending marks into dirty rows *)
Lemma write_marks_PInv : forall p s lg, PInv p s lg -> PInv [] s (write_marks p lg).
Proof.
  intros p s lg [H1 H2]; split.
  - intros l Hin. apply write_marks_In in Hin as [[_ Hd]|[Hin Hm]].
    + left; exact Hd.
    + destruct (H1 l Hin) as [Hd|[Hp|Hr]]; [left; exact Hd | congruence | right; right; exact Hr].
  - intros k Hk. rewrite write_marks_has_key in Hk. apply orb_false_iff in Hk as [Hm Hh].
    destruct (H2 k Hh) as [Hp|Hc]; [congruence | right; exact Hc].
Qed.

(* ---- coverage ---- *)
Lemma sigs_not_in_all_keys : forall s k, ~ In k (all_keys s) -> sigs s k = [].
Proof.
  intros s k Hn. unfold sigs, all_keys in *.
  assert (A : filter (fun d => key_eqb (ndel_key d) k) (ndels s) = []).
  { destruct (filter (fun d => key_eqb (ndel_key d) k) (ndels s)) as [|x t] eqn:E; [reflexivity|].
    assert (Hx : In x (x :: t)) by (left; reflexivity). rewrite <- E in Hx. apply filter_In in Hx as [Hin He].
    apply key_eqb_eq in He. exfalso; apply Hn. apply in_or_app; left. rewrite <- He. apply in_map; exact Hin. }
  assert (B : filter (fun d => key_eqb (edel_key d) k) (edels s) = []).
  { destruct (filter (fun d => key_eqb (edel_key d) k) (edels s)) as [|x t] eqn:E; [reflexivity|].
    assert (Hx : In x (x :: t)) by (left; reflexivity). rewrite <- E in Hx. apply filter_In in Hx as [Hin He].
    apply key_eqb_eq in He. exfalso; apply Hn. apply in_or_app; right; apply in_or_app; left.
    rewrite <- He. apply in_map; exact Hin. }
  assert (C : filter (fun n => okey_is (node_key n) k) (nodes s) = []).
  { destruct (filter (fun n => okey_is (node_key n) k) (nodes s)) as [|x t] eqn:E; [reflexivity|].
    assert (Hx : In x (x :: t)) by (left; reflexivity). rewrite <- E in Hx. apply filter_In in Hx as [Hin He].
    unfold okey_is in He. destruct (node_key x) as [k'|] eqn:Ek; [|discriminate].
    apply key_eqb_eq in He. exfalso; apply Hn. apply in_or_app; right; apply in_or_app; right.
    apply in_flat_map. exists x; split; [exact Hin|]. rewrite Ek. left; exact He. }
  rewrite A, B, C. reflexivity.
Qed.

Lemma uncovered_nil : forall pre post marks, uncovered pre post marks = [] ->
  forall k, key_mem k marks = false -> content post k = content pre k.
Proof.
  intros pre post marks H k Hm.
  destruct (key_mem k (all_keys pre ++ all_keys post)) eqn:Hk;
    [apply key_mem_In in Hk; rename Hk into Hin
    | assert (Hn : ~ In k (all_keys pre ++ all_keys post)) by (intro C; apply key_mem_In in C; congruence)].
  - destruct (nlist_eqb (content pre k) (content post k)) eqn:E.
    + apply nlist_eqb_eq in E; symmetry; exact E.
    + exfalso. assert (Hf : In k (uncovered pre post marks)).
      { unfold uncovered. apply filter_In. split; [exact Hin|]. rewrite E, Hm. reflexivity. }
      rewrite H in Hf. exact Hf.
  - assert (~ In k (all_keys pre)) by (intro C; apply Hn; apply in_or_app; left; exact C).
    assert (~ In k (all_keys post)) by (intro C; apply Hn; apply in_or_app; right; exact C).
    unfold content. rewrite (sigs_not_in_all_keys pre k), (sigs_not_in_all_keys post k); auto.
Qed.

(* ---- a write message does not touch the log table itself ---- *)
Lemma fold_log_inv : forall {A} (f : state * list lkey -> A -> state * list lkey),
  (forall acc x, log (fst (f acc x)) = log (fst acc)) ->
  forall xs acc, log (fst (fold_left f xs acc)) = log (fst acc).
Proof.
  intros A f Hf xs; induction xs as [|x xs IH]; intro acc; cbn [fold_left]; [reflexivity|].
  rewrite IH. apply Hf.
Qed.
Lemma exec_op_log : forall o s, log (fst (exec_op o s)) = log s.
Proof.
  intros o s; destruct o; cbn [exec_op].
  - reflexivity.
  - reflexivity.
  - destruct (find_node s id ent); [|reflexivity]. reflexivity.
  - destruct (find_node s src ent); [|reflexivity]. destruct (find_node s dest ent); [|reflexivity].
    destruct (existsb (edge_is src the_label dest) (edges s)); reflexivity.
  - destruct (find_node s id ent) as [n|]; [|reflexivity]. destruct (n_room n); reflexivity.
  - destruct (find_node s src ent) as [n|]; [|reflexivity].
    destruct (find (edge_is src the_label dest) (edges s)); [|reflexivity]. destruct (n_room n); reflexivity.
  - rewrite fold_log_inv; [reflexivity|]. intros [s0 ms] sn; unfold ingest1.
    destruct (match max_tombstone s0 (sn_id sn) with Some m => sn_mdate sn <=? m | None => false end); [reflexivity|].
    destruct (find_node_id s0 (sn_id sn)) as [old|]; [|reflexivity].
    destruct ((sn_mdate sn <? n_mdate old) || ((sn_mdate sn =? n_mdate old) && N.leb (sn_sig sn) (n_sig old))); reflexivity.
  - rewrite fold_log_inv; [reflexivity|]. intros [s0 ms] t; unfold sdel_node1.
    destruct (existsb (fun n => N.eqb (n_id n) (nd_id t) && negb (N.eqb (n_ent n) (nd_ent t))) (nodes s0)); reflexivity.
  - rewrite fold_log_inv; [reflexivity|]. intros [s0 ms] t; reflexivity.
Qed.

(* a write that marks every key whose content it changes keeps the invariant, its marks pending *)
Lemma op_step : forall p s o s' ms,
  PInv p s (log s) -> exec_op o s = (s', ms) -> uncovered s s' ms = [] -> PInv (p ++ ms) s' (log s').
Proof.
  intros p s o s' ms [H1 H2] He Hu.
  assert (Hl : log s' = log s) by (pose proof (exec_op_log o s) as L; rewrite He in L; exact L).
  pose proof (uncovered_nil _ _ _ Hu) as Hc. rewrite Hl. split.
  - intros l Hin. destruct (H1 l Hin) as [Hd|[Hp|Hr]].
    + left; exact Hd.
    + right; left. rewrite key_mem_app, Hp; reflexivity.
    + destruct (key_mem (lrow_key l) ms) eqn:Hm.
      * right; left. rewrite key_mem_app, Hm. apply orb_true_r.
      * right; right. unfold recount in *. rewrite (Hc _ Hm). exact Hr.
  - intros k Hk. destruct (H2 k Hk) as [Hp|Hcn].
    + left. rewrite key_mem_app, Hp; reflexivity.
    + destruct (key_mem k ms) eqn:Hm.
      * left. rewrite key_mem_app, Hm. apply orb_true_r.
      * right. rewrite (Hc _ Hm). exact Hcn.
Qed.

(* ------------------------------------------------------------------ recomputation *)
(* every dirty row passes the row filter of the recompute query *)
Lemma min_dirty_acc : forall lg r e a,
  match fold_left (fun a l => if same_group l r e && l_dirty l then omin a (l_day l) else a) lg a with
  | Some m => (forall x, a = Some x -> m <= x) /\
              (forall l, In l lg -> same_group l r e && l_dirty l = true -> m <= l_day l)
  | None => a = None /\ forall l, In l lg -> same_group l r e && l_dirty l = false
  end.
Proof.
  intros lg r e; induction lg as [|h t IH]; intro a; cbn [fold_left].
  - destruct a as [x|]; [split; [intros y Hy; inversion Hy; lia | intros l []] | split; [reflexivity | intros l []]].
  - specialize (IH (if same_group h r e && l_dirty h then omin a (l_day h) else a)).
    destruct (fold_left _ t _) as [m|].
    + destruct IH as [Ha Hl]. split.
      * intros x Hx. destruct (same_group h r e && l_dirty h).
        -- subst a. cbn [omin] in Ha. specialize (Ha _ eq_refl). lia.
        -- apply Ha; exact Hx.
      * intros l [Hin|Hin] Hg.
        -- subst l. rewrite Hg in Ha. destruct a as [x|]; cbn [omin] in Ha; specialize (Ha _ eq_refl); lia.
        -- apply Hl; assumption.
    + destruct IH as [Ha Hl]. destruct (same_group h r e && l_dirty h) eqn:G.
      * destruct a; discriminate.
      * split; [exact Ha|]. intros l [Hin|Hin]; [subst l; exact G | apply Hl; exact Hin].
Qed.
Lemma max_before_acc : forall lg r e m a,
  (forall x, a = Some x -> x < m) ->
  forall p, fold_left (fun a l => if same_group l r e && (l_day l <? m) then omax a (l_day l) else a) lg a = Some p -> p < m.
Proof.
  intros lg r e m; induction lg as [|h t IH]; intros a Ha p Hp; cbn [fold_left] in Hp.
  - apply Ha; exact Hp.
  - eapply IH; [|exact Hp]. intros x Hx.
    destruct (same_group h r e && (l_day h <? m)) eqn:G; [|apply Ha; exact Hx].
    apply andb_true_iff in G as [_ G]. apply Z.ltb_lt in G.
    destruct a as [y|]; cbn [omax] in Hx; inversion Hx; subst.
    + specialize (Ha _ eq_refl). lia.
    + exact G.
Qed.
Lemma same_group_refl : forall l, same_group l (l_room l) (l_ent l) = true.
Proof. intro l; unfold same_group. rewrite !N.eqb_refl. reflexivity. Qed.
Lemma dirty_selected : forall lg l, In l lg -> l_dirty l = true -> selected lg l = true.
Proof.
  intros lg l Hin Hd. unfold selected, min_dirty.
  pose proof (min_dirty_acc lg (l_room l) (l_ent l) None) as M.
  destruct (fold_left _ lg None) as [m|].
  - destruct M as [_ M]. assert (Hm : m <= l_day l).
    { apply M; [exact Hin|]. rewrite same_group_refl, Hd. reflexivity. }
    unfold max_before. destruct (fold_left _ lg None) as [p|] eqn:E.
    + apply (max_before_acc lg (l_room l) (l_ent l) m None) in E; [|intros x Hx; discriminate].
      apply Z.leb_le. lia.
    + apply Z.leb_le; exact Hm.
  - destruct M as [_ M]. specialize (M l Hin). rewrite same_group_refl, Hd in M. discriminate.
Qed.

Definition clean_ok (s : state) (p : list lkey) (l : lrow) : Prop :=
  l_dirty l = false /\ (key_mem (lrow_key l) p = true \/ (l_n l, l_daily l) = recount s (lrow_key l)).

Lemma process_dirty_ok : forall s p c l l' c', process_dirty s c l = (l', c') ->
  clean_ok s p l' /\ lrow_key l' = lrow_key l.
Proof.
  intros s p c l l' c' H. unfold process_dirty in H. inversion H; subst; clear H.
  split; [|reflexivity]. split; [reflexivity|]. right. reflexivity.
Qed.
Lemma process_clean_same : forall c l l' c', process_clean c l = (l', c') ->
  lrow_key l' = lrow_key l /\ l_dirty l' = l_dirty l /\ l_n l' = l_n l /\ l_daily l' = l_daily l.
Proof.
  intros c l l' c' H. unfold process_clean in H.
  destruct (opt_is (c_room c) (l_room l) && opt_is (c_ent c) (l_ent l)).
  - destruct (c_hist c); inversion H; subst; repeat split; reflexivity.
  - inversion H; subst; repeat split; reflexivity.
Qed.
Lemma clean_ok_same : forall s p l l', clean_ok s p l ->
  lrow_key l' = lrow_key l -> l_dirty l' = l_dirty l -> l_n l' = l_n l -> l_daily l' = l_daily l -> clean_ok s p l'.
Proof. intros s p l l' [Hd Hr] Hk Hd' Hn Hdl. unfold clean_ok. rewrite Hk, Hd', Hn, Hdl. split; assumption. Qed.

(* the loop: whatever the chaining does to the history column, every row ends clean with the
   recount of its key (or a pending mark), and no row is added, dropped or re-keyed *)
Lemma cloop_ok : forall s p todo pre c rep lg' rep',
  (forall l, In l pre -> clean_ok s p l) ->
  (forall l, In l todo -> row_ok s p l) ->
  cloop s pre todo c rep = (lg', rep') ->
  (forall l, In l lg' -> clean_ok s p l) /\ map lrow_key lg' = map lrow_key (pre ++ todo).
Proof.
  intros s p todo; induction todo as [|l t IH]; intros pre c rep lg' rep' Hpre Htodo H; cbn [cloop] in H.
  - inversion H; subst. rewrite app_nil_r. split; [exact Hpre | reflexivity].
  - assert (Hl : row_ok s p l) by (apply Htodo; left; reflexivity).
    assert (Ht : forall x, In x t -> row_ok s p x) by (intros x Hx; apply Htodo; right; exact Hx).
    assert (Happ : forall x : lrow, (pre ++ [x]) ++ t = pre ++ x :: t) by (intro x; rewrite <- app_assoc; reflexivity).
    assert (Hpre1 : forall x, clean_ok s p x -> forall y, In y (pre ++ [x]) -> clean_ok s p y).
    { intros x Hx y Hy. apply in_app_or in Hy as [Hy|[Hy|[]]]; [apply Hpre; exact Hy | subst; exact Hx]. }
    assert (Hkeys : forall x, lrow_key x = lrow_key l -> map lrow_key (pre ++ x :: t) = map lrow_key (pre ++ l :: t)).
    { intros x Hx. rewrite !map_app. cbn [map]. rewrite Hx. reflexivity. }
    destruct (selected (pre ++ l :: t) l) eqn:Hsel.
    + destruct (l_dirty l) eqn:Hd.
      * destruct (process_dirty s c l) as [l1 c1] eqn:P1.
        destruct (process_dirty_ok s p c l l1 c1 P1) as [Hok1 Hk1].
        destruct (N.ltb (l_n l) (l_n l1) && selected (pre ++ l1 :: t) l1).
        -- destruct (process_clean c1 l1) as [l2 c2] eqn:P2.
           destruct (process_clean_same _ _ _ _ P2) as [Hk2 [Hd2 [Hn2 Hdl2]]].
           apply IH in H; [|apply Hpre1; eapply clean_ok_same; eauto | exact Ht].
           destruct H as [Ha Hb]. split; [exact Ha|]. rewrite Hb, Happ. apply Hkeys. congruence.
        -- apply IH in H; [|apply Hpre1; exact Hok1 | exact Ht].
           destruct H as [Ha Hb]. split; [exact Ha|]. rewrite Hb, Happ. apply Hkeys. exact Hk1.
      * destruct (process_clean c l) as [l1 c1] eqn:P1.
        destruct (process_clean_same _ _ _ _ P1) as [Hk1 [Hd1 [Hn1 Hdl1]]].
        assert (Hcl : clean_ok s p l).
        { split; [exact Hd|]. destruct Hl as [Hx|[Hx|Hx]]; [congruence | left; exact Hx | right; exact Hx]. }
        apply IH in H; [|apply Hpre1; eapply clean_ok_same; eauto | exact Ht].
        destruct H as [Ha Hb]. split; [exact Ha|]. rewrite Hb, Happ. apply Hkeys. exact Hk1.
    + assert (Hd : l_dirty l = false).
      { destruct (l_dirty l) eqn:Hd; [|reflexivity].
        rewrite (dirty_selected (pre ++ l :: t) l) in Hsel; [discriminate | apply in_or_app; right; left; reflexivity | exact Hd]. }
      assert (Hcl : clean_ok s p l).
      { split; [exact Hd|]. destruct Hl as [Hx|[Hx|Hx]]; [congruence | left; exact Hx | right; exact Hx]. }
      apply IH in H; [|apply Hpre1; exact Hcl | exact Ht].
      destruct H as [Ha Hb]. split; [exact Ha|]. rewrite Hb, Happ. reflexivity.
Qed.

Lemma has_key_map : forall k lg lg', map lrow_key lg' = map lrow_key lg -> has_key k lg' = has_key k lg.
Proof.
  intros k lg lg' H. unfold has_key.
  assert (G : forall l, existsb (fun x => key_eqb (lrow_key x) k) l = existsb (fun y => key_eqb y k) (map lrow_key l)).
  { induction l as [|x l IH]; [reflexivity|]. cbn [map existsb]. rewrite IH; reflexivity. }
  rewrite !G, H. reflexivity.
Qed.

(* compute_establishes: after a recomputation no row is dirty and the invariant still holds *)
Lemma compute_v1_ok : forall p s s' rep, PInv p s (log s) -> compute_v1 s = (s', rep) ->
  (forall l, In l (log s') -> clean_ok s' p l) /\ PInv p s' (log s').
Proof.
  intros p s s' rep [H1 H2] H. unfold compute_v1 in H.
  destruct (cloop s [] (log s) cinit []) as [lg rp] eqn:E. inversion H; subst; clear H.
  apply (cloop_ok s p) in E; [|intros l [] | exact H1]. destruct E as [Ha Hb]. cbn [app] in Hb.
  assert (A : forall l, In l (log (set_log s lg)) -> clean_ok (set_log s lg) p l) by (intros l Hin; apply Ha; exact Hin).
  split; [exact A|]. split.
  - intros l Hin. destruct (A l Hin) as [_ [Hx|Hx]]; [right; left; exact Hx | right; right; exact Hx].
  - intros k Hk. cbn [log set_log] in Hk. rewrite (has_key_map k (log s) lg Hb) in Hk. apply H2; exact Hk.
Qed.


(* whatever the state of the log, every row the v1 loop leaves is clean *)
Lemma cloop_clean : forall s todo pre c rp0 lg' rp',
  (forall l, In l pre -> l_dirty l = false) ->
  cloop s pre todo c rp0 = (lg', rp') -> forall l, In l lg' -> l_dirty l = false.
Proof.
  intros s todo; induction todo as [|l t IH]; intros pre c rp0 lg' rp' Hpre H; cbn [cloop] in H.
  - inversion H; subst; exact Hpre.
  - assert (Hpre1 : forall x, l_dirty x = false -> forall y, In y (pre ++ [x]) -> l_dirty y = false).
    { intros x Hx y Hy. apply in_app_or in Hy as [Hy|[Hy|[]]]; [apply Hpre; exact Hy | subst; exact Hx]. }
    destruct (selected (pre ++ l :: t) l) eqn:Hsel.
    + destruct (l_dirty l) eqn:Hd.
      * destruct (process_dirty s c l) as [l1 c1] eqn:P1.
        assert (Hd1 : l_dirty l1 = false) by (unfold process_dirty in P1; inversion P1; reflexivity).
        destruct (N.ltb (l_n l) (l_n l1) && selected (pre ++ l1 :: t) l1).
        -- destruct (process_clean c1 l1) as [l2 c2] eqn:P2.
           destruct (process_clean_same _ _ _ _ P2) as [_ [Hd2 _]].
           eapply IH; [|exact H]. apply Hpre1. congruence.
        -- eapply IH; [|exact H]. apply Hpre1. exact Hd1.
      * destruct (process_clean c l) as [l1 c1] eqn:P1.
        destruct (process_clean_same _ _ _ _ P1) as [_ [Hd1 _]].
        eapply IH; [|exact H]. apply Hpre1. congruence.
    + assert (Hd : l_dirty l = false).
      { destruct (l_dirty l) eqn:Hd; [|reflexivity].
        rewrite (dirty_selected (pre ++ l :: t) l) in Hsel; [discriminate | apply in_or_app; right; left; reflexivity | exact Hd]. }
      eapply IH; [|exact H]. apply Hpre1. exact Hd.
Qed.
Lemma compute_v1_leaves_nothing_dirty : forall s s' rep, compute_v1 s = (s', rep) -> forall l, In l (log s') -> l_dirty l = false.
Proof.
  intros s s' rep H l Hin. unfold compute_v1 in H.
  destruct (cloop s [] (log s) cinit []) as [lg rp] eqn:L. inversion H; subst; clear H.
  eapply cloop_clean; [|exact L|exact Hin]. intros x [].
Qed.
(* a recomputation reports every dirty row (v1) *)
Lemma cloop_reports : forall s todo pre c rep lg' rep',
  cloop s pre todo c rep = (lg', rep') ->
  (forall k, In k rep -> In k rep') /\ (forall l, In l todo -> l_dirty l = true -> In (lrow_key l) rep').
Proof.
  intros s todo; induction todo as [|l t IH]; intros pre c rep lg' rep' H; cbn [cloop] in H.
  - inversion H; subst. split; [auto | intros l []].
  - destruct (selected (pre ++ l :: t) l) eqn:Hsel.
    + destruct (l_dirty l) eqn:Hd.
      * destruct (process_dirty s c l) as [l1 c1].
        assert (G : exists pre2 c2, cloop s pre2 t c2 (rep ++ [lrow_key l]) = (lg', rep')).
        { destruct (N.ltb (l_n l) (l_n l1) && selected (pre ++ l1 :: t) l1).
          - destruct (process_clean c1 l1) as [l2 c2]. eauto.
          - eauto. }
        destruct G as [pre2 [c2 G]]. apply IH in G as [A B]. split.
        -- intros k Hk. apply A. apply in_or_app; left; exact Hk.
        -- intros x [Hx|Hx] Hdx; [subst x; apply A; apply in_or_app; right; left; reflexivity | apply B; assumption].
      * destruct (process_clean c l) as [l1 c1]. apply IH in H as [A B]. split; [exact A|].
        intros x [Hx|Hx] Hdx; [subst x; congruence | apply B; assumption].
    + apply IH in H as [A B]. split; [exact A|].
      intros x [Hx|Hx] Hdx; [|apply B; assumption]. subst x.
      rewrite (dirty_selected (pre ++ l :: t) l) in Hsel; [discriminate | apply in_or_app; right; left; reflexivity | exact Hdx].
Qed.
Lemma compute_v1_reports_all_dirty : forall s s' rep, compute_v1 s = (s', rep) ->
  forall l, In l (log s) -> l_dirty l = true -> In (lrow_key l) rep.
Proof.
  intros s s' rep H l Hin Hd. unfold compute_v1 in H.
  destruct (cloop s [] (log s) cinit []) as [lg rp] eqn:E. inversion H; subst.
  apply cloop_reports in E as [_ B]. apply B; assumption.
Qed.

(* ------------------------------------------------------------------ the same three properties for compute_v2
   (the model of DailyLogsUpdate::compute with requests/C09-fix-6.diff) *)
(* ------------------------------------------------------------------ sorting keeps the rows *)
Lemma chain_insert_In : forall r lg x, In x (chain_insert r lg) <-> x = r \/ In x lg.
Proof.
  intros r lg x; induction lg as [|l t IH]; cbn [chain_insert].
  - cbn; intuition.
  - destruct (chain_ltb r l); cbn [In]; [intuition|]. rewrite IH. intuition.
Qed.
Lemma fold_insert_In : forall (ins : lrow -> list lrow -> list lrow),
  (forall r lg x, In x (ins r lg) <-> x = r \/ In x lg) ->
  forall lg acc x, In x (fold_left (fun a r => ins r a) lg acc) <-> In x acc \/ In x lg.
Proof.
  intros ins H lg; induction lg as [|r t IH]; intros acc x; cbn [fold_left].
  - cbn; intuition.
  - rewrite IH, H. cbn [In]. intuition.
Qed.
Lemma chain_sort_In : forall lg x, In x (chain_sort lg) <-> In x lg.
Proof. intros lg x. unfold chain_sort. rewrite (fold_insert_In chain_insert chain_insert_In). cbn; intuition. Qed.
Lemma key_sort_In : forall lg x, In x (key_sort lg) <-> In x lg.
Proof. intros lg x. unfold key_sort. rewrite (fold_insert_In insert_sorted insert_sorted_In). cbn; intuition. Qed.
Lemma kinsert_k_In : forall k l x, In x (kinsert_k k l) <-> x = k \/ In x l.
Proof.
  intros k l x; induction l as [|h t IH]; cbn [kinsert_k].
  - cbn; intuition.
  - destruct (key_ltb k h); cbn [In]; [intuition|]. rewrite IH. intuition.
Qed.
Lemma ksort_k_In : forall l x, In x (ksort_k l) <-> In x l.
Proof.
  intros l x. unfold ksort_k.
  assert (G : forall l acc, In x (fold_left (fun a k => kinsert_k k a) l acc) <-> In x acc \/ In x l).
  { induction l0 as [|k t IH]; intros acc; cbn [fold_left]; [cbn; intuition|]. rewrite IH, kinsert_k_In. cbn [In]. intuition. }
  rewrite G. cbn; intuition.
Qed.

(* ------------------------------------------------------------------ every dirty row is read *)
Lemma min_room_acc : forall lg r a,
  match fold_left (fun a l => if same_room l r && l_dirty l then omin a (l_day l) else a) lg a with
  | Some m => (forall x, a = Some x -> m <= x) /\
              (forall l, In l lg -> same_room l r && l_dirty l = true -> m <= l_day l)
  | None => a = None /\ forall l, In l lg -> same_room l r && l_dirty l = false
  end.
Proof.
  intros lg r; induction lg as [|h t IH]; intro a; cbn [fold_left].
  - destruct a as [x|]; [split; [intros y Hy; inversion Hy; lia | intros l []] | split; [reflexivity | intros l []]].
  - specialize (IH (if same_room h r && l_dirty h then omin a (l_day h) else a)).
    destruct (fold_left _ t _) as [m|].
    + destruct IH as [Ha Hl]. split.
      * intros x Hx. destruct (same_room h r && l_dirty h).
        -- subst a. cbn [omin] in Ha. specialize (Ha _ eq_refl). lia.
        -- apply Ha; exact Hx.
      * intros l [Hin|Hin] Hg.
        -- subst l. rewrite Hg in Ha. destruct a as [x|]; cbn [omin] in Ha; specialize (Ha _ eq_refl); lia.
        -- apply Hl; assumption.
    + destruct IH as [Ha Hl]. destruct (same_room h r && l_dirty h) eqn:G.
      * destruct a; discriminate.
      * split; [exact Ha|]. intros l [Hin|Hin]; [subst l; exact G | apply Hl; exact Hin].
Qed.
Lemma max_room_acc : forall lg r m a,
  (forall x, a = Some x -> x < m) ->
  forall p, fold_left (fun a l => if same_room l r && (l_day l <? m) then omax a (l_day l) else a) lg a = Some p -> p < m.
Proof.
  intros lg r m; induction lg as [|h t IH]; intros a Ha p Hp; cbn [fold_left] in Hp.
  - apply Ha; exact Hp.
  - eapply IH; [|exact Hp]. intros x Hx.
    destruct (same_room h r && (l_day h <? m)) eqn:G; [|apply Ha; exact Hx].
    apply andb_true_iff in G as [_ G]. apply Z.ltb_lt in G.
    destruct a as [y|]; cbn [omax] in Hx; inversion Hx; subst.
    + specialize (Ha _ eq_refl). lia.
    + exact G.
Qed.
Lemma dirty_selected2 : forall lg l, In l lg -> l_dirty l = true -> selected2 lg l = true.
Proof.
  intros lg l Hin Hd. unfold selected2, min_dirty_room.
  pose proof (min_room_acc lg (l_room l) None) as M.
  assert (Hs : same_room l (l_room l) = true) by (unfold same_room; apply N.eqb_refl).
  destruct (fold_left _ lg None) as [m|].
  - destruct M as [_ M]. assert (Hm : m <= l_day l) by (apply M; [exact Hin | rewrite Hs, Hd; reflexivity]).
    unfold max_before_room. destruct (fold_left _ lg None) as [p|] eqn:E.
    + apply (max_room_acc lg (l_room l) m None) in E; [|intros x Hx; discriminate]. apply Z.leb_le. lia.
    + apply Z.leb_le; exact Hm.
  - destruct M as [_ M]. specialize (M l Hin). rewrite Hs, Hd in M. discriminate.
Qed.

(* ------------------------------------------------------------------ the loop *)
Lemma loop2_props : forall s p rows c rs rep,
  (forall l, In l rows -> row_ok s p l) -> loop2 s c rows = (rs, rep) ->
  (forall l', In l' rs -> clean_ok s p l' /\ exists l, In l rows /\ lrow_key l' = lrow_key l) /\
  (forall l, In l rows -> (exists l', In l' rs /\ lrow_key l' = lrow_key l) \/ (l_dirty l = true /\ content s (lrow_key l) = [])) /\
  (forall l, In l rows -> l_dirty l = true -> In (lrow_key l) rep).
Proof.
  intros s p rows; induction rows as [|l t IH]; intros c rs rep Hok H; cbn [loop2] in H.
  - inversion H; subst. split; [intros x []|split; intros x []].
  - assert (Ht : forall x, In x t -> row_ok s p x) by (intros x Hx; apply Hok; right; exact Hx).
    destruct (l_dirty l) eqn:Hd.
    + destruct (content s (lrow_key l)) as [|a cnt] eqn:Ec.
      * destruct (loop2 s (c2enter c l) t) as [rs0 rep0] eqn:E. inversion H; subst; clear H.
        destruct (IH _ _ _ Ht E) as [A [B C]]. split; [|split].
        -- intros l' H'. destruct (A l' H') as [X [x [Hx Hk]]]. split; [exact X|]. exists x; split; [right; exact Hx | exact Hk].
        -- intros x [Hx|Hx]; [subst x; right; split; [exact Hd | exact Ec] | apply B; exact Hx].
        -- intros x [Hx|Hx] Hdx; [subst x; left; reflexivity | right; apply C; assumption].
      * destruct (loop2 s _ t) as [rs0 rep0] eqn:E. inversion H; subst; clear H.
        destruct (IH _ _ _ Ht E) as [A [B C]]. split; [|split].
        -- intros l' [H'|H'].
           ++ subst l'. split.
              ** split; [reflexivity|]. right.
                 unfold recount, lrow_key. cbn [l_room l_ent l_day l_n l_daily]. fold (lrow_key l). rewrite Ec. reflexivity.
              ** exists l. split; [left; reflexivity | reflexivity].
           ++ destruct (A l' H') as [X [x [Hx Hk]]]. split; [exact X|]. exists x; split; [right; exact Hx | exact Hk].
        -- intros x [Hx|Hx].
           ++ subst x. left. eexists. split; [left; reflexivity | reflexivity].
           ++ destruct (B x Hx) as [[l' [Hl Hk]]|R]; [left; exists l'; split; [right; exact Hl | exact Hk] | right; exact R].
        -- intros x [Hx|Hx] Hdx; [subst x; left; reflexivity | right; apply C; assumption].
    + destruct (loop2 s _ t) as [rs0 rep0] eqn:E. inversion H; subst; clear H.
      destruct (IH _ _ _ Ht E) as [A [B C]]. split; [|split].
      * intros l' [H'|H'].
        -- subst l'. split.
           ++ split; [exact Hd|].
              destruct (Hok l (or_introl eq_refl)) as [X|[X|X]]; [congruence | left; exact X | right; exact X].
           ++ exists l. split; [left; reflexivity | reflexivity].
        -- destruct (A l' H') as [X [x [Hx Hk]]]. split; [exact X|]. exists x; split; [right; exact Hx | exact Hk].
      * intros x [Hx|Hx].
        -- subst x. left. eexists. split; [left; reflexivity | reflexivity].
        -- destruct (B x Hx) as [[l' [Hl Hk]]|R]; [left; exists l'; split; [right; exact Hl | exact Hk] | right; exact R].
      * intros x [Hx|Hx] Hdx; [subst x; congruence | apply C; assumption].
Qed.

Lemma has_key_In : forall k lg, has_key k lg = true <-> exists l, In l lg /\ lrow_key l = k.
Proof.
  intros k lg. unfold has_key. rewrite existsb_exists. split; intros [l [Hin He]]; exists l; split; auto.
  - apply key_eqb_eq; exact He.
  - apply key_eqb_eq; exact He.
Qed.

(* ------------------------------------------------------------------ (1) the three properties of `compute` *)
Theorem compute_v2_ok : forall p s s' rep, PInv p s (log s) -> compute_v2 s = (s', rep) ->
  (forall l, In l (log s') -> clean_ok s' p l) /\ PInv p s' (log s').
Proof.
  intros p s s' rep [H1 H2] H. unfold compute_v2 in H.
  destruct (loop2 s c2init (chain_sort (filter (selected2 (log s)) (log s)))) as [rs rp] eqn:E.
  inversion H; subst; clear H. cbn [log set_log].
  assert (Hrows : forall l, In l (chain_sort (filter (selected2 (log s)) (log s))) -> row_ok s p l).
  { intros l Hl. apply (proj1 (chain_sort_In _ _)) in Hl. apply filter_In in Hl as [Hl _]. apply H1; exact Hl. }
  destruct (loop2_props s p _ _ _ _ Hrows E) as [A [B _]].
  assert (Hclean : forall l, In l (key_sort (filter (fun l0 => negb (selected2 (log s) l0)) (log s) ++ rs)) -> clean_ok s p l).
  { intros l Hl. apply (proj1 (key_sort_In _ _)) in Hl. apply in_app_or in Hl as [Hl|Hl].
    - apply filter_In in Hl as [Hin Hns]. apply negb_true_iff in Hns.
      assert (Hd : l_dirty l = false).
      { destruct (l_dirty l) eqn:Hd; [|reflexivity]. rewrite (dirty_selected2 _ _ Hin Hd) in Hns. discriminate. }
      split; [exact Hd|]. destruct (H1 l Hin) as [X|[X|X]]; [congruence | left; exact X | right; exact X].
    - apply A; exact Hl. }
  split; [exact Hclean|]. split.
  - intros l Hl. destruct (Hclean l Hl) as [_ [X|X]]; [right; left; exact X | right; right; exact X].
  - intros k Hk. destruct (has_key k (log s)) eqn:Hk0; [|apply H2; exact Hk0].
    apply has_key_In in Hk0 as [l [Hin Hkl]].
    assert (Hno : forall x, In x (key_sort (filter (fun l0 => negb (selected2 (log s) l0)) (log s) ++ rs)) -> lrow_key x <> k).
    { intros x Hx C. assert (T : has_key k (key_sort (filter (fun l0 => negb (selected2 (log s) l0)) (log s) ++ rs)) = true)
        by (apply has_key_In; exists x; split; assumption). congruence. }
    destruct (selected2 (log s) l) eqn:Hs.
    + assert (Hl : In l (chain_sort (filter (selected2 (log s)) (log s)))) by (apply (proj2 (chain_sort_In _ _)); apply filter_In; split; assumption).
      destruct (B l Hl) as [[l' [Hl' Hk']]|[_ Hc]].
      * exfalso. apply (Hno l'); [apply (proj2 (key_sort_In _ _)); apply in_or_app; right; exact Hl' | congruence].
      * right. rewrite <- Hkl. exact Hc.
    + exfalso. apply (Hno l); [|exact Hkl]. apply (proj2 (key_sort_In _ _)). apply in_or_app; left. apply filter_In. split; [exact Hin | rewrite Hs; reflexivity].
Qed.

Lemma loop2_reports : forall s rows c rs rep, loop2 s c rows = (rs, rep) ->
  (forall l, In l rows -> l_dirty l = true -> In (lrow_key l) rep) /\ (forall l', In l' rs -> l_dirty l' = false).
Proof.
  intros s rows; induction rows as [|l t IH]; intros c rs rep H; cbn [loop2] in H.
  - inversion H; subst. split; intros x [].
  - destruct (l_dirty l) eqn:Hd.
    + destruct (content s (lrow_key l)) as [|a cnt].
      * destruct (loop2 s (c2enter c l) t) as [rs0 rep0] eqn:E. inversion H; subst; clear H.
        destruct (IH _ _ _ E) as [C D]. split; [|exact D].
        intros x [Hx|Hx] Hdx; [subst x; left; reflexivity | right; apply C; assumption].
      * destruct (loop2 s _ t) as [rs0 rep0] eqn:E. inversion H; subst; clear H.
        destruct (IH _ _ _ E) as [C D]. split.
        -- intros x [Hx|Hx] Hdx; [subst x; left; reflexivity | right; apply C; assumption].
        -- intros x [Hx|Hx]; [subst x; reflexivity | apply D; exact Hx].
    + destruct (loop2 s _ t) as [rs0 rep0] eqn:E. inversion H; subst; clear H.
      destruct (IH _ _ _ E) as [C D]. split.
      * intros x [Hx|Hx] Hdx; [subst x; congruence | apply C; assumption].
      * intros x [Hx|Hx]; [subst x; exact Hd | apply D; exact Hx].
Qed.

Theorem compute_v2_reports_all_dirty : forall s s' rep, compute_v2 s = (s', rep) ->
  forall l, In l (log s) -> l_dirty l = true -> In (lrow_key l) rep.
Proof.
  intros s s' rep H l Hin Hd. unfold compute_v2 in H.
  destruct (loop2 s c2init (chain_sort (filter (selected2 (log s)) (log s)))) as [rs rp] eqn:E.
  inversion H; subst; clear H. apply (proj2 (ksort_k_In _ _)).
  destruct (loop2_reports _ _ _ _ _ E) as [C _]. apply C; [|exact Hd].
  apply (proj2 (chain_sort_In _ _)). apply filter_In. split; [exact Hin | apply dirty_selected2; assumption].
Qed.

Theorem compute_v2_leaves_nothing_dirty : forall s s' rep, compute_v2 s = (s', rep) ->
  forall l, In l (log s') -> l_dirty l = false.
Proof.
  intros s s' rep H l Hin. unfold compute_v2 in H.
  destruct (loop2 s c2init (chain_sort (filter (selected2 (log s)) (log s)))) as [rs rp] eqn:E.
  inversion H; subst; clear H. cbn [log set_log] in Hin. apply (proj1 (key_sort_In _ _)) in Hin. apply in_app_or in Hin as [Hl|Hl].
  - apply filter_In in Hl as [Hin Hns]. apply negb_true_iff in Hns.
    destruct (l_dirty l) eqn:Hd; [|reflexivity]. rewrite (dirty_selected2 _ _ Hin Hd) in Hns. discriminate.
  - destruct (loop2_reports _ _ _ _ _ E) as [_ D]. apply D; exact Hl.
Qed.


(* ------------------------------------------------------------------ `compute`, whichever version DailyLog.v selects.
   THE SWITCH (with DailyLog.compute := compute_v2): replace _v1_ by _v2_ in the three proofs below *)
Lemma compute_ok : forall p s s' rep, PInv p s (log s) -> compute s = (s', rep) ->
  (forall l, In l (log s') -> clean_ok s' p l) /\ PInv p s' (log s').
Proof. exact compute_v1_ok. Qed.
Lemma compute_reports_all_dirty : forall s s' rep, compute s = (s', rep) ->
  forall l, In l (log s) -> l_dirty l = true -> In (lrow_key l) rep.
Proof. exact compute_v1_reports_all_dirty. Qed.
Lemma compute_clean : forall s s' rep, compute s = (s', rep) -> forall l, In l (log s') -> l_dirty l = false.
Proof. exact compute_v1_leaves_nothing_dirty. Qed.

(* ------------------------------------------------------------------ batches and histories *)
Definition msg_state (s : state) (m : msg) : state :=
  match m with MOp o => fst (exec_op o s) | MCompute => fst (compute s) end.
Definition msg_covered (s : state) (m : msg) : Prop :=
  match m with MOp o => uncovered s (fst (exec_op o s)) (snd (exec_op o s)) = [] | MCompute => True end.
Fixpoint batch_covered (s : state) (b : list msg) : Prop :=
  match b with [] => True | m :: t => msg_covered s m /\ batch_covered (msg_state s m) t end.

Lemma exec_msgs_inv : forall b s pend evs s' pend' evs',
  PInv pend s (log s) -> batch_covered s b ->
  fold_left exec_msg b (s, pend, evs) = (s', pend', evs') -> PInv pend' s' (log s').
Proof.
  induction b as [|m t IH]; intros s pend evs s' pend' evs' Hi Hc H; cbn [fold_left] in H.
  - inversion H; subst; exact Hi.
  - destruct Hc as [Hm Ht]. destruct m as [o|]; cbn [exec_msg] in H.
    + destruct (exec_op o s) as [s1 ms] eqn:E. cbn [msg_state msg_covered fst snd] in *. rewrite E in *. cbn [fst snd] in *.
      eapply IH; [|exact Ht|exact H]. eapply op_step; eauto.
    + destruct (compute s) as [s1 rep] eqn:E. cbn [msg_state fst] in *. rewrite E in *. cbn [fst] in *.
      eapply IH; [|exact Ht|exact H]. eapply compute_ok; eauto.
Qed.

Lemma exec_batch_inv : forall s evs b s' evs',
  LogInv s -> batch_covered s b -> exec_batch (s, evs) b = (s', evs') -> LogInv s'.
Proof.
  intros s evs b s' evs' Hi Hc H. unfold exec_batch in H.
  destruct (fold_left exec_msg b (s, [], evs)) as [[s1 pend] evs1] eqn:E. inversion H; subst; clear H.
  pose proof (exec_msgs_inv _ _ _ _ _ _ _ Hi Hc E) as P.
  unfold LogInv. cbn [log set_log]. apply write_marks_PInv in P.
  destruct P as [P1 P2]. split; [intros l Hin; apply P1; exact Hin | intros k Hk; apply P2; exact Hk].
Qed.

Fixpoint items_covered (s : state) (items : list c09item) : Prop :=
  match items with
  | [] => True
  | IBatch b :: t => batch_covered s b /\ items_covered (fst (exec_batch (s, []) b)) t
  | ICheck :: t => items_covered s t
  end.

Lemma run_items_inv : forall items s ds s' ds',
  LogInv s -> items_covered s items -> fold_left run_item items (s, ds) = (s', ds') ->
  LogInv s' /\ forall d, In d ds' -> In d ds \/ exists s1, LogInv s1 /\ d = dump_of s1.
Proof.
  induction items as [|i t IH]; intros s ds s' ds' Hi Hc H; cbn [fold_left] in H.
  - inversion H; subst. split; [exact Hi | intros d Hd; left; exact Hd].
  - destruct i as [b|]; cbn [run_item] in H.
    + destruct Hc as [Hb Ht]. destruct (exec_batch (s, []) b) as [s1 e1] eqn:E. cbn [fst] in *.
      eapply IH; [|exact Ht|exact H]. eapply exec_batch_inv; eauto.
    + cbn [items_covered] in Hc. destruct (IH _ _ _ _ Hi Hc H) as [A B]. split; [exact A|].
      intros d Hd. destruct (B d Hd) as [Hin|Hex]; [|right; exact Hex].
      apply in_app_or in Hin as [Hin|[Hin|[]]]; [left; exact Hin | right; exists s; split; [exact Hi | symmetry; exact Hin]].
Qed.

(* the class collector of Run_C09 returns [] exactly when every write of the history is covered *)
Lemma msg_classes_nil : forall b s cl, snd (fold_left msg_classes b (s, cl)) = [] -> cl = [] /\ batch_covered s b.
Proof.
  induction b as [|m t IH]; intros s cl H; cbn [fold_left] in H.
  - cbn [snd] in H. split; [exact H | exact I].
  - destruct m as [o|]; cbn [msg_classes] in H.
    + destruct (exec_op o s) as [s1 ms] eqn:E.
      apply IH in H as [Hcl Ht]. cbn [batch_covered msg_covered msg_state]. rewrite E. cbn [fst snd].
      destruct (uncovered s s1 ms) eqn:U.
      * split; [exact Hcl | split; [reflexivity | exact Ht]].
      * destruct cl; discriminate.
    + apply IH in H as [Hcl Ht]. split; [exact Hcl | split; [exact I | exact Ht]].
Qed.
Lemma item_classes_nil : forall items s cl, snd (fold_left item_classes items (s, cl)) = [] -> cl = [] /\ items_covered s items.
Proof.
  induction items as [|i t IH]; intros s cl H; cbn [fold_left] in H.
  - cbn [snd] in H. split; [exact H | exact I].
  - destruct i as [b|]; cbn [item_classes] in H.
    + apply IH in H as [Hcl Ht]. apply msg_classes_nil in Hcl as [Hcl Hb].
      split; [exact Hcl | split; [exact Hb | exact Ht]].
    + apply IH in H as [Hcl Ht]. split; [exact Hcl | exact Ht].
Qed.

Lemma LogInv_init : forall t, LogInv (init t).
Proof. intro t; split; [intros l [] | intros k _; right; reflexivity]. Qed.

(* ------------------------------------------------------------------ bridge to what is read back *)
Lemma csort_perm : forall l, Permutation (csort l) l.
Proof.
  assert (I : forall x l, Permutation (cinsert x l) (x :: l)).
  { induction l as [|h t IH]; cbn [cinsert]; [apply Permutation_refl|].
    destruct (crow_ltb h x); [|apply Permutation_refl].
    eapply perm_trans; [apply perm_skip, IH | apply perm_swap]. }
  induction l as [|x l IH]; cbn [csort]; [apply perm_nil|].
  eapply perm_trans; [apply I | apply perm_skip, IH].
Qed.
Lemma filter_perm : forall {A} (f : A -> bool) l1 l2, Permutation l1 l2 -> Permutation (filter f l1) (filter f l2).
Proof.
  induction 1; cbn [filter].
  - apply perm_nil.
  - destruct (f x); [apply perm_skip|]; assumption.
  - destruct (f x), (f y); try apply Permutation_refl. apply perm_swap.
  - eapply perm_trans; eassumption.
Qed.

Lemma sigs_crows : forall s r e d,
  map c_csig (filter (ckey_is r e d) (crows s)) = sigs s (r, e, d).
Proof.
  intros s r e d. unfold crows, sigs. rewrite !filter_app, !map_app. f_equal; [|f_equal].
  - induction (ndels s) as [|x l IH]; [reflexivity|]. cbn [map filter].
    change (ckey_is r e d {| c_croom := nd_room x; c_cent := nd_ent x; c_cdate := nd_date x; c_csig := nd_sig x |})
      with (key_eqb (ndel_key x) (r, e, d)).
    destruct (key_eqb (ndel_key x) (r, e, d)); cbn [map]; rewrite IH; reflexivity.
  - induction (edels s) as [|x l IH]; [reflexivity|]. cbn [map filter].
    change (ckey_is r e d {| c_croom := ed_room x; c_cent := e_ent (ed_edge x); c_cdate := ed_date x; c_csig := ed_sig x |})
      with (key_eqb (edel_key x) (r, e, d)).
    destruct (key_eqb (edel_key x) (r, e, d)); cbn [map]; rewrite IH; reflexivity.
  - induction (nodes s) as [|x l IH]; [reflexivity|]. cbn [flat_map filter]. rewrite filter_app, map_app, IH.
    unfold node_key. destruct (n_room x) as [rm|]; cbn [okey_is filter app map].
    + change (ckey_is r e d {| c_croom := rm; c_cent := n_ent x; c_cdate := n_mdate x; c_csig := n_sig x |})
        with (key_eqb (rm, n_ent x, day (n_mdate x)) (r, e, d)).
      destruct (key_eqb (rm, n_ent x, day (n_mdate x)) (r, e, d)); reflexivity.
    + reflexivity.
Qed.

Lemma stored_sigs_content : forall s r e d, stored_sigs (csort (crows s)) r e d = content s (r, e, d).
Proof.
  intros s r e d. unfold stored_sigs, content. rewrite <- sigs_crows.
  apply isort_perm_eq. apply Permutation_map. apply filter_perm. apply csort_perm.
Qed.

Lemma daily_ok_of_inv : forall s, LogInv s -> (forall l, In l (log s) -> l_dirty l = false) -> daily_ok (dump_of s) = true.
Proof.
  intros s [H1 H2] Hclean. unfold daily_ok, dump_of. cbn [d_content d_log].
  apply andb_true_iff; split.
  - apply forallb_forall. intros rw Hrw. apply in_map_iff in Hrw as [l [Hrw Hin]]. subst rw.
    unfold row_matches_recount, raw_of. cbn [rr_room rr_ent rr_day rr_n rr_dirty rr_daily].
    rewrite stored_sigs_content.
    destruct (H1 l Hin) as [Hd|[Hp|Hr]]; [rewrite (Hclean l Hin) in Hd; discriminate | discriminate |].
    unfold recount in Hr. change (l_room l, l_ent l, l_day l) with (lrow_key l). inversion Hr as [[Hn Hdl]].
    rewrite (Hclean l Hin), N.eqb_refl, zlist_eqb_refl. reflexivity.
  - apply forallb_forall. intros c Hc.
    assert (Hc' : In c (crows s)) by (eapply Permutation_in; [apply csort_perm | exact Hc]).
    set (k := (c_croom c, c_cent c, day (c_cdate c))).
    assert (Hne : content s k <> []).
    { intro C. unfold content in C. apply isort_nil in C. unfold k in C. rewrite <- sigs_crows in C.
      assert (Hin : In (c_csig c) (map c_csig (filter (ckey_is (c_croom c) (c_cent c) (day (c_cdate c))) (crows s)))).
      { apply in_map. apply filter_In. split; [exact Hc'|]. unfold ckey_is. rewrite !N.eqb_refl, Z.eqb_refl. reflexivity. }
      rewrite C in Hin. exact Hin. }
    destruct (has_key k (log s)) eqn:Hk.
    + unfold has_key in Hk. apply existsb_exists in Hk as [l [Hin He]].
      unfold has_row. apply existsb_exists. exists (raw_of l). split; [apply in_map; exact Hin|].
      apply key_eqb_eq in He. unfold lrow_key, k in He. inversion He as [[Hr He' Hd]].
      unfold ckey_is, raw_of. cbn [rr_room rr_ent rr_day]. rewrite Hr, He', Hd, !N.eqb_refl, Z.eqb_refl. reflexivity.
    + destruct (H2 k Hk) as [Hp|Hcn]; [discriminate | contradiction].
Qed.

(* ------------------------------------------------------------------ C09, outside the known classes *)
Theorem outside_known_daily : forall c,
  mark_classes c = [] ->
  forall d, In d (run_dumps c) -> forallb (fun rw => negb (rr_dirty rw)) (d_log d) = true -> daily_ok d = true.
Proof.
  intros c Hk d Hd Hclean. unfold mark_classes in Hk. apply item_classes_nil in Hk as [_ Hcov].
  unfold run_dumps, run_items in Hd.
  destruct (fold_left run_item (case_items c) (init (case_t0 c), [])) as [s' ds'] eqn:E. cbn [snd] in Hd.
  destruct (run_items_inv _ _ _ _ _ (LogInv_init _) Hcov E) as [_ B].
  destruct (B d Hd) as [[]|[s1 [Hi Heq]]]. subst d.
  apply daily_ok_of_inv; [exact Hi|]. intros l Hin.
  rewrite forallb_forall in Hclean. specialize (Hclean (raw_of l)).
  cbn [dump_of d_log] in Hclean. specialize (Hclean (in_map raw_of _ _ Hin)).
  unfold raw_of in Hclean; cbn [rr_dirty] in Hclean. destruct (l_dirty l); [discriminate | reflexivity].
Qed.

(* after a recomputation in a batch of its own nothing is dirty: the premise above is met at
   every check point that directly follows a recompute *)
Theorem compute_leaves_nothing_dirty : forall s evs s' evs',
  exec_batch (s, evs) [MCompute] = (s', evs') ->
  forallb (fun rw => negb (rr_dirty rw)) (d_log (dump_of s')) = true.
Proof.
  intros s evs s' evs' H. unfold exec_batch in H. cbn [fold_left exec_msg] in H.
  destruct (compute s) as [s1 rep] eqn:E. inversion H; subst; clear H.
  cbn [write_marks fold_left].
  apply forallb_forall. intros rw Hrw. cbn [dump_of d_log set_log log] in Hrw.
  apply in_map_iff in Hrw as [l [Hrw Hin]]. subst rw. unfold raw_of; cbn [rr_dirty].
  rewrite (compute_clean _ _ _ E l Hin). reflexivity.
Qed.

(* ------------------------------------------------------------------ encode / decode round trip *)
Lemma firstn_len_app : forall {A} (a b : list A), firstn (length a) (a ++ b) = a.
Proof. induction a as [|x a IH]; intro b; cbn; [reflexivity | rewrite IH; reflexivity]. Qed.
Lemma skipn_len_app : forall {A} (a b : list A), skipn (length a) (a ++ b) = b.
Proof. induction a as [|x a IH]; intro b; cbn; [reflexivity | apply IH]. Qed.

Lemma dec_crows_enc : forall cs rest, dec_crows (length cs) (flat_map enc_crow cs ++ rest) = Some (cs, rest).
Proof.
  induction cs as [|c cs IH]; intro rest; [reflexivity|].
  cbn [length flat_map enc_crow app dec_crows]. rewrite <- ?app_assoc. cbn [app dec_crows].
  rewrite IH. unfold zn. rewrite !N2Z.id. destruct c; reflexivity.
Qed.
Lemma zb_eqb : forall b, Z.eqb (zb b) 1 = b.
Proof. destruct b; reflexivity. Qed.
Lemma dec_raws_enc : forall rs rest, dec_raws (length rs) (flat_map enc_raw rs ++ rest) = Some (rs, rest).
Proof.
  induction rs as [|r rs IH]; intro rest; [reflexivity|].
  cbn [length flat_map dec_raws]. unfold enc_raw at 1. rewrite <- !app_assoc. cbn [app].
  rewrite !Nat2Z.id.
  assert (L : Nat.ltb (length (rr_daily r ++ rr_hist r ++ flat_map enc_raw rs ++ rest)) (length (rr_daily r) + length (rr_hist r)) = false).
  { apply Nat.ltb_ge. rewrite !app_length. lia. }
  rewrite L.
  assert (S1 : skipn (length (rr_daily r) + length (rr_hist r)) (rr_daily r ++ rr_hist r ++ flat_map enc_raw rs ++ rest)
               = flat_map enc_raw rs ++ rest).
  { rewrite <- app_length, app_assoc. apply skipn_len_app. }
  rewrite S1, IH, firstn_len_app, skipn_len_app, firstn_len_app.
  unfold zn. rewrite !N2Z.id, zb_eqb. destruct r; reflexivity.
Qed.
Lemma dec_dump_enc : forall d rest, dec_dump (enc_dump d ++ rest) = Some (d, rest).
Proof.
  intros d rest. unfold enc_dump, dec_dump. cbn [app]. rewrite Nat2Z.id, <- app_assoc, dec_crows_enc.
  cbn [app]. rewrite Nat2Z.id, dec_raws_enc. destruct d; reflexivity.
Qed.
Lemma dec_dumps_enc : forall ds, dec_dumps (enc_dumps ds) = Some ds.
Proof.
  intro ds. unfold enc_dumps, dec_dumps. rewrite Nat2Z.id.
  induction ds as [|d ds IH]; [reflexivity|].
  cbn [length flat_map dec_dumps_n]. rewrite dec_dump_enc, IH. reflexivity.
Qed.

Lemma run_items_checks : forall items s ds,
  length (snd (fold_left run_item items (s, ds))) = (length ds + n_checks items)%nat.
Proof.
  induction items as [|i t IH]; intros s ds; cbn [fold_left].
  - cbn. lia.
  - destruct i as [b|]; cbn [run_item].
    + rewrite IH. reflexivity.
    + rewrite IH, app_length. unfold n_checks. cbn [filter length]. lia.
Qed.

Lemma zdedup_nil : forall l, zdedup l = [] -> l = [].
Proof.
  induction l as [|x t IH]; [reflexivity|]. cbn [zdedup].
  destruct (existsb (Z.eqb x) t) eqn:E; [|discriminate].
  intro H. apply IH in H. subst t. discriminate.
Qed.

(* the statement about the functions the harness evaluates *)
Theorem outside_known_spec : forall t0 items,
  known_C09 (CDaily t0 items) = [] ->
  forallb (fun d => forallb (fun rw => negb (rr_dirty rw)) (d_log d)) (run_dumps (CDaily t0 items)) = true ->
  spec_C09 (CDaily t0 items) (run_C09 (CDaily t0 items)) = true.
Proof.
  intros t0 items Hk Hclean. unfold spec_C09, run_C09. rewrite dec_dumps_enc.
  apply andb_true_iff; split.
  - apply Nat.eqb_eq. unfold run_dumps, run_items. rewrite run_items_checks. reflexivity.
  - unfold known_C09 in Hk. apply zdedup_nil in Hk. rewrite app_nil_r in Hk.
    apply forallb_forall. intros d Hd. eapply outside_known_daily; eauto.
    rewrite forallb_forall in Hclean. apply Hclean; exact Hd.
Qed.

(* ------------------------------------------------------------------ different content, different log *)
Lemma recount_inj : forall s1 s2 k1 k2, recount s1 k1 = recount s2 k2 -> content s1 k1 = content s2 k2.
Proof.
  intros s1 s2 k1 k2 H. unfold recount in H. inversion H as [[Hn Hd]].
  destruct (content s1 k1) as [|a la], (content s2 k2) as [|b lb]; cbn [daily_of] in Hd; try reflexivity; try discriminate.
  inversion Hd; reflexivity.
Qed.

(* ------------------------------------------------------------------ refutations: closed witnesses *)
Definition D : Z := 86400000.
Definition sn (i e : N) (m : Z) (sg : N) : snode := {| sn_id := i; sn_ent := e; sn_mdate := m; sn_sig := sg |}.

(* 1: a synchronised update moves a row to another day of the same room: the old day is not marked *)
Definition w_sync_update : c09case :=
  CDaily 1000 [IBatch [MOp (SNodes 1 [sn 1 1 5000 1; sn 2 1 6000 2])]; IBatch [MCompute]; ICheck;
               IBatch [MOp (SNodes 1 [sn 1 1 (D + 7000) 3])]; IBatch [MCompute]; ICheck].
(* 2: a reference deletion re-dates the source row; nothing marks its old day (nor, without an edge, today) *)
Definition w_ref_deletion : c09case :=
  CDaily 1000 [IBatch [MOp (LCreate 1 (Some 1%N) 1 1)]; IBatch [MOp (LCreate 2 (Some 1%N) 1 2)]; IBatch [MCompute]; ICheck;
               IBatch [MOp (Tick (D + 100))]; IBatch [MOp (LDelRef 1 1 2 3 0)]; IBatch [MCompute]; ICheck].
(* 3: a tombstone that names an older version deletes the stored row; the stored row's day is not marked *)
Definition w_tombstone : c09case :=
  CDaily 1000 [IBatch [MOp (LCreate 1 (Some 1%N) 1 1)]; IBatch [MCompute];
               IBatch [MOp (Tick (D + 100))]; IBatch [MOp (LUpdate 1 1 None 2)]; IBatch [MCompute]; ICheck;
               IBatch [MOp (SDelNodes [{| nd_room := 1; nd_id := 1; nd_ent := 1; nd_mdate := 1000; nd_date := 2 * D + 50; nd_sig := 3 |}])];
               IBatch [MCompute]; ICheck].
(* 4: the same three rows ingested day by day: the history column is not the one-pass chain *)
Definition w_history_onepass : c09case :=
  CCanon 1000 [IBatch [MOp (SNodes 1 [sn 1 1 5000 1; sn 2 1 (D + 5000) 2; sn 3 1 (2 * D + 5000) 3])]; IBatch [MCompute]; ICheck].
Definition w_history_daybyday : c09case :=
  CCanon 1000 [IBatch [MOp (SNodes 1 [sn 1 1 5000 1])]; IBatch [MCompute];
               IBatch [MOp (SNodes 1 [sn 2 1 (D + 5000) 2])]; IBatch [MCompute];
               IBatch [MOp (SNodes 1 [sn 3 1 (2 * D + 5000) 3])]; IBatch [MCompute]; ICheck].
(* 4': a change on a non-last day leaves the later history hashes as they were *)
Definition w_history_shortcut : c09case :=
  CCanon 1000 [IBatch [MOp (SNodes 1 [sn 1 1 5000 1; sn 2 1 (D + 5000) 2])]; IBatch [MCompute]; ICheck;
               IBatch [MOp (SNodes 1 [sn 3 1 6000 3])]; IBatch [MCompute]; ICheck].
(* 5: a row that leaves a day leaves an empty log row behind *)
Definition w_empty_row : c09case :=
  CCanon 1000 [IBatch [MOp (LCreate 1 (Some 1%N) 1 1)]; IBatch [MCompute];
               IBatch [MOp (Tick (D + 100))]; IBatch [MOp (LUpdate 1 1 None 2)]; IBatch [MCompute]; ICheck].
(* a multi-day history of local writes, a move to another room and a deletion: nothing known, all checks pass *)
Definition w_clean : c09case :=
  CDaily 1000 [IBatch [MOp (LCreate 1 (Some 1%N) 1 1); MOp (LCreate 2 (Some 1%N) 2 2)]; IBatch [MCompute]; ICheck;
               IBatch [MOp (Tick (D + 100))]; IBatch [MOp (LUpdate 1 1 (Some 2%N) 3)];
               IBatch [MOp (Tick (2 * D))]; IBatch [MOp (LDelNode 2 2 4)]; IBatch [MCompute]; ICheck].

(* classes 1-3 were repaired in /repo: the former refutation witnesses now pass, with nothing known *)
Lemma holds_sync_update : spec_C09 w_sync_update (run_C09 w_sync_update) = true /\ known_C09 w_sync_update = [].
Proof. vm_compute. split; reflexivity. Qed.
Lemma holds_ref_deletion : spec_C09 w_ref_deletion (run_C09 w_ref_deletion) = true /\ known_C09 w_ref_deletion = [].
Proof. vm_compute. split; reflexivity. Qed.
Lemma holds_tombstone : spec_C09 w_tombstone (run_C09 w_tombstone) = true /\ known_C09 w_tombstone = [].
Proof. vm_compute. split; reflexivity. Qed.
(* 6, repaired (9b19d99): the newer version of a stored id arrives under another entity *)
Definition w_entity_change : c09case :=
  CDaily 1000 [IBatch [MOp (SNodes 1 [sn 1 1 5000 1; sn 2 1 6000 2])]; IBatch [MCompute]; ICheck;
               IBatch [MOp (SNodes 1 [sn 1 2 (D + 7000) 3])]; IBatch [MCompute]; ICheck].
Lemma holds_entity_change : spec_C09 w_entity_change (run_C09 w_entity_change) = true /\ known_C09 w_entity_change = [].
Proof. vm_compute. split; reflexivity. Qed.
(* 7, repaired (de0967d): an edge tombstone replaced by one for the same edge and instant under another source entity *)
Definition etomb (ent sg : N) : edel :=
  {| ed_room := 1; ed_edge := {| e_src := 1; e_ent := ent; e_label := 1; e_dest := 2; e_cdate := 1500 |}; ed_date := 2000; ed_sig := sg |}.
Definition w_edge_tombstone : c09case :=
  CDaily 1000 [IBatch [MOp (SDelEdges [etomb 1 1])]; IBatch [MCompute]; ICheck;
               IBatch [MOp (SDelEdges [etomb 2 2])]; IBatch [MCompute]; ICheck].
Lemma holds_edge_tombstone : spec_C09 w_edge_tombstone (run_C09 w_edge_tombstone) = true /\ known_C09 w_edge_tombstone = [].
Proof. vm_compute. split; reflexivity. Qed.
Lemma refuted_history :
  spec_C09 w_history_onepass (run_C09 w_history_onepass) = true /\ known_C09 w_history_onepass = [] /\
  spec_C09 w_history_daybyday (run_C09 w_history_daybyday) = false /\ known_C09 w_history_daybyday = [4] /\
  map d_content (run_dumps w_history_onepass) = map d_content (run_dumps w_history_daybyday) /\
  spec_C09 w_history_shortcut (run_C09 w_history_shortcut) = false /\ known_C09 w_history_shortcut = [4].
Proof. vm_compute. repeat split; reflexivity. Qed.
Lemma refuted_empty_row : spec_C09 w_empty_row (run_C09 w_empty_row) = false /\ known_C09 w_empty_row = [4; 5].
Proof. vm_compute. split; reflexivity. Qed.
Lemma nonvacuous_clean :
  known_C09 w_clean = [] /\ spec_C09 w_clean (run_C09 w_clean) = true /\ length (run_dumps w_clean) = 2%nat /\
  forallb (fun d => forallb (fun rw => negb (rr_dirty rw)) (d_log d)) (run_dumps w_clean) = true /\
  map (fun d => length (d_log d)) (run_dumps w_clean) = [2%nat; 4%nat].
Proof. vm_compute. repeat split; reflexivity. Qed.

(* ------------------------------------------------------------------ which writes always cover *)
Lemma uncovered_intro : forall pre post marks,
  (forall k, key_mem k marks = false -> content post k = content pre k) -> uncovered pre post marks = [].
Proof.
  intros pre post marks H. unfold uncovered.
  induction (all_keys pre ++ all_keys post) as [|k l IH]; [reflexivity|]. cbn [filter].
  destruct (key_mem k marks) eqn:M.
  - rewrite andb_false_r. exact IH.
  - rewrite (H k M). assert (E : nlist_eqb (content pre k) (content pre k) = true) by (apply nlist_eqb_eq; reflexivity).
    rewrite E. exact IH.
Qed.
Lemma replace_first_filter : forall {A} (f P : A -> bool) x l old,
  find P l = Some old -> f old = false -> f x = false -> filter f (replace_first P x l) = filter f l.
Proof.
  intros A f P x l old; induction l as [|h t IH]; intros Hf Ho Hx; cbn [find] in Hf; [discriminate|].
  cbn [replace_first]. destruct (P h) eqn:Ph.
  - inversion Hf; subst. cbn [filter]. rewrite Hx, Ho. reflexivity.
  - cbn [filter]. rewrite IH; auto.
Qed.
Lemma key_mem_cons_false : forall k a l, key_mem k (a :: l) = false -> key_eqb a k = false /\ key_mem k l = false.
Proof.
  intros k a l H. unfold key_mem in H; cbn [existsb] in H. apply orb_false_iff in H as [H1 H2].
  rewrite key_eqb_sym in H1. split; assumption.
Qed.

(* a local creation marks the only key it changes *)
Lemma local_create_covers : forall s id room ent sig,
  let r := exec_op (LCreate id room ent sig) s in uncovered s (fst r) (snd r) = [].
Proof.
  intros s id room ent sig. cbn [exec_op fst snd]. apply uncovered_intro. intros k Hk.
  unfold content, sigs. cbn [nodes ndels edels set_tables]. rewrite filter_app, map_app. cbn [filter].
  assert (F : okey_is (node_key {| n_id := id; n_room := room; n_ent := ent; n_mdate := now s; n_sig := sig |}) k = false).
  { unfold node_key; cbn [n_room n_ent n_mdate]. destruct room as [r|]; [|reflexivity]. cbn [okey_is room_mark] in *.
    apply key_mem_cons_false in Hk as [Hk _]. exact Hk. }
  rewrite F. cbn [map]. rewrite app_nil_r. reflexivity.
Qed.

(* a local update (with or without a move to another room) marks the key it leaves and the key it enters *)
Lemma local_update_covers : forall s id ent room sig,
  let r := exec_op (LUpdate id ent room sig) s in uncovered s (fst r) (snd r) = [].
Proof.
  intros s id ent room sig. cbn [exec_op]. destruct (find_node s id ent) as [old|] eqn:Hf.
  - cbn [fst snd]. apply uncovered_intro. intros k Hk.
    unfold content, sigs. cbn [nodes ndels edels set_tables]. f_equal. f_equal. f_equal. f_equal.
    unfold find_node in Hf. pose proof (find_some _ _ Hf) as [_ Hp].
    apply andb_true_iff in Hp as [_ He]. apply N.eqb_eq in He.
    eapply replace_first_filter; [exact Hf | |].
    + unfold node_key. rewrite He. destruct (n_room old) as [ro|] eqn:Ero; [|reflexivity]. cbn [okey_is].
      destruct room as [r|]; cbn [room_mark] in Hk.
      * apply key_mem_cons_false in Hk as [_ Hk]. apply key_mem_cons_false in Hk as [Hk _]. exact Hk.
      * apply key_mem_cons_false in Hk as [_ Hk]. apply key_mem_cons_false in Hk as [Hk _]. exact Hk.
    + unfold node_key; cbn [n_room n_ent n_mdate].
      destruct room as [r|]; cbn [okey_is].
      * apply key_mem_cons_false in Hk as [Hk _]. exact Hk.
      * destruct (n_room old) as [ro|]; [|reflexivity]. cbn [okey_is]. apply key_mem_cons_false in Hk as [Hk _]. exact Hk.
  - cbn [fst snd]. apply uncovered_intro. reflexivity.
Qed.

Lemma full_refuted : ~ C09_full.
Proof.
  intro H. specialize (H w_history_daybyday). destruct refuted_history as [_ [_ [E _]]].
  rewrite E in H. assert (T : no_pending w_history_daybyday = true) by (vm_compute; reflexivity). specialize (H T). discriminate.
Qed.

(* ------------------------------------------------------------------ the repaired writes cover *)
Definition step_covers (s s' : state) (new : list lkey) : Prop :=
  forall k, key_mem k new = false -> content s' k = content s k.

Fixpoint pall {A} (f : state * list lkey -> A -> state * list lkey) (P : state -> A -> Prop) (s : state) (xs : list A) : Prop :=
  match xs with [] => True | x :: t => P s x /\ pall f P (fst (f (s, []) x)) t end.

Lemma fold_covers : forall {A} (f : state * list lkey -> A -> state * list lkey) (P : state -> A -> Prop),
  (forall s ms x, P s x -> exists new, snd (f (s, ms) x) = ms ++ new /\ step_covers s (fst (f (s, ms) x)) new) ->
  (forall s ms x, fst (f (s, ms) x) = fst (f (s, []) x)) ->
  forall xs s ms, pall f P s xs ->
  exists new, snd (fold_left f xs (s, ms)) = ms ++ new /\ step_covers s (fst (fold_left f xs (s, ms))) new.
Proof.
  intros A f P Hstep Hind xs; induction xs as [|x t IH]; intros s ms Hp; cbn [fold_left].
  - exists []. split; [rewrite app_nil_r; reflexivity | intros k _; reflexivity].
  - destruct Hp as [Hx Ht]. destruct (Hstep s ms x Hx) as [n1 [E1 C1]].
    destruct (f (s, ms) x) as [s1 ms1] eqn:F. cbn [fst snd] in *. subst ms1.
    assert (Hs1 : s1 = fst (f (s, []) x)) by (rewrite <- Hind with (ms := ms); rewrite F; reflexivity).
    rewrite <- Hs1 in Ht. destruct (IH s1 (ms ++ n1) Ht) as [n2 [E2 C2]].
    exists (n1 ++ n2). split; [rewrite E2, app_assoc; reflexivity|].
    intros k Hk. rewrite key_mem_app in Hk. apply orb_false_iff in Hk as [K1 K2].
    rewrite (C2 k K2). apply C1; exact K1.
Qed.

Lemma filter_filter_same : forall {A} (f g : A -> bool) l,
  (forall x, In x l -> f x = true -> g x = true) -> filter f (filter g l) = filter f l.
Proof.
  intros A f g l; induction l as [|h t IH]; intro H; [reflexivity|]. cbn [filter].
  assert (Ht : forall x, In x t -> f x = true -> g x = true) by (intros x Hx; apply H; right; exact Hx).
  destruct (g h) eqn:G; cbn [filter].
  - rewrite IH; auto.
  - destruct (f h) eqn:F; [rewrite (H h (or_introl eq_refl) F) in G; discriminate | apply IH; exact Ht].
Qed.
Lemma key_mem_app_false : forall k a b, key_mem k (a ++ b) = false -> key_mem k a = false /\ key_mem k b = false.
Proof. intros k a b H. rewrite key_mem_app in H. apply orb_false_iff in H. exact H. Qed.
Lemma key_mem_map_false : forall {A} (g : A -> lkey) k l x, key_mem k (map g l) = false -> In x l -> key_eqb (g x) k = false.
Proof.
  intros A g k l x H Hin. destruct (key_eqb (g x) k) eqn:E; [|reflexivity].
  apply key_eqb_eq in E. assert (In k (map g l)) by (rewrite <- E; apply in_map; exact Hin).
  apply key_mem_In in H0. congruence.
Qed.

(* INSERT OR REPLACE of a node tombstone only touches the key of the tombstone *)
Lemma put_ndel_sigs : forall t l k, key_eqb (ndel_key t) k = false ->
  filter (fun d => key_eqb (ndel_key d) k) (put_ndel t l) = filter (fun d => key_eqb (ndel_key d) k) l.
Proof.
  intros t l k Hk. unfold put_ndel. rewrite filter_app. cbn [filter]. rewrite Hk, app_nil_r.
  apply filter_filter_same. intros d _ Hd.
  destruct (N.eqb (nd_room d) (nd_room t) && Z.eqb (nd_date d) (nd_date t) && N.eqb (nd_id d) (nd_id t) && N.eqb (nd_ent d) (nd_ent t)) eqn:E; [|reflexivity].
  exfalso. apply andb_true_iff in E as [E E4]. apply andb_true_iff in E as [E E3]. apply andb_true_iff in E as [E1 E2].
  apply N.eqb_eq in E1. apply Z.eqb_eq in E2. apply N.eqb_eq in E4.
  unfold ndel_key in *. rewrite E1, E2, E4 in Hd. congruence.
Qed.

(* class 3, repaired (9c2e3ca): a peer's tombstones mark every key they change — unconditionally *)
Lemma sdel_node1_covers : forall s ms t,
  exists new, snd (sdel_node1 (s, ms) t) = ms ++ new /\ step_covers s (fst (sdel_node1 (s, ms) t)) new.
Proof.
  intros s ms t. unfold sdel_node1.
  destruct (existsb (fun n => N.eqb (n_id n) (nd_id t) && negb (N.eqb (n_ent n) (nd_ent t))) (nodes s)).
  - exists []. split; [cbn [snd]; rewrite app_nil_r; reflexivity | intros k _; reflexivity].
  - eexists. split; [cbn [snd]; reflexivity|]. cbn [fst]. intros k Hk.
    apply key_mem_app_false in Hk as [Hrem Hk]. apply key_mem_cons_false in Hk as [Hdate _].
    unfold content, sigs. cbn [nodes ndels edels set_tables]. f_equal. f_equal; [|f_equal].
    + f_equal. apply put_ndel_sigs. exact Hdate.
    + f_equal. apply filter_filter_same. intros n Hin Hn.
      set (hit := fun n0 : nrow => opt_is (n_room n0) (nd_room t) && N.eqb (n_id n0) (nd_id t) && (n_mdate n0 <=? nd_mdate t)).
      change (negb (hit n) = true). destruct (hit n) eqn:Hh; [|reflexivity]. exfalso.
      assert (Hin' : In n (filter hit (nodes s))) by (apply filter_In; split; assumption).
      pose proof (key_mem_map_false (fun n0 => (nd_room t, n_ent n0, day (n_mdate n0))) k _ n Hrem Hin') as F.
      unfold hit in Hh. apply andb_true_iff in Hh as [Hh _]. apply andb_true_iff in Hh as [Hr _].
      unfold okey_is, node_key in Hn. destruct (n_room n) as [r|]; [|discriminate]. cbn [opt_is] in Hr.
      apply N.eqb_eq in Hr. subst r. cbn beta in F. congruence.
Qed.
Theorem tombstone_covers : forall s ts,
  let r := exec_op (SDelNodes ts) s in uncovered s (fst r) (snd r) = [].
Proof.
  intros s ts. cbn [exec_op].
  destruct (fold_covers sdel_node1 (fun _ _ => True)) with (xs := ts) (s := s) (ms := @nil lkey) as [new [E C]].
  - intros s0 ms x _. apply sdel_node1_covers.
  - intros s0 ms x. unfold sdel_node1. destruct (existsb _ (nodes s0)); reflexivity.
  - induction ts as [|x t IH] in s |- *; cbn [pall]; auto.
  - apply uncovered_intro. rewrite E. exact C.
Qed.

(* classes 1 and 6, repaired (4510e5f, 9b19d99): synchronised nodes mark the day the previous version
   leaves — under the entity it is stored with — and the day the new one enters: unconditionally *)
Lemma ingest1_covers : forall room s ms x,
  exists new, snd (ingest1 room (s, ms) x) = ms ++ new /\ step_covers s (fst (ingest1 room (s, ms) x)) new.
Proof.
  intros room s ms x. unfold ingest1.
  destruct (match max_tombstone s (sn_id x) with Some m => sn_mdate x <=? m | None => false end).
  { exists []. split; [cbn [snd]; rewrite app_nil_r; reflexivity | intros k _; reflexivity]. }
  destruct (find_node_id s (sn_id x)) as [old|] eqn:Hf.
  - destruct ((sn_mdate x <? n_mdate old) || ((sn_mdate x =? n_mdate old) && N.leb (sn_sig x) (n_sig old))).
    { exists []. split; [cbn [snd]; rewrite app_nil_r; reflexivity | intros k _; reflexivity]. }
    eexists. split; [cbn [snd]; reflexivity|]. cbn [fst]. intros k Hk.
    apply key_mem_app_false in Hk as [Hold Hnew]. apply key_mem_cons_false in Hnew as [Hnew _].
    unfold content, sigs. cbn [nodes ndels edels set_tables]. f_equal. f_equal. f_equal. f_equal.
    unfold find_node_id in Hf. eapply replace_first_filter; [exact Hf | |].
    + unfold node_key. destruct (n_room old) as [ro|]; [|reflexivity].
      cbn [okey_is room_mark] in *. apply key_mem_cons_false in Hold as [Hold _]. exact Hold.
    + unfold node_key; cbn [n_room n_ent n_mdate okey_is]. exact Hnew.
  - eexists. split; [cbn [snd]; reflexivity|]. cbn [fst]. intros k Hk. apply key_mem_cons_false in Hk as [Hk _].
    unfold content, sigs. cbn [nodes ndels edels set_tables]. rewrite filter_app, map_app. cbn [filter].
    unfold node_key; cbn [n_room n_ent n_mdate okey_is]. rewrite Hk. cbn [map]. rewrite app_nil_r. reflexivity.
Qed.
Theorem sync_update_covers : forall s room ns,
  let r := exec_op (SNodes room ns) s in uncovered s (fst r) (snd r) = [].
Proof.
  intros s room ns. cbn [exec_op].
  destruct (fold_covers (ingest1 room) (fun _ _ => True)) with (xs := ns) (s := s) (ms := @nil lkey) as [new [E C]].
  - intros s0 ms x _. apply ingest1_covers.
  - intros s0 ms x. unfold ingest1.
    destruct (match max_tombstone s0 (sn_id x) with Some m => sn_mdate x <=? m | None => false end); [reflexivity|].
    destruct (find_node_id s0 (sn_id x)) as [old|]; [|reflexivity].
    destruct ((sn_mdate x <? n_mdate old) || ((sn_mdate x =? n_mdate old) && N.leb (sn_sig x) (n_sig old))); reflexivity.
  - induction ns as [|x t IH] in s |- *; cbn [pall]; auto.
  - apply uncovered_intro. rewrite E. exact C.
Qed.

(* class 2, repaired (f14488a): a reference deletion marks the day its source row leaves and the day
   it enters (and the edge tombstone's day), whether or not the reference exists.  The only premise is
   about the edge-tombstone table, not about the repaired path: no edge tombstone is already dated at
   the current instant (INSERT OR REPLACE keys it without the source entity) *)
Lemma put_edel_sigs : forall t l k, key_eqb (edel_key t) k = false ->
  (forall d, In d l -> ed_date d <> ed_date t) ->
  filter (fun d => key_eqb (edel_key d) k) (put_edel t l) = filter (fun d => key_eqb (edel_key d) k) l.
Proof.
  intros t l k Hk Hd. unfold put_edel. rewrite filter_app. cbn [filter]. rewrite Hk, app_nil_r.
  f_equal. clear Hk. induction l as [|d l IH]; [reflexivity|]. cbn [filter]. unfold edel_pk at 1.
  assert (E : Z.eqb (ed_date d) (ed_date t) = false) by (apply Z.eqb_neq; apply Hd; left; reflexivity).
  rewrite E, andb_false_r. cbn [andb negb]. rewrite IH; [reflexivity|]. intros x Hx; apply Hd; right; exact Hx.
Qed.
Theorem ref_deletion_covers : forall s src ent dest sig esig,
  (forall d, In d (edels s) -> ed_date d <> now s) ->
  let r := exec_op (LDelRef src ent dest sig esig) s in uncovered s (fst r) (snd r) = [].
Proof.
  intros s src ent dest sig esig Hnow. cbn [exec_op]. destruct (find_node s src ent) as [n|] eqn:Hf.
  2: { cbn [fst snd]. apply uncovered_intro. reflexivity. }
  unfold find_node in Hf. pose proof (find_some _ _ Hf) as [_ Hp].
  apply andb_true_iff in Hp as [_ He]. apply N.eqb_eq in He.
  assert (Hnodes : forall k, key_mem k (room_mark (n_room n) (n_ent n) (n_mdate n) ++ room_mark (n_room n) ent (now s)) = false ->
            filter (fun x => okey_is (node_key x) k)
              (replace_first (fun x => N.eqb (n_id x) src && N.eqb (n_ent x) ent)
                 {| n_id := src; n_room := n_room n; n_ent := ent; n_mdate := now s; n_sig := sig |} (nodes s))
            = filter (fun x => okey_is (node_key x) k) (nodes s)).
  { intros k Hk. apply key_mem_app_false in Hk as [Ho Hn]. eapply replace_first_filter; [exact Hf | |].
    - unfold node_key. destruct (n_room n) as [r|]; [|reflexivity]. cbn [okey_is room_mark] in *.
      apply key_mem_cons_false in Ho as [Ho _]. exact Ho.
    - unfold node_key; cbn [n_room n_ent n_mdate]. destruct (n_room n) as [r|]; [|reflexivity]. cbn [okey_is room_mark] in *.
      apply key_mem_cons_false in Hn as [Hn _]. exact Hn. }
  destruct (find (edge_is src the_label dest) (edges s)) as [e|].
  - destruct (n_room n) as [r|] eqn:Er.
    + cbn [fst snd]. apply uncovered_intro. intros k Hk. apply key_mem_cons_false in Hk as [Het Hk].
      unfold content, sigs. cbn [nodes ndels edels set_tables]. f_equal. f_equal. f_equal.
      * f_equal. apply put_edel_sigs; [exact Het | cbn [ed_date]; exact Hnow].
      * f_equal. rewrite <- Er in *. apply Hnodes. exact Hk.
    + cbn [fst snd]. apply uncovered_intro. intros k Hk.
      unfold content, sigs. cbn [nodes ndels edels set_tables]. f_equal. f_equal. f_equal. f_equal.
      rewrite <- Er in *. apply Hnodes. exact Hk.
  - cbn [fst snd]. apply uncovered_intro. intros k Hk.
    unfold content, sigs. cbn [nodes ndels edels set_tables]. f_equal. f_equal. f_equal. f_equal.
    apply Hnodes. exact Hk.
Qed.

(* class 7, repaired (de0967d): a peer's edge tombstones mark the day of every entry they replace —
   whatever source entity it was recorded under — and their own: unconditionally *)
Lemma put_edel_sigs_marked : forall t l k, key_eqb (edel_key t) k = false ->
  key_mem k (map edel_key (filter (edel_pk t) l)) = false ->
  filter (fun d => key_eqb (edel_key d) k) (put_edel t l) = filter (fun d => key_eqb (edel_key d) k) l.
Proof.
  intros t l k Hk Hm. unfold put_edel. rewrite filter_app. cbn [filter]. rewrite Hk, app_nil_r.
  apply filter_filter_same. intros d Hin Hd.
  destruct (edel_pk t d) eqn:E; [|reflexivity]. exfalso.
  assert (Hin' : In d (filter (edel_pk t) l)) by (apply filter_In; split; assumption).
  pose proof (key_mem_map_false edel_key k _ d Hm Hin') as F. congruence.
Qed.
Lemma sdel_edge1_covers : forall s ms t,
  exists new, snd (sdel_edge1 (s, ms) t) = ms ++ new /\ step_covers s (fst (sdel_edge1 (s, ms) t)) new.
Proof.
  intros s ms t. unfold sdel_edge1. eexists. split; [cbn [snd]; reflexivity|]. cbn [fst]. intros k Hk.
  apply key_mem_app_false in Hk as [Hrep Hk]. apply key_mem_cons_false in Hk as [Hk _].
  unfold content, sigs. cbn [nodes ndels edels set_tables]. f_equal. f_equal. f_equal. f_equal.
  apply put_edel_sigs_marked; assumption.
Qed.
Theorem edge_tombstone_covers : forall s ts,
  let r := exec_op (SDelEdges ts) s in uncovered s (fst r) (snd r) = [].
Proof.
  intros s ts. cbn [exec_op].
  destruct (fold_covers sdel_edge1 (fun _ _ => True)) with (xs := ts) (s := s) (ms := @nil lkey) as [new [E C]].
  - intros s0 ms x _. apply sdel_edge1_covers.
  - intros s0 ms x. reflexivity.
  - induction ts as [|x t IH] in s |- *; cbn [pall]; auto.
  - apply uncovered_intro. rewrite E. exact C.
Qed.

(* the remaining local writes.  A reference added through a mutation: always covers *)
Theorem add_ref_covers : forall s src ent dest sig,
  let r := exec_op (LAddRef src ent dest sig) s in uncovered s (fst r) (snd r) = [].
Proof.
  intros s src ent dest sig. cbn [exec_op]. destruct (find_node s src ent) as [p|] eqn:Hf.
  2: { cbn [fst snd]. apply uncovered_intro. reflexivity. }
  destruct (find_node s dest ent) as [d|].
  2: { cbn [fst snd]. apply uncovered_intro. reflexivity. }
  destruct (existsb (edge_is src the_label dest) (edges s)).
  { cbn [fst snd]. apply uncovered_intro. reflexivity. }
  cbn [fst snd]. apply uncovered_intro. intros k Hk. apply key_mem_app_false in Hk as [_ Hk].
  unfold find_node in Hf. pose proof (find_some _ _ Hf) as [_ Hp].
  apply andb_true_iff in Hp as [_ He]. apply N.eqb_eq in He.
  unfold content, sigs. cbn [nodes ndels edels set_tables]. f_equal. f_equal. f_equal. f_equal.
  eapply replace_first_filter; [exact Hf | |].
  - unfold node_key. rewrite He. destruct (n_room p) as [r|]; [|reflexivity]. cbn [okey_is].
    apply key_mem_cons_false in Hk as [_ Hk]. apply key_mem_cons_false in Hk as [Hk _]. exact Hk.
  - unfold node_key; cbn [n_room n_ent n_mdate]. destruct (n_room p) as [r|]; [|reflexivity]. cbn [okey_is].
    apply key_mem_cons_false in Hk as [Hk _]. exact Hk.
Qed.
(* a local deletion covers when the id names one stored row (ids are unique: Node::delete removes by id) *)
Theorem local_delete_covers : forall s id ent tsig,
  (forall x, In x (nodes s) -> n_id x = id -> find_node s id ent = Some x) ->
  let r := exec_op (LDelNode id ent tsig) s in uncovered s (fst r) (snd r) = [].
Proof.
  intros s id ent tsig Huniq. cbn [exec_op]. destruct (find_node s id ent) as [n|] eqn:Hf.
  2: { cbn [fst snd]. apply uncovered_intro. reflexivity. }
  unfold find_node in Hf. pose proof (find_some _ _ Hf) as [_ Hp].
  apply andb_true_iff in Hp as [_ He]. apply N.eqb_eq in He.
  assert (Hnodes : forall k, okey_is (node_key n) k = false ->
            filter (fun x => okey_is (node_key x) k) (filter (fun x => negb (N.eqb (n_id x) id)) (nodes s))
            = filter (fun x => okey_is (node_key x) k) (nodes s)).
  { intros k Hk. apply filter_filter_same. intros x Hin Hx.
    destruct (N.eqb (n_id x) id) eqn:E; [|reflexivity]. exfalso. apply N.eqb_eq in E.
    pose proof (Huniq x Hin E) as U. unfold find_node in U. try rewrite Hf in U. inversion U; subst x. congruence. }
  destruct (n_room n) as [r|] eqn:Er.
  - cbn [fst snd]. apply uncovered_intro. intros k Hk.
    apply key_mem_cons_false in Hk as [Hold Hk]. apply key_mem_cons_false in Hk as [Hnow _].
    unfold content, sigs. cbn [nodes ndels edels set_tables]. f_equal. f_equal; [|f_equal].
    + f_equal. apply put_ndel_sigs. exact Hnow.
    + f_equal. apply Hnodes. unfold node_key. rewrite Er, He. exact Hold.
  - cbn [fst snd]. apply uncovered_intro. intros k _.
    unfold content, sigs. cbn [nodes ndels edels set_tables]. f_equal. f_equal. f_equal. f_equal.
    apply Hnodes. unfold node_key. rewrite Er. reflexivity.
Qed.
Theorem tick_covers : forall s t, let r := exec_op (Tick t) s in uncovered s (fst r) (snd r) = [].
Proof. intros s t. cbn [exec_op fst snd]. apply uncovered_intro. reflexivity. Qed.

(* every write kind, any state: it marks every key whose content it changes, inside the envelope
   (a local deletion names one stored row; no edge tombstone is already dated at the instant of a
   local reference deletion) *)
Definition envelope (o : op) (s : state) : Prop :=
  match o with
  | LDelNode id ent _ => forall x, In x (nodes s) -> n_id x = id -> find_node s id ent = Some x
  | LDelRef _ _ _ _ _ => forall d, In d (edels s) -> ed_date d <> now s
  | _ => True
  end.
Theorem all_writes_cover : forall o s, envelope o s ->
  let r := exec_op o s in uncovered s (fst r) (snd r) = [].
Proof.
  intros o s H. destruct o.
  - apply tick_covers.
  - apply local_create_covers.
  - apply local_update_covers.
  - apply add_ref_covers.
  - apply local_delete_covers. exact H.
  - apply ref_deletion_covers. exact H.
  - apply sync_update_covers.
  - apply tombstone_covers.
  - apply edge_tombstone_covers.
Qed.

(* ------------------------------------------------------------------ C09 without a class hypothesis *)
Fixpoint batch_env (s : state) (b : list msg) : Prop :=
  match b with
  | [] => True
  | MOp o :: t => envelope o s /\ batch_env (fst (exec_op o s)) t
  | MCompute :: t => batch_env (fst (compute s)) t
  end.
Lemma batch_env_covered : forall b s, batch_env s b -> batch_covered s b.
Proof.
  induction b as [|m t IH]; intros s H; [exact I|]. destruct m as [o|]; cbn [batch_env batch_covered msg_covered msg_state] in *.
  - destruct H as [He Ht]. split; [apply (all_writes_cover o s He) | apply IH; exact Ht].
  - split; [exact I | apply IH; exact H].
Qed.
Fixpoint items_env (s : state) (items : list c09item) : Prop :=
  match items with
  | [] => True
  | IBatch b :: t => batch_env s b /\ items_env (fst (exec_batch (s, []) b)) t
  | ICheck :: t => items_env s t
  end.
Lemma items_env_covered : forall items s, items_env s items -> items_covered s items.
Proof.
  induction items as [|i t IH]; intros s H; [exact I|]. destruct i as [b|]; cbn [items_env items_covered] in *.
  - destruct H as [Hb Ht]. split; [apply batch_env_covered; exact Hb | apply IH; exact Ht].
  - apply IH; exact H.
Qed.
(* count and daily hash are the recount, for every history inside the envelope, wherever nothing is pending *)
Theorem daily_holds_env : forall t0 items, items_env (init t0) items ->
  no_pending (CDaily t0 items) = true -> spec_C09 (CDaily t0 items) (run_C09 (CDaily t0 items)) = true.
Proof.
  intros t0 items He Hclean. unfold spec_C09, run_C09. rewrite dec_dumps_enc.
  apply andb_true_iff; split.
  - apply Nat.eqb_eq. unfold run_dumps, run_items. rewrite run_items_checks. reflexivity.
  - apply forallb_forall. intros d Hd. unfold run_dumps, run_items in Hd. cbn [case_t0 case_items] in Hd.
    destruct (fold_left run_item items (init t0, [])) as [s' ds'] eqn:E. cbn [snd] in Hd.
    destruct (run_items_inv _ _ _ _ _ (LogInv_init _) (items_env_covered _ _ He) E) as [_ B].
    destruct (B d Hd) as [[]|[s1 [Hi Heq]]]. subst d.
    apply daily_ok_of_inv; [exact Hi|]. intros l Hin.
    unfold no_pending in Hclean. rewrite forallb_forall in Hclean.
    assert (Hd' : In (dump_of s1) (run_dumps (CDaily t0 items))).
    { unfold run_dumps, run_items. cbn [case_t0 case_items]. rewrite E. exact Hd. }
    specialize (Hclean _ Hd'). rewrite forallb_forall in Hclean. specialize (Hclean (raw_of l)).
    cbn [dump_of d_log] in Hclean. specialize (Hclean (in_map raw_of _ _ Hin)).
    unfold raw_of in Hclean; cbn [rr_dirty] in Hclean. destruct (l_dirty l); [discriminate | reflexivity].
Qed.
