(* C17P.v — proofs for C17 (full-text search is exact) over the model Fts.v. *)
From DV Require Import Fts FtsP Run_C17.
From Coq Require Import Lia.
Open Scope Z_scope.

(* ---------- the index: the newest entry of a (slot, trigram) decides ---------- *)
Definition entry_ok (ix : index) (r : N) (t : text) : Prop :=
  forall u p, mem_nat p (lookup ix r u) = is_tri_at t u p.

Lemma lookup_app_other : forall (f : tri -> option (list nat)) r r' us ix u, r' <> r ->
  lookup (map (fun v => (r', v, f v)) us ++ ix) r u = lookup ix r u.
Proof.
  intros f r r' us ix u H. induction us as [|v us IH]; [reflexivity|].
  cbn [map app lookup]. assert (E : N.eqb r' r = false) by (apply N.eqb_neq; exact H). rewrite E. cbn [andb]. exact IH.
Qed.

Lemma lookup_app_same : forall (f : tri -> option (list nat)) r us ix u,
  lookup (map (fun v => (r, v, f v)) us ++ ix) r u =
  if existsb (tri_eqb u) us then match f u with Some l => l | None => [] end else lookup ix r u.
Proof.
  intros f r us ix u. induction us as [|v us IH]; [reflexivity|].
  cbn [map app lookup existsb]. rewrite N.eqb_refl. cbn [andb]. rewrite (tri_eqb_sym u v).
  destruct (tri_eqb v u) eqn:E.
  - apply tri_eqb_eq in E. subst v. reflexivity.
  - cbn [orb]. exact IH.
Qed.

Lemma slot_unused_lookup : forall ix r u, slot_used ix r = false -> lookup ix r u = [].
Proof.
  induction ix as [|[[r' u'] ps] ix IH]; intros r u H; [reflexivity|].
  unfold slot_used in H. cbn [existsb fst] in H. apply Bool.orb_false_iff in H. destruct H as [H1 H2].
  cbn [lookup]. rewrite H1. cbn [andb]. apply IH. exact H2.
Qed.

Lemma not_in_tris : forall t u p, existsb (tri_eqb u) (tris t) = false -> is_tri_at t u p = false.
Proof.
  intros t u p H. destruct (is_tri_at t u p) eqn:E; [|reflexivity].
  rewrite (is_tri_at_in_tris _ _ _ E) in H. discriminate.
Qed.

(* a fresh slot after an insert *)
Lemma entry_ok_insert_fresh : forall ix r t, slot_used ix r = false -> entry_ok (idx_insert r t ix) r t.
Proof.
  intros ix r t H u p. unfold idx_insert. rewrite (lookup_app_same (fun v => Some (positions t v))).
  destruct (existsb (tri_eqb u) (tris t)) eqn:E.
  - apply mem_positions.
  - rewrite (slot_unused_lookup _ _ _ H), (not_in_tris _ _ p E). reflexivity.
Qed.

(* 'delete' of the previous text, insert of the current one *)
Lemma entry_ok_update : forall ix r prev cur, entry_ok ix r prev ->
  entry_ok (idx_insert r cur (idx_delete r prev ix)) r cur.
Proof.
  intros ix r prev cur H u p. unfold idx_insert. rewrite (lookup_app_same (fun v => Some (positions cur v))).
  destruct (existsb (tri_eqb u) (tris cur)) eqn:E.
  - apply mem_positions.
  - rewrite (not_in_tris _ _ p E). unfold idx_delete. rewrite (lookup_app_same (fun _ => None)).
    destruct (existsb (tri_eqb u) (tris prev)) eqn:E2; [reflexivity|].
    rewrite H. apply not_in_tris. exact E2.
Qed.

Lemma entry_ok_other : forall ix r r' t t1 t2, r' <> r -> entry_ok ix r t ->
  entry_ok (idx_insert r' t1 ix) r t /\ entry_ok (idx_insert r' t1 (idx_delete r' t2 ix)) r t.
Proof.
  intros ix r r' t t1 t2 Hne H. split; intros u p; unfold idx_insert, idx_delete.
  - rewrite (lookup_app_other (fun v => Some (positions t1 v))) by exact Hne. apply H.
  - rewrite (lookup_app_other (fun v => Some (positions t1 v))) by exact Hne.
    rewrite (lookup_app_other (fun _ => None)) by exact Hne. apply H.
Qed.

(* ---------- match on the index = substring test on the row ---------- *)
Lemma follows_tfollows : forall ix r t us p, entry_ok ix r t -> follows ix r us p = tfollows t us p.
Proof.
  intros ix r t us. induction us as [|u us IH]; intros p H; [reflexivity|].
  cbn [follows tfollows]. rewrite H, IH by exact H. reflexivity.
Qed.

Lemma fts_match_text : forall ix r t w, entry_ok ix r t -> fts_match ix r w = text_match t w.
Proof.
  intros ix r t w H. unfold fts_match, text_match, word_tris.
  destruct (tris w) as [|u us]; [reflexivity|].
  rewrite (existsb_mem_ext _ (lookup ix r u) (positions t u)) by (intros p; rewrite H, mem_positions; reflexivity).
  apply existsb_ext_in. intros p _. apply follows_tfollows. exact H.
Qed.

Theorem match_is_substring : forall ix r w, entry_ok ix (f_rowid r) (row_text r) -> wf_term w = true ->
  fts_match ix (f_rowid r) w = row_contains r w.
Proof.
  intros ix r w H Hw. rewrite (fts_match_text _ _ _ _ H).
  pose proof Hw as Hw'. unfold wf_term in Hw'. apply Bool.andb_true_iff in Hw'. destruct Hw' as [Hl _]. apply Nat.leb_le in Hl.
  rewrite (text_match_contains _ _ Hl). unfold row_text, row_contains. apply contains_fts_text. exact Hw.
Qed.

(* ---------- the invariant of a peer whose rows were all written locally ---------- *)
Definition toks (l : list frow) : Z := fold_right Z.add 0 (map (fun r => ntrig (row_text r)) l).

Record inv (st : fstate) : Prop := {
  inv_ids : NoDup (map f_id (rows st));
  inv_slots : NoDup (map f_rowid (rows st));
  inv_entries : forall r, In r (rows st) -> entry_ok (idx st) (f_rowid r) (row_text r);
  inv_tok : toks (rows st) <= ntok st;
  inv_row : Z.of_nat (length (rows st)) <= nrow st }.

Lemma ntrig_nonneg : forall t, 0 <= ntrig t.
Proof. intros. unfold ntrig. lia. Qed.

Lemma toks_app : forall a b, toks (a ++ b) = toks a + toks b.
Proof. intros a b. unfold toks. induction a as [|x a IH]; cbn [app map fold_right]; [lia|]. rewrite IH. lia. Qed.

Lemma toks_nonneg : forall l, 0 <= toks l.
Proof. induction l as [|x l IH]; unfold toks in *; cbn [map fold_right]; [lia|]. pose proof (ntrig_nonneg (row_text x)). lia. Qed.

Lemma toks_remove : forall x l, toks (remove_row x l) <= toks l.
Proof.
  intros x l. unfold remove_row. induction l as [|r l IH]; cbn [filter]; [lia|].
  destruct (negb (N.eqb (f_id r) x)); unfold toks in *; cbn [map fold_right]; pose proof (ntrig_nonneg (row_text r)); lia.
Qed.

Lemma next_rowid_gt : forall l r, In r l -> (f_rowid r < next_rowid l)%N.
Proof.
  intros l r H. unfold next_rowid. induction l as [|x l IH]; [inversion H|].
  cbn [map fold_right]. destruct H as [->|H]; [lia|]. specialize (IH H). lia.
Qed.

Lemma find_row_some : forall x l r, find_row x l = Some r -> In r l /\ f_id r = x.
Proof. intros x l r H. unfold find_row in H. apply find_some in H. destruct H as [H1 H2]. apply N.eqb_eq in H2. auto. Qed.

Lemma nodup_id_unique : forall l r1 r2, NoDup (map f_id l) -> In r1 l -> In r2 l -> f_id r1 = f_id r2 -> r1 = r2.
Proof.
  induction l as [|x l IH]; intros r1 r2 Hnd H1 H2 E; [inversion H1|].
  inversion Hnd as [|? ? Hn Hd]; subst. destruct H1 as [->|H1]; destruct H2 as [->|H2]; try reflexivity.
  - exfalso. apply Hn. rewrite E. apply in_map. exact H2.
  - exfalso. apply Hn. rewrite <- E. apply in_map. exact H1.
  - apply IH; assumption.
Qed.

Lemma nodup_slot_unique : forall l r1 r2, NoDup (map f_rowid l) -> In r1 l -> In r2 l -> f_rowid r1 = f_rowid r2 -> r1 = r2.
Proof.
  induction l as [|x l IH]; intros r1 r2 Hnd H1 H2 E; [inversion H1|].
  inversion Hnd as [|? ? Hn Hd]; subst. destruct H1 as [->|H1]; destruct H2 as [->|H2]; try reflexivity.
  - exfalso. apply Hn. rewrite E. apply in_map. exact H2.
  - exfalso. apply Hn. rewrite <- E. apply in_map. exact H1.
  - apply IH; assumption.
Qed.

Lemma replace_row_absent : forall n l, (forall r, In r l -> f_id r <> f_id n) -> replace_row n l = l.
Proof.
  intros n l H. unfold replace_row. induction l as [|x l IH]; [reflexivity|]. cbn [map].
  assert (E : N.eqb (f_id x) (f_id n) = false) by (apply N.eqb_neq; apply H; left; reflexivity).
  rewrite E, IH; [reflexivity|]. intros r Hr. apply H. right. exact Hr.
Qed.

(* replacing the row [old] by a row with the same id and slot *)
Lemma replace_row_spec : forall l old n, NoDup (map f_id l) -> In old l -> f_id n = f_id old -> f_rowid n = f_rowid old ->
  map f_id (replace_row n l) = map f_id l /\ map f_rowid (replace_row n l) = map f_rowid l /\
  length (replace_row n l) = length l /\
  toks (replace_row n l) + ntrig (row_text old) = toks l + ntrig (row_text n) /\
  (forall r, In r (replace_row n l) -> r = n \/ (In r l /\ f_id r <> f_id old)).
Proof.
  induction l as [|x l IH]; intros old n Hnd Hin Hid Hslot; [inversion Hin|].
  inversion Hnd as [|? ? Hn Hd]; subst. unfold replace_row in *. cbn [map].
  destruct Hin as [->|Hin].
  - assert (E0 : N.eqb (f_id old) (f_id n) = true) by (apply N.eqb_eq; congruence). rewrite E0.
    assert (Habs : forall r, In r l -> f_id r <> f_id n).
    { intros r Hr E. apply Hn. rewrite <- Hid, <- E. apply in_map. exact Hr. }
    pose proof (replace_row_absent n l Habs) as R. unfold replace_row in R. rewrite R.
    repeat split; cbn [map length]; try congruence.
    + unfold toks. cbn [map fold_right]. lia.
    + intros r [<-|Hr]; [left; reflexivity|right]. split; [right; exact Hr|]. rewrite <- Hid. apply Habs. exact Hr.
  - assert (E : N.eqb (f_id x) (f_id n) = false).
    { apply N.eqb_neq. intros E. apply Hn. rewrite E, Hid. apply in_map. exact Hin. }
    rewrite E. destruct (IH old n Hd Hin Hid Hslot) as [I1 [I2 [I3 [I4 I5]]]].
    repeat split; cbn [map length]; try congruence.
    + unfold toks in *. cbn [map fold_right]. lia.
    + intros r [<-|Hr].
      * right. split; [left; reflexivity|]. apply N.eqb_neq in E. congruence.
      * destruct (I5 r Hr) as [->|[Hr1 Hr2]]; [left; reflexivity|right]. split; [right; exact Hr1|exact Hr2].
Qed.

Lemma nodup_map_filter : forall {A B} (f : A -> B) (P : A -> bool) l, NoDup (map f l) -> NoDup (map f (filter P l)).
Proof.
  intros A B f P l. induction l as [|x l IH]; intros H; [constructor|]. cbn [filter].
  inversion H as [|? ? Hn Hd]; subst. destruct (P x).
  - cbn [map]. constructor; [|apply IH; exact Hd].
    intros Hin. apply Hn. apply in_map_iff in Hin. destruct Hin as [y [Hy Hin]]. apply filter_In in Hin.
    apply in_map_iff. exists y. tauto.
  - apply IH. exact Hd.
Qed.

Lemma NoDup_app_one : forall {A} (l : list A) x, NoDup l -> ~ In x l -> NoDup (l ++ [x]).
Proof.
  intros A l x H Hn. induction H as [|y l Hy Hl IH]; cbn [app]; [constructor; [intros []|constructor]|].
  constructor.
  - intros Hin. apply in_app_or in Hin. destruct Hin as [Hin|[->|[]]]; [contradiction|]. apply Hn. left. reflexivity.
  - apply IH. intros Hx. apply Hn. right. exact Hx.
Qed.

Lemma filter_length_le' : forall {A} (P : A -> bool) l, (length (filter P l) <= length l)%nat.
Proof. intros A P l. induction l as [|x l IH]; [cbn; lia|]. cbn [filter]. destruct (P x); cbn [length]; lia. Qed.

Lemma inv_remove : forall st x, inv st ->
  inv {| rows := remove_row x (rows st); idx := idx st; nrow := nrow st; ntok := ntok st |}.
Proof.
  intros st x [I1 I2 I3 I4 I5]. constructor; cbn [rows idx nrow ntok].
  - apply nodup_map_filter. exact I1.
  - apply nodup_map_filter. exact I2.
  - intros r Hr. unfold remove_row in Hr. apply filter_In in Hr. apply I3. tauto.
  - pose proof (toks_remove x (rows st)). lia.
  - unfold remove_row. pose proof (filter_length_le' (fun r => negb (N.eqb (f_id r) x)) (rows st)). lia.
Qed.

(* one step preserves the invariant when it is neither a synchronisation write, nor takes a used
   slot, nor reuses an id *)
Lemma step_inv : forall st o, inv st ->
  fev_synced (snd (fstep st o)) = false -> fev_reused (snd (fstep st o)) = false -> fev_guard (snd (fstep st o)) = false ->
  inv (fst (fst (fstep st o))).
Proof.
  intros st o I Hs Hr Hg. destruct o as [x a b|x a b|x|x a b|x|ix|ws]; cbn [fstep] in *.
  - (* create *)
    cbn [fst snd fev_synced fev_reused fev_guard] in *. destruct I as [I1 I2 I3 I4 I5].
    set (r := next_rowid (rows st)) in *. set (n := {| f_id := x; f_rowid := r; f_a := a; f_b := b |}).
    constructor; cbn [rows idx nrow ntok].
    + rewrite map_app. cbn [map]. apply NoDup_app_one; [exact I1|].
      intros Hin. apply in_map_iff in Hin. destruct Hin as [q [Hq Hin]].
      assert (existsb (fun q0 => N.eqb (f_id q0) x) (rows st) = true)
        by (apply existsb_exists; exists q; split; [exact Hin|apply N.eqb_eq; exact Hq]).
      congruence.
    + rewrite map_app. cbn [map]. apply NoDup_app_one; [exact I2|].
      intros Hin. apply in_map_iff in Hin. destruct Hin as [q [Hq Hin]].
      pose proof (next_rowid_gt _ _ Hin) as Hlt. subst n r. cbn [f_rowid] in Hq. lia.
    + intros q Hq. apply in_app_or in Hq. destruct Hq as [Hq|[<-|[]]].
      * apply (entry_ok_other (idx st) (f_rowid q) r (row_text q) (fts_text a b) []).
        -- pose proof (next_rowid_gt _ _ Hq) as Hlt. subst r. lia.
        -- apply I3. exact Hq.
      * cbn [f_rowid]. apply entry_ok_insert_fresh. exact Hr.
    + rewrite toks_app. subst n. unfold toks at 2. cbn [map fold_right]. unfold row_text. cbn [f_a f_b]. lia.
    + rewrite app_length. cbn [length]. lia.
  - (* update *)
    destruct (find_row x (rows st)) as [old|] eqn:F; [|exact I].
    destruct (find_row_some _ _ _ F) as [Hin Hid].
    destruct I as [I1 I2 I3 I4 I5].
    set (n := {| f_id := x; f_rowid := f_rowid old;
                 f_a := match a with Some v => v | None => f_a old end;
                 f_b := match b with Some v => v | None => f_b old end |}) in *.
    assert (Hnid : f_id n = f_id old) by (cbn; congruence).
    destruct (replace_row_spec (rows st) old n I1 Hin Hnid eq_refl) as [R1 [R2 [R3 [R4 R5]]]].
    assert (Hold : ntrig (row_text old) <= toks (rows st)).
    { clear - Hin. induction (rows st) as [|y l IH]; [inversion Hin|]. unfold toks in *. cbn [map fold_right].
      destruct Hin as [->|Hin]; [pose proof (toks_nonneg l); unfold toks in *; lia|].
      specialize (IH Hin). pose proof (ntrig_nonneg (row_text y)). lia. }
    assert (Hlen : (1 <= length (rows st))%nat) by (destruct (rows st); [inversion Hin|cbn; lia]).
    assert (C : ((ntok st <? ntrig (row_text old)) || (nrow st <? 1))%bool = false).
    { apply Bool.orb_false_iff. split; apply Z.ltb_ge; lia. }
    rewrite C, Bool.andb_false_r in *. cbn [fst snd] in *.
    constructor; cbn [rows idx nrow ntok].
    + rewrite R1. exact I1.
    + rewrite R2. exact I2.
    + intros q Hq. destruct (R5 q Hq) as [->|[Hq1 Hq2]].
      * change (f_rowid n) with (f_rowid old).
        apply (entry_ok_update (idx st) (f_rowid old) (row_text old) (row_text n)). apply (I3 old Hin).
      * apply (entry_ok_other (idx st) (f_rowid q) (f_rowid old) (row_text q) (row_text n) (row_text old)).
        -- intros E. apply Hq2. f_equal. apply (nodup_slot_unique (rows st)); auto.
        -- apply I3. exact Hq1.
    + lia.
    + rewrite R3. destruct (negb (Nat.eqb (length (row_text old)) 0)); lia.
  - (* delete *)
    destruct (find_row x (rows st)); cbn [fst]; [apply inv_remove; exact I|exact I].
  - (* synchronisation write: excluded *)
    destruct (find_row x (rows st)); cbn [snd fev_synced] in Hs; discriminate.
  - cbn [fst]. apply inv_remove. exact I.
  - exact I.
  - exact I.
Qed.

Lemma list_eqb_refl : forall l, list_eqb N.eqb l l = true.
Proof. induction l as [|x l IH]; [reflexivity|]. cbn [list_eqb]. rewrite N.eqb_refl, IH. reflexivity. Qed.

Lemma search_exact : forall st w, inv st -> wf_term w = true -> search st w = expected (rows st) w.
Proof.
  intros st w I Hw. unfold search, expected. f_equal. apply filter_ext_in. intros r Hr.
  apply match_is_substring; [apply (inv_entries st I); exact Hr|exact Hw].
Qed.

Lemma fev_or_false : forall a b, fev_synced (fev_or a b) = false -> fev_reused (fev_or a b) = false -> fev_guard (fev_or a b) = false ->
  (fev_synced a = false /\ fev_reused a = false /\ fev_guard a = false) /\
  (fev_synced b = false /\ fev_reused b = false /\ fev_guard b = false).
Proof.
  intros [a1 a2 a3] [b1 b2 b3] H1 H2 H3. cbn in *.
  apply Bool.orb_false_iff in H1. apply Bool.orb_false_iff in H2. apply Bool.orb_false_iff in H3. tauto.
Qed.

Lemma run_checks : forall ops st, inv st ->
  fev_synced (frun_events st ops) = false -> fev_reused (frun_events st ops) = false -> fev_guard (frun_events st ops) = false ->
  checks_exact st ops = true.
Proof.
  induction ops as [|o ops IH]; intros st I Hs Hr Hg; [reflexivity|].
  cbn [checks_exact frun_events] in *.
  destruct (fstep st o) as [[st' obs] ev] eqn:E.
  destruct (fev_or_false _ _ Hs Hr Hg) as [[A1 [A2 A3]] [B1 [B2 B3]]].
  apply Bool.andb_true_iff. split.
  - destruct o; try reflexivity. apply forallb_forall. intros w _.
    destruct (wf_term w) eqn:W; [|reflexivity]. cbn [negb orb].
    rewrite (search_exact st w I W). apply list_eqb_refl.
  - cbn [fst]. apply IH; try assumption.
    pose proof (step_inv st o I) as P. rewrite E in P. cbn [fst snd] in P. apply P; assumption.
Qed.

Lemma init_inv : forall n0 t0, 0 <= n0 -> 0 <= t0 -> inv (finit n0 t0).
Proof.
  intros. constructor; cbn; try constructor; try lia; try (intros r []).
Qed.

Lemma known_nil : forall c, known_C17 c = [] ->
  fev_synced (frun_events (c17_init c) (c17_ops c)) = false /\ fev_reused (frun_events (c17_init c) (c17_ops c)) = false.
Proof.
  intros c H. unfold known_C17 in H.
  destruct (fev_synced (frun_events (c17_init c) (c17_ops c))); [cbn in H; discriminate|].
  destruct (fev_reused (frun_events (c17_init c) (c17_ops c))); [cbn in H; discriminate|]. auto.
Qed.

(* C17 outside the known classes: for every history of one peer made of local creations, updates of
   either text field (also to null), deletions and applied deletion records — no row written by
   synchronisation, no new row in a slot that still has index entries —, at every check every
   well-formed search word returns exactly the rows whose text fields contain it *)
Theorem local_ok : forall n0 t0 ops, 0 <= n0 -> 0 <= t0 ->
  known_C17 (C17Case n0 t0 ops) = [] ->
  fev_guard (frun_events (finit n0 t0) ops) = false ->
  checks_exact (finit n0 t0) ops = true.
Proof.
  intros n0 t0 ops Hn Ht Hk Hg. destruct (known_nil _ Hk) as [Hs Hr]. cbn [c17_init c17_ops] in Hs, Hr.
  apply run_checks; try assumption. apply init_inv; assumption.
Qed.

(* ---------- closed witnesses ---------- *)
Definition t_alpha : text := [97; 108; 112; 104; 97]%N.
Definition t_gamma_delta : text := [103; 97; 109; 109; 97; 32; 100; 101; 108; 116; 97]%N.
Definition t_delta : text := [100; 101; 108; 116; 97]%N.
Definition t_epsilon : text := [101; 112; 115; 105; 108; 111; 110]%N.

(* class 1: a row written by synchronisation is not found *)
Definition witness_sync : c17case := C17Case 1 40 [FSyncPut 1%N (Some t_alpha) None; FCheck [t_alpha]].
Lemma refuted_sync : spec_C17 witness_sync (run_C17 witness_sync) = false /\ known_C17 witness_sync = [1].
Proof. vm_compute. split; reflexivity. Qed.

(* class 2: the last row is deleted, the next row takes its slot and answers for the deleted text *)
Definition witness_reuse : c17case :=
  C17Case 1 40 [FCreate 1%N (Some t_gamma_delta) None; FDelete 1%N; FCreate 2%N (Some t_epsilon) None; FCheck [t_delta; t_epsilon]].
Lemma refuted_reuse : spec_C17 witness_reuse (run_C17 witness_reuse) = false /\ known_C17 witness_reuse = [2] /\
  search (frun_state (c17_init witness_reuse) (c17_ops witness_reuse)) t_delta = [2%N].
Proof. vm_compute. repeat split; reflexivity. Qed.

(* a local edit of a row that arrived by synchronisation issues a 'delete' for text the index never
   held: the totals are drained and the next such edit is refused (flag 2 = write error) *)
Definition witness_drain : c17case :=
  C17Case 1 5 [FSyncPut 1%N (Some t_gamma_delta) None; FSyncPut 2%N (Some t_gamma_delta) None;
               FUpdate 1%N (Some (Some t_alpha)) None; FUpdate 2%N (Some (Some t_alpha)) None].
Lemma drain_refused : run_C17 witness_drain = [2; 2].
Proof. vm_compute. reflexivity. Qed.

Definition example_ok : c17case :=
  C17Case 1 40 [FCreate 1%N (Some t_gamma_delta) (Some t_alpha); FCreate 2%N (Some t_epsilon) None; FCheck [t_delta; t_alpha];
                FUpdate 1%N None (Some None); FUpdate 2%N (Some (Some t_delta)) None; FDelete 1%N; FCheck [t_delta; t_alpha; t_epsilon]].
Lemma nonvacuous :
  known_C17 example_ok = [] /\ fev_guard (frun_events (c17_init example_ok) (c17_ops example_ok)) = false /\
  spec_C17 example_ok (run_C17 example_ok) = true /\
  search (frun_state (c17_init example_ok) (c17_ops example_ok)) t_delta = [2%N].
Proof. vm_compute. repeat split; reflexivity. Qed.

(* every text field of a row set to null (in one update, and in successive updates), then text set
   again: the former text is not found any more, the new one is *)
Definition example_null_all : c17case :=
  C17Case 1 40 [FCreate 1%N (Some t_gamma_delta) (Some t_alpha); FCreate 2%N (Some t_epsilon) None;
                FUpdate 1%N (Some None) (Some None); FCheck [t_delta; t_alpha; t_epsilon];
                FUpdate 2%N (Some None) None; FCheck [t_delta; t_alpha; t_epsilon];
                FUpdate 1%N None (Some (Some t_delta)); FUpdate 2%N (Some (Some t_alpha)) None; FCheck [t_delta; t_alpha; t_epsilon]].
Lemma null_all_ok :
  known_C17 example_null_all = [] /\ fev_guard (frun_events (c17_init example_null_all) (c17_ops example_null_all)) = false /\ spec_C17 example_null_all (run_C17 example_null_all) = true /\ map (fun w => search (frun_state (c17_init example_null_all) (firstn 4 (c17_ops example_null_all))) w) [t_delta; t_alpha; t_epsilon] = [[]; []; [2%N]] /\ map (fun w => search (frun_state (c17_init example_null_all) (c17_ops example_null_all)) w) [t_delta; t_alpha; t_epsilon] = [[1%N]; [2%N]; []].
Proof. vm_compute. repeat split; reflexivity. Qed.
