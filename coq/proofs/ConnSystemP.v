(* ConnSystemP.v — composition of C19 (handshake) and C08 (serving side) over one connection
   (model/ConnSystem.v).  Reuses proofs/C19P.v (fail_holds, handshake_spec, auth_holds, zn_inj) and
   proofs/C08P.v (session_ok, preauth_nothing, dedupZ_nil, nodupN_NoDup; valid_spec through session_ok). *)
From DV Require Import RightsP ConnSystem C19P C08P.
From Coq Require Import Lia.
Open Scope N_scope.

(* ------------------------------------------------------------------ the key holder after the effects *)
Lemma bound_key_in : forall es acc k, bound_key es acc = Some k -> acc = Some k \/ In (EBind k) es.
Proof.
  induction es as [|e tl IH]; intros acc k H; cbn [bound_key] in H; [left; exact H|].
  destruct e as [k0| | | |k0|k0];
    try (destruct (IH _ _ H) as [Ha|Hi]; [left; exact Ha | right; right; exact Hi]).
  destruct (IH _ _ H) as [Ha|Hi]; [|right; right; exact Hi].
  inversion Ha; subst. right. left. reflexivity.
Qed.

(* linking lemma: bound_key is the key holder the C19 harness observes (Run_C19.bound_of) *)
Definition enc_key (o : option key) : Z := match o with Some k => zn k | None => (-1)%Z end.
Lemma bound_of_gen : forall es acc,
  fold_left (fun (acc : Z) e => match e with EBind k => zn k | _ => acc end) es (enc_key acc) = enc_key (bound_key es acc).
Proof.
  induction es as [|e tl IH]; intros acc; cbn [fold_left bound_key]; [reflexivity|].
  destruct e as [k0| | | |k0|k0]; try apply IH. apply (IH (Some k0)).
Qed.
Lemma bound_of_key : forall es, bound_of es = enc_key (bound_key es None).
Proof. intros es. unfold bound_of. apply (bound_of_gen es None). Qed.

(* ------------------------------------------------------------------ what the C19 oracle's `entitled` says *)
Definition token_expects (t : ttype) (k : key) : bool :=
  match t with
  | TAllowed p => N.eqb p k
  | TOwned _ => true
  | TInvite _ _ s => match s with Some s => N.eqb s k | None => false end
  end.
Lemma entitled_inv : forall ch t r k, entitled ch t r = Some k ->
  exists a, r = Ans a /\ a_key a = k /\ proof_ok ch a = true /\ peer_row_ok a = true /\ token_expects t k = true.
Proof.
  intros ch t r k H. destruct r as [|a]; [discriminate H|]. exists a. split; [reflexivity|].
  unfold entitled in H.
  match type of H with (if ?c then _ else _) = _ => destruct c eqn:C; [|discriminate H] end.
  inversion H; subst k. split; [reflexivity|].
  apply andb_true_iff in C. destruct C as [C Ctok]. apply andb_true_iff in C. destruct C as [C Cpub].
  apply andb_true_iff in C. destruct C as [C Crow]. apply andb_true_iff in C. destruct C as [C Cent].
  apply andb_true_iff in C. destruct C as [C Croom]. apply andb_true_iff in C. destruct C as [Csig Cover].
  split; [|split].
  - unfold proof_ok. destruct (a_sig_by a) as [s|]; [|discriminate Csig]. rewrite Csig, Cover. reflexivity.
  - unfold peer_row_ok. rewrite Croom, Cent, Crow, Cpub. reflexivity.
  - unfold token_expects. destruct t as [p|inv|inv ap s]; exact Ctok.
Qed.

(* LINK, handshake side: whatever key the handshake leaves in the holder — with ANY result code — is
   the key the remote is entitled to on this connection.  From the C19 theorems: fail_holds (not
   entitled: no effect at all) and handshake_spec (entitled to k: the bound key is k). *)
Lemma hs_bound_entitled : forall ch lk t r ev K,
  hs_key (init_connection ch lk t r ev) = Some K -> entitled ch t r = Some K.
Proof.
  intros ch lk t r ev K H. unfold hs_key in H.
  destruct (entitled ch t r) as [k|] eqn:E.
  - pose proof (handshake_spec ch lk t r ev) as S. unfold spec_handshake in S. rewrite E in S.
    destruct (init_connection ch lk t r ev) as [res es]. cbn [snd] in H.
    unfold obs_handshake in S. cbn [app] in S. unfold spec_hs_with in S.
    apply andb_true_iff in S. destruct S as [S _]. apply andb_true_iff in S. destruct S as [S _].
    rewrite bound_of_key, H in S. cbn [enc_key] in S.
    apply orb_true_iff in S. destruct S as [S|S]; apply Z.eqb_eq in S.
    + exfalso. unfold zn in S. lia.
    + apply zn_inj in S. subst. reflexivity.
  - destruct (fail_holds ch lk t r ev E) as [F _]. rewrite F in H. discriminate H.
Qed.
Lemma hs_not_entitled_unbound : forall ch lk t r ev,
  entitled ch t r = None -> hs_key (init_connection ch lk t r ev) = None.
Proof.
  intros ch lk t r ev E. destruct (hs_key (init_connection ch lk t r ev)) as [K|] eqn:H; [|reflexivity].
  apply hs_bound_entitled in H. congruence.
Qed.

(* ------------------------------------------------------------------ LINK, serving side *)
(* commutation: replaying the handshake's effects on the two shared cells as OBind / OReady from the
   C08 harness' initial state gives the linked initial state, silently *)
Lemma hs_oevs_state : forall self key i out,
  ostate self key i (oinit i) (hs_oevs out) = serving_init i out.
Proof. intros self key i out. unfold hs_oevs, serving_init. destruct (is_some (hs_key out)); reflexivity. Qed.
Lemma orun_app : forall a b self key i s,
  orun self key i s (a ++ b) = orun self key i s a ++ orun self key i (ostate self key i s a) b.
Proof.
  induction a as [|e tl IH]; intros b self key i s; [reflexivity|]. cbn [app orun ostate].
  destruct (ostep self key i s e) as [s' x]. cbn [fst app]. rewrite IH. reflexivity.
Qed.
Lemma hs_oevs_silent : forall self key i out,
  orun self key i (oinit i) (hs_oevs out) = map (fun _ => (0%Z, [])) (hs_oevs out).
Proof. intros self key i out. unfold hs_oevs. destruct (is_some (hs_key out)); reflexivity. Qed.
(* the connection's answers are what the C08 harness evaluates on c08_of, after the silent prefix *)
Lemma run_answers_c08_of : forall empty c,
  run_answers (c08_of empty c) = map (fun _ => (0%Z, [])) (hs_oevs (hs_outcome c)) ++ conn_answers empty c.
Proof.
  intros empty c. unfold run_answers, c08_of, conn_answers. rewrite orun_app, hs_oevs_silent, hs_oevs_state. reflexivity.
Qed.
Lemma known_prefix : forall self key i out evs,
  known_from self key i (oinit i) [] (hs_oevs out ++ evs) = known_from self key i (serving_init i out) [] evs.
Proof. intros self key i out evs. unfold hs_oevs, serving_init. destruct (is_some (hs_key out)); reflexivity. Qed.

Lemma OI_serving_init : forall i out, NoDup (map fst (i_defs i)) ->
  OI (serving_init i out) (is_some (hs_key out)) (i_defs i) [].
Proof. intros i out H. constructor; cbn [serving_init o_bound o_defs o_allowed]; auto. intros r []. Qed.

Lemma no_bind_after : forall evs, ~ In OBind (map oev_of evs).
Proof.
  intros evs H. apply in_map_iff in H. destruct H as (e & He & _). destruct e; discriminate He.
Qed.

(* the C08 oracle, read position by position *)
Lemma spec_from_nth : forall evs al K i b defs,
  spec_from K i b defs (map oev_of evs) al = true ->
  forall n now q a ro, nth_error evs n = Some (CQuery now q) -> nth_error al n = Some a ->
    In ro (item_rooms i q (snd a)) ->
    exists R, ro = Some R /\ b = true /\ member_now (defs_before defs evs n) R K now = true.
Proof.
  induction evs as [|e tl IH]; intros al K i b defs H n now q a ro Hn Ha Hro.
  - destruct n; discriminate Hn.
  - destruct al as [|a0 atl]; [cbn [map spec_from] in H; discriminate H|].
    destruct n as [|n].
    + cbn [nth_error] in Hn, Ha. inversion Hn; subst e. inversion Ha; subst a0.
      cbn [map oev_of spec_from] in H. apply andb_true_iff in H. destruct H as [H _].
      rewrite forallb_forall in H. specialize (H ro Hro). destruct ro as [R|]; [|discriminate H].
      apply andb_true_iff in H. destruct H as [Hb Hm]. exists R. split; [reflexivity|]. split; [exact Hb|].
      unfold defs_before. cbn [firstn fold_left]. exact Hm.
    + cbn [nth_error] in Hn, Ha.
      assert (Htl : spec_from K i b (cdefs_step defs e) (map oev_of tl) atl = true).
      { destruct e as [b0|r ev|now0 r|now0 q0]; cbn [map oev_of spec_from cdefs_step] in *; try exact H.
        apply andb_true_iff in H. destruct H as [_ H]. exact H. }
      destruct (IH atl K i b (cdefs_step defs e) Htl n now q a ro Hn Ha Hro) as (R & H1 & H2 & H3).
      exists R. split; [exact H1|]. split; [exact H2|]. unfold defs_before in *. cbn [firstn fold_left]. exact H3.
Qed.

(* ================================================================== the composition theorems *)
(* every item of room data in every answer of the connection was sent to a key that the remote proved
   on this connection's own challenge, that the token expects, and that is a member of the item's
   room at that moment — outside the two open classes of C08, delimited by Run_C08.known_C08 itself *)
Theorem served_only_to_proven_members : forall empty c,
  wf_case (c08_of empty c) = true -> known_C08 (c08_of empty c) = [] ->
  forall n now q a ro, served_item empty c n now q a ro -> proven_member c n now ro.
Proof.
  intros empty c Hwf Hk n now q a ro (Hn & Ha & Hro).
  unfold wf_case, c08_of in Hwf. apply andb_true_iff in Hwf. destruct Hwf as [Hwf Hd]. apply andb_true_iff in Hwf. destruct Hwf as [Hnn Hne].
  apply nodupN_NoDup in Hd, Hnn, Hne.
  unfold known_C08, c08_of in Hk. apply dedupZ_nil in Hk. rewrite known_prefix in Hk.
  pose proof (session_ok _ _ _ _ _ _ _ _ Hnn Hne (OI_serving_init (c_inst c) (hs_outcome c) Hd) Hk) as S.
  fold (conn_answers empty c) in S.
  destruct (spec_from_nth _ _ _ _ _ _ S n now q a ro Hn Ha Hro) as (R & HR & Hb & Hm).
  unfold serving_key in Hm. destruct (hs_key (hs_outcome c)) as [K|] eqn:HK; [|discriminate Hb].
  unfold hs_outcome in HK. pose proof (hs_bound_entitled _ _ _ _ _ _ HK) as E.
  destruct (entitled_inv _ _ _ _ E) as (ans & Hr & Hkey & Hp & Hrow & _).
  exists K, ans, R. repeat split; assumption.
Qed.

(* nothing bound by the handshake: no answer carries any item, whatever is asked, for every sequence *)
Lemma unbound_served_nothing : forall empty c, hs_key (hs_outcome c) = None ->
  forall a, In a (conn_answers empty c) -> snd a = [].
Proof.
  intros empty c H a Ha. unfold conn_answers in Ha.
  refine (preauth_nothing _ _ _ _ _ _ _ (no_bind_after (c_events c)) a Ha);
    unfold serving_init; rewrite H; reflexivity.
Qed.
(* a connection whose handshake failed (the remote is not entitled: wrong key, answer of another
   connection, malformed row, silence, key not expected for the token): full strength, no exclusion *)
Theorem failed_handshake_served_nothing : forall empty c,
  entitled (c_ch c) (c_tt c) (c_remote c) = None ->
  snd (hs_outcome c) = [] /\ fst (hs_outcome c) <> ROkTrue /\
  forall a, In a (conn_answers empty c) -> snd a = [].
Proof.
  intros empty c E. destruct (fail_holds (c_ch c) (c_local c) (c_tt c) (c_remote c) (c_ev c) E) as [F1 F2].
  split; [exact F1|]. split; [exact F2|].
  apply unbound_served_nothing. unfold hs_outcome. apply hs_not_entitled_unbound. exact E.
Qed.

(* in a session with a repetition-free nonce stream, a connection on which the remote replays the
   answer recorded on ANOTHER connection is served nothing *)
Theorem replayed_answer_served_nothing : forall empty nonces all i j sc n i0 evs,
  NoDup nonces -> nth_error nonces i = Some n -> sc_remote sc = SReplay j -> j <> i ->
  let c := {| c_ch := n; c_local := sc_local sc; c_tt := sc_tt sc; c_remote := sremote_of nonces all i sc;
              c_ev := sc_ev sc; c_inst := i0; c_events := evs |} in
  forall a, In a (conn_answers empty c) -> snd a = [].
Proof.
  intros empty nonces all i j sc n i0 evs ND Hn Hr Ne c.
  apply unbound_served_nothing.
  destruct (hs_key (hs_outcome c)) as [K|] eqn:HK; [|reflexivity]. exfalso.
  unfold hs_outcome, c in HK. cbn [c_ch c_local c_tt c_remote c_ev] in HK.
  apply hs_bound_entitled in HK. destruct (entitled_inv _ _ _ _ HK) as (ans & Ra & _ & P & _).
  unfold sremote_of in Ra. rewrite Hr in Ra.
  destruct (nth_error all j) as [cj|]; [|discriminate Ra].
  destruct (nth_error nonces j) as [nj|] eqn:Nj; [|discriminate Ra].
  destruct (sc_remote cj) as [|a'|]; try discriminate Ra. inversion Ra; subst ans.
  unfold proof_ok, over in P. cbn [a_sig_by a_key a_sig_over] in P.
  destruct (a_sig_by a'); [|discriminate P]. apply andb_true_iff in P. destruct P as [_ P]. apply N.eqb_eq in P. subst nj.
  apply Ne. rewrite NoDup_nth_error in ND. apply ND; [|congruence].
  apply nth_error_Some. congruence.
Qed.

(* ------------------------------------------------------------------ result code vs. binding *)
(* "served => the handshake RETURNED Ok(true)" is false of the models: when the proof succeeds and the
   event channel is closed, initialise_connection has already stored the key and returns Ok(false);
   until the disconnect takes effect process_inbound serves that (proven, entitled) key.  Exactly
   delimited by c_ev: *)
Lemma entitled_accepts : forall ch lk t r k,
  entitled ch t r = Some k -> fst (init_connection ch lk t r true) = ROkTrue.
Proof.
  intros ch lk t r k E. destruct (entitled_inv _ _ _ _ E) as (a & Hr & Hk & P & V & T). subst r k.
  unfold init_connection. rewrite P, V. cbn [negb].
  destruct t as [p|inv|inv ap s]; cbn [token_expects] in T.
  - rewrite T. destruct (N.eqb lk (a_key a)); reflexivity.
  - reflexivity.
  - destruct s as [s|]; [|discriminate T]. rewrite T. reflexivity.
Qed.
Theorem served_implies_accepted : forall empty c,
  c_ev c = true ->
  wf_case (c08_of empty c) = true -> known_C08 (c08_of empty c) = [] ->
  forall n now q a ro, served_item empty c n now q a ro -> fst (hs_outcome c) = ROkTrue.
Proof.
  intros empty c Hev Hwf Hk n now q a ro Hs.
  destruct (served_only_to_proven_members empty c Hwf Hk n now q a ro Hs) as (K & ans & R & _ & _ & _ & _ & E & _).
  unfold hs_outcome. rewrite Hev. exact (entitled_accepts _ _ _ _ _ E).
Qed.

(* ------------------------------------------------------------------ closed witnesses *)
Lemma conn_system_nonvacuous :
  (* honest remote: accepted, the room list, then room 1 (member) served, room 2 (not a member) refused *)
  hs_outcome cs_ok = (ROkTrue, [EBind 2; EvReady; MConnected 2]) /\
  wf_case (c08_of 0 cs_ok) = true /\ known_C08 (c08_of 0 cs_ok) = [] /\
  conn_answers 0 cs_ok = [(2%Z, [1]); (2%Z, [1]); (2%Z, [1]); (1%Z, []); (1%Z, [])] /\
  (* the answer recorded on connection 0 replayed on connection 1 (another nonce): nothing *)
  entitled (c_ch cs_replayed) (c_tt cs_replayed) (c_remote cs_replayed) = None /\
  hs_outcome cs_replayed = (RErr, []) /\
  conn_answers 0 cs_replayed = [(0%Z, []); (1%Z, []); (1%Z, []); (1%Z, []); (1%Z, [])].
Proof. vm_compute. repeat split. Qed.

Lemma served_without_accept_refuted :
  fst (hs_outcome cs_bound_not_accepted) = ROkFalse /\
  wf_case (c08_of 0 cs_bound_not_accepted) = true /\ known_C08 (c08_of 0 cs_bound_not_accepted) = [] /\
  conn_answers 0 cs_bound_not_accepted = [(2%Z, [1]); (2%Z, [1]); (2%Z, [1]); (1%Z, []); (1%Z, [])] /\
  entitled (c_ch cs_bound_not_accepted) (c_tt cs_bound_not_accepted) (c_remote cs_bound_not_accepted) = Some 2.
Proof. vm_compute. repeat split. Qed.
