(* C13P.v — proofs for C13 *)
From DV Require Import Run_C13.

Lemma code_skeleton_ok : sk_ok code_skeleton = true.
Proof. vm_compute. reflexivity. Qed.
