(* C13P.v — proofs for C13 (writes are atomic, durable once acknowledged, log repairable) *)
From DV Require Import Run_C13 WriterP.
From Coq Require Import Lia.

(* ------------------------------------------------------------------ obligations on the generated skeleton *)
Lemma code_skeleton_ok : sk_ok code_skeleton = true.
Proof. vm_compute. reflexivity. Qed.
Lemma code_points_complete : points_complete code_skeleton = true.
Proof. vm_compute. reflexivity. Qed.
(* K1 repaired (d89b357): a failure of daily_log.write or of COMMIT rolls the transaction back *)
Lemma code_rollback_after_marks_and_commit :
  sk_marks_rollback code_skeleton = true /\ sk_commit_rollback code_skeleton = true.
Proof. vm_compute. split; reflexivity. Qed.

(* ------------------------------------------------------------------ the arm table *)
Lemma kind_code_inj : forall a b, kind_code a = kind_code b -> a = b.
Proof. intros a b H. destruct a; destruct b; try reflexivity; vm_compute in H; discriminate. Qed.
Lemma kind_eqb_eq : forall a b, kind_eqb a b = true <-> a = b.
Proof.
  intros a b. unfold kind_eqb. rewrite N.eqb_eq. split; [apply kind_code_inj|intros; subst; reflexivity].
Qed.
Lemma arm_of_some : forall sk k a, arm_of sk k = Some a -> In a (sk_arms sk) /\ a_kind a = k.
Proof.
  intros sk k a H. unfold arm_of in H. apply find_some in H. destruct H as [H1 H2].
  split; [exact H1|apply kind_eqb_eq; exact H2].
Qed.
Lemma find_code : forall (l : list arm) k, In (kind_code k) (map (fun a => kind_code (a_kind a)) l) ->
  exists a, find (fun a => kind_eqb (a_kind a) k) l = Some a.
Proof.
  induction l as [|a l IH]; intros k H; cbn [map In find] in *; [contradiction|].
  destruct (kind_eqb (a_kind a) k) eqn:E; [eauto|].
  destruct H as [H|H]; [|apply IH; exact H].
  unfold kind_eqb in E. rewrite H, N.eqb_refl in E. discriminate.
Qed.
Lemma list_eqb_N_eq : forall l1 l2 : list N, list_eqb N.eqb l1 l2 = true -> l1 = l2.
Proof.
  induction l1 as [|x t IH]; intros [|y u] H; cbn [list_eqb] in H; try discriminate; auto.
  apply andb_true_iff in H. destruct H as [H1 H2]. apply N.eqb_eq in H1. f_equal; auto.
Qed.
Lemma arm_of_total : forall sk k, arms_complete sk = true -> exists a, arm_of sk k = Some a.
Proof.
  intros sk k H. unfold arms_complete in H. apply list_eqb_N_eq in H. unfold arm_of.
  apply find_code. rewrite H. destruct k; vm_compute; tauto.
Qed.

Record arm_good (a : arm) : Prop := {
  ag_pol_ok : a_ok_pol a = true;
  ag_pol_err : a_err_pol a = true;
  ag_route : route_code (a_ok a) = route_code (a_err a);
  ag_fallible : a_kind a <> KOptimize -> a_fallible a = true;
  ag_quiet : a_kind a = KCompute \/ a_kind a = KOptimize -> a_ok a = RDb \/ a_ok a = RNone
}.
Lemma sk_ok_arm : forall sk k, sk_ok sk = true -> exists a, arm_of sk k = Some a /\ a_kind a = k /\ arm_good a.
Proof.
  intros sk k H. unfold sk_ok in H.
  apply andb_true_iff in H. destruct H as [H Hexits].
  apply andb_true_iff in H. destruct H as [H Hroutes].
  apply andb_true_iff in H. destruct H as [H Hfall].
  apply andb_true_iff in H. destruct H as [H Hack].
  apply andb_true_iff in H. destruct H as [H Hrb].
  apply andb_true_iff in H. destruct H as [Hshape Hcomplete].
  destruct (arm_of_total sk k Hcomplete) as [a Ha]. exists a.
  destruct (arm_of_some _ _ _ Ha) as [Hin Hk]. split; [exact Ha|split; [exact Hk|]].
  unfold arms_ack in Hack. unfold arms_fallible in Hfall. unfold arms_routes in Hroutes.
  rewrite forallb_forall in Hack, Hfall, Hroutes.
  specialize (Hack a Hin). specialize (Hfall a Hin). specialize (Hroutes a Hin).
  apply andb_true_iff in Hack. destruct Hack as [Hack Hr].
  apply andb_true_iff in Hack. destruct Hack as [Hp1 Hp2].
  constructor; auto.
  - apply N.eqb_eq. exact Hr.
  - intros Hn. apply orb_true_iff in Hfall. destruct Hfall as [Hf|Hf]; [exact Hf|].
    apply kind_eqb_eq in Hf. contradiction.
  - intros Hq. destruct Hq as [Hq|Hq]; rewrite Hq in Hroutes; destruct (a_ok a); try discriminate; auto.
Qed.

(* ------------------------------------------------------------------ lists without repetition *)
Lemma NoDup_app_elim : forall A (l1 l2 : list A), NoDup (l1 ++ l2) ->
  NoDup l1 /\ NoDup l2 /\ (forall x, In x l1 -> In x l2 -> False).
Proof.
  induction l1 as [|a l1 IH]; intros l2 H; cbn [app] in *.
  - split; [constructor|split; [exact H|intros x []]].
  - inversion H as [|? ? Hn Hnd]; subst. destruct (IH l2 Hnd) as [H1 [H2 H3]].
    split; [constructor; [intros Hin; apply Hn; apply in_or_app; left; exact Hin|exact H1]|].
    split; [exact H2|]. intros x [E|Hx] Hx2.
    + subst. apply Hn. apply in_or_app. right. exact Hx2.
    + eapply H3; eauto.
Qed.
Lemma NoDup_app_intro : forall A (l1 l2 : list A), NoDup l1 -> NoDup l2 ->
  (forall x, In x l1 -> In x l2 -> False) -> NoDup (l1 ++ l2).
Proof.
  induction l1 as [|a l1 IH]; intros l2 H1 H2 H3; cbn [app]; [exact H2|].
  inversion H1 as [|? ? Hn Hnd]; subst. constructor.
  - intros Hin. apply in_app_or in Hin. destruct Hin as [Hin|Hin]; [contradiction|].
    apply (H3 a); [left; reflexivity|exact Hin].
  - apply IH; auto. intros x Hx Hx2. apply (H3 x); [right; exact Hx|exact Hx2].
Qed.
Lemma NoDup_map_in_inj : forall A B (f : A -> B) l a b,
  NoDup (map f l) -> In a l -> In b l -> f a = f b -> a = b.
Proof.
  induction l as [|x l IH]; intros a b H Ha Hb E; cbn [map In] in *; [contradiction|].
  inversion H as [|? ? Hn Hnd]; subst.
  destruct Ha as [Ha|Ha]; destruct Hb as [Hb|Hb]; subst; auto.
  - exfalso. apply Hn. rewrite E. apply in_map. exact Hb.
  - exfalso. apply Hn. rewrite <- E. apply in_map. exact Ha.
Qed.
Lemma NoDup_flat_map_same : forall A B (F : A -> list B) l x y o,
  NoDup (flat_map F l) -> In x l -> In y l -> In o (F x) -> In o (F y) -> x = y \/ False.
Proof.
  induction l as [|z l IH]; intros x y o H Hx Hy Hox Hoy; cbn [flat_map In] in *; [contradiction|].
  apply NoDup_app_elim in H. destruct H as [H1 [H2 H3]].
  destruct Hx as [Hx|Hx]; destruct Hy as [Hy|Hy]; subst.
  - left. reflexivity.
  - right. apply (H3 o Hox). apply in_flat_map. exists y. split; assumption.
  - right. apply (H3 o Hoy). apply in_flat_map. exists x. split; assumption.
  - eapply IH; eauto.
Qed.
Lemma nodup_keys_NoDup : forall l, nodup_keys l = true -> NoDup l.
Proof.
  induction l as [|k l IH]; intros H; cbn [nodup_keys] in H; [constructor|].
  apply andb_true_iff in H. destruct H as [H1 H2]. constructor; [|apply IH; exact H2].
  intros Hin. apply negb_true_iff in H1. assert (existsb (rkey_eqb k) l = true); [|congruence].
  apply existsb_exists. exists k. split; [exact Hin|apply rkey_eqb_refl].
Qed.
Lemma flat_map_map : forall A B C (f : A -> B) (g : B -> list C) l, flat_map g (map f l) = flat_map (fun x => g (f x)) l.
Proof. induction l; cbn [map flat_map]; congruence. Qed.

(* ------------------------------------------------------------------ what a query sees *)
Lemma reflected_data : forall d1 d2 o, data_eq d1 d2 -> reflected d1 o = reflected d2 o.
Proof. intros d1 d2 o [H1 H2]. destruct o; cbn [reflected]; rewrite H1, ?H2; reflexivity. Qed.
Lemma vis_data : forall d1 d2 r, data_eq d1 d2 -> vis d1 r = vis d2 r.
Proof.
  intros d1 d2 r H. unfold vis.
  assert (forallb (reflected d1) (req_ops r) = forallb (reflected d2) (req_ops r)) as ->.
  { induction (req_ops r); cbn [forallb]; [reflexivity|]. rewrite IHl, (reflected_data d1 d2) by exact H. reflexivity. }
  assert (existsb (reflected d1) (req_ops r) = existsb (reflected d2) (req_ops r)) as ->; [|reflexivity].
  induction (req_ops r); cbn [existsb]; [reflexivity|]. rewrite IHl, (reflected_data d1 d2) by exact H. reflexivity.
Qed.
Lemma reflected_apply_self : forall d o, reflected (apply_op d o) o = true.
Proof.
  intros d [c i v|c i]; cbn [apply_op reflected d_rows d_tombs].
  - rewrite lookup_upd_eq. apply N.eqb_refl.
  - rewrite lookup_remove_eq. cbn [existsb]. rewrite rkey_eqb_refl. reflexivity.
Qed.
Lemma reflected_apply_other : forall d o' o, op_key o' <> op_key o -> reflected (apply_op d o') o = reflected d o.
Proof.
  intros d o' o Hk.
  assert (Hrows : lookup (op_key o) (d_rows (apply_op d o')) = lookup (op_key o) (d_rows d)).
  { destruct o' as [c' i' v'|c' i']; cbn [apply_op d_rows op_key] in *.
    - apply lookup_upd_neq. congruence.
    - apply lookup_remove_neq. congruence. }
  assert (Htombs : existsb (rkey_eqb (op_key o)) (d_tombs (apply_op d o')) = existsb (rkey_eqb (op_key o)) (d_tombs d)).
  { destruct o' as [c' i' v'|c' i']; cbn [apply_op d_tombs op_key existsb] in *; [reflexivity|].
    rewrite (rkey_eqb_neq (op_key o) (c', i')) by congruence. reflexivity. }
  destruct o as [c i v|c i]; cbn [reflected op_key] in *; rewrite Hrows, ?Htombs; reflexivity.
Qed.
Lemma reflected_apply_ops_notin : forall L d o, ~ In (op_key o) (map op_key L) -> reflected (apply_ops d L) o = reflected d o.
Proof.
  induction L as [|o' L IH]; intros d o H; cbn [apply_ops fold_left map In] in *; [reflexivity|].
  change (fold_left apply_op L (apply_op d o')) with (apply_ops (apply_op d o') L).
  rewrite IH by tauto. apply reflected_apply_other. intros E. apply H. left. exact E.
Qed.
Lemma reflected_apply_ops_in : forall L d o, NoDup (map op_key L) -> In o L -> reflected (apply_ops d L) o = true.
Proof.
  induction L as [|o' L IH]; intros d o Hnd Hin; cbn [apply_ops fold_left map In] in *; [contradiction|].
  change (fold_left apply_op L (apply_op d o')) with (apply_ops (apply_op d o') L).
  inversion Hnd as [|? ? Hn Hnd']; subst. destruct Hin as [E|Hin].
  - subst o'. rewrite reflected_apply_ops_notin by exact Hn. apply reflected_apply_self.
  - apply IH; assumption.
Qed.

(* ------------------------------------------------------------------ visibility at the end of a run *)
Definition quiet (q : req) : bool := match r_kind q with KCompute | KOptimize => true | _ => false end.
Definition no_ops (r : req) : bool := match req_ops r with [] => true | _ => false end.

Lemma eff_ops_cases : forall sk r, eff_ops sk r = req_ops r \/ eff_ops sk r = [].
Proof.
  intros sk r. unfold eff_ops. destruct (arm_of sk (r_kind r)) as [a|]; auto.
  destruct (a_fallible a); auto. destruct (a_kind a); auto.
Qed.
Lemma eff_ops_full : forall sk r, sk_ok sk = true -> quiet r = false -> eff_ops sk r = req_ops r.
Proof.
  intros sk r Hok Hq. destruct (sk_ok_arm sk (r_kind r) Hok) as [a [Ha [Hk Hg]]].
  unfold eff_ops. rewrite Ha. unfold quiet in Hq.
  rewrite (ag_fallible a Hg) by (rewrite Hk; intros E; rewrite E in Hq; discriminate).
  rewrite Hk. destruct (r_kind r); try reflexivity; discriminate.
Qed.
Lemma quiet_no_ops : forall r, req_shape r = true -> quiet r = true -> req_ops r = [].
Proof.
  intros r Hs Hq. unfold req_shape in Hs. unfold quiet in Hq.
  destruct (r_kind r); try discriminate; destruct (req_ops r); auto; discriminate.
Qed.
Lemma loud_has_ops : forall r, req_shape r = true -> quiet r = false -> req_ops r <> [].
Proof.
  intros r Hs Hq. unfold req_shape in Hs. unfold quiet in Hq.
  destruct (r_kind r); try discriminate; destruct (req_ops r); try discriminate; intros E; discriminate.
Qed.

Lemma in_flat_map_sel : forall A (F G : A -> list op) l o,
  (forall x, G x = F x \/ G x = []) -> In o (flat_map G l) -> In o (flat_map F l).
Proof.
  intros A F G l o HG H. apply in_flat_map in H. destruct H as [x [Hx Ho]]. apply in_flat_map. exists x. split; [exact Hx|].
  destruct (HG x) as [E|E]; rewrite E in Ho; [exact Ho|contradiction].
Qed.
Lemma NoDup_keys_sel : forall A (F G : A -> list op) l,
  (forall x, G x = F x \/ G x = []) ->
  NoDup (map op_key (flat_map F l)) -> NoDup (map op_key (flat_map G l)).
Proof.
  intros A F G l HG. induction l as [|x l IH]; intros H; cbn [flat_map] in *; [constructor|].
  rewrite map_app in *. apply NoDup_app_elim in H. destruct H as [H1 [H2 H3]].
  destruct (HG x) as [E|E]; rewrite E; cbn [map app]; [|apply IH; exact H2].
  apply NoDup_app_intro; [exact H1|apply IH; exact H2|].
  intros k Hk1 Hk2. apply (H3 k Hk1). apply in_map_iff in Hk2. destruct Hk2 as [o [Eo Ho]].
  apply in_map_iff. exists o. split; [exact Eo|]. eapply in_flat_map_sel; eauto.
Qed.

Lemma vis_all : forall d r, (forall o, In o (req_ops r) -> reflected d o = true) -> vis d r = 1.
Proof.
  intros d r H. unfold vis. assert (forallb (reflected d) (req_ops r) = true) as ->; [|reflexivity].
  apply forallb_forall. exact H.
Qed.
Lemma vis_none : forall d r, req_ops r <> [] -> (forall o, In o (req_ops r) -> reflected d o = false) -> vis d r = 0.
Proof.
  intros d r Hne H. unfold vis.
  assert (forallb (reflected d) (req_ops r) = false) as ->.
  { destruct (req_ops r) as [|o t]; [congruence|]. cbn [forallb]. rewrite (H o) by (left; reflexivity). reflexivity. }
  assert (existsb (reflected d) (req_ops r) = false) as ->; [|reflexivity].
  destruct (existsb (reflected d) (req_ops r)) eqn:E; [|reflexivity].
  apply existsb_exists in E. destruct E as [o [Ho Hr]]. rewrite (H o Ho) in Hr. discriminate.
Qed.

Theorem vis_final_gen : forall sk (items : list item) (unsent : list req) d0 d',
  sk_ok sk = true ->
  data_eq d' (apply_ops d0 (sel_ops sk items)) ->
  NoDup (map op_key (flat_map req_ops (map it_req items ++ unsent))) ->
  (forall o, In o (flat_map req_ops (map it_req items ++ unsent)) -> reflected d0 o = false) ->
  (forall q, In q (map it_req items ++ unsent) -> no_ops q = false -> quiet q = false) ->
  (forall x, In x items -> vis d' (it_req x) = if it_committed x || no_ops (it_req x) then 1 else 0) /\
  (forall q, In q unsent -> vis d' q = if no_ops q then 1 else 0).
Proof.
  intros sk items unsent d0 d' Hok Hdata Hnd Hfresh Hshape.
  set (F := fun x : item => req_ops (it_req x)).
  set (G := fun x : item => if it_committed x then eff_ops sk (it_req x) else []).
  assert (HG : forall x, G x = F x \/ G x = []).
  { intros x. unfold G, F. destruct (it_committed x); [apply eff_ops_cases|right; reflexivity]. }
  rewrite flat_map_app, flat_map_map in Hnd, Hfresh. fold F in Hnd, Hfresh.
  set (A := flat_map F items) in *. set (U := flat_map req_ops unsent) in *.
  assert (HL : sel_ops sk items = flat_map G items) by reflexivity.
  pose proof (NoDup_map_inv _ _ Hnd) as HndAll.
  pose proof Hnd as Hnd2. rewrite map_app in Hnd2. apply NoDup_app_elim in Hnd2. destruct Hnd2 as [HndA [HndU HdisjK]].
  apply NoDup_app_elim in HndAll. destruct HndAll as [HA [HU Hdisj]].
  assert (HndL : NoDup (map op_key (sel_ops sk items))).
  { rewrite HL. eapply NoDup_keys_sel; [exact HG|exact HndA]. }
  assert (HinL : forall o, In o (sel_ops sk items) -> exists y, In y items /\ it_committed y = true /\ In o (F y)).
  { intros o Ho. rewrite HL in Ho. apply in_flat_map in Ho. destruct Ho as [y [Hy Hoy]]. exists y. unfold G in Hoy.
    destruct (it_committed y) eqn:Ec; [|contradiction]. split; [exact Hy|split; [reflexivity|]].
    unfold F. destruct (eff_ops_cases sk (it_req y)) as [E|E]; rewrite E in Hoy; [exact Hoy|contradiction]. }
  split.
  - intros x Hx. rewrite (vis_data d' _ _ Hdata).
    destruct (no_ops (it_req x)) eqn:Hno.
    + rewrite orb_true_r. apply vis_all. unfold no_ops in Hno. destruct (req_ops (it_req x)); [intros o []|discriminate].
    + assert (Hq : quiet (it_req x) = false) by (apply Hshape; [apply in_or_app; left; apply in_map; exact Hx|exact Hno]).
      rewrite orb_false_r. destruct (it_committed x) eqn:Hc.
      * apply vis_all. intros o Ho. apply reflected_apply_ops_in; [exact HndL|].
        rewrite HL. apply in_flat_map. exists x. split; [exact Hx|]. unfold G. rewrite Hc, (eff_ops_full sk _ Hok Hq). exact Ho.
      * apply vis_none; [unfold no_ops in Hno; destruct (req_ops (it_req x)); [discriminate|intros E; discriminate]|]. intros o Ho.
        rewrite reflected_apply_ops_notin.
        -- apply Hfresh. apply in_or_app. left. apply in_flat_map. exists x. split; assumption.
        -- intros Hk. apply in_map_iff in Hk. destruct Hk as [o' [Ek Ho']].
           destruct (HinL o' Ho') as [y [Hy [Hcy Hoy]]].
           assert (HoA : In o A) by (apply in_flat_map; exists x; split; assumption).
           assert (Ho'A : In o' A) by (apply in_flat_map; exists y; split; assumption).
           assert (o' = o) by (eapply (NoDup_map_in_inj _ _ op_key (A ++ U)); [exact Hnd|apply in_or_app; left; exact Ho'A|apply in_or_app; left; exact HoA|exact Ek]).
           subst o'. destruct (NoDup_flat_map_same _ _ F items x y o HA Hx Hy Ho Hoy) as [E|[]].
           subst y. congruence.
  - intros q Hq. rewrite (vis_data d' _ _ Hdata).
    destruct (no_ops q) eqn:Hno.
    + apply vis_all. unfold no_ops in Hno. destruct (req_ops q); [intros o []|discriminate].
    + apply vis_none; [unfold no_ops in Hno; destruct (req_ops q); [discriminate|intros E; discriminate]|]. intros o Ho.
      assert (HoU : In o U) by (apply in_flat_map; exists q; split; assumption).
      rewrite reflected_apply_ops_notin; [apply Hfresh; apply in_or_app; right; exact HoU|].
      intros Hk. apply in_map_iff in Hk. destruct Hk as [o' [Ek Ho']].
      destruct (HinL o' Ho') as [y [Hy [Hcy Hoy]]].
      assert (Ho'A : In o' A) by (apply in_flat_map; exists y; split; assumption).
      assert (o' = o) by (eapply (NoDup_map_in_inj _ _ op_key (A ++ U)); [exact Hnd|apply in_or_app; left; exact Ho'A|apply in_or_app; right; exact HoU|exact Ek]).
      subst o'. exact (Hdisj o Ho'A HoU).
Qed.

Lemma shape_no_ops : forall q, req_shape q = true -> no_ops q = quiet q.
Proof.
  intros q H. unfold req_shape in H. unfold no_ops, quiet. destruct (r_kind q); destruct (req_ops q); try reflexivity; discriminate.
Qed.
Theorem vis_final : forall sk (items : list item) (unsent : list req) d0 d',
  sk_ok sk = true ->
  data_eq d' (apply_ops d0 (sel_ops sk items)) ->
  NoDup (map op_key (flat_map req_ops (map it_req items ++ unsent))) ->
  (forall o, In o (flat_map req_ops (map it_req items ++ unsent)) -> reflected d0 o = false) ->
  (forall q, In q (map it_req items ++ unsent) -> req_shape q = true) ->
  (forall x, In x items -> vis d' (it_req x) = if it_committed x || quiet (it_req x) then 1 else 0) /\
  (forall q, In q unsent -> vis d' q = if quiet q then 1 else 0).
Proof.
  intros sk items unsent d0 d' Hok Hdata Hnd Hfresh Hshape.
  destruct (vis_final_gen sk items unsent d0 d' Hok Hdata Hnd Hfresh) as [H1 H2].
  { intros q Hq Hno. rewrite <- (shape_no_ops q (Hshape q Hq)). exact Hno. }
  split.
  - intros x Hx. rewrite (H1 x Hx). rewrite (shape_no_ops (it_req x)); [reflexivity|]. apply Hshape. apply in_or_app. left. apply in_map. exact Hx.
  - intros q Hq. rewrite (H2 q Hq). rewrite (shape_no_ops q); [reflexivity|]. apply Hshape. apply in_or_app. right. exact Hq.
Qed.

(* ------------------------------------------------------------------ acknowledgements *)
Definition ack_sound (x : item) : Prop :=
  (it_ack x = Some true -> it_committed x = true) /\
  (it_ack x = Some false -> it_committed x = false) /\
  (it_ack x <> None -> quiet (it_req x) = false).

Lemma route_code_inj : forall a b, route_code a = route_code b -> a = b.
Proof. intros a b H. destruct a; destruct b; try reflexivity; vm_compute in H; discriminate. Qed.

Lemma ack_req_sound : forall sk ok au r seen,
  sk_ok sk = true -> (au = false -> seen = true) -> seen && needs r = false ->
  ack_sound (r, fst (ack_req sk ok au r), ok) /\
  (snd (ack_req sk ok au r) = false -> seen || revokes r = true).
Proof.
  intros sk ok au r seen Hok Hau Hk.
  destruct (sk_ok_arm sk (r_kind r) Hok) as [a [Ha [Hkind Hg]]].
  unfold ack_req. rewrite Ha. rewrite (ag_pol_ok a Hg), (ag_pol_err a Hg). cbn [negb].
  assert (Hroute : (if ok then a_ok a else a_err a) = a_ok a).
  { destruct ok; [reflexivity|]. symmetry. apply route_code_inj. apply (ag_route a Hg). }
  rewrite Hroute.
  assert (Hcar : (if ok then true else false) = ok) by (destruct ok; reflexivity). rewrite Hcar.
  assert (Hloud : a_ok a = RDirect \/ a_ok a = RAuth -> quiet r = false).
  { intros Hr. unfold quiet. destruct (r_kind r) eqn:Ek; try reflexivity;
      (destruct (ag_quiet a Hg) as [E|E]; [rewrite Hkind; auto|rewrite E in Hr; destruct Hr; discriminate|rewrite E in Hr; destruct Hr; discriminate]). }
  unfold ack_sound, it_ack, it_committed, it_req. cbn [fst snd].
  destruct (a_ok a) eqn:Er; cbn [fst snd].
  - (* RDirect *) split; [|intros E; rewrite (Hau E); reflexivity].
    split; [intros E; inversion E; reflexivity|split; [intros E; inversion E; reflexivity|intros _; apply Hloud; auto]].
  - (* RAuth *) destruct ok; cbn [fst snd].
    + destruct (r_auth r) as [| |n rv] eqn:Eau; cbn [fst snd].
      * split; [|intros E; rewrite (Hau E); reflexivity].
        split; [auto|split; [discriminate|intros _; apply Hloud; auto]].
      * split; [|intros E; rewrite (Hau E); reflexivity].
        split; [auto|split; [discriminate|intros _; apply Hloud; auto]].
      * destruct (n && negb au) eqn:En; cbn [fst snd].
        -- exfalso. apply andb_true_iff in En. destruct En as [En1 En2]. apply negb_true_iff in En2.
           rewrite (Hau En2) in Hk. unfold needs in Hk. rewrite Eau, En1 in Hk. discriminate.
        -- split; [split; [auto|split; [discriminate|intros _; apply Hloud; auto]]|].
           unfold revokes. rewrite Eau. destruct rv; [intros _; apply orb_true_r|].
           intros E. rewrite (Hau E). reflexivity.
    + split; [|intros E; rewrite (Hau E); reflexivity].
      split; [discriminate|split; [auto|intros _; apply Hloud; auto]].
  - (* RDb *) split; [|intros E; rewrite (Hau E); reflexivity]. split; [discriminate|split; [discriminate|intros H; contradiction]].
  - (* RNone *) split; [|intros E; rewrite (Hau E); reflexivity]. split; [discriminate|split; [discriminate|intros H; contradiction]].
Qed.

Lemma ack_batch_sound : forall sk ok b rest au seen,
  sk_ok sk = true -> k2 seen (b ++ rest) = false -> (au = false -> seen = true) ->
  Forall ack_sound (fst (ack_batch sk ok au b)) /\
  exists seen', k2 seen' rest = false /\ (snd (ack_batch sk ok au b) = false -> seen' = true).
Proof.
  intros sk ok. induction b as [|r b IH]; intros rest au seen Hok Hk Hau; cbn [ack_batch app] in *.
  - split; [constructor|]. exists seen. split; assumption.
  - cbn [k2] in Hk. apply orb_false_iff in Hk. destruct Hk as [Hk1 Hk2].
    pose proof (ack_req_sound sk ok au r seen Hok Hau Hk1) as [Hs Hau1].
    destruct (ack_req sk ok au r) as [a au1]. cbn [fst snd] in Hs, Hau1.
    specialize (IH rest au1 (seen || revokes r) Hok Hk2 Hau1).
    destruct (ack_batch sk ok au1 b) as [l au2]. cbn [fst snd] in *.
    destruct IH as [IH1 IH2]. split; [constructor; assumption|exact IH2].
Qed.

Theorem run_batches_acks : forall sk sched bs n st au seen,
  sk_ok sk = true -> k2 seen (concat bs) = false -> (au = false -> seen = true) ->
  Forall ack_sound (rr_items (run_batches sk sched n st au bs)).
Proof.
  intros sk sched. induction bs as [|b bs IH]; intros n st au seen Hok Hk Hau; cbn [run_batches concat] in *; [constructor|].
  destruct (run_batch sk sched n st b) as [[[st' o] n'] last].
  destruct o as [ok|c].
  - pose proof (ack_batch_sound sk ok b (concat bs) au seen Hok Hk Hau) as [H1 [seen' [H2 H3]]].
    destruct (ack_batch sk ok au b) as [items au']. cbn [fst snd rr_items] in *.
    apply Forall_app. split; [exact H1|]. eapply IH; eauto.
  - cbn [rr_items]. apply Forall_app. split; apply Forall_forall; intros x Hx; apply in_map_iff in Hx;
      destruct Hx as [q [E _]]; subst x; unfold ack_sound, it_ack; cbn [fst snd];
      (split; [discriminate|split; [discriminate|intros H; contradiction]]).
Qed.

(* ------------------------------------------------------------------ the boolean log checks *)
Lemma filter_none : forall A (f : A -> N) c l, ~ In c (map f l) -> filter (fun x => N.eqb (f x) c) l = [].
Proof.
  induction l as [|x l IH]; intros H; cbn [filter map In] in *; [reflexivity|].
  assert (N.eqb (f x) c = false) as -> by (apply N.eqb_neq; tauto). apply IH. tauto.
Qed.
Lemma count_outside_cells : forall d c, ~ In c (cells d) -> count_cell d c = 0%N /\ nlookup c (d_log d) = None.
Proof.
  intros d c H. unfold cells in H. split.
  - unfold count_cell.
    match goal with |- context [filter ?f (d_rows d)] => assert (Hr : filter f (d_rows d) = []) end.
    { apply (filter_none _ (fun kv : rkey * N => fst (fst kv)) c (d_rows d)). intros Hi. apply H. apply in_or_app. left. exact Hi. }
    match goal with |- context [filter ?f (d_tombs d)] => assert (Ht : filter f (d_tombs d) = []) end.
    { apply (filter_none _ (fun k : rkey => fst k) c (d_tombs d)). intros Hi. apply H. apply in_or_app. right. apply in_or_app. left. exact Hi. }
    rewrite Hr, Ht. reflexivity.
  - apply nlookup_not_in. intros Hi. apply H. apply in_or_app. right. apply in_or_app. right. exact Hi.
Qed.
Lemma loginv_b_sound : forall d, loginv_b d = true -> LogInv d.
Proof.
  intros d H c Hc. unfold cellinv. destruct (in_dec N.eq_dec c (cells d)) as [Hi|Hn].
  - unfold loginv_b in H. rewrite forallb_forall in H. specialize (H c Hi). unfold cell_inv in H.
    assert (N.eqb c 0 = false) as E by (apply N.eqb_neq; exact Hc). rewrite E in H. cbn [orb] in H.
    destruct (nlookup c (d_log d)) as [[dirty n]|].
    + apply orb_true_iff in H. destruct H as [H|H]; [left; exact H|right; apply N.eqb_eq; exact H].
    + apply N.eqb_eq. exact H.
  - destruct (count_outside_cells d c Hn) as [H1 H2]. rewrite H2. exact H1.
Qed.
Lemma loginv_b_complete : forall d, LogInv d -> loginv_b d = true.
Proof.
  intros d H. unfold loginv_b. apply forallb_forall. intros c _. unfold cell_inv.
  destruct (N.eqb c 0) eqn:E; [reflexivity|]. cbn [orb]. apply N.eqb_neq in E. specialize (H c E). unfold cellinv in H.
  destruct (nlookup c (d_log d)) as [[dirty n]|].
  - destruct H as [H|H]; [rewrite H; reflexivity|rewrite H, N.eqb_refl; apply orb_true_r].
  - rewrite H. reflexivity.
Qed.
Lemma consistent_b_complete : forall d, Consistent d -> consistent_b d = true.
Proof.
  intros d H. unfold consistent_b. apply forallb_forall. intros c _. unfold cell_cons.
  destruct (N.eqb c 0) eqn:E; [reflexivity|]. cbn [orb]. apply N.eqb_neq in E. specialize (H c E). unfold cellcons in H.
  destruct (nlookup c (d_log d)) as [[dirty n]|].
  - destruct H as [H1 H2]. rewrite H1, H2, N.eqb_refl. reflexivity.
  - rewrite H. reflexivity.
Qed.
Lemma covers_sound : forall sk r, covers sk r = true -> Covers sk r.
Proof.
  intros sk r H o Ho. unfold covers in H. rewrite forallb_forall in H. specialize (H o Ho).
  apply orb_true_iff in H. destruct H as [H|H]; [left; apply N.eqb_eq; exact H|right].
  apply existsb_exists in H. destruct H as [c [Hc E]]. apply N.eqb_eq in E. rewrite E. exact Hc.
Qed.

(* ------------------------------------------------------------------ the observation vector *)
Lemma triples_flat : forall A (fa fl fv : A -> Z) l rest,
  triples (length l) (flat_map (fun x => [fa x; fl x; fv x]) l ++ rest) = Some (map (fun x => (fa x, fl x, fv x)) l, rest).
Proof.
  induction l as [|x l IH]; intros rest; cbn [length flat_map app triples map]; [reflexivity|].
  rewrite IH. reflexivity.
Qed.
Lemma triples_app : forall n1 n2 obs ts1 obs' ts2 rest,
  triples n1 obs = Some (ts1, obs') -> triples n2 obs' = Some (ts2, rest) ->
  triples (n1 + n2) obs = Some (ts1 ++ ts2, rest).
Proof.
  induction n1 as [|n1 IH]; intros n2 obs ts1 obs' ts2 rest H1 H2; cbn [triples plus] in *.
  - inversion H1; subst. exact H2.
  - destruct obs as [|a [|l [|v t]]]; try discriminate.
    destruct (triples n1 t) as [[ts tl]|] eqn:E; [|discriminate]. inversion H1; subst.
    rewrite (IH n2 t ts obs' ts2 rest E H2). reflexivity.
Qed.

Lemma req_ok_item : forall (a : option bool) (alive : bool) (v : Z) (committed qt : bool),
  v = (if committed || qt then 1 else 0) ->
  (a = Some true -> committed = true) ->
  (a = Some false -> committed = false) ->
  (a <> None -> qt = false) ->
  req_ok (ack_code a, (if alive then v else -1), v) = true.
Proof.
  intros a alive v committed qt Hv H1 H2 H3. subst v.
  destruct a as [[|]|].
  - rewrite (H1 eq_refl). destruct alive; reflexivity.
  - rewrite (H2 eq_refl), (H3 ltac:(discriminate)). destruct alive; reflexivity.
  - destruct (committed || qt); destruct alive; reflexivity.
Qed.

(* ------------------------------------------------------------------ sublists *)
Inductive sublist {A} : list A -> list A -> Prop :=
| sl_nil : forall l, sublist [] l
| sl_skip : forall a l1 l2, sublist l1 l2 -> sublist l1 (a :: l2)
| sl_keep : forall a l1 l2, sublist l1 l2 -> sublist (a :: l1) (a :: l2).
Lemma sublist_refl : forall A (l : list A), sublist l l.
Proof. induction l as [|a l IH]; [apply sl_nil|apply sl_keep; exact IH]. Qed.
Lemma sublist_app_r : forall A (l l1 l2 : list A), sublist l l2 -> sublist l (l1 ++ l2).
Proof. induction l1; intros; cbn [app]; [assumption|apply sl_skip; auto]. Qed.
Lemma sublist_app : forall A (a a' b b' : list A), sublist a a' -> sublist b b' -> sublist (a ++ b) (a' ++ b').
Proof. intros A a a' b b' H. induction H; intros Hb; cbn [app]; [apply sublist_app_r; exact Hb|apply sl_skip; auto|apply sl_keep; auto]. Qed.
Lemma sublist_in : forall A (l1 l2 : list A) x, sublist l1 l2 -> In x l1 -> In x l2.
Proof. intros A l1 l2 x H. induction H; intros Hi; cbn [In] in *; [contradiction|right; auto|destruct Hi; [left; assumption|right; auto]]. Qed.
Lemma sublist_flat_map : forall A B (g : A -> list B) l1 l2, sublist l1 l2 -> sublist (flat_map g l1) (flat_map g l2).
Proof. intros A B g l1 l2 H. induction H; cbn [flat_map]; [apply sl_nil|apply sublist_app_r; assumption|apply sublist_app; [apply sublist_refl|assumption]]. Qed.
Lemma sublist_map : forall A B (f : A -> B) l1 l2, sublist l1 l2 -> sublist (map f l1) (map f l2).
Proof. intros A B f l1 l2 H. induction H; cbn [map]; [apply sl_nil|apply sl_skip; auto|apply sl_keep; auto]. Qed.
Lemma sublist_NoDup : forall A (l1 l2 : list A), sublist l1 l2 -> NoDup l2 -> NoDup l1.
Proof.
  intros A l1 l2 H. induction H; intros Hn; [constructor| |].
  - inversion Hn; auto.
  - inversion Hn as [|? ? Hx Hr]; subst. constructor; [|auto]. intros Hi. apply Hx. eapply sublist_in; eauto.
Qed.

(* ------------------------------------------------------------------ the start script *)
Definition script_ok (sc : list sstep) : Prop := forall b, In (SAwait b) sc -> forall r, In r b -> req_ops r = [].
Lemma eff_ops_none : forall sk b, (forall r, In r b -> req_ops r = []) -> flat_map (eff_ops sk) b = [].
Proof.
  intros sk b H. induction b as [|r b IH]; cbn [flat_map]; [reflexivity|].
  rewrite IH by (intros r' Hr'; apply H; right; exact Hr').
  destruct (eff_ops_cases sk r) as [E|E]; rewrite E; [rewrite (H r (or_introl eq_refl))|]; reflexivity.
Qed.

Theorem script_structure : forall sk sched sc n st lo started, script_ok sc ->
  let r := run_script sk sched n st lo started sc in
  sublist (map it_req (sr_items r)) (script_reqs sc) /\
  data_eq (w_disk (sr_state r)) (apply_ops (w_disk st) (sel_ops sk (sr_items r))).
Proof.
  intros sk sched. induction sc as [|s sc IH]; intros n st lo started Hok; cbv zeta; cbn [run_script].
  - cbn. split; [constructor|apply data_eq_refl].
  - assert (Hok' : script_ok sc) by (intros b Hb; apply Hok; right; exact Hb).
    destruct s as [b|b| |]; cbn [script_reqs flat_map].
    + (* SAwait *)
      pose proof (run_batch_atomic sk sched n st b) as Hat. cbv zeta in Hat.
      destruct (run_batch sk sched n st b) as [[[st' o] n'] last]. cbn [fst snd] in Hat.
      assert (Hnone : flat_map (eff_ops sk) b = []) by (apply eff_ops_none; apply (Hok b); left; reflexivity).
      assert (Hd : data_eq (w_disk st') (w_disk st)).
      { destruct o as [[|]|[|]]; cbn [batch_post] in Hat; try (rewrite Hat; apply data_eq_refl);
          destruct Hat as [_ [Hx _]]; rewrite Hx; pose proof (txn_body_data sk b (w_disk st)) as T; rewrite Hnone in T; exact T. }
      destruct o as [[|]|c]; cbn [sr_items sr_state map sel_ops flat_map apply_ops fold_left].
      * specialize (IH n' st' true started Hok'). cbv zeta in IH. destruct IH as [I1 I2].
        split; [apply sublist_app_r; exact I1|]. eapply data_eq_trans; [exact I2|]. apply data_eq_apply_ops. exact Hd.
      * split; [constructor|exact Hd].
      * split; [constructor|exact Hd].
    + (* SFree *)
      pose proof (run_batch_atomic sk sched n st b) as Hat. cbv zeta in Hat.
      destruct (run_batch sk sched n st b) as [[[st' o] n'] last]. cbn [fst snd] in Hat.
      destruct o as [ok|c].
      * pose proof (ack_batch_items sk ok b true) as [Hi1 Hi2].
        destruct (ack_batch sk ok true b) as [items au']. cbn [fst] in Hi1, Hi2.
        specialize (IH n' st' ok started Hok'). cbv zeta in IH. destruct IH as [I1 I2].
        cbn [sr_items sr_state]. split.
        -- rewrite map_app, Hi1. apply sublist_app; [apply sublist_refl|exact I1].
        -- rewrite sel_ops_app, apply_ops_app. eapply data_eq_trans; [exact I2|].
           apply data_eq_apply_ops. rewrite (sel_ops_const sk items ok Hi2), Hi1.
           destruct ok; cbn [batch_post] in Hat.
           ++ destruct Hat as [_ [Hx _]]. rewrite Hx. apply txn_body_data.
           ++ rewrite Hat. apply data_eq_refl.
      * cbn [sr_items sr_state]. split.
        -- rewrite items_dead_req. rewrite <- (app_nil_r b) at 1. apply sublist_app; [apply sublist_refl|apply sl_nil].
        -- rewrite sel_ops_dead. destruct c; cbn [batch_post] in Hat.
           ++ destruct Hat as [_ [Hx _]]. rewrite Hx. apply txn_body_data.
           ++ rewrite Hat. apply data_eq_refl.
    + destruct (sched (n + 1)%N); try (apply IH; exact Hok'). cbn. split; [constructor|apply data_eq_refl].
    + destruct lo; [|apply IH; exact Hok'].
      destruct (sched (n + 1)%N); try (apply IH; exact Hok'). cbn. split; [constructor|apply data_eq_refl].
Qed.

Theorem script_loginv : forall sk sched sc n st lo started,
  (forall r, In r (script_reqs sc) -> Covers sk r) -> LogInv (w_disk st) ->
  LogInv (w_disk (sr_state (run_script sk sched n st lo started sc))).
Proof.
  intros sk sched. induction sc as [|s sc IH]; intros n st lo started Hc Hinv; cbn [run_script]; [exact Hinv|].
  destruct s as [b|b| |]; cbn [script_reqs flat_map] in Hc.
  - pose proof (run_batch_loginv sk sched n st b (fun r Hr => Hc r (in_or_app _ _ _ (or_introl Hr))) Hinv) as Hb.
    destruct (run_batch sk sched n st b) as [[[st' o] n'] last]. cbn [fst] in Hb.
    destruct o as [[|]|c]; cbn [sr_state]; try exact Hb. apply IH; [|exact Hb]. intros r Hr. apply Hc. apply in_or_app. right. exact Hr.
  - pose proof (run_batch_loginv sk sched n st b (fun r Hr => Hc r (in_or_app _ _ _ (or_introl Hr))) Hinv) as Hb.
    destruct (run_batch sk sched n st b) as [[[st' o] n'] last]. cbn [fst] in Hb.
    destruct o as [ok|c]; cbn [sr_state]; [|exact Hb].
    destruct (ack_batch sk ok true b) as [items au']. cbn [sr_state].
    apply IH; [|exact Hb]. intros r Hr. apply Hc. apply in_or_app. right. exact Hr.
  - destruct (sched (n + 1)%N); try (apply IH; assumption). exact Hinv.
  - destruct lo; [|apply IH; assumption]. destruct (sched (n + 1)%N); try (apply IH; assumption). exact Hinv.
Qed.

Lemma k2_anone : forall l seen, (forall r, In r l -> r_auth r = ANone) -> k2 seen l = false.
Proof.
  induction l as [|r l IH]; intros seen H; cbn [k2]; [reflexivity|].
  assert (E : r_auth r = ANone) by (apply H; left; reflexivity).
  unfold needs, revokes. rewrite E. rewrite andb_false_r, orb_false_r. cbn [orb]. apply IH. intros r' Hr'. apply H. right. exact Hr'.
Qed.
Theorem script_acks : forall sk sched sc n st lo started, sk_ok sk = true ->
  (forall r, In r (script_reqs sc) -> r_auth r = ANone) ->
  Forall ack_sound (sr_items (run_script sk sched n st lo started sc)).
Proof.
  intros sk sched. induction sc as [|s sc IH]; intros n st lo started Hok Ha; cbn [run_script]; [constructor|].
  assert (Ha' : forall r, In r (script_reqs sc) -> r_auth r = ANone).
  { intros r Hr. apply Ha. destruct s; cbn [script_reqs flat_map]; try (apply in_or_app; right); exact Hr. }
  destruct s as [b|b| |].
  - destruct (run_batch sk sched n st b) as [[[st' o] n'] last]. destruct o as [[|]|c]; cbn [sr_items]; try constructor. apply IH; assumption.
  - destruct (run_batch sk sched n st b) as [[[st' o] n'] last]. destruct o as [ok|c].
    + assert (Hk : k2 false (b ++ []) = false).
      { apply k2_anone. intros r Hr. rewrite app_nil_r in Hr. apply Ha. cbn [script_reqs flat_map]. apply in_or_app. left. exact Hr. }
      pose proof (ack_batch_sound sk ok b [] true false Hok Hk ltac:(discriminate)) as [H1 _].
      destruct (ack_batch sk ok true b) as [items au']. cbn [fst sr_items] in *. apply Forall_app. split; [exact H1|apply IH; assumption].
    + cbn [sr_items]. apply Forall_forall. intros x Hx. apply in_map_iff in Hx. destruct Hx as [q [E _]]. subst x.
      unfold ack_sound, it_ack. cbn [fst snd]. split; [discriminate|split; [discriminate|intros H; contradiction]].
  - destruct (sched (n + 1)%N); try (apply IH; assumption). constructor.
  - destruct lo; [|apply IH; assumption]. destruct (sched (n + 1)%N); try (apply IH; assumption). constructor.
Qed.

(* ------------------------------------------------------------------ the property, outside the known class *)
Lemma spec_run_case : forall init batches unsent f, let c := CRun init batches unsent f in
  wf_case c = true -> known_C13 c = [] -> spec_C13 c (run_C13 c) = true.
Proof.
  intros init batches unsent f c Hwf Hk. subst c.
  cbn [wf_case] in Hwf.
  apply andb_true_iff in Hwf. destruct Hwf as [Hwf Hinv0].
  apply andb_true_iff in Hwf. destruct Hwf as [Hwf Hrej].
  apply andb_true_iff in Hwf. destruct Hwf as [Hwf Hshape].
  apply andb_true_iff in Hwf. destruct Hwf as [Hwf Hcov].
  apply andb_true_iff in Hwf. destruct Hwf as [Hnd Hfresh].
  cbn [known_C13] in Hk. destruct (k2 false (concat batches)) eqn:Hk2; [discriminate|]. clear Hk.
  pose proof code_skeleton_ok as Hok.
  set (sk := code_skeleton) in *. set (d0 := init_disk init) in *.
  set (st0 := {| w_disk := d0; w_stuck := false |}).
  pose proof (run_batches_structure sk (sched_of f) batches 0%N st0 true) as Hstr. cbv zeta in Hstr.
  pose proof (run_batches_acks sk (sched_of f) batches 0%N st0 true false Hok Hk2 ltac:(discriminate)) as Hacks.
  assert (Hlog : LogInv (w_disk (rr_state (run_batches sk (sched_of f) 0%N st0 true batches)))).
  { apply run_batches_loginv; [|apply loginv_b_sound; exact Hinv0].
    intros r Hr. apply covers_sound. rewrite forallb_forall in Hcov. apply Hcov. exact Hr. }
  unfold run_C13, run_model. fold sk. fold d0. fold st0.
  set (r := run_batches sk (sched_of f) 0%N st0 true batches) in *.
  destruct Hstr as [Hreqs Hdata]. cbn [w_disk] in Hdata.
  set (d' := w_disk (rr_state r)) in *. set (dr := restart (rr_state r)).
  assert (Hdr : data_eq dr d') by (apply data_eq_recompute).
  (* visibility *)
  rewrite <- Hreqs in Hnd, Hfresh, Hshape.
  pose proof (vis_final sk (rr_items r) (map fst unsent) d0 d' Hok Hdata
                (nodup_keys_NoDup _ Hnd)) as Hvis.
  assert (Hfresh' : forall o, In o (flat_map req_ops (map it_req (rr_items r) ++ map fst unsent)) -> reflected d0 o = false).
  { intros o Ho. rewrite forallb_forall in Hfresh. specialize (Hfresh o Ho). apply negb_true_iff in Hfresh. exact Hfresh. }
  assert (Hshape' : forall q, In q (map it_req (rr_items r) ++ map fst unsent) -> req_shape q = true).
  { intros q Hq. rewrite forallb_forall in Hshape. apply Hshape. exact Hq. }
  specialize (Hvis Hfresh' Hshape'). destruct Hvis as [Hvis1 Hvis2].
  (* parse the vector *)
  cbn [spec_C13].
  assert (Hlen : length (concat batches) = length (rr_items r)) by (rewrite <- Hreqs; apply map_length).
  rewrite Hlen.
  set (live := fun q : req => if rr_alive r then vis d' q else -1).
  set (tail7 := [zb (rr_alive r); zn (if rr_alive r then rr_hits r else rr_last r); zb (loginv_b d'); zb (consistent_b dr); 1; 1; 1]).
  rewrite <- !app_assoc.
  pose proof (triples_flat item (fun x => ack_code (it_ack x)) (fun x => live (it_req x)) (fun x => vis dr (it_req x)) (rr_items r)
                (flat_map (fun x : req * bool => [if snd x then 2 else 0; live (fst x); vis dr (fst x)]) unsent ++ tail7 ++ [zb (wf_case (CRun init batches unsent f))])) as T1.
  pose proof (triples_flat (req * bool) (fun x => if snd x then 2 else 0) (fun x => live (fst x)) (fun x => vis dr (fst x)) unsent (tail7 ++ [zb (wf_case (CRun init batches unsent f))])) as T2.
  unfold live in T1, T2. cbv beta in T1, T2. rewrite (triples_app _ _ _ _ _ _ _ T1 T2).
  unfold tail7. cbn [app].
  assert (Hl1 : loginv_b d' = true) by (apply loginv_b_complete; exact Hlog).
  assert (Hl2 : consistent_b dr = true) by (apply consistent_b_complete; apply recompute_consistent; exact Hlog).
  rewrite Hl1, Hl2. cbn [zb Z.eqb Pos.eqb andb]. rewrite !andb_true_r.
  rewrite forallb_app. apply andb_true_iff. split; apply forallb_forall; intros t Ht; apply in_map_iff in Ht; destruct Ht as [x [E Hx]]; subst t.
  - rewrite Forall_forall in Hacks. destruct (Hacks x Hx) as [Ha1 [Ha2 Ha3]].
    rewrite (vis_data dr d' _ Hdr).
    apply (req_ok_item (it_ack x) (rr_alive r) (vis d' (it_req x)) (it_committed x) (quiet (it_req x))); auto.
  - rewrite (vis_data dr d' _ Hdr). rewrite (Hvis2 (fst x) (in_map fst _ _ Hx)).
    rewrite forallb_forall in Hrej. specialize (Hrej x Hx). fold (quiet (fst x)) in Hrej.
    destruct (snd x); destruct (quiet (fst x)); try discriminate; destruct (rr_alive r); reflexivity.
Qed.

(* ------------------------------------------------------------------ statements for props/C13.v *)
(* (1) one call of process_batch_write under ANY fault schedule, ANY skeleton *)
Theorem batch_atomic : forall sk sched n st b st' o n' last,
  run_batch sk sched n st b = (st', o, n', last) ->
  (w_disk st' = w_disk st \/ w_disk st' = txn_body sk b (w_disk st)) /\
  (o = Returned true -> w_disk st' = txn_body sk b (w_disk st)) /\
  (o = Returned false -> w_disk st' = w_disk st) /\
  (forall c, o = Died c -> w_disk st' = if c then txn_body sk b (w_disk st) else w_disk st).
Proof.
  intros sk sched n st b st' o n' last H.
  pose proof (run_batch_atomic sk sched n st b) as Hat. cbv zeta in Hat. rewrite H in Hat. cbn [fst snd] in Hat.
  destruct o as [[|]|[|]]; cbn [batch_post] in Hat.
  - destruct Hat as [_ [Hd _]]. split; [right; exact Hd|]. split; [intros _; exact Hd|]. split; [discriminate|intros c E; discriminate].
  - split; [left; exact Hat|]. split; [discriminate|]. split; [intros _; exact Hat|intros c E; discriminate].
  - destruct Hat as [_ [Hd _]]. split; [right; exact Hd|]. split; [discriminate|]. split; [discriminate|].
    intros c E. inversion E. subst. exact Hd.
  - split; [left; exact Hat|]. split; [discriminate|]. split; [discriminate|].
    intros c E. inversion E. subst. exact Hat.
Qed.

(* (2) acknowledged Ok => the batch was committed; no exception *)
Lemma ack_req_ok_committed : forall sk ok au r, sk_ok sk = true -> fst (ack_req sk ok au r) = Some true -> ok = true.
Proof.
  intros sk ok au r Hok H.
  destruct (sk_ok_arm sk (r_kind r) Hok) as [a [Ha [Hkind Hg]]].
  unfold ack_req in H. rewrite Ha in H. rewrite (ag_pol_ok a Hg), (ag_pol_err a Hg) in H. cbn [negb] in H.
  destruct ok; [reflexivity|]. destruct (a_err a); cbn [fst] in H; discriminate.
Qed.
Lemma ack_batch_ok_committed : forall sk ok b au, sk_ok sk = true ->
  Forall (fun x => it_ack x = Some true -> it_committed x = true) (fst (ack_batch sk ok au b)).
Proof.
  intros sk ok. induction b as [|r b IH]; intros au Hok; cbn [ack_batch]; [constructor|].
  pose proof (ack_req_ok_committed sk ok au r Hok) as H1.
  destruct (ack_req sk ok au r) as [a au1]. specialize (IH au1 Hok).
  destruct (ack_batch sk ok au1 b) as [l au2]. cbn [fst] in *. constructor; [|exact IH].
  unfold it_ack, it_committed. cbn [fst snd]. exact H1.
Qed.
Theorem ack_after_commit : forall sk sched bs n st au, sk_ok sk = true ->
  Forall (fun x => it_ack x = Some true -> it_committed x = true) (rr_items (run_batches sk sched n st au bs)).
Proof.
  intros sk sched. induction bs as [|b bs IH]; intros n st au Hok; cbn [run_batches]; [constructor|].
  destruct (run_batch sk sched n st b) as [[[st' o] n'] last]. destruct o as [ok|c].
  - pose proof (ack_batch_ok_committed sk ok b au Hok) as H1.
    destruct (ack_batch sk ok au b) as [items au']. cbn [fst rr_items] in *. apply Forall_app. split; [exact H1|apply IH; exact Hok].
  - cbn [rr_items]. apply Forall_app. split; apply Forall_forall; intros x Hx; apply in_map_iff in Hx;
      destruct Hx as [q [E _]]; subst x; unfold it_ack; cbn [fst snd]; discriminate.
Qed.

(* (3) marks inside the transaction => the log stays repairable: under any schedule (kills and failures
   anywhere, any number), the committed log keeps the invariant and the start-up recompute makes it consistent *)
Theorem log_repairable : forall sk sched bs n st au,
  (forall r, In r (concat bs) -> Covers sk r) -> LogInv (w_disk st) ->
  LogInv (w_disk (rr_state (run_batches sk sched n st au bs))) /\
  Consistent (restart (rr_state (run_batches sk sched n st au bs))).
Proof.
  intros sk sched bs n st au Hc Hi. pose proof (run_batches_loginv sk sched bs n st au Hc Hi) as H.
  split; [exact H|]. unfold restart. apply recompute_consistent. exact H.
Qed.

(* (4) the whole property for EVERY schedule, outside the known class *)
Theorem every_schedule : forall sk sched batches unsent d0,
  sk_ok sk = true ->
  NoDup (map op_key (flat_map req_ops (concat batches ++ unsent))) ->
  (forall o, In o (flat_map req_ops (concat batches ++ unsent)) -> reflected d0 o = false) ->
  (forall q, In q (concat batches ++ unsent) -> req_shape q = true) ->
  (forall q, In q (concat batches) -> Covers sk q) ->
  LogInv d0 ->
  k2 false (concat batches) = false ->
  let r := run_batches sk sched 0%N {| w_disk := d0; w_stuck := false |} true batches in
  let d' := w_disk (rr_state r) in
  map it_req (rr_items r) = concat batches /\
  (forall x, In x (rr_items r) ->
     vis d' (it_req x) = (if it_committed x || quiet (it_req x) then 1 else 0) /\      (* all or nothing *)
     vis (restart (rr_state r)) (it_req x) = vis d' (it_req x) /\                       (* same after restart *)
     (it_ack x = Some true -> it_committed x = true) /\                                 (* acknowledged => applied *)
     (it_ack x = Some false -> it_committed x = false)) /\                              (* reported failed => not applied *)
  (forall q, In q unsent -> vis d' q = if quiet q then 1 else 0) /\
  LogInv d' /\ Consistent (restart (rr_state r)).
Proof.
  intros sk sched batches unsent d0 Hok Hnd Hfresh Hshape Hcov Hinv Hk2. cbv zeta.
  set (st0 := {| w_disk := d0; w_stuck := false |}).
  pose proof (run_batches_structure sk sched batches 0%N st0 true) as Hstr. cbv zeta in Hstr.
  destruct Hstr as [Hreqs Hdata]. cbn [w_disk st0] in Hdata.
  pose proof (run_batches_acks sk sched batches 0%N st0 true false Hok Hk2 ltac:(discriminate)) as Hacks.
  pose proof (log_repairable sk sched batches 0%N st0 true Hcov Hinv) as [Hl1 Hl2].
  rewrite <- Hreqs in Hnd, Hfresh, Hshape.
  destruct (vis_final sk _ unsent d0 _ Hok Hdata Hnd Hfresh Hshape) as [Hv1 Hv2].
  split; [exact Hreqs|]. split; [|split; [exact Hv2|split; assumption]].
  intros x Hx. rewrite Forall_forall in Hacks. destruct (Hacks x Hx) as [Ha1 [Ha2 _]].
  split; [apply Hv1; exact Hx|]. split; [apply vis_data; apply data_eq_recompute|]. split; assumption.
Qed.

(* (5) K1 repaired: every error exit of process_batch_write rolls back, so the connection is never left inside
   a transaction: a failed batch does not take the writer out of service *)
Definition res_unstuck (r : txn_res) : Prop := match r with TErr _ s => s = false | _ => True end.
Lemma stmts_run_unstuck : forall sched a ss n t first, a_rollback a = true -> res_unstuck (stmts_run sched a n t ss first).
Proof.
  intros sched a. induction ss as [|s ss IH]; intros n t first Ha; cbn [stmts_run]; [exact I|].
  destruct first; [apply IH; exact Ha|].
  destruct (sched (n + 1)%N); [apply IH; exact Ha|cbn; rewrite Ha; reflexivity|exact I].
Qed.
Lemma group_steps_unstuck : forall sched a gs acc, a_rollback a = true -> res_unstuck acc ->
  res_unstuck (fold_left (group_step sched a) gs acc).
Proof.
  intros sched a. induction gs as [|g gs IH]; intros acc Ha H; cbn [fold_left]; [exact H|].
  apply IH; [exact Ha|]. unfold group_step. destruct acc as [n t|n s|n p]; try exact H.
  destruct (sched (n + 1)%N); [|cbn; rewrite Ha; reflexivity|exact I].
  pose proof (stmts_run_unstuck sched a g (n + 1)%N (group_pre a t) true Ha) as Hu.
  destruct (stmts_run sched a (n + 1) (group_pre a t) g true) as [n2 t2|n2 s2|n2 p2]; try exact Hu.
  destruct (sched (n2 + 1)%N); exact I.
Qed.
Lemma req_steps_unstuck : forall sk sched b acc, arms_rollback sk = true -> res_unstuck acc ->
  res_unstuck (fold_left (req_step sk sched) b acc).
Proof.
  intros sk sched. induction b as [|r b IH]; intros acc Hrb H; cbn [fold_left]; [exact H|].
  apply IH; [exact Hrb|]. unfold req_step. destruct (arm_of sk (r_kind r)) as [a|] eqn:Ea; [|exact H].
  destruct (a_fallible a) eqn:Ef; [|exact H]. apply group_steps_unstuck; [|exact H].
  destruct (arm_of_some _ _ _ Ea) as [Hin _]. unfold arms_rollback in Hrb. rewrite forallb_forall in Hrb.
  specialize (Hrb a Hin). rewrite Ef in Hrb. exact Hrb.
Qed.
Theorem never_wedged : forall sk sched n st b st' o n' last,
  sk_ok sk = true -> w_stuck st = false -> run_batch sk sched n st b = (st', o, n', last) -> w_stuck st' = false.
Proof.
  intros sk sched n st b st' o n' last Hok Hs H. unfold sk_ok in Hok.
  apply andb_true_iff in Hok. destruct Hok as [Hok Hexits].
  apply andb_true_iff in Hok. destruct Hok as [Hok _].
  apply andb_true_iff in Hok. destruct Hok as [Hok _].
  apply andb_true_iff in Hok. destruct Hok as [Hok _].
  apply andb_true_iff in Hok. destruct Hok as [_ Hrb].
  unfold exits_rollback in Hexits. apply andb_true_iff in Hexits. destruct Hexits as [Hm Hc].
  assert (Hack : forall stx ok nx, w_stuck stx = false -> ack_point sched stx ok nx = (st', o, n', last) -> w_stuck st' = false).
  { intros stx ok nx Hx E. unfold ack_point in E. destruct (sched (nx + 1)%N); inversion E; subst; exact Hx. }
  unfold run_batch in H. rewrite Hs in H.
  destruct (sched (n + 1)%N).
  - pose proof (req_steps_unstuck sk sched b (TGo (n + 1) (w_disk st)) Hrb I) as Hu.
    destruct (fold_left (req_step sk sched) b (TGo (n + 1) (w_disk st))) as [n1 t|n1 s|n1 p].
    + destruct (sched (n1 + 1)%N).
      * destruct (sched (n1 + 2)%N).
        -- destruct (sched (n1 + 3)%N); try (eapply Hack; [|exact H]; reflexivity). inversion H; subst. reflexivity.
        -- eapply Hack; [|exact H]. cbn. rewrite Hc. reflexivity.
        -- inversion H; subst. exact Hs.
      * eapply Hack; [|exact H]. cbn. rewrite Hm. reflexivity.
      * inversion H; subst. exact Hs.
    + cbn in Hu. subst s. eapply Hack; [|exact H]. reflexivity.
    + inversion H; subst. exact Hs.
  - eapply Hack; [|exact H]. exact Hs.
  - inversion H; subst. exact Hs.
Qed.
Theorem run_never_wedged : forall sk sched bs n st au,
  sk_ok sk = true -> w_stuck st = false -> w_stuck (rr_state (run_batches sk sched n st au bs)) = false.
Proof.
  intros sk sched. induction bs as [|b bs IH]; intros n st au Hok Hs; cbn [run_batches]; [exact Hs|].
  destruct (run_batch sk sched n st b) as [[[st' o] n'] last] eqn:E.
  pose proof (never_wedged _ _ _ _ _ _ _ _ _ Hok Hs E) as Hs'.
  destruct o as [ok|c]; [|exact Hs'].
  destruct (ack_batch sk ok au b) as [items au']. cbn [rr_state]. apply IH; assumption.
Qed.
(* a failed batch is followed by a batch that commits (closed example on the code's skeleton: COMMIT of the first
   batch fails, the second batch is applied and acknowledged) *)
Definition k1_req : req := mkReq KMutation [[[Put 1 7 7]]] [1%N] ANone.
Definition k1_req2 : req := mkReq KMutation [[[Put 1 8 8]]] [1%N] ANone.
Lemma service_continues :
  let r := run_batches code_skeleton (sched_of (FFail 5)) 0 {| w_disk := init_disk []; w_stuck := false |} true [[k1_req]; [k1_req2]] in
  map (fun x => (it_ack x, it_committed x)) (rr_items r) = [(Some false, false); (Some true, true)] /\ w_stuck (rr_state r) = false.
Proof. vm_compute. split; reflexivity. Qed.

(* (6) the known class is real: closed witness = the directed case the harness replays on the real code *)
Definition k2_witness : c13case :=
  CRun [(20000, 20000, 1); (20001, 20001, 1); (20100, 20100, 1); (20101, 20101, 2)]%N
       [[mkReq KWrite [[[Put 0 30900 1]]] [] ANone];
        [mkReq KRoomMutation [[[Put 0 40061 1]]] [] (ANeeds false true);
         mkReq KRoomMutation [[[Put 0 40062 1; Put 2 63 63]]] [2%N] (ANeeds true false)]] [] FNone.
Lemma k2_refutes : wf_case k2_witness = true /\ spec_C13 k2_witness (run_C13 k2_witness) = false /\ known_C13 k2_witness = [1].
Proof. vm_compute. repeat split; reflexivity. Qed.

Definition nonvacuous_case : c13case :=
  CRun [(20000, 20000, 1); (20100, 20100, 1); (20101, 20101, 2)]%N
       [[mkReq KWrite [[[Put 0 30900 1]]] [] ANone];
        [mkReq KMutation [[[Put 1 101 101; Put 2 102 102; Put 0 10102 1]]] [1; 2]%N ANone;
         mkReq KDeletion [[[Del 1 20000]]] [1%N] ANone; mkReq KCompute [[[]]] [] ANone]]
       [(mkReq KNodes [[[Put 1 105 105]]; [[Put 1 106 106]]] [1%N] ANone, false)] (FKill 17).
Lemma nonvacuous : wf_case nonvacuous_case = true /\ known_C13 nonvacuous_case = [] /\
  run_C13 nonvacuous_case = [1; -1; 1;  0; -1; 1;  0; -1; 1;  0; -1; 1;  0; -1; 0;  0; 6; 1; 1; 1; 1; 1; 1].
Proof. vm_compute. repeat split; reflexivity. Qed.

(* ------------------------------------------------------------------ faults during start (CRestart) *)
Lemma pairs_flat : forall A (fa fv : A -> Z) l rest,
  pairs (length l) (flat_map (fun x => [fa x; fv x]) l ++ rest) = Some (map (fun x => (fa x, fv x)) l, rest).
Proof.
  induction l as [|x l IH]; intros rest; cbn [length flat_map app pairs map]; [reflexivity|]. rewrite IH. reflexivity.
Qed.
Lemma length_flat_pairs : forall A (fa fv : A -> Z) l, length (flat_map (fun x => [fa x; fv x]) l) = (2 * length l)%nat.
Proof. induction l as [|x l IH]; cbn [flat_map length app]; [reflexivity|]. rewrite IH. lia. Qed.
Lemma div2_double : forall n, Nat.div2 (2 * n) = n.
Proof. induction n as [|n IH]; [reflexivity|]. replace (2 * S n)%nat with (S (S (2 * n))) by lia. cbn [Nat.div2]. rewrite IH. reflexivity. Qed.
Lemma firstn_exact : forall A (l r : list A), firstn (length l) (l ++ r) = l.
Proof. induction l; intros; cbn [length firstn app]; [reflexivity|]. rewrite IHl. reflexivity. Qed.
Lemma skipn_exact : forall A (l r : list A), skipn (length l) (l ++ r) = r.
Proof. induction l; intros; cbn [length skipn app]; [reflexivity|]. apply IHl. Qed.

Lemma spec_restart_case : forall init batches script f, let c := CRestart init batches script f in
  wf_case c = true -> spec_C13 c (run_C13 c) = true.
Proof.
  intros init batches script f c Hwf. subst c. cbn [wf_case] in Hwf.
  apply andb_true_iff in Hwf. destruct Hwf as [Hwf Hinv0].
  apply andb_true_iff in Hwf. destruct Hwf as [Hwf Hscshape].
  apply andb_true_iff in Hwf. destruct Hwf as [Hwf Hanone].
  apply andb_true_iff in Hwf. destruct Hwf as [Hwf Hawait].
  apply andb_true_iff in Hwf. destruct Hwf as [Hwf Hk2].
  apply andb_true_iff in Hwf. destruct Hwf as [Hwf Hshape].
  apply andb_true_iff in Hwf. destruct Hwf as [Hwf Hcov].
  apply andb_true_iff in Hwf. destruct Hwf as [Hnd Hfresh].
  apply negb_true_iff in Hk2.
  pose proof code_skeleton_ok as Hok.
  set (sk := code_skeleton) in *. set (d0 := init_disk init) in *.
  set (st0 := {| w_disk := d0; w_stuck := false |}).
  rewrite forallb_forall in Hcov, Hshape, Hanone, Hscshape, Hfresh, Hawait.
  assert (Hcov' : forall r, In r (concat batches ++ script_reqs script) -> Covers sk r) by (intros r Hr; apply covers_sound; apply Hcov; exact Hr).
  (* phase A *)
  pose proof (run_batches_structure sk all_go batches 0%N st0 true) as HA. cbv zeta in HA. destruct HA as [HreqA HdataA].
  pose proof (run_batches_go_all sk batches 0%N st0 true eq_refl) as [HgoA _].
  assert (HlogA : LogInv (w_disk (rr_state (run_batches sk all_go 0%N st0 true batches)))).
  { apply run_batches_loginv; [|apply loginv_b_sound; exact Hinv0]. intros r Hr. apply Hcov'. apply in_or_app. left. exact Hr. }
  unfold run_C13, run_model. change all_continue with all_go. fold sk. fold d0. fold st0.
  set (ra := run_batches sk all_go 0%N st0 true batches) in *.
  set (stA := {| w_disk := w_disk (rr_state ra); w_stuck := false |}).
  (* phase B *)
  assert (Hsok : script_ok script).
  { intros b Hb r Hr. specialize (Hawait _ Hb). cbn in Hawait. rewrite forallb_forall in Hawait. specialize (Hawait r Hr).
    destruct (req_ops r); [reflexivity|discriminate]. }
  pose proof (script_structure sk (sched_of f) script 0%N stA true false Hsok) as HB. cbv zeta in HB. destruct HB as [HsubB HdataB].
  assert (HlogB : LogInv (w_disk (sr_state (run_script sk (sched_of f) 0%N stA true false script)))).
  { apply script_loginv; [|exact HlogA]. intros r Hr. apply Hcov'. apply in_or_app. right. exact Hr. }
  assert (Hanone' : forall r, In r (script_reqs script) -> r_auth r = ANone).
  { intros r Hr. specialize (Hanone r Hr). destruct (r_auth r); try discriminate; reflexivity. }
  pose proof (script_acks sk (sched_of f) script 0%N stA true false Hok Hanone') as HacksB.
  set (rb := run_script sk (sched_of f) 0%N stA true false script) in *.
  cbn [w_disk stA] in HdataB, HdataA.
  set (d' := w_disk (sr_state rb)) in *. set (dr := restart (sr_state rb)).
  assert (Hdr : data_eq dr d') by (apply data_eq_recompute).
  (* both phases as one list of items *)
  set (items := rr_items ra ++ sr_items rb).
  assert (Hdata : data_eq d' (apply_ops d0 (sel_ops sk items))).
  { unfold items. rewrite sel_ops_app, apply_ops_app. eapply data_eq_trans; [exact HdataB|]. apply data_eq_apply_ops. exact HdataA. }
  assert (Hsub : sublist (map it_req items) (concat batches ++ script_reqs script)).
  { unfold items. rewrite map_app, HreqA. apply sublist_app; [apply sublist_refl|exact HsubB]. }
  assert (Hsubops : sublist (flat_map req_ops (map it_req items ++ [])) (flat_map req_ops (concat batches ++ script_reqs script))).
  { rewrite app_nil_r. apply sublist_flat_map. exact Hsub. }
  destruct (vis_final_gen sk items [] d0 d' Hok Hdata) as [Hvis _].
  { eapply sublist_NoDup; [apply sublist_map; exact Hsubops|]. apply nodup_keys_NoDup. exact Hnd. }
  { intros o Ho. specialize (Hfresh o (sublist_in _ _ _ o Hsubops Ho)). apply negb_true_iff in Hfresh. exact Hfresh. }
  { intros q Hq Hno. rewrite app_nil_r in Hq. pose proof (sublist_in _ _ _ q Hsub Hq) as Hin. apply in_app_or in Hin. destruct Hin as [Hin|Hin].
    - rewrite <- (shape_no_ops q (Hshape q Hin)). exact Hno.
    - specialize (Hscshape q Hin). unfold no_ops in Hno. destruct (req_ops q) eqn:E; [discriminate|].
      assert (Hn2 : no_ops q = false) by (unfold no_ops; rewrite E; reflexivity). rewrite <- (shape_no_ops q Hscshape). exact Hn2. }
  (* the workload's requests *)
  assert (HvisA : forall q, In q (concat batches) -> vis dr q = 1).
  { intros q Hq. rewrite (vis_data dr d' _ Hdr). rewrite <- HreqA in Hq. apply in_map_iff in Hq. destruct Hq as [x [E Hx]]. subst q.
    rewrite (Hvis x (in_or_app _ _ _ (or_introl Hx))). rewrite Forall_forall in HgoA. rewrite (HgoA x Hx). reflexivity. }
  cbn [spec_C13].
  set (obsA := map (fun q => vis dr q) (concat batches)).
  set (sent := filter (fun x => negb (match req_ops (it_req x) with [] => true | _ => false end)) (sr_items rb)).
  set (flags := [zb (sr_alive rb); zn (if sr_alive rb then sr_hits rb else sr_last rb); zb (sr_started rb); zb (loginv_b d'); zb (consistent_b dr); 1; 1]).
  assert (HlenA : length obsA = length (concat batches)) by apply map_length.
  rewrite <- !app_assoc. rewrite <- HlenA. rewrite firstn_exact, skipn_exact.
  apply andb_true_iff. split; [apply andb_true_iff; split|].
  - apply forallb_forall. intros v Hv. unfold obsA in Hv. apply in_map_iff in Hv. destruct Hv as [q [E Hq]]. subst v. rewrite (HvisA q Hq). reflexivity.
  - apply Nat.leb_le. rewrite app_length. lia.
  - rewrite !app_length, length_flat_pairs. unfold flags. cbn [length].
    replace (2 * length sent + (7 + 1) - 8)%nat with (2 * length sent)%nat by lia. rewrite div2_double.
    rewrite (pairs_flat item (fun x => ack_code (it_ack x)) (fun x => vis dr (it_req x)) sent). cbn [app].
    assert (Hl1 : loginv_b d' = true) by (apply loginv_b_complete; exact HlogB).
    assert (Hl2 : consistent_b dr = true) by (apply consistent_b_complete; apply recompute_consistent; exact HlogB).
    rewrite Hl1, Hl2. cbn [zb Z.eqb Pos.eqb andb]. rewrite !andb_true_r.
    apply forallb_forall. intros p Hp. apply in_map_iff in Hp. destruct Hp as [x [E Hx]]. subst p. cbn [fst snd].
    unfold sent in Hx. apply filter_In in Hx. destruct Hx as [Hx Hhas].
    rewrite Forall_forall in HacksB. destruct (HacksB x Hx) as [Ha1 [Ha2 _]].
    rewrite (vis_data dr d' _ Hdr). rewrite (Hvis x (in_or_app _ _ _ (or_intror Hx))).
    assert (Hno : no_ops (it_req x) = false) by (apply negb_true_iff in Hhas; exact Hhas).
    rewrite Hno, orb_false_r.
    pose proof (req_ok_item (it_ack x) true (if it_committed x then 1 else 0) (it_committed x) false) as R.
    rewrite orb_false_r in R. apply R; auto.
Qed.

Theorem spec_outside_known : forall c,
  wf_case c = true -> known_C13 c = [] -> spec_C13 c (run_C13 c) = true.
Proof.
  intros [|init batches unsent f|init batches script f] Hwf Hk; [reflexivity|apply spec_run_case; assumption|apply spec_restart_case; assumption].
Qed.

(* for every schedule: a start on a folder whose log keeps the invariant, killed or failing anywhere, leaves rows and
   deletion log as they were (the start's own writes carry no row of the model), keeps the invariant, and the next
   start's recompute makes the log consistent *)
Theorem start_preserves : forall sk sched sc n st lo started,
  (forall r, In r (script_reqs sc) -> req_ops r = []) -> LogInv (w_disk st) ->
  let r := run_script sk sched n st lo started sc in
  data_eq (w_disk (sr_state r)) (w_disk st) /\ LogInv (w_disk (sr_state r)) /\ Consistent (restart (sr_state r)).
Proof.
  intros sk sched sc n st lo started Hno Hinv. cbv zeta.
  assert (Hsok : script_ok sc).
  { intros b Hb r Hr. apply Hno. unfold script_reqs. apply in_flat_map. exists (SAwait b). split; assumption. }
  pose proof (script_structure sk sched sc n st lo started Hsok) as H. cbv zeta in H. destruct H as [Hsub Hdata].
  assert (Hl : LogInv (w_disk (sr_state (run_script sk sched n st lo started sc)))).
  { apply script_loginv; [|exact Hinv]. intros r Hr o Ho. rewrite (Hno r Hr) in Ho. contradiction. }
  split; [|split; [exact Hl|unfold restart; apply recompute_consistent; exact Hl]].
  assert (E : sel_ops sk (sr_items (run_script sk sched n st lo started sc)) = []).
  { unfold sel_ops. induction (sr_items (run_script sk sched n st lo started sc)) as [|x l IH] in Hsub |- *; [reflexivity|].
    cbn [flat_map map] in *. assert (Hx : In (it_req x) (script_reqs sc)) by (eapply sublist_in; [exact Hsub|left; reflexivity]).
    assert (Hl' : sublist (map it_req l) (script_reqs sc)).
    { clear -Hsub. remember (it_req x :: map it_req l) as l1. induction Hsub; [discriminate|apply sl_skip; auto|].
      inversion Heql1; subst. apply sl_skip. exact Hsub. }
    rewrite (IH Hl'). destruct (it_committed x); [|reflexivity].
    destruct (eff_ops_cases sk (it_req x)) as [E|E]; rewrite E; [rewrite (Hno _ Hx)|]; reflexivity. }
  rewrite E in Hdata. exact Hdata.
Qed.
