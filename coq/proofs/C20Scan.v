(* C20Scan.v — lemmas about the loops of the lock service model (model/Lock.v): the counted loops are scans *)
From Coq Require Import Permutation.
From DV Require Import Run_C20.
Open Scope N_scope.
Open Scope nat_scope.

(* ------------------------------------------------------------------ basic facts *)
Lemma memN_In : forall x l, memN x l = true <-> In x l.
Proof.
  intros x l. unfold memN. rewrite existsb_exists. split.
  - intros [y [Hy He]]. apply N.eqb_eq in He. subst. exact Hy.
  - intros H. exists x. split; [exact H | apply N.eqb_refl].
Qed.
Lemma memN_false : forall x l, memN x l = false <-> ~ In x l.
Proof.
  intros x l. rewrite <- memN_In. destruct (memN x l); intuition congruence.
Qed.
Lemma pair_eqb_eq : forall a b, pair_eqb a b = true <-> a = b.
Proof.
  intros [a1 a2] [b1 b2]. unfold pair_eqb. cbn [fst snd]. rewrite andb_true_iff, !N.eqb_eq.
  split; [intros [H1 H2]; subst; reflexivity | intros H; inversion H; auto].
Qed.
Lemma pair_eqb_refl : forall a, pair_eqb a a = true.
Proof. intros a. apply pair_eqb_eq. reflexivity. Qed.
Lemma pair_eqb_neq : forall a b, pair_eqb a b = false <-> a <> b.
Proof.
  intros a b. rewrite <- pair_eqb_eq. destruct (pair_eqb a b); intuition congruence.
Qed.
Lemma mem_pair_In : forall x l, mem_pair x l = true <-> In x l.
Proof.
  intros x l. unfold mem_pair. rewrite existsb_exists. split.
  - intros [y [Hy He]]. apply pair_eqb_eq in He. subst. exact Hy.
  - intros H. exists x. split; [exact H | apply pair_eqb_refl].
Qed.
Lemma mem_pair_false : forall x l, mem_pair x l = false <-> ~ In x l.
Proof.
  intros x l. rewrite <- mem_pair_In. destruct (mem_pair x l); intuition congruence.
Qed.

Lemma removeN_In : forall x y l, In y (removeN x l) <-> In y l /\ y <> x.
Proof.
  intros x y l. unfold removeN. rewrite filter_In, negb_true_iff, N.eqb_neq. intuition congruence.
Qed.
Lemma removeN_NoDup : forall x l, NoDup l -> NoDup (removeN x l).
Proof. intros x l H. unfold removeN. apply NoDup_filter. exact H. Qed.
Lemma removeN_length : forall x l, NoDup l -> In x l -> S (length (removeN x l)) = length l.
Proof.
  intros x l. induction l as [|y t IH]; intros Hnd Hin; [destruct Hin|].
  inversion Hnd as [|? ? Hny Hnt]; subst. cbn [removeN filter].
  destruct (N.eqb x y) eqn:E; cbn [negb].
  - apply N.eqb_eq in E. subst y.
    assert (Hid : filter (fun y => negb (N.eqb x y)) t = t).
    { clear IH Hnd Hnt Hin. induction t as [|z t IHt]; [reflexivity|]. cbn [filter].
      destruct (N.eqb x z) eqn:Ez.
      - apply N.eqb_eq in Ez. subst. exfalso. apply Hny. left. reflexivity.
      - cbn [negb]. f_equal. apply IHt. intros H. apply Hny. right. exact H. }
    rewrite Hid. reflexivity.
  - cbn [length]. f_equal. apply IH; [exact Hnt|].
    destruct Hin as [H|H]; [subst; rewrite N.eqb_refl in E; discriminate | exact H].
Qed.

(* multiset counts *)
Definition pdec : forall a b : N * N, {a = b} + {a <> b}.
Proof. decide equality; apply N.eq_dec. Defined.
Definition cntP (l : list (N * N)) (x : N * N) : nat := count_occ pdec l x.
Definition cntN (l : list N) (x : N) : nat := count_occ N.eq_dec l x.
Definition ind (b : bool) : nat := if b then 1 else 0.

Lemma cntP_app : forall l1 l2 x, cntP (l1 ++ l2) x = cntP l1 x + cntP l2 x.
Proof. intros. apply count_occ_app. Qed.
Lemma cntN_app : forall l1 l2 x, cntN (l1 ++ l2) x = cntN l1 x + cntN l2 x.
Proof. intros. apply count_occ_app. Qed.
Lemma cntP_cons : forall y l x, cntP (y :: l) x = ind (pair_eqb y x) + cntP l x.
Proof.
  intros y l x. unfold cntP. cbn [count_occ]. destruct (pdec y x) as [E|E].
  - subst. rewrite pair_eqb_refl. reflexivity.
  - apply pair_eqb_neq in E. rewrite E. reflexivity.
Qed.
Lemma cntN_cons : forall y l x, cntN (y :: l) x = ind (N.eqb y x) + cntN l x.
Proof.
  intros y l x. unfold cntN. cbn [count_occ]. destruct (N.eq_dec y x) as [E|E].
  - subst. rewrite N.eqb_refl. reflexivity.
  - apply N.eqb_neq in E. rewrite E. reflexivity.
Qed.
Lemma cntN_pos_In : forall l x, In x l <-> cntN l x > 0.
Proof. intros. apply count_occ_In. Qed.
Lemma cntP_pos_In : forall l x, In x l <-> cntP l x > 0.
Proof. intros. apply count_occ_In. Qed.
Lemma cntP_map_pair : forall c l c' r, cntP (map (pair c) l) (c', r) = if N.eqb c c' then cntN l r else 0.
Proof.
  intros c l c' r. induction l as [|y t IH]; [destruct (N.eqb c c'); reflexivity|].
  cbn [map]. rewrite cntP_cons, IH, cntN_cons. unfold pair_eqb. cbn [fst snd].
  destruct (N.eqb c c'); cbn [andb ind]; reflexivity.
Qed.
Lemma cntN_rev : forall l x, cntN (rev l) x = cntN l x.
Proof. intros. apply count_occ_rev. Qed.

(* ------------------------------------------------------------------ the loops as scans *)
Fixpoint scan_rooms (t e : list rid) (lk : list rid) (live : bool) : list rid * option rid :=
  match t with
  | [] => (e, None)
  | x :: t' => if memN x lk then scan_rooms t' (e ++ [x]) lk live
               else if live then (t' ++ e, Some x)
               else scan_rooms t' e lk live
  end.
Lemma try_rooms_scan : forall t e lk live,
  try_rooms (length t) (t ++ e) lk live = scan_rooms t e lk live.
Proof.
  induction t as [|x t IH]; intros e lk live; [reflexivity|].
  cbn [length app try_rooms scan_rooms].
  destruct (memN x lk).
  - rewrite <- app_assoc. apply IH.
  - destruct live; [reflexivity | apply IH].
Qed.

Definition og_is (og : option rid) (y : rid) : bool :=
  match og with Some r => N.eqb r y | None => false end.

Lemma scan_rooms_spec : forall t e lk live rs og,
  scan_rooms t e lk live = (rs, og) ->
  (forall y, In y rs -> In y t \/ In y e) /\
  (og = None -> forall y, In y rs -> In y e \/ memN y lk = true) /\
  (forall r, og = Some r -> memN r lk = false /\ live = true /\ In r t) /\
  (live = true -> forall y, In y t \/ In y e -> og = Some y \/ In y rs) /\
  (forall y, cntN rs y + ind (og_is og y) <= cntN t y + cntN e y).
Proof.
  induction t as [|x t IH]; intros e lk live rs og H; cbn [scan_rooms] in H.
  - inversion H; subst. repeat split; intros; try discriminate; auto.
    + destruct H1 as [[]|H1]; auto.
    + cbn [og_is ind]. cbn. lia.
  - destruct (memN x lk) eqn:Ex.
    + apply IH in H. destruct H as (H1 & H2 & H3 & H4 & H5). repeat split.
      * intros y Hy. apply H1 in Hy. destruct Hy as [Hy|Hy]; [left; right; exact Hy|].
        apply in_app_or in Hy. destruct Hy as [Hy|[Hy|[]]]; [right; exact Hy | left; left; exact Hy].
      * intros Hn y Hy. apply (H2 Hn) in Hy. destruct Hy as [Hy|Hy]; [|right; exact Hy].
        apply in_app_or in Hy. destruct Hy as [Hy|[Hy|[]]]; [left; exact Hy | right; subst; exact Ex].
      * apply H3 in H. tauto.
      * apply H3 in H. tauto.
      * apply H3 in H. right. tauto.
      * intros Hl y Hy. apply (H4 Hl). destruct Hy as [[Hy|Hy]|Hy].
        -- right. apply in_or_app. right. left. exact Hy.
        -- left. exact Hy.
        -- right. apply in_or_app. left. exact Hy.
      * intros y. specialize (H5 y). rewrite cntN_app, cntN_cons in H5. rewrite cntN_cons.
        change (cntN [] y) with 0 in H5. lia.
    + destruct live.
      * inversion H; subst. repeat split.
        -- intros y Hy. apply in_app_or in Hy. destruct Hy; [left; right; auto | right; auto].
        -- discriminate.
        -- inversion H0; subst. exact Ex.
        -- inversion H0; subst. left. reflexivity.
        -- intros _ y [[Hy|Hy]|Hy]; [left; subst; reflexivity | right; apply in_or_app; auto | right; apply in_or_app; auto].
        -- intros y. cbn [og_is]. rewrite cntN_app, cntN_cons. lia.
      * apply IH in H. destruct H as (H1 & H2 & H3 & H4 & H5). repeat split.
        -- intros y Hy. apply H1 in Hy. destruct Hy; [left; right; auto | right; auto].
        -- exact H2.
        -- apply H3 in H. tauto.
        -- apply H3 in H. destruct H as (_ & Hd & _). discriminate.
        -- apply H3 in H. right. tauto.
        -- discriminate.
        -- intros y. specialize (H5 y). rewrite cntN_cons. lia.
Qed.

Definition pendq (q : list preq) : list (N * N) := flat_map (fun p => map (pair (p_c p)) (p_rooms p)) q.
Lemma pendq_app : forall a b, pendq (a ++ b) = pendq a ++ pendq b.
Proof. intros. unfold pendq. apply flat_map_app. Qed.

(* e: the entries examined so far that could not be served (`skipped`), in the order examined *)
Fixpoint scan_q (t e : list preq) (lk : list rid) (dd : list (N * N)) : list preq * option grant :=
  match t with
  | [] => (e, None)
  | p :: t' =>
      let '(rooms', g) := try_rooms (length (p_rooms p)) (p_rooms p) lk (alive dd p) in
      match g with
      | Some r => (e ++ requeue t' p rooms', Some (p_c p, p_gen p, r))
      | None => scan_q t' (requeue e p rooms') lk dd
      end
  end.
Lemma requeue_app : forall a b p rs, requeue (a ++ b) p rs = a ++ requeue b p rs.
Proof. intros. unfold requeue. destruct rs; [reflexivity | rewrite app_assoc; reflexivity]. Qed.
Lemma skip_requeue : forall sk p rs, skip sk p rs = requeue sk p rs.
Proof. reflexivity. Qed.
Lemma acquire_scan : forall t e lk dd, acquire (length t) t e lk dd = scan_q t e lk dd.
Proof.
  induction t as [|p t IH]; intros e lk dd; [cbn; rewrite app_nil_r; reflexivity|].
  cbn [length acquire scan_q].
  destruct (try_rooms (length (p_rooms p)) (p_rooms p) lk (alive dd p)) as [rooms' g].
  destruct g; [reflexivity|]. rewrite skip_requeue. apply IH.
Qed.

(* a peer entry all of whose rooms are locked, if its channel is alive *)
Definition blocked (lk : list rid) (dd : list (N * N)) (p : preq) : Prop :=
  alive dd p = true -> forall r, In r (p_rooms p) -> memN r lk = true.
Definition same_peer (p' p : preq) : Prop := p_c p' = p_c p /\ p_gen p' = p_gen p.
Definition g_is (og : option grant) (x : N * N) : bool :=
  match og with Some (c, _, r) => pair_eqb (c, r) x | None => false end.

Lemma alive_same : forall dd p p', same_peer p' p -> alive dd p' = alive dd p.
Proof. intros dd p p' [H1 H2]. unfold alive. rewrite H1, H2. reflexivity. Qed.

Lemma in_requeue : forall e p rs x, In x (requeue e p rs) ->
  In x e \/ (rs <> [] /\ x = {| p_c := p_c p; p_rooms := rs; p_gen := p_gen p |}).
Proof.
  intros e p rs x H. unfold requeue in H. destruct rs; [left; exact H|].
  apply in_app_or in H. destruct H as [H|[H|[]]]; [left; exact H | right; split; [discriminate | auto]].
Qed.
Lemma in_requeue_l : forall e p rs x, In x e -> In x (requeue e p rs).
Proof. intros. unfold requeue. destruct rs; [auto | apply in_or_app; auto]. Qed.
Lemma in_requeue_new : forall e p rs r, In r rs ->
  In {| p_c := p_c p; p_rooms := rs; p_gen := p_gen p |} (requeue e p rs).
Proof. intros. unfold requeue. destruct rs; [destruct H | apply in_or_app; right; left; reflexivity]. Qed.
Lemma pendq_requeue : forall e p rs x,
  cntP (pendq (requeue e p rs)) x = cntP (pendq e) x + cntP (map (pair (p_c p)) rs) x.
Proof.
  intros. unfold requeue. destruct rs as [|r rs].
  - cbn. lia.
  - rewrite pendq_app, cntP_app. unfold pendq at 2. cbn [flat_map p_c p_rooms]. rewrite app_nil_r. reflexivity.
Qed.

Lemma scan_q_spec : forall t e lk dd q' og,
  scan_q t e lk dd = (q', og) ->
  (* None: every entry that was examined is blocked *)
  (og = None -> (forall p, In p e -> blocked lk dd p) -> forall p, In p q' -> blocked lk dd p) /\
  (* Some: the room is free, and was pending on a live channel of that peer *)
  (forall c k r, og = Some (c, k, r) ->
     memN r lk = false /\ exists p, In p t /\ p_c p = c /\ p_gen p = k /\ alive dd p = true /\ In r (p_rooms p)) /\
  (* origin of the entries that remain *)
  (forall p', In p' q' -> exists p, In p (t ++ e) /\ same_peer p' p /\ incl (p_rooms p') (p_rooms p)) /\
  (* live entries keep their rooms, except the one that is granted *)
  (forall p, In p (t ++ e) -> alive dd p = true -> forall r, In r (p_rooms p) ->
     og = Some (p_c p, p_gen p, r) \/ exists p', In p' q' /\ same_peer p' p /\ In r (p_rooms p')) /\
  (* nothing is invented *)
  (forall x, cntP (pendq q') x + ind (g_is og x) <= cntP (pendq (t ++ e)) x) /\
  (* blocked entries give no grant *)
  ((forall p, In p t -> blocked lk dd p) -> og = None).
Proof.
  induction t as [|p t IH]; intros e lk dd q' og H; cbn [scan_q] in H.
  - inversion H; subst. repeat split; intros; try discriminate; auto.
    + exists p'. cbn [app]. split; [auto|]. split; [split; reflexivity | apply incl_refl].
    + right. exists p. cbn [app] in H0. split; [auto|]. split; [split; reflexivity | auto].
    + cbn [g_is ind app]. lia.
  - rewrite <- (app_nil_r (p_rooms p)) in H at 2. rewrite try_rooms_scan in H.
    destruct (scan_rooms (p_rooms p) [] lk (alive dd p)) as [rooms' g] eqn:Es.
    apply scan_rooms_spec in Es. destruct Es as (S1 & S2 & S3 & S4 & S5).
    set (pn := {| p_c := p_c p; p_rooms := rooms'; p_gen := p_gen p |}) in *.
    assert (Hsame : same_peer pn p) by (split; reflexivity).
    destruct g as [r|].
    + inversion H; subst q' og. clear H. destruct (S3 r eq_refl) as (Hf & Hl & Hr).
      (* the same entries as in `requeue (t ++ e) p rooms'`, in another order *)
      assert (F1 : forall x, In x (e ++ requeue t p rooms') <-> In x (requeue (t ++ e) p rooms')).
      { intros x. unfold requeue. destruct rooms'; repeat rewrite in_app_iff; tauto. }
      assert (F2 : forall x, cntP (pendq (e ++ requeue t p rooms')) x = cntP (pendq (requeue (t ++ e) p rooms')) x).
      { intros x. unfold requeue. destruct rooms'; repeat rewrite pendq_app; repeat rewrite cntP_app; lia. }
      repeat split.
      * discriminate.
      * inversion H; subst. exact Hf.
      * inversion H; subst. exists p. repeat split; auto. left. reflexivity.
      * intros p' Hp'. apply F1 in Hp'. apply in_requeue in Hp'. destruct Hp' as [Hp'|[_ Hp']].
        -- exists p'. split; [right; exact Hp'|]. split; [split; reflexivity | apply incl_refl].
        -- subst p'. exists p. split; [left; reflexivity|]. split; [exact Hsame|].
           intros y Hy. apply S1 in Hy. destruct Hy as [Hy|[]]. exact Hy.
      * intros p0 Hp0 Hal r0 Hr0. cbn [app] in Hp0. destruct Hp0 as [Hp0|Hp0].
        -- subst p0. destruct (S4 Hal r0 (or_introl Hr0)) as [Hs|Hin].
           ++ inversion Hs; subst. left. reflexivity.
           ++ right. exists pn. split; [apply F1; apply in_requeue_new with (r := r0); exact Hin|]. split; [exact Hsame | exact Hin].
        -- right. exists p0. split; [apply F1; apply in_requeue_l; exact Hp0|]. split; [split; reflexivity | exact Hr0].
      * intros x. rewrite F2, pendq_requeue. cbn [app]. change (pendq (p :: t ++ e)) with (map (pair (p_c p)) (p_rooms p) ++ pendq (t ++ e)).
        rewrite cntP_app. destruct x as [c0 r0]. rewrite !cntP_map_pair. cbn [g_is]. unfold pair_eqb. cbn [fst snd].
        specialize (S5 r0). cbn [og_is] in S5. change (cntN [] r0) with 0 in S5.
        destruct (N.eqb (p_c p) c0); cbn [andb]; [lia|]. cbn [ind]. lia.
      * intros Hb. exfalso. specialize (Hb p (or_introl eq_refl) Hl r Hr). congruence.
    + apply IH in H. destruct H as (Q1 & Q2 & Q3 & Q4 & Q5 & Q6).
      assert (Hbn : blocked lk dd pn).
      { intros _ r Hr. cbn [p_rooms pn] in Hr. destruct (S2 eq_refl r Hr) as [[]|Hm]. exact Hm. }
      repeat split.
      * intros Hn He. apply (Q1 Hn). intros x Hx. apply in_requeue in Hx. destruct Hx as [Hx|[_ Hx]]; [apply He; exact Hx | subst x; exact Hbn].
      * apply Q2 in H. tauto.
      * apply Q2 in H. destruct H as (_ & p0 & Hp0 & Hrest). exists p0. split; [right; exact Hp0 | exact Hrest].
      * intros p' Hp'. apply Q3 in Hp'. destruct Hp' as (p0 & Hp0 & Hs0 & Hi0).
        apply in_app_or in Hp0. destruct Hp0 as [Hp0|Hp0].
        -- exists p0. split; [right; apply in_or_app; left; exact Hp0 | split; assumption].
        -- apply in_requeue in Hp0. destruct Hp0 as [Hp0|[_ Hp0]].
           ++ exists p0. split; [right; apply in_or_app; right; exact Hp0 | split; assumption].
           ++ subst p0. exists p. split; [left; reflexivity|]. split.
              ** destruct Hs0 as [Ha Hb]. split; [rewrite Ha | rewrite Hb]; reflexivity.
              ** intros y Hy. apply Hi0 in Hy. cbn [p_rooms pn] in Hy. apply S1 in Hy. destruct Hy as [Hy|[]]. exact Hy.
      * intros p0 Hp0 Hal r0 Hr0. cbn [app] in Hp0. destruct Hp0 as [Hp0|Hp0].
        -- subst p0. destruct (S4 Hal r0 (or_introl Hr0)) as [Hs|Hin]; [discriminate|].
           assert (Hpn : In pn (t ++ requeue e p rooms')) by (apply in_or_app; right; apply in_requeue_new with (r := r0); exact Hin).
           assert (Haln : alive dd pn = true) by (rewrite (alive_same dd p pn Hsame); exact Hal).
           destruct (Q4 pn Hpn Haln r0 Hin) as [Hs|(p' & Hp' & Hsp & Hrp)].
           ++ left. exact Hs.
           ++ right. exists p'. split; [exact Hp'|]. split; [|exact Hrp].
              destruct Hsp as [Ha Hb]. split; [rewrite Ha | rewrite Hb]; reflexivity.
        -- assert (Hp1 : In p0 (t ++ requeue e p rooms')).
           { apply in_app_or in Hp0. apply in_or_app. destruct Hp0; [left; auto | right; apply in_requeue_l; auto]. }
           exact (Q4 p0 Hp1 Hal r0 Hr0).
      * intros x. specialize (Q5 x). rewrite pendq_app, cntP_app, pendq_requeue in Q5.
        cbn [app]. change (pendq (p :: t ++ e)) with (map (pair (p_c p)) (p_rooms p) ++ pendq (t ++ e)).
        rewrite cntP_app, pendq_app, cntP_app. destruct x as [c0 r0]. rewrite !cntP_map_pair in *.
        specialize (S5 r0). cbn [og_is ind] in S5. change (cntN [] r0) with 0 in S5.
        destruct (N.eqb (p_c p) c0); lia.
      * intros Hb. apply Q6. intros x Hx. apply Hb. right. exact Hx.
Qed.
