(* C01P.v — proofs for C01: an accepted local mutation / deletion only touches rows for which the
   room history grants the caller the needed right, in the room entered and the room left. *)
From DV Require Import RightsP Run_C01.

Lemma rm_id_apply_event r ev r' : apply_event r ev = Some r' -> rm_id r' = rm_id r.
Proof.
  destruct ev; simpl; intros H.
  - destruct (find_auth r g); inversion H; reflexivity.
  - destruct (add_user _ _); inversion H; reflexivity.
  - destruct (find_auth r g); [|discriminate]. destruct (add_user _ _); inversion H; reflexivity.
  - destruct (find_auth r g); [|discriminate]. destruct (add_user _ _); inversion H; reflexivity.
  - destruct (find_auth r g); [|discriminate]. destruct (add_right _ _); inversion H; reflexivity.
Qed.
Lemma rm_id_build_from evs : forall r, rm_id (fst (build_from r evs)) = rm_id r.
Proof.
  induction evs as [|ev tl IH]; intros r; simpl; [reflexivity|].
  destruct (apply_event r ev) as [r'|] eqn:Ha.
  - specialize (IH r'). destruct (build_from r' tl). simpl in *. rewrite IH. eapply rm_id_apply_event; eauto.
  - specialize (IH r). destruct (build_from r tl). simpl in *. exact IH.
Qed.
Lemma rm_id_build id evs : rm_id (build id evs) = id.
Proof. unfold build. rewrite rm_id_build_from. reflexivity. Qed.

Lemma find_room_build defs rid r :
  find_room (build_rooms defs) rid = Some r ->
  known_room defs rid = true /\
  forall k e d t, can r k e d t = granted (evs_of defs rid) k e d t.
Proof.
  unfold find_room, build_rooms, known_room, evs_of.
  induction defs as [|[id evs] tl IH]; simpl; [discriminate|].
  rewrite rm_id_build. destruct (N.eqb id rid) eqn:He; simpl.
  - intros H. inversion H; subst. split; [reflexivity|]. intros. apply can_granted.
  - exact IH.
Qed.

Lemma check_head_not_ok me now rooms h : check_head me now rooms h <> Some VOk.
Proof.
  unfold check_head. destruct (h_kind h); [|discriminate].
  destruct (negb (h_has_node h)); [discriminate|]. destruct (h_too_big h); [discriminate|].
  destruct (h_old h) as [old|].
  - destruct (h_room h) as [rid|]; [|discriminate].
    destruct (find_room rooms rid) as [r|]; [|discriminate].
    destruct (o_room old) as [orid|].
    + destruct (N.eqb orid rid).
      * destruct (can r me _ _ _); [destruct (dels_ok _ _ _ _)|]; discriminate.
      * destruct (find_room rooms orid) as [oroom|]; [|discriminate].
        destruct (can oroom me _ _ _); [|discriminate]. destruct (can r me _ _ _); [destruct (dels_ok _ _ _ _)|]; discriminate.
    + destruct (can r me _ _ _); [destruct (dels_ok _ _ _ _)|]; discriminate.
  - destruct (h_room h) as [rid|]; [|discriminate].
    destruct (find_room rooms rid) as [r|]; [|discriminate]. destruct (can r me _ _ _); [destruct (dels_ok _ _ _ _)|]; discriminate.
Qed.

Lemma dels_ok_granted defs me now rid r h :
  find_room (build_rooms defs) rid = Some r -> dels_ok me now r h = true ->
  forallb (fun a => N.eqb a me || granted (evs_of defs rid) me (h_ent h) now MutateAll) (h_edge_dels h) = true.
Proof.
  intros Hr. destruct (find_room_build _ _ _ Hr) as [_ Hg]. unfold dels_ok.
  intros H. rewrite forallb_forall in *. intros a Ha. rewrite <- Hg. apply H. exact Ha.
Qed.

Lemma check_head_entitled defs me now h :
  wf_head h = true -> check_head me now (build_rooms defs) h = None -> h_has_node h = true ->
  head_entitled defs me now h = true.
Proof.
  unfold check_head, head_entitled, wf_head. intros Hwf Hc Hn.
  destruct (h_kind h); [|discriminate]. rewrite Hn in Hc. simpl in Hc.
  destruct (h_too_big h); [discriminate|].
  destruct (h_old h) as [old|].
  - destruct (h_room h) as [rid|].
    + destruct (find_room (build_rooms defs) rid) as [r|] eqn:Hr; [|discriminate].
      destruct (find_room_build _ _ _ Hr) as [Hk Hg]. rewrite Hk. simpl.
      pose proof (dels_ok_granted defs me now rid r h Hr) as HD.
      destruct (o_room old) as [orid|].
      * simpl. destruct (N.eqb orid rid) eqn:He.
        -- rewrite <- Hg. destruct (can r me _ _ _); [|discriminate].
           destruct (dels_ok me now r h); [|discriminate]. rewrite (HD eq_refl). reflexivity.
        -- destruct (find_room (build_rooms defs) orid) as [oroom|] eqn:Hor; [|discriminate].
           destruct (find_room_build _ _ _ Hor) as [_ Hog]. rewrite <- Hg, <- Hog.
           destruct (can oroom me _ _ _); [|discriminate]. destruct (can r me _ _ _); [|discriminate].
           destruct (dels_ok me now r h); [|discriminate]. rewrite (HD eq_refl). reflexivity.
      * rewrite <- Hg. destruct (can r me _ _ _); [|discriminate].
        destruct (dels_ok me now r h); [|discriminate]. rewrite (HD eq_refl). reflexivity.
    + destruct (o_room old); [discriminate|reflexivity].
  - destruct (h_room h) as [rid|]; [|reflexivity].
    destruct (find_room (build_rooms defs) rid) as [r|] eqn:Hr; [|discriminate].
    destruct (find_room_build _ _ _ Hr) as [Hk Hg]. rewrite Hk, <- Hg. simpl.
    pose proof (dels_ok_granted defs me now rid r h Hr) as HD.
    destruct (can r me _ _ _); [|discriminate].
    destruct (dels_ok me now r h); [|discriminate]. rewrite (HD eq_refl). reflexivity.
Qed.

(* induction principle for the nested tree *)
Fixpoint ment_ind' (P : ment -> Prop) (H : forall h subs, Forall P subs -> P (MEnt h subs)) (m : ment) : P m :=
  match m with
  | MEnt h subs =>
      H h subs ((fix go (l : list ment) : Forall P l :=
                   match l with
                   | [] => Forall_nil P
                   | s :: tl => Forall_cons s (ment_ind' P H s) (go tl)
                   end) subs)
  end.

Lemma forallb_app' {A} (f : A -> bool) l1 l2 : forallb f (l1 ++ l2) = forallb f l1 && forallb f l2.
Proof. induction l1; simpl; [reflexivity|]. rewrite IHl1, andb_assoc. reflexivity. Qed.

Lemma validate_entity_entitled defs me now m :
  wf_tree m = true -> validate_entity me now (build_rooms defs) m = VOk ->
  forallb (head_entitled defs me now) (written m) = true.
Proof.
  induction m as [h subs IH] using ment_ind'. intros Hwf Hv. simpl in *.
  apply andb_prop in Hwf. destruct Hwf as [Hwh Hws].
  destruct (check_head me now (build_rooms defs) h) as [v|] eqn:Hc.
  - subst v. exfalso. eapply check_head_not_ok; eauto.
  - rewrite forallb_app'. apply andb_true_intro. split.
    + destruct (h_has_node h) eqn:Hn; simpl; [|reflexivity].
      rewrite (check_head_entitled defs me now h Hwh Hc Hn). reflexivity.
    + clear Hc. induction subs as [|s tl IHl]; simpl; [reflexivity|].
      simpl in Hws. apply andb_prop in Hws. destruct Hws as [Hs Htl].
      inversion IH as [|? ? IHs IHtl]; subst.
      destruct (validate_entity me now (build_rooms defs) s) eqn:Hvs; try discriminate.
      rewrite forallb_app'. rewrite (IHs Hs eq_refl). simpl. apply IHl; assumption.
Qed.

Theorem mutation_entitled defs me now ms :
  forallb wf_tree ms = true -> validate_all me now (build_rooms defs) ms = VOk ->
  forallb (head_entitled defs me now) (flat_map written ms) = true.
Proof.
  induction ms as [|m tl IH]; simpl; intros Hwf Hv; [reflexivity|].
  apply andb_prop in Hwf. destruct Hwf as [Hm Htl].
  destruct (validate_entity me now (build_rooms defs) m) eqn:Hvm; try discriminate.
  rewrite forallb_app', (validate_entity_entitled defs me now m Hm Hvm). simpl. apply IH; assumption.
Qed.

(* a refused mutation: the verdict is an error for the whole request, nothing is written
   (MutationQuery::write is reached only after validate_mutation returned Ok) — on the model
   this is: the verdict of a list is VOk only if every tree is VOk *)
Theorem mutation_all_or_nothing me now rooms ms :
  validate_all me now rooms ms = VOk -> Forall (fun m => validate_entity me now rooms m = VOk) ms.
Proof.
  induction ms as [|m tl IH]; simpl; intros Hv; [constructor|].
  destruct (validate_entity me now rooms m) eqn:Hvm; try discriminate. constructor; auto.
Qed.

Lemma check_del_entitled defs me now k e room author date :
  check_del me now (build_rooms defs) k e room author date = VOk ->
  del_entitled defs me now k e room author date = true.
Proof.
  unfold check_del, del_entitled. destruct k; [|discriminate].
  destruct room as [rid|]; [|reflexivity].
  destruct (find_room (build_rooms defs) rid) as [r|] eqn:Hr; [|discriminate].
  destruct (find_room_build _ _ _ Hr) as [Hk Hg]. rewrite Hk. simpl.
  destruct (N.eqb author me); rewrite <- Hg; destruct (can r me _ _ _); try reflexivity; discriminate.
Qed.

Theorem deletion_entitled defs me now ns es upd :
  validate_deletion me now (build_rooms defs) ns es upd = VOk ->
  forallb (fun n => del_entitled defs me now (dn_kind n) (dn_ent n) (dn_room n) (dn_author n) (dn_date n)) ns = true /\
  forallb (fun n => del_entitled defs me now (de_kind n) (de_ent n) (de_room n) (de_author n) (de_date n)) es = true /\
  forallb (upd_entitled defs me now) upd = true.
Proof.
  unfold validate_deletion. intros Hv.
  destruct (validate_dnodes me now (build_rooms defs) ns) eqn:Hn; try discriminate.
  destruct (validate_dupd me now (build_rooms defs) upd) eqn:Hu; try discriminate.
  split; [|split].
  - clear Hv Hu. induction ns as [|n tl IH]; simpl in *; [reflexivity|].
    destruct (check_del _ _ _ _ _ _ _ _) eqn:Hc; try discriminate.
    rewrite (check_del_entitled _ _ _ _ _ _ _ _ Hc). simpl. auto.
  - clear Hn Hu. induction es as [|n tl IH]; simpl in *; [reflexivity|].
    destruct (check_del _ _ _ _ _ _ _ _) eqn:Hc; try discriminate.
    rewrite (check_del_entitled _ _ _ _ _ _ _ _ Hc). simpl. auto.
  - clear Hv Hn. induction upd as [|n tl IH]; simpl in *; [reflexivity|].
    destruct (check_del _ _ _ _ _ _ _ _) eqn:Hc; try discriminate.
    unfold upd_entitled at 1. rewrite (check_del_entitled _ _ _ _ _ _ _ _ Hc). simpl. auto.
Qed.

(* the whole-case statement the harness relies on: whenever the model accepts, the oracle holds *)
Definition wf_case (c : c01case) : bool :=
  match c with
  | CMatrix _ _ => true
  | CMut _ _ _ ms => forallb wf_tree ms
  | CDel _ _ _ _ _ _ => true
  | CRoomMut _ _ _ _ _ => true
  | CFailedWrite _ => true
  | CE2E (CMut _ _ _ ms) => forallb wf_tree ms
  | CE2E (CDel _ _ _ _ _ _) => true
  | CE2E (CRoomMut _ _ _ _ _) => true
  | CE2E _ => false
  end.

Lemma room_update_admin defs me rid date news :
  run_C01 (CRoomMut defs me rid date news) = [0] ->
  known_room defs rid && admin_at (evs_of defs rid) me date = true.
Proof.
  simpl. unfold known_room, evs_of.
  induction defs as [|[id evs] tl IH]; simpl; [discriminate|].
  destruct (N.eqb id rid) eqn:He; simpl; [|exact IH].
  unfold validate_room_update. rewrite <- is_admin_admin_at.
  destruct (is_admin (build id evs) me date); simpl; [reflexivity|discriminate].
Qed.

Theorem model_accepts_only_entitled c :
  wf_case c = true ->
  match c with CMatrix _ _ => True | _ => spec_C01 c (run_C01 c) = true end.
Proof.
  destruct c as [evs probes|defs me mnow ms|defs me now ns es upd|defs me rid date news|finner|inner]; intros Hwf; try exact I.
  - simpl in *. destruct (validate_all me mnow (build_rooms defs) ms) eqn:Hv; simpl; try reflexivity.
    apply mutation_entitled; assumption.
  - simpl. destruct (validate_deletion me now (build_rooms defs) ns es upd) eqn:Hv; simpl; try reflexivity.
    destruct (deletion_entitled _ _ _ _ _ _ Hv) as (H1 & H2 & H3). rewrite H1, H2, H3. reflexivity.
  - pose proof (room_update_admin defs me rid date news) as HR.
    change (spec_C01 (CRoomMut defs me rid date news) (run_C01 (CRoomMut defs me rid date news)))
      with (match run_C01 (CRoomMut defs me rid date news) with
            | [v] => if Z.eqb v 0 then known_room defs rid && admin_at (evs_of defs rid) me date else true
            | _ => false end).
    destruct (run_C01 (CRoomMut defs me rid date news)) as [|v [|w l]] eqn:Hrun.
    + simpl in Hrun. destruct (find (fun p => N.eqb (fst p) rid) defs); discriminate.
    + destruct (Z.eqb v 0) eqn:Hv; [|reflexivity]. apply Z.eqb_eq in Hv. subst v. apply HR. reflexivity.
    + simpl in Hrun. destruct (find (fun p => N.eqb (fst p) rid) defs); discriminate.
  - reflexivity.
  - destruct inner as [evs probes|defs me mnow ms|defs me now ns es upd|defs me rid date news|finner|inner']; simpl in *; try discriminate.
    + destruct (validate_all me mnow (build_rooms defs) ms) eqn:Hv; simpl; try reflexivity.
      apply mutation_entitled; assumption.
    + destruct (validate_deletion me now (build_rooms defs) ns es upd) eqn:Hv; simpl; try reflexivity.
      destruct (deletion_entitled _ _ _ _ _ _ Hv) as (H1 & H2 & H3). rewrite H1, H2, H3. reflexivity.
    + pose proof (room_update_admin defs me rid date news) as HR. simpl in HR.
      destruct (find (fun p => N.eqb (fst p) rid) defs) as [p|] eqn:Hf; simpl; [|reflexivity].
      destruct (validate_room_update me (build (fst p) (snd p)) date news) eqn:Hv; simpl; try reflexivity.
      apply HR. reflexivity.
Qed.

(* the decisions of the real Room structure are the granted ones (matrix cases) *)
Theorem decisions_are_granted id evs k e d :
  can (build id evs) k e d MutateSelf = granted (accepted id evs) k e d MutateSelf /\
  can (build id evs) k e d MutateAll = granted (accepted id evs) k e d MutateAll /\
  is_admin (build id evs) k d = admin_at (accepted id evs) k d.
Proof. repeat split; [apply can_granted|apply can_granted|apply is_admin_admin_at]. Qed.

(* non-vacuity: a concrete history in which a member may write its own rows but not others' *)
Example C01_nonvacuous :
  let defs := [(1%N, [EvGroup 1%N; EvUser 1%N 2%N 10 true; EvRight 1%N 0%N 10 true false])] in
  validate_all 2%N 20 (build_rooms defs)
    [MEnt {| h_kind := KNormal; h_ent := 3%N; h_room := Some 1%N; h_date := 20; h_has_node := true;
             h_too_big := false; h_old := None; h_edge_dels := [] |} []] = VOk /\
  validate_all 2%N 20 (build_rooms defs)
    [MEnt {| h_kind := KNormal; h_ent := 3%N; h_room := Some 1%N; h_date := 20; h_has_node := true;
             h_too_big := false; h_old := Some {| o_room := Some 1%N; o_author := 5%N |}; h_edge_dels := [] |} []] = VRejected.
Proof. split; vm_compute; reflexivity. Qed.
