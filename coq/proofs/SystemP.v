(* SystemP.v — the system-level state invariant: over ANY interleaving, of any length, of remote
   ingestion calls, accepted local writes and accepted local deletions (model/System.v), with the room
   definitions fixed,
     (1) every stored row stays entitled — no side condition at all (rows_invariant);
     (2) every stored row AND reference stays entitled as long as no step retypes, moves or removes
         a row on which a kept reference hangs (store_invariant), and that side condition is needed
         (store_invariant_refuted);
     (3) C02's open kinds 3 and 4 are NOT what threatens the stored tables: a state invariant cannot see
         them (kinds_3_4_keep_the_invariant) — they are defects of the TRANSITION (whose row was
         displaced), which is what C02's per-call theorems speak about.
   Built from C01's and C02's per-call results: C01P.check_head_entitled, mutation_all_or_nothing,
   deletion_entitled; C02P.validate_node_true, can_grantedR, grantedR_needed and the fold lemmas. *)
From DV Require Import RightsP Run_C01 C01P Run_C02 C02P System.

(* ------------------------------------------------------------------ small facts *)
Lemma opt_eqb_refl (a : option N) : opt_eqb N.eqb a a = true.
Proof. destruct a; simpl; [apply N.eqb_refl|reflexivity]. Qed.

Lemma redge_eqb_refl y : redge_eqb y y = true.
Proof. unfold redge_eqb, oent_eqb. rewrite !N.eqb_refl, Z.eqb_refl, opt_eqb_refl, Bool.eqb_reflx. reflexivity. Qed.

Lemma same_place_refl n : same_place n n = true.
Proof. unfold same_place, oent_eqb. rewrite N.eqb_refl, !opt_eqb_refl. reflexivity. Qed.

Lemma same_place_eq n n' :
  same_place n n' = true -> n_id n' = n_id n /\ n_ent n' = n_ent n /\ n_room n' = n_room n.
Proof.
  unfold same_place. intros H. apply andb_prop in H. destruct H as [H H3]. apply andb_prop in H. destruct H as [H1 H2].
  apply N.eqb_eq in H1. apply oent_eqb_eq in H2. apply oent_eqb_eq in H3. auto.
Qed.

Lemma nodupN_NoDup l : nodupN l = true -> NoDup l.
Proof.
  induction l as [|a t IH]; simpl; intros H; constructor.
  - apply andb_prop in H. destruct H as [H _]. apply negb_true_iff in H. intros Hin.
    assert (E : existsb (N.eqb a) t = true) by (apply existsb_exists; exists a; split; [assumption|apply N.eqb_refl]).
    congruence.
  - apply IH. apply andb_prop in H. tauto.
Qed.

Lemma nodup_map_eq {A} (f : A -> N) l a b : NoDup (map f l) -> In a l -> In b l -> f a = f b -> a = b.
Proof.
  induction l as [|c l IH]; simpl; intros Hnd Ha Hb Hf; [contradiction|].
  inversion Hnd as [|? ? Hn Hd]; subst. destruct Ha as [Ha|Ha], Hb as [Hb|Hb].
  - congruence.
  - exfalso. apply Hn. subst c. rewrite Hf. apply in_map. assumption.
  - exfalso. apply Hn. subst c. rewrite <- Hf. apply in_map. assumption.
  - apply IH; assumption.
Qed.

Lemma all_entitled_iff defs st :
  all_entitled defs st = true <-> nodes_entitled defs st = true /\ edges_entitled defs st = true.
Proof. unfold all_entitled. apply andb_true_iff. Qed.

(* ------------------------------------------------------------------ the generic step *)
(* what a step may do to the two tables: a row / reference of `after` was there before or is entitled *)
Definition nodes_ok defs (before after : store) : Prop :=
  forall x, In x (s_nodes after) -> In x (s_nodes before) \/ entitled_node defs x = true.
Definition edges_ok defs (before after : store) : Prop :=
  forall y, In y (s_edges after) -> In y (s_edges before) \/ entitled_edge defs (s_nodes after) y = true.

Lemma nodes_ok_entitled defs before after :
  nodes_ok defs before after -> nodes_entitled defs before = true -> nodes_entitled defs after = true.
Proof.
  unfold nodes_ok, nodes_entitled. intros Hok Hb. rewrite forallb_forall in Hb. apply forallb_forall.
  intros x Hx. destruct (Hok x Hx) as [H|H]; auto.
Qed.

(* a kept reference stays entitled if the rows it hangs on keep id, entity and room *)
Lemma kept_edge_entitled defs before after y :
  anchors_kept before after = true -> In y (s_edges before) -> In y (s_edges after) ->
  entitled_edge defs (s_nodes before) y = true -> entitled_edge defs (s_nodes after) y = true.
Proof.
  unfold entitled_edge. intros Hk Hb Ha. destruct (e_ent y) as [en|] eqn:Ee; [|discriminate]. intros He.
  apply existsb_exists in He. destruct He as [n [Hn Hc]]. apply andb_prop in Hc. destruct Hc as [Hanc Hgr].
  unfold anchors_kept in Hk. rewrite forallb_forall in Hk. specialize (Hk n Hn).
  assert (Hcar : carries_kept before after n = true).
  { unfold carries_kept. apply existsb_exists. exists y. split; [assumption|]. rewrite Hanc. cbn [andb].
    apply existsb_exists. exists y. split; [assumption|apply redge_eqb_refl]. }
  rewrite Hcar in Hk. cbn [negb orb] in Hk. apply existsb_exists in Hk. destruct Hk as [n' [Hn' Hsp]].
  destruct (same_place_eq _ _ Hsp) as [Hid [Hent Hroom]].
  apply existsb_exists. exists n'. split; [assumption|].
  unfold anchors in *. rewrite Hid, Hent, Hroom, Hanc. exact Hgr.
Qed.

Lemma step_preserves defs before after :
  all_entitled defs before = true -> anchors_kept before after = true ->
  nodes_ok defs before after -> edges_ok defs before after ->
  all_entitled defs after = true.
Proof.
  intros Hall Hk Hn He. apply all_entitled_iff in Hall. destruct Hall as [HN HE].
  apply all_entitled_iff. split; [eapply nodes_ok_entitled; eauto|].
  unfold edges_entitled in *. rewrite forallb_forall in HE. apply forallb_forall.
  intros y Hy. destruct (He y Hy) as [H|H]; [|assumption]. eapply kept_edge_entitled; eauto.
Qed.

Lemma anchors_kept_same_nodes before after : s_nodes after = s_nodes before -> anchors_kept before after = true.
Proof.
  intros H. unfold anchors_kept. apply forallb_forall. intros n Hn. apply orb_true_iff. right.
  apply existsb_exists. exists n. rewrite H. split; [assumption|apply same_place_refl].
Qed.

(* ------------------------------------------------------------------ remote rows (C02: add_nodes) *)
Lemma accept_node_entitled_node defs dm R st x :
  accept_node (build_rooms defs) dm R st x = true -> entitled_node defs x = true.
Proof.
  unfold accept_node, prefilter. intros Hacc.
  apply andb_prop in Hacc. destruct Hacc as [Hpre Hval]. apply andb_prop in Hpre. destruct Hpre as [Hroom Hmodel].
  destruct (n_room x) as [r|] eqn:Er; [|discriminate]. apply N.eqb_eq in Hroom. subst r.
  destruct (n_ent x) as [en|] eqn:Ee; [|discriminate].
  unfold entitled_node. rewrite Er, Ee.
  destruct (lookup_node st (n_id x)) as [o|].
  - destruct (validate_node_true defs x (n_room o) (Some (n_author o)) R en Er Ee Hval) as [_ [Hg _]].
    cbn [required_right] in Hg. eapply grantedR_needed. exact Hg.
  - destruct (validate_node_true defs x None None R en Er Ee Hval) as [_ [Hg _]]. exact Hg.
Qed.

Lemma step_nodes_rows defs dm R st b : nodes_ok defs st (fst (step_nodes (build_rooms defs) dm R st b)).
Proof.
  unfold nodes_ok, step_nodes. destruct (forallb n_sig_ok (filter (requested st) b)); cbn [fst]; [|auto].
  intros x Hx. destruct (fold_put_node_in _ _ _ Hx) as [H|H]; [auto|]. right.
  apply filter_In in H. destruct H as [_ Hacc]. eapply accept_node_entitled_node; eauto.
Qed.
Lemma step_nodes_refs defs dm R st b : edges_ok defs st (fst (step_nodes (build_rooms defs) dm R st b)).
Proof.
  unfold edges_ok, step_nodes. destruct (forallb n_sig_ok (filter (requested st) b)); cbn [fst]; [|auto].
  intros y Hy. left. rewrite (proj1 (fold_put_node_frame _ _)) in Hy. exact Hy.
Qed.

(* ------------------------------------------------------------------ remote references (C02: add_edges) *)
Lemma edge_ok_entitled_edge defs R r st x :
  find_room (build_rooms defs) R = Some r -> edge_ok r R st x = true ->
  entitled_edge defs (s_nodes st) x = true.
Proof.
  unfold edge_ok, edge_right, entitled_edge. intros Hr. destruct (e_ent x) as [en|] eqn:Ee; [|discriminate].
  intros Hok. apply andb_prop in Hok. destruct Hok as [Hsrc Hcan].
  unfold src_in_room in Hsrc. apply existsb_exists in Hsrc. destruct Hsrc as [n [Hn Hc]].
  apply andb_prop in Hc. destruct Hc as [Hc Hent]. apply andb_prop in Hc. destruct Hc as [Hid Hroom].
  apply oent_eqb_eq in Hroom.
  apply existsb_exists. exists n. split; [assumption|].
  unfold anchors. rewrite Hid, Ee, Hent, Hroom. cbn [andb room_grants]. eapply can_grantedR; eauto.
Qed.

Lemma step_edges_rows defs R st b : nodes_ok defs st (fst (step_edges (build_rooms defs) R st b)).
Proof.
  unfold nodes_ok, step_edges. destruct (forallb e_sig_ok b); cbn [fst]; [|auto].
  destruct (find_room (build_rooms defs) R); cbn [fst]; [|auto].
  intros x Hx. left. rewrite (proj1 (fold_put_edge_frame _ _)) in Hx. exact Hx.
Qed.
Lemma step_edges_refs defs R st b : edges_ok defs st (fst (step_edges (build_rooms defs) R st b)).
Proof.
  unfold edges_ok, step_edges. destruct (forallb e_sig_ok b); cbn [fst]; [|auto].
  destruct (find_room (build_rooms defs) R) as [r|] eqn:Hr; cbn [fst]; [|auto].
  intros y Hy. rewrite (proj1 (fold_put_edge_frame _ _)).
  destruct (fold_put_edge_in _ _ _ Hy) as [H|H]; [auto|]. right.
  apply filter_In in H. destruct H as [_ Hok]. eapply edge_ok_entitled_edge; eauto.
Qed.
Lemma step_edges_nodes_same rooms R st b : s_nodes (fst (step_edges rooms R st b)) = s_nodes st.
Proof.
  unfold step_edges. destruct (forallb e_sig_ok b); cbn [fst]; [|reflexivity].
  destruct (find_room rooms R); cbn [fst]; [|reflexivity]. apply (proj1 (fold_put_edge_frame _ _)).
Qed.

(* ------------------------------------------------------------------ row tombstones (C02: delete_nodes) *)
Lemma fold_ndel_sub rooms b : forall st,
  (forall y, In y (s_nodes (fold_left (one_ndel rooms) b st)) -> In y (s_nodes st)) /\
  s_edges (fold_left (one_ndel rooms) b st) = s_edges st.
Proof.
  induction b as [|d tl IH]; intros st; cbn [fold_left]; [auto|].
  destruct (IH (one_ndel rooms st d)) as [Hs He]. split.
  - intros y Hy. apply Hs in Hy. unfold one_ndel in Hy. destruct (ndel_ok rooms st d); [|assumption].
    cbn [apply_ndel s_nodes] in Hy. apply filter_In in Hy. tauto.
  - rewrite He. unfold one_ndel. destruct (ndel_ok rooms st d); reflexivity.
Qed.

Lemma step_ndels_rows defs st b : nodes_ok defs st (fst (step_ndels (build_rooms defs) st b)).
Proof.
  unfold nodes_ok, step_ndels. destruct (forallb nd_sig_ok b); cbn [fst]; [|auto].
  intros x Hx. left. eapply (proj1 (fold_ndel_sub _ _ _)). exact Hx.
Qed.
Lemma step_ndels_refs defs st b : edges_ok defs st (fst (step_ndels (build_rooms defs) st b)).
Proof.
  unfold edges_ok, step_ndels. destruct (forallb nd_sig_ok b); cbn [fst]; [|auto].
  intros y Hy. left. rewrite (proj2 (fold_ndel_sub _ _ _)) in Hy. exact Hy.
Qed.

(* ------------------------------------------------------------------ reference tombstones (C02: delete_edges) *)
Lemma step_edels_rows defs st b : nodes_ok defs st (fst (step_edels (build_rooms defs) st b)).
Proof.
  unfold nodes_ok, step_edels. destruct (forallb ed_sig_ok b); cbn [fst]; [|auto].
  intros x Hx. left. rewrite (proj1 (fold_edel_frame _ _)) in Hx. exact Hx.
Qed.
Lemma step_edels_refs defs st b : edges_ok defs st (fst (step_edels (build_rooms defs) st b)).
Proof.
  unfold edges_ok, step_edels. destruct (forallb ed_sig_ok b); cbn [fst]; [|auto].
  intros y Hy. left. eapply fold_edel_edges_sub. exact Hy.
Qed.
Lemma step_edels_nodes_same rooms st b : s_nodes (fst (step_edels rooms st b)) = s_nodes st.
Proof.
  unfold step_edels. destruct (forallb ed_sig_ok b); cbn [fst]; [|reflexivity]. apply (proj1 (fold_edel_frame _ _)).
Qed.

(* ------------------------------------------------------------------ local writes (C01: validate_mutation) *)
(* what C01's oracle says of a written head, read for the room the row enters *)
Lemma head_entitled_enter defs me now h rid :
  head_entitled defs me now h = true -> h_room h = Some rid ->
  grantedR defs rid me (h_ent h) (h_date h) MutateSelf = true.
Proof.
  unfold head_entitled. intros H Hr. destruct (h_kind h); [|discriminate]. cbv zeta in H. rewrite Hr in H.
  apply andb_prop in H. destruct H as [H _]. apply andb_prop in H. destruct H as [H _].
  eapply grantedR_needed. unfold grantedR. exact H.
Qed.

Lemma check_head_row defs me now h rid :
  check_head me now (build_rooms defs) h = None -> h_has_node h = true -> h_room h = Some rid ->
  grantedR defs rid me (h_ent h) (h_date h) MutateSelf = true.
Proof.
  intros Hc Hn Hr. eapply head_entitled_enter; [|exact Hr].
  apply check_head_entitled; [|exact Hc|exact Hn]. unfold wf_head. rewrite Hr. reflexivity.
Qed.

Lemma validate_entity_rows defs me now m :
  validate_entity me now (build_rooms defs) m = VOk ->
  forall h, In h (written m) -> room_grants defs (h_room h) me (h_ent h) (h_date h) = true.
Proof.
  induction m as [h0 subs IH] using ment_ind'. intros Hv h Hin. simpl in Hv, Hin.
  destruct (check_head me now (build_rooms defs) h0) as [v|] eqn:Hc.
  - subst v. exfalso. eapply check_head_not_ok; eauto.
  - apply in_app_or in Hin. destruct Hin as [Hin|Hin].
    + destruct (h_has_node h0) eqn:Hn; [|contradiction]. destruct Hin as [<-|[]].
      unfold room_grants. destruct (h_room h0) as [rid|] eqn:Hr; [|reflexivity]. eapply check_head_row; eauto.
    + clear Hc. induction subs as [|s tl IHl]; simpl in *; [contradiction|].
      inversion IH as [|? ? IHs IHtl]; subst.
      destruct (validate_entity me now (build_rooms defs) s) eqn:Hvs; try discriminate.
      apply in_app_or in Hin. destruct Hin as [Hin|Hin]; [apply (IHs eq_refl h Hin)|apply IHl; assumption].
Qed.

Lemma validate_all_rows defs me now ms :
  validate_all me now (build_rooms defs) ms = VOk ->
  forall h, In h (flat_map written ms) -> room_grants defs (h_room h) me (h_ent h) (h_date h) = true.
Proof.
  intros Hv h Hin. apply in_flat_map in Hin. destruct Hin as [m [Hm Hh]].
  pose proof (mutation_all_or_nothing _ _ _ _ Hv) as Hall. rewrite Forall_forall in Hall.
  eapply validate_entity_rows; eauto.
Qed.

Lemma row_node_entitled defs me p :
  room_grants defs (h_room (fst p)) me (h_ent (fst p)) (h_date (fst p)) = true ->
  entitled_node defs (row_node me p) = true.
Proof.
  unfold entitled_node, row_node, local_node, room_grants. cbn [n_room n_ent n_author n_mdate].
  destruct (h_room (fst p)); auto.
Qed.

Lemma fold_del_edge_spec pks : forall st,
  s_nodes (fold_left del_edge pks st) = s_nodes st /\
  forall y, In y (s_edges (fold_left del_edge pks st)) -> In y (s_edges st).
Proof.
  induction pks as [|a tl IH]; intros st; cbn [fold_left]; [auto|].
  destruct (IH (del_edge st a)) as [Hn He]. split; [rewrite Hn; reflexivity|].
  intros y Hy. apply He in Hy. cbn [del_edge s_edges] in Hy. apply filter_In in Hy. tauto.
Qed.

Lemma row_edges_spec me st p :
  s_nodes (row_edges me st p) = s_nodes st /\
  forall y, In y (s_edges (row_edges me st p)) -> In y (s_edges st) \/ In y (row_refs me p).
Proof.
  unfold row_edges.
  destruct (fold_del_edge_spec (map (fun ld => (row_id p, fst ld, snd ld)) (x_unrefs (snd p))) st) as [Hn He].
  split.
  - rewrite (proj1 (fold_put_edge_frame _ _)). exact Hn.
  - intros y Hy. destruct (fold_put_edge_in _ _ _ Hy) as [H|H]; [left; apply He; exact H|right; exact H].
Qed.

Lemma fold_row_edges_spec me rows : forall st,
  s_nodes (fold_left (row_edges me) rows st) = s_nodes st /\
  forall y, In y (s_edges (fold_left (row_edges me) rows st)) ->
            In y (s_edges st) \/ exists p, In p rows /\ In y (row_refs me p).
Proof.
  induction rows as [|p tl IH]; intros st; cbn [fold_left]; [auto|].
  destruct (IH (row_edges me st p)) as [Hn He]. destruct (row_edges_spec me st p) as [Hn1 He1].
  split; [rewrite Hn; exact Hn1|].
  intros y Hy. destruct (He y Hy) as [H|[q [Hq Hy']]].
  - destruct (He1 y H) as [H'|H']; [auto|]. right. exists p. split; [left; reflexivity|assumption].
  - right. exists q. split; [right; assumption|assumption].
Qed.

(* a row written by a fold of put_node is still there at the end, or a later row of the same id is *)
Lemma fold_put_node_last acc : forall st a,
  In a acc -> exists x, In x (s_nodes (fold_left put_node acc st)) /\ n_id x = n_id a /\ In x acc.
Proof.
  induction acc as [|c tl IH]; intros st a Hin; [contradiction|]. cbn [fold_left]. destruct Hin as [->|Hin].
  - destruct (fold_put_node_keep tl (put_node st a) a) as [H|[x [Hx [Hid Ha]]]]; [cbn [put_node s_nodes]; left; reflexivity| |].
    + exists a. split; [assumption|]. split; [reflexivity|left; reflexivity].
    + exists x. split; [assumption|]. split; [assumption|right; assumption].
  - destruct (IH (put_node st c) a Hin) as [x [Hx [Hid Ha]]]. exists x. split; [assumption|]. split; [assumption|right; assumption].
Qed.

Lemma step_write_rows defs st me now ms xs ndl edl :
  nodes_ok defs st (fst (step_write (build_rooms defs) st me now ms xs ndl edl)).
Proof.
  unfold nodes_ok, step_write. destruct (validate_all me now (build_rooms defs) ms) eqn:Hv; cbn [fst]; auto.
  destruct (Nat.eqb (length (flat_map written ms)) (length xs)); cbn [fst]; [|auto]. cbn [with_logs s_nodes].
  intros x Hx. rewrite (proj1 (fold_row_edges_spec me _ _)) in Hx.
  destruct (fold_put_node_in _ _ _ Hx) as [H|H]; [auto|]. right.
  apply in_map_iff in H. destruct H as [p [<- Hp]]. apply row_node_entitled.
  eapply validate_all_rows; [exact Hv|]. destruct p as [h x0]. unfold write_rows in Hp. eapply in_combine_l. exact Hp.
Qed.

Lemma step_write_refs defs st me now ms xs ndl edl :
  nodupN (map row_id (write_rows ms xs)) = true ->
  edges_ok defs st (fst (step_write (build_rooms defs) st me now ms xs ndl edl)).
Proof.
  intros Hnd. unfold edges_ok, step_write. destruct (validate_all me now (build_rooms defs) ms) eqn:Hv; cbn [fst]; auto.
  destruct (Nat.eqb (length (flat_map written ms)) (length xs)); cbn [fst]; [|auto]. cbn [with_logs s_nodes s_edges].
  set (rows := write_rows ms xs) in *. set (st1 := fold_left put_node (map (row_node me) rows) st).
  destruct (fold_row_edges_spec me rows st1) as [Hn He]. rewrite Hn.
  intros y Hy. destruct (He y Hy) as [H|[p [Hp Hyp]]].
  - left. unfold st1 in H. rewrite (proj1 (fold_put_node_frame _ _)) in H. exact H.
  - right.
    assert (Hsurv : In (row_node me p) (s_nodes st1)).
    { unfold st1.
      destruct (fold_put_node_last (map (row_node me) rows) st (row_node me p)) as [x [Hx [Hid Hacc]]]; [apply in_map; exact Hp|].
      replace (row_node me p) with x; [exact Hx|].
      apply (nodup_map_eq n_id (map (row_node me) rows)); [|exact Hacc|apply in_map; exact Hp|exact Hid].
      rewrite map_map. apply nodupN_NoDup. exact Hnd. }
    apply in_map_iff in Hyp. destruct Hyp as [r [<- Hr]]. unfold entitled_edge. cbn [e_ent].
    apply existsb_exists. exists (row_node me p). split; [exact Hsurv|].
    unfold anchors, row_node, local_node, row_id, oent_eqb.
    cbn [n_id n_ent n_room e_src e_ent e_author e_cdate opt_eqb]. rewrite !N.eqb_refl. cbn [andb].
    eapply validate_all_rows; [exact Hv|]. destruct p as [h x0]. unfold rows, write_rows in Hp. eapply in_combine_l. exact Hp.
Qed.

(* ------------------------------------------------------------------ local deletions (C01: validate_deletion) *)
Lemma fold_del_node_spec ids : forall st,
  (forall x, In x (s_nodes (fold_left del_node ids st)) -> In x (s_nodes st)) /\
  (forall y, In y (s_edges (fold_left del_node ids st)) -> In y (s_edges st)).
Proof.
  induction ids as [|a tl IH]; intros st; cbn [fold_left]; [auto|].
  destruct (IH (del_node st a)) as [Hn He]. split.
  - intros x Hx. apply Hn in Hx. cbn [del_node s_nodes] in Hx. apply filter_In in Hx. tauto.
  - intros y Hy. apply He in Hy. cbn [del_node s_edges] in Hy. apply filter_In in Hy. tauto.
Qed.

Lemma upd_node_entitled defs me now p :
  upd_entitled defs me now (fst p) = true -> entitled_node defs (upd_node me now p) = true.
Proof.
  unfold upd_entitled, del_entitled, entitled_node, upd_node, local_node. cbn [n_room n_ent n_author n_mdate].
  destruct (dn_kind (fst p)); [|discriminate]. destruct (dn_room (fst p)) as [rid|]; [|reflexivity].
  intros H. apply andb_prop in H. destruct H as [Hk Hg]. unfold grantedR. rewrite Hk. cbn [andb].
  destruct (N.eqb (dn_author (fst p)) me); [exact Hg|apply granted_all_self; exact Hg].
Qed.

Lemma step_delete_rows defs st me now ns es upd ndl edl :
  nodes_ok defs st (fst (step_delete (build_rooms defs) st me now ns es upd ndl edl)).
Proof.
  unfold nodes_ok, step_delete.
  destruct (validate_deletion me now (build_rooms defs) (map fst ns) (map fst es) (map fst upd)) eqn:Hv; cbn [fst]; auto.
  cbn [with_logs s_nodes]. intros x Hx.
  destruct (fold_put_node_in _ _ _ Hx) as [H|H].
  - left. apply (proj1 (fold_del_node_spec _ _)) in H. rewrite (proj1 (fold_del_edge_spec _ _)) in H. exact H.
  - right. apply in_map_iff in H. destruct H as [p [<- Hp]]. apply upd_node_entitled.
    destruct (deletion_entitled _ _ _ _ _ _ Hv) as [_ [_ Hu]]. rewrite forallb_forall in Hu.
    apply Hu. apply in_map. exact Hp.
Qed.
Lemma step_delete_refs defs st me now ns es upd ndl edl :
  edges_ok defs st (fst (step_delete (build_rooms defs) st me now ns es upd ndl edl)).
Proof.
  unfold edges_ok, step_delete.
  destruct (validate_deletion me now (build_rooms defs) (map fst ns) (map fst es) (map fst upd)); cbn [fst]; auto.
  cbn [with_logs s_edges]. intros y Hy. left.
  rewrite (proj1 (fold_put_node_frame _ _)) in Hy.
  apply (proj2 (fold_del_node_spec _ _)) in Hy. apply (proj2 (fold_del_edge_spec _ _)) in Hy. exact Hy.
Qed.

(* ------------------------------------------------------------------ one preservation lemma per kind of step *)
Theorem preserved_by_remote_rows defs dm R st b :
  let after := fst (step_nodes (build_rooms defs) dm R st b) in
  all_entitled defs st = true -> anchors_kept st after = true -> all_entitled defs after = true.
Proof. intros after Hall Hk. apply step_preserves with st; auto; [apply step_nodes_rows|apply step_nodes_refs]. Qed.

(* references and their tombstones do not touch the rows: no side condition *)
Theorem preserved_by_remote_references defs R st b :
  all_entitled defs st = true -> all_entitled defs (fst (step_edges (build_rooms defs) R st b)) = true.
Proof.
  intros Hall. apply step_preserves with st; auto; [|apply step_edges_rows|apply step_edges_refs].
  apply anchors_kept_same_nodes. apply step_edges_nodes_same.
Qed.

Theorem preserved_by_row_tombstones defs st b :
  let after := fst (step_ndels (build_rooms defs) st b) in
  all_entitled defs st = true -> anchors_kept st after = true -> all_entitled defs after = true.
Proof. intros after Hall Hk. apply step_preserves with st; auto; [apply step_ndels_rows|apply step_ndels_refs]. Qed.

(* in particular the open kind 1 of C02 (tombstone of a reference whose source row lies in another
   room) cannot break the invariant: it only removes a reference *)
Theorem preserved_by_reference_tombstones defs st b :
  all_entitled defs st = true -> all_entitled defs (fst (step_edels (build_rooms defs) st b)) = true.
Proof.
  intros Hall. apply step_preserves with st; auto; [|apply step_edels_rows|apply step_edels_refs].
  apply anchors_kept_same_nodes. apply step_edels_nodes_same.
Qed.

Theorem preserved_by_local_write defs st me now ms xs ndl edl :
  let after := fst (step_write (build_rooms defs) st me now ms xs ndl edl) in
  all_entitled defs st = true -> anchors_kept st after = true ->
  nodupN (map row_id (write_rows ms xs)) = true -> all_entitled defs after = true.
Proof.
  intros after Hall Hk Hnd. apply step_preserves with st; auto; [apply step_write_rows|apply step_write_refs; exact Hnd].
Qed.

Theorem preserved_by_local_deletion defs st me now ns es upd ndl edl :
  let after := fst (step_delete (build_rooms defs) st me now ns es upd ndl edl) in
  all_entitled defs st = true -> anchors_kept st after = true -> all_entitled defs after = true.
Proof. intros after Hall Hk. apply step_preserves with st; auto; [apply step_delete_rows|apply step_delete_refs]. Qed.

(* ------------------------------------------------------------------ any step *)
Lemma sys_do_rows defs dm st s : nodes_ok defs st (fst (sys_do (build_rooms defs) dm st s)).
Proof.
  destruct s as [[R b|R b|b|b]|me now ms xs ndl edl|me now ns es upd ndl edl]; cbn [sys_do do_step].
  - apply step_nodes_rows.
  - apply step_edges_rows.
  - apply step_ndels_rows.
  - apply step_edels_rows.
  - apply step_write_rows.
  - apply step_delete_rows.
Qed.

Lemma sys_do_refs defs dm st s :
  step_stable st s (fst (sys_do (build_rooms defs) dm st s)) = true ->
  edges_ok defs st (fst (sys_do (build_rooms defs) dm st s)).
Proof.
  unfold step_stable. intros H. apply andb_prop in H. destruct H as [_ H].
  destruct s as [[R b|R b|b|b]|me now ms xs ndl edl|me now ns es upd ndl edl]; cbn [sys_do do_step].
  - apply step_nodes_refs.
  - apply step_edges_refs.
  - apply step_ndels_refs.
  - apply step_edels_refs.
  - apply step_write_refs. exact H.
  - apply step_delete_refs.
Qed.

(* the side condition is empty for the two kinds of call that only touch references *)
Theorem reference_calls_are_stable rooms dm st s :
  match s with SEdges _ _ | SEDels _ => True | _ => False end ->
  step_stable st (SysRemote s) (fst (sys_do rooms dm st (SysRemote s))) = true.
Proof.
  unfold step_stable. rewrite andb_true_r. destruct s as [R b|R b|b|b]; intros H; try contradiction; cbn [sys_do do_step].
  - apply anchors_kept_same_nodes. apply step_edges_nodes_same.
  - apply anchors_kept_same_nodes. apply step_edels_nodes_same.
Qed.

(* ------------------------------------------------------------------ THE INVARIANT: induction over the history *)
(* (1) rows: every interleaving of every length, no side condition, kinds 1, 3, 4 included *)
Theorem rows_invariant defs dm : forall hist st,
  nodes_entitled defs st = true ->
  nodes_entitled defs (sys_final (build_rooms defs) dm st hist) = true.
Proof.
  induction hist as [|s tl IH]; intros st H; cbn [sys_final]; [exact H|].
  apply IH. eapply nodes_ok_entitled; [apply sys_do_rows|exact H].
Qed.

(* (2) rows and references *)
Theorem store_invariant defs dm : forall hist st,
  all_entitled defs st = true ->
  hist_stable (build_rooms defs) dm st hist = true ->
  all_entitled defs (sys_final (build_rooms defs) dm st hist) = true.
Proof.
  induction hist as [|s tl IH]; intros st Hall Hs; cbn [sys_final]; [exact Hall|].
  cbn [hist_stable] in Hs. apply andb_prop in Hs. destruct Hs as [H1 H2].
  apply IH; [|exact H2]. apply step_preserves with st.
  - exact Hall.
  - unfold step_stable in H1. apply andb_prop in H1. tauto.
  - apply sys_do_rows.
  - apply sys_do_refs. exact H1.
Qed.

(* the purely local reading (C01): whatever the local user writes or deletes through validated
   requests, every stored row stays entitled.  (A special case of rows_invariant.) *)
Theorem local_rows_invariant defs dm hist st :
  forallb is_local hist = true ->
  nodes_entitled defs st = true ->
  nodes_entitled defs (sys_final (build_rooms defs) dm st hist) = true.
Proof. intros _. apply rows_invariant. Qed.

(* the empty store satisfies the hypothesis *)
Lemma empty_store_entitled defs : all_entitled defs {| s_nodes := []; s_edges := []; s_ndels := []; s_edels := [] |} = true.
Proof. reflexivity. Qed.

(* ------------------------------------------------------------------ closed cases *)
Local Open Scope N_scope.
Definition priv_w (tag id : N) (ent : entity) (mdate : Z) (author : key) : rnode :=
  {| n_tag := tag; n_id := id; n_room := None; n_ent := Some ent; n_json := good_w; n_mdate := mdate;
     n_author := author; n_sig := tag; n_sig_ok := true; n_too_big := false |}.
Definition head_w (ent : entity) (room : uid) (date : Z) (old : option oldn) : mhead :=
  {| h_kind := KNormal; h_ent := ent; h_room := Some room; h_date := date; h_has_node := true;
     h_too_big := false; h_old := old; h_edge_dels := [] |}.
Definition lrow_w (tag id : N) : lrow := {| x_tag := tag; x_id := id; x_json := good_w; x_sig := tag |}.
Definition lx_w (tag id : N) (refs : list (N * N * uid)) : lextra :=
  {| x_row := lrow_w tag id; x_refs := refs; x_unrefs := [] |}.

(* non-vacuity: from the EMPTY store — a local write of two rows and a reference (key 1), a row and a
   reference received from a peer (key 2, own-rows right), a local write by key 3 (no member of the
   room: REFUSED, answer [1]), a local deletion of the first reference that writes its source row again,
   a new version of the peer's row on which its reference hangs (same id, entity and room: stable).
   The history is stable, the oracle of C02 reports nothing, three rows and one reference are held
   at the end, all entitled. *)
Definition w_sys_ok : syscase :=
  {| c_defs := [(1, member_w 1 1 0 true true ++ member_w 2 2 0 true false)]; c_dm := dm_w;
     c_pre := st_w [] [];
     c_hist :=
       [SysWrite 1 20%Z [MEnt (head_w 1 1 20%Z None) [MEnt (head_w 2 1 20%Z None) []]]
                 [lx_w 1 100 [(3, 1, 101)]; lx_w 2 101 []] [] [];
        SysRemote (SNodes 1 [node_w 6 102 1 2 good_w 27%Z 2]);
        SysRemote (SEdges 1 [edge_w 8 102 2 100 27%Z 2]);
        SysWrite 3 28%Z [MEnt (head_w 1 1 28%Z None) []] [lx_w 7 103 []] [] [];
        SysDelete 1 30%Z []
                  [({| de_kind := KNormal; de_ent := 1; de_room := Some 1; de_author := 1; de_date := 20%Z |}, (100, 1, 101))]
                  [({| dn_kind := KNormal; dn_ent := 1; dn_room := Some 1; dn_author := 1; dn_date := 20%Z |}, lrow_w 9 100)]
                  [] [];
        SysRemote (SNodes 1 [node_w 10 102 1 2 good_w 29%Z 2])] |}.

Example store_invariant_nonvacuous :
  verdicts w_sys_ok = (true, true, true, true) /\ c_kinds w_sys_ok = [] /\
  c_answers w_sys_ok = [[0]; [0; 0]; [0; 0]; [1]; [0]; [0; 0]]%Z /\
  dump (c_final w_sys_ok) = [3; 2; 9; 10;  1; 8;  0;  0]%Z.
Proof. repeat split; vm_compute; reflexivity. Qed.

(* WITHOUT the side condition the invariant is lost (the rows stay entitled, a reference does not): *)
(* (a) RETYPE, by a step of C02's kind 3: key 1 may write E1, key 2 may write E2; key 2 replaces the
   E1 row 100 of key 1 — on which the reference 100 -> 101 of key 1 hangs — by an E2 row *)
Definition w_retype : syscase :=
  {| c_defs := [(1, member_w 1 1 1 true true ++ member_w 2 2 2 true true)]; c_dm := dm_w;
     c_pre := st_w [node_w 1 100 1 1 good_w 20%Z 1; node_w 2 101 1 1 good_w 20%Z 1] [edge_w 3 100 1 101 20%Z 1];
     c_hist := [SysRemote (SNodes 1 [node_w 4 100 1 2 good_w 30%Z 2])] |}.
(* (b) REMOVE, by a flawless call: key 1 deletes its own row 100; delete_nodes leaves the references of
   the row in _edge (the local deletion removes them: deletion.rs Edge::delete_src / delete_dest) *)
Definition w_tombstone : syscase :=
  {| c_defs := c_defs w_retype; c_dm := dm_w; c_pre := c_pre w_retype;
     c_hist := [SysRemote (SNDels [{| nd_tag := 4; nd_room := 1; nd_id := 100; nd_ent := Some 1; nd_mdate := 20%Z;
                                     nd_date := 30%Z; nd_author := 1; nd_sig_ok := true |}])] |}.
(* (c) MOVE, by a flawless call: key 1 holds the all-rows right in rooms 1 and 2, key 2 the own-rows
   right in room 2 only; key 1 moves row 100 of key 2 from room 2 to room 1: the reference key 2
   created on it now lies in room 1 *)
Definition w_move : syscase :=
  {| c_defs := [(1, member_w 1 1 0 true true); (2, member_w 1 1 0 true true ++ member_w 2 2 0 true false)]; c_dm := dm_w;
     c_pre := st_w [node_w 1 100 2 1 good_w 20%Z 2; node_w 2 101 2 1 good_w 20%Z 2] [edge_w 3 100 1 101 20%Z 2];
     c_hist := [SysRemote (SNodes 1 [node_w 4 100 1 1 good_w 30%Z 1])] |}.
(* (d) MOVE, locally: key 1 created a private row with a private reference at date 5, was given rights
   in room 1 from date 10, and moves the row into the room at date 20 (accepted by validate_mutation):
   the reference of date 5 is now a reference of room 1 *)
Definition w_local_move : syscase :=
  {| c_defs := [(1, member_w 1 1 0 true true)]; c_dm := dm_w;
     c_pre := st_w [priv_w 1 100 1 5%Z 1; priv_w 2 101 1 5%Z 1] [edge_w 3 100 1 101 5%Z 1];
     c_hist := [SysWrite 1 20%Z [MEnt (head_w 1 1 20%Z (Some {| o_room := None; o_author := 1 |})) []]
                         [lx_w 4 100 []] [] []] |}.
(* (e) the same row id written twice by one request (an E1 row with a reference, then an E2 row as
   its sub-entity): the reference hangs on the second version.  Here every row that carried a
   reference is kept (there was none): it is the second clause of step_stable that fails *)
Definition w_twice : syscase :=
  {| c_defs := [(1, member_w 1 1 0 true true)]; c_dm := dm_w; c_pre := st_w [] [];
     c_hist := [SysWrite 1 20%Z [MEnt (head_w 1 1 20%Z None) [MEnt (head_w 2 1 20%Z None) []]]
                         [lx_w 1 7 [(3, 1, 8)]; lx_w 2 7 []] [] []] |}.

Example store_invariant_refuted :
  verdicts w_retype = (true, false, true, false) /\ c_kinds w_retype = [3%Z] /\
  verdicts w_tombstone = (true, false, true, false) /\ c_kinds w_tombstone = [] /\
  verdicts w_move = (true, false, true, false) /\ c_kinds w_move = [] /\
  verdicts w_local_move = (true, false, true, false) /\
  verdicts w_twice = (true, false, true, false) /\ anchors_kept (c_pre w_twice) (c_final w_twice) = true.
Proof. repeat split; vm_compute; reflexivity. Qed.

(* C02's open kinds 3 and 4 do NOT break the invariant: the witness of kind 3 of C02P (an E1 row of
   key 1 replaced by an E2 row of key 2, who has no right on E1) and a witness of kind 4 (key 2,
   own-rows right only, replaces the reference of key 1; as C02P.w_K4 but with an entitled initial
   store) are stable histories whose final stores are entitled.  What those steps violate is the
   right of the DISPLACED row / reference, which no predicate on the tables can express. *)
Definition w_K4e : syscase :=
  {| c_defs := [(1, member_w 1 1 1 true true ++ member_w 2 2 1 true false)]; c_dm := dm_w;
     c_pre := st_w [node_w 1 100 1 1 good_w 20%Z 1; node_w 2 101 1 1 good_w 20%Z 1] [edge_w 3 100 1 101 20%Z 1];
     c_hist := [SysRemote (SEdges 1 [edge_w 4 100 1 101 30%Z 2])] |}.

Example kinds_3_4_keep_the_invariant :
  verdicts (of_c02 w_K3) = (true, true, true, true) /\ c_kinds (of_c02 w_K3) = [3%Z] /\
  verdicts w_K4e = (true, true, true, true) /\ c_kinds w_K4e = [4%Z].
Proof. repeat split; vm_compute; reflexivity. Qed.

(* ... and cannot: the rows and references held after the step of kind 3 (kind 4) are exactly those
   held after a flawless history (the owner removes its row / reference with a tombstone, then the
   other key stores its own): no predicate on the tables _node and _edge tells the two apart *)
Definition w_K3_honest : syscase :=
  {| c_defs := c_defs (of_c02 w_K3); c_dm := dm_w; c_pre := c_pre (of_c02 w_K3);
     c_hist := [SysRemote (SNDels [{| nd_tag := 5; nd_room := 1; nd_id := 100; nd_ent := Some 1; nd_mdate := 20%Z;
                                     nd_date := 25%Z; nd_author := 1; nd_sig_ok := true |}]);
                SysRemote (SNodes 1 [node_w 2 100 1 2 good_w 30%Z 2])] |}.
Definition w_K4_honest : syscase :=
  {| c_defs := c_defs w_K4e; c_dm := dm_w; c_pre := c_pre w_K4e;
     c_hist := [SysRemote (SEDels [{| ed_tag := 5; ed_room := 1; ed_src := 100; ed_ent := Some 1; ed_label := 1; ed_dest := 101;
                                     ed_cdate := 20%Z; ed_date := 25%Z; ed_author := 1; ed_sig_ok := true |}]);
                SysRemote (SEdges 1 [edge_w 4 100 1 101 30%Z 2])] |}.

Example kinds_3_4_states_are_honestly_reachable :
  c_kinds w_K3_honest = [] /\
  s_nodes (c_final w_K3_honest) = s_nodes (c_final (of_c02 w_K3)) /\
  s_edges (c_final w_K3_honest) = s_edges (c_final (of_c02 w_K3)) /\
  c_kinds w_K4_honest = [] /\
  s_nodes (c_final w_K4_honest) = s_nodes (c_final w_K4e) /\
  s_edges (c_final w_K4_honest) = s_edges (c_final w_K4e).
Proof. repeat split; vm_compute; reflexivity. Qed.
