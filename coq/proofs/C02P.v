(* C02P.v — proofs for C02: every change the remote-ingestion model makes to the four tables is
   either entitled by the room history (`granted`) or one of the delimited defect kinds 1..5;
   nothing else changes; a refused call changes nothing. *)
From DV Require Import RightsP Run_C01 C01P Run_C02.

(* ------------------------------------------------------------------ small list facts *)
Lemma in_flat_map_iff {A B} (f : A -> list B) l b : In b (flat_map f l) <-> exists a, In a l /\ In b (f a).
Proof. apply in_flat_map. Qed.

Lemma has_tag_in {A} (tag : A -> N) l x : In x l -> has_tag tag l (tag x) = true.
Proof. intros H. unfold has_tag. apply existsb_exists. exists x. split; [assumption|apply N.eqb_refl]. Qed.

Lemma same_tags_refl {A} (tag : A -> N) l : same_tags tag l l = true.
Proof.
  unfold same_tags. assert (H : forallb (fun x => has_tag tag l (tag x)) l = true).
  { apply forallb_forall. intros x Hx. apply has_tag_in; assumption. }
  rewrite H. reflexivity.
Qed.

Lemma frame_refl {A} (tag : A -> N) l v : ~ In v (frame_viol (same_tags tag l l)).
Proof. rewrite same_tags_refl. simpl. tauto. Qed.

(* ------------------------------------------------------------------ rights: the specification side *)
Lemma flags_all_self sa : flags_allow sa MutateAll = true -> flags_allow sa MutateSelf = true.
Proof. destruct sa as [s a]. simpl. intros ->. apply orb_true_r. Qed.

Lemma right_granted_all_self evs g e d :
  right_granted evs g e d MutateAll = true -> right_granted evs g e d MutateSelf = true.
Proof.
  unfold right_granted. destruct (in_force (right_entries evs g e) d) as [[? sa]|].
  - apply flags_all_self.
  - destruct (in_force (right_entries evs g wildcard) d) as [[? sa]|]; [apply flags_all_self|discriminate].
Qed.

Lemma granted_all_self evs k e d : granted evs k e d MutateAll = true -> granted evs k e d MutateSelf = true.
Proof.
  unfold granted. intros H. apply existsb_exists in H. destruct H as [g [Hg H]].
  apply existsb_exists. exists g. split; [assumption|].
  apply andb_prop in H. destruct H as [H1 H2]. rewrite H1. simpl. apply right_granted_all_self; assumption.
Qed.

Lemma grantedR_all_self defs rid k e d : grantedR defs rid k e d MutateAll = true -> grantedR defs rid k e d MutateSelf = true.
Proof.
  unfold grantedR. intros H. apply andb_prop in H. destruct H as [H1 H2]. rewrite H1. simpl. apply granted_all_self; assumption.
Qed.

Lemma grantedR_needed defs rid k e d b : grantedR defs rid k e d (needed b) = true -> grantedR defs rid k e d MutateSelf = true.
Proof. destruct b; simpl; [tauto|apply grantedR_all_self]. Qed.

(* what a `can` of a room built from the definitions means *)
Lemma can_grantedR defs rid r k e d t :
  find_room (build_rooms defs) rid = Some r -> can r k e d t = true -> grantedR defs rid k e d t = true.
Proof.
  intros Hr Hc. destruct (find_room_build _ _ _ Hr) as [Hk Hg]. unfold grantedR. rewrite Hk, <- Hg. exact Hc.
Qed.

(* ------------------------------------------------------------------ stores with unique row ids *)
Definition ids_unique (st : store) : Prop := NoDup (map n_id (s_nodes st)).

Lemma NoDup_map_filter {A B} (f : A -> B) (p : A -> bool) l : NoDup (map f l) -> NoDup (map f (filter p l)).
Proof.
  induction l as [|a l IH]; simpl; intros H; [constructor|].
  inversion H as [|? ? Hn Hd]; subst. destruct (p a); simpl; [|auto].
  constructor; [|auto]. intros Hin. apply Hn. apply in_map_iff in Hin. destruct Hin as [x [Hx Hi]].
  apply in_map_iff. exists x. split; [assumption|]. apply filter_In in Hi. tauto.
Qed.

Lemma find_unique {A} (f : A -> N) l o :
  NoDup (map f l) -> In o l -> find (fun y => N.eqb (f y) (f o)) l = Some o.
Proof.
  induction l as [|a l IH]; simpl; intros Hnd Hin; [contradiction|].
  inversion Hnd as [|? ? Hn Hd]; subst. destruct Hin as [->|Hin].
  - rewrite N.eqb_refl. reflexivity.
  - destruct (N.eqb (f a) (f o)) eqn:He.
    + exfalso. apply N.eqb_eq in He. apply Hn. rewrite He. apply in_map; assumption.
    + apply IH; assumption.
Qed.

Lemma ids_unique_put st x : ids_unique st -> ids_unique (put_node st x).
Proof.
  unfold ids_unique, put_node. simpl. intros H. constructor.
  - intros Hin. apply in_map_iff in Hin. destruct Hin as [y [Hy Hi]]. apply filter_In in Hi.
    destruct Hi as [_ Hi]. rewrite Hy, N.eqb_refl in Hi. discriminate.
  - apply NoDup_map_filter; assumption.
Qed.
Lemma ids_unique_fold_put acc : forall st, ids_unique st -> ids_unique (fold_left put_node acc st).
Proof. induction acc as [|x tl IH]; simpl; intros st H; [assumption|]. apply IH, ids_unique_put; assumption. Qed.
Lemma ids_unique_fold_edge acc : forall st, ids_unique st -> ids_unique (fold_left put_edge acc st).
Proof. induction acc as [|x tl IH]; simpl; intros st H; [assumption|]. apply IH. exact H. Qed.
Lemma ids_unique_apply_ndel st d : ids_unique st -> ids_unique (apply_ndel st d).
Proof. unfold ids_unique, apply_ndel. simpl. apply NoDup_map_filter. Qed.
Lemma ids_unique_fold_ndel rooms acc : forall st, ids_unique st -> ids_unique (fold_left (one_ndel rooms) acc st).
Proof.
  induction acc as [|x tl IH]; simpl; intros st H; [assumption|]. apply IH.
  unfold one_ndel. destruct (ndel_ok rooms st x); [apply ids_unique_apply_ndel|]; assumption.
Qed.
Lemma ids_unique_fold_edel acc : forall st, ids_unique st -> ids_unique (fold_left apply_edel acc st).
Proof. induction acc as [|x tl IH]; simpl; intros st H; [assumption|]. apply IH. exact H. Qed.

Lemma ids_unique_step rooms dm st s : ids_unique st -> ids_unique (fst (do_step rooms dm st s)).
Proof.
  intros H. destruct s as [R b|R b|b|b]; simpl.
  - unfold step_nodes. destruct (forallb _ _); simpl; [apply ids_unique_fold_put|]; assumption.
  - unfold step_edges. destruct (forallb _ _); simpl; [|assumption].
    destruct (find_room rooms R); simpl; [apply ids_unique_fold_edge|]; assumption.
  - unfold step_ndels. destruct (forallb _ _); simpl; [apply ids_unique_fold_ndel|]; assumption.
  - unfold step_edels. destruct (forallb _ _); simpl; [apply ids_unique_fold_edel|]; assumption.
Qed.

(* ------------------------------------------------------------------ folds: what they keep, add, remove *)
Lemma fold_put_node_frame acc : forall st,
  s_edges (fold_left put_node acc st) = s_edges st /\
  s_ndels (fold_left put_node acc st) = s_ndels st /\
  s_edels (fold_left put_node acc st) = s_edels st.
Proof. induction acc as [|x tl IH]; simpl; intros st; [auto|]. destruct (IH (put_node st x)) as [A [B C]]. rewrite A, B, C. auto. Qed.

Lemma fold_put_node_in acc : forall st x,
  In x (s_nodes (fold_left put_node acc st)) -> In x (s_nodes st) \/ In x acc.
Proof.
  induction acc as [|a tl IH]; simpl; intros st x H; [auto|].
  destruct (IH _ _ H) as [H1|H1]; [|auto]. simpl in H1. destruct H1 as [->|H1]; [auto|].
  apply filter_In in H1. tauto.
Qed.

Lemma fold_put_node_keep acc : forall st y,
  In y (s_nodes st) ->
  In y (s_nodes (fold_left put_node acc st)) \/
  exists x, In x (s_nodes (fold_left put_node acc st)) /\ n_id x = n_id y /\ In x acc.
Proof.
  induction acc as [|a tl IH]; simpl; intros st y Hy; [auto|].
  destruct (N.eqb (n_id y) (n_id a)) eqn:He.
  - apply N.eqb_eq in He. destruct (IH (put_node st a) a) as [H|[x [Hx [Hi Ha]]]]; [simpl; auto| |].
    + right. exists a. auto.
    + right. exists x. repeat split; [assumption|congruence|auto].
  - destruct (IH (put_node st a) y) as [H|[x [Hx [Hi Ha]]]].
    + simpl. right. apply filter_In. split; [assumption|]. rewrite He. reflexivity.
    + auto.
    + right. exists x. auto.
Qed.

Lemma fold_put_edge_frame acc : forall st,
  s_nodes (fold_left put_edge acc st) = s_nodes st /\
  s_ndels (fold_left put_edge acc st) = s_ndels st /\
  s_edels (fold_left put_edge acc st) = s_edels st.
Proof. induction acc as [|x tl IH]; simpl; intros st; [auto|]. destruct (IH (put_edge st x)) as [A [B C]]. rewrite A, B, C. auto. Qed.

Lemma fold_put_edge_in acc : forall st x,
  In x (s_edges (fold_left put_edge acc st)) -> In x (s_edges st) \/ In x acc.
Proof.
  induction acc as [|a tl IH]; simpl; intros st x H; [auto|].
  destruct (IH _ _ H) as [H1|H1]; [|auto]. simpl in H1. destruct H1 as [->|H1]; [auto|].
  apply filter_In in H1. tauto.
Qed.

Lemma same_edge_pk_sym a b : same_edge_pk a b = same_edge_pk b a.
Proof. unfold same_edge_pk. rewrite (N.eqb_sym (e_src a)), (N.eqb_sym (e_label a)), (N.eqb_sym (e_dest a)). reflexivity. Qed.
Lemma same_edge_pk_trans a b c : same_edge_pk a b = true -> same_edge_pk b c = true -> same_edge_pk a c = true.
Proof.
  unfold same_edge_pk. intros H1 H2.
  apply andb_prop in H1. destruct H1 as [H1 H1c]. apply andb_prop in H1. destruct H1 as [H1a H1b].
  apply andb_prop in H2. destruct H2 as [H2 H2c]. apply andb_prop in H2. destruct H2 as [H2a H2b].
  apply N.eqb_eq in H1a, H1b, H1c, H2a, H2b, H2c.
  rewrite H1a, H1b, H1c, H2a, H2b, H2c, !N.eqb_refl. reflexivity.
Qed.
Lemma same_edge_pk_refl a : same_edge_pk a a = true.
Proof. unfold same_edge_pk. rewrite !N.eqb_refl. reflexivity. Qed.

Lemma fold_put_edge_keep acc : forall st y,
  In y (s_edges st) ->
  In y (s_edges (fold_left put_edge acc st)) \/
  exists x, In x (s_edges (fold_left put_edge acc st)) /\ same_edge_pk x y = true /\ In x acc.
Proof.
  induction acc as [|a tl IH]; simpl; intros st y Hy; [auto|].
  destruct (same_edge_pk y a) eqn:He.
  - destruct (IH (put_edge st a) a) as [H|[x [Hx [Hi Ha]]]]; [simpl; auto| |].
    + right. exists a. rewrite same_edge_pk_sym. auto.
    + right. exists x. repeat split; [assumption| |auto].
      apply same_edge_pk_trans with a; [assumption|]. rewrite same_edge_pk_sym. assumption.
  - destruct (IH (put_edge st a) y) as [H|[x [Hx [Hi Ha]]]].
    + simpl. right. apply filter_In. split; [assumption|]. rewrite He. reflexivity.
    + auto.
    + right. exists x. auto.
Qed.

(* node tombstones *)
Lemma same_ndel_pk_refl a : same_ndel_pk a a = true.
Proof. unfold same_ndel_pk, oent_eqb. rewrite !N.eqb_refl, Z.eqb_refl. destruct (nd_ent a); simpl; [apply N.eqb_refl|reflexivity]. Qed.
Lemma oent_eqb_eq a b : oent_eqb a b = true -> a = b.
Proof. destruct a, b; simpl; try discriminate; [|reflexivity]. intros H. apply N.eqb_eq in H. congruence. Qed.
Lemma same_ndel_pk_eq a b : same_ndel_pk a b = true ->
  nd_room a = nd_room b /\ nd_date a = nd_date b /\ nd_id a = nd_id b /\ nd_ent a = nd_ent b.
Proof.
  unfold same_ndel_pk. intros H. apply andb_prop in H. destruct H as [H H4]. apply andb_prop in H. destruct H as [H H3].
  apply andb_prop in H. destruct H as [H1 H2]. apply N.eqb_eq in H1, H3. apply Z.eqb_eq in H2. apply oent_eqb_eq in H4. auto.
Qed.
Lemma same_ndel_pk_sym a b : same_ndel_pk a b = true -> same_ndel_pk b a = true.
Proof. intros H. destruct (same_ndel_pk_eq _ _ H) as [A [B [C D]]]. unfold same_ndel_pk. rewrite A, B, C, D. apply same_ndel_pk_refl. Qed.
Lemma same_ndel_pk_trans a b c : same_ndel_pk a b = true -> same_ndel_pk b c = true -> same_ndel_pk a c = true.
Proof.
  intros H1 H2. destruct (same_ndel_pk_eq _ _ H1) as [A [B [C D]]]. destruct (same_ndel_pk_eq _ _ H2) as [A' [B' [C' D']]].
  unfold same_ndel_pk. rewrite A, B, C, D, A', B', C', D'. apply same_ndel_pk_refl.
Qed.

(* edge tombstones *)
Lemma fold_edel_frame acc : forall st,
  s_nodes (fold_left apply_edel acc st) = s_nodes st /\ s_ndels (fold_left apply_edel acc st) = s_ndels st.
Proof. induction acc as [|x tl IH]; simpl; intros st; [auto|]. destruct (IH (apply_edel st x)) as [A B]. rewrite A, B. auto. Qed.

Lemma fold_edel_in acc : forall st d,
  In d (s_edels (fold_left apply_edel acc st)) -> In d (s_edels st) \/ In d acc.
Proof.
  induction acc as [|a tl IH]; simpl; intros st d H; [auto|].
  destruct (IH _ _ H) as [H1|H1]; [|auto]. simpl in H1. destruct H1 as [->|H1]; [auto|].
  apply filter_In in H1. tauto.
Qed.

Lemma same_edel_pk_eq a b : same_edel_pk a b = true ->
  ed_room a = ed_room b /\ ed_date a = ed_date b /\ ed_src a = ed_src b /\ ed_label a = ed_label b /\ ed_dest a = ed_dest b.
Proof.
  unfold same_edel_pk. intros H. apply andb_prop in H. destruct H as [H H5]. apply andb_prop in H. destruct H as [H H4].
  apply andb_prop in H. destruct H as [H H3]. apply andb_prop in H. destruct H as [H1 H2].
  apply N.eqb_eq in H1, H3, H4, H5. apply Z.eqb_eq in H2. auto.
Qed.
Lemma same_edel_pk_refl a : same_edel_pk a a = true.
Proof. unfold same_edel_pk. rewrite !N.eqb_refl, Z.eqb_refl. reflexivity. Qed.
Lemma same_edel_pk_sym a b : same_edel_pk a b = true -> same_edel_pk b a = true.
Proof. intros H. destruct (same_edel_pk_eq _ _ H) as [A [B [C [D E]]]]. unfold same_edel_pk. rewrite A, B, C, D, E. apply same_edel_pk_refl. Qed.
Lemma same_edel_pk_trans a b c : same_edel_pk a b = true -> same_edel_pk b c = true -> same_edel_pk a c = true.
Proof.
  intros H1 H2. destruct (same_edel_pk_eq _ _ H1) as [A [B [C [D E]]]]. destruct (same_edel_pk_eq _ _ H2) as [A' [B' [C' [D' E']]]].
  unfold same_edel_pk. rewrite A, B, C, D, E, A', B', C', D', E'. apply same_edel_pk_refl.
Qed.

Lemma fold_edel_keep acc : forall st y,
  In y (s_edels st) ->
  In y (s_edels (fold_left apply_edel acc st)) \/
  exists x, In x (s_edels (fold_left apply_edel acc st)) /\ same_edel_pk x y = true /\ In x acc.
Proof.
  induction acc as [|a tl IH]; simpl; intros st y Hy; [auto|].
  destruct (same_edel_pk y a) eqn:He.
  - destruct (IH (apply_edel st a) a) as [H|[x [Hx [Hi Ha]]]]; [simpl; auto| |].
    + right. exists a. split; [assumption|]. split; [apply same_edel_pk_sym; assumption|auto].
    + right. exists x. repeat split; [assumption| |auto].
      apply same_edel_pk_trans with a; [assumption|]. apply same_edel_pk_sym. assumption.
  - destruct (IH (apply_edel st a) y) as [H|[x [Hx [Hi Ha]]]].
    + simpl. right. apply filter_In. split; [assumption|]. rewrite He. reflexivity.
    + auto.
    + right. exists x. auto.
Qed.

Lemma fold_edel_edges_sub acc : forall st x, In x (s_edges (fold_left apply_edel acc st)) -> In x (s_edges st).
Proof.
  induction acc as [|a tl IH]; simpl; intros st x H; [assumption|].
  apply IH in H. simpl in H. apply filter_In in H. tauto.
Qed.
Lemma fold_edel_edges_keep acc : forall st y,
  In y (s_edges st) -> In y (s_edges (fold_left apply_edel acc st)) \/ exists d, In d acc /\ edge_hit d y = true.
Proof.
  induction acc as [|a tl IH]; simpl; intros st y Hy; [auto|].
  destruct (edge_hit a y) eqn:He.
  - right. exists a. auto.
  - destruct (IH (apply_edel st a) y) as [H|[d [Hd Hh]]].
    + simpl. apply filter_In. split; [assumption|]. rewrite He. reflexivity.
    + auto.
    + right. exists d. auto.
Qed.

(* ------------------------------------------------------------------ accepted => entitled *)
Lemma validate_node_true defs x orm oau R en :
  n_room x = Some R -> n_ent x = Some en ->
  validate_node (build_rooms defs) x orm oau = true ->
  n_too_big x = false /\
  grantedR defs R (n_author x) en (n_mdate x) (required_right oau (n_author x)) = true /\
  match orm with
  | Some R0 => N.eqb R0 R = true \/ grantedR defs R0 (n_author x) en (n_mdate x) (required_right oau (n_author x)) = true
  | None => True
  end.
Proof.
  intros Hroom Hent. unfold validate_node. rewrite Hroom, Hent.
  destruct (n_too_big x); [discriminate|]. intros H. split; [reflexivity|].
  destruct orm as [orid|].
  - destruct (N.eqb orid R) eqn:He.
    + simpl in H. destruct (find_room (build_rooms defs) R) as [r|] eqn:Hr; [|discriminate].
      split; [eapply can_grantedR; eauto|auto].
    + destruct (find_room (build_rooms defs) orid) as [oroom|] eqn:Hor; [|discriminate].
      destruct (can oroom (n_author x) en (n_mdate x) (required_right oau (n_author x))) eqn:Hoc; [|discriminate].
      simpl in H. destruct (find_room (build_rooms defs) R) as [r|] eqn:Hr; [|discriminate].
      split; [eapply can_grantedR; eauto|]. right. eapply can_grantedR; eauto.
  - simpl in H. destruct (find_room (build_rooms defs) R) as [r|] eqn:Hr; [|discriminate].
    split; [eapply can_grantedR; eauto|exact I].
Qed.

Lemma in_app_2 {A} (v : A) l1 l2 (P Q : Prop) : (In v l1 -> P) -> (In v l2 -> Q) -> In v (l1 ++ l2) -> P \/ Q.
Proof. intros H1 H2 H. apply in_app_or in H. tauto. Qed.

Lemma accept_node_entitled defs dm R st x v :
  accept_node (build_rooms defs) dm R st x = true -> n_sig_ok x = true ->
  In v (node_entitled defs dm R st x) -> v = 3.
Proof.
  unfold accept_node, prefilter, node_entitled. intros Hacc Hsig.
  apply andb_prop in Hacc. destruct Hacc as [Hpre Hval]. apply andb_prop in Hpre. destruct Hpre as [Hroom Hmodel].
  destruct (n_room x) as [r|] eqn:Er; [|discriminate]. apply N.eqb_eq in Hroom. subst r.
  destruct (n_ent x) as [en|] eqn:Ee; [|discriminate].
  destruct (fields_of dm en) as [fs|]; [|discriminate].
  rewrite Hsig, Hmodel. simpl opt_eqb. rewrite N.eqb_refl.
  destruct (lookup_node st (n_id x)) as [o|].
  - destruct (validate_node_true defs x (n_room o) (Some (n_author o)) R en Er Ee Hval) as [Hbig [Hg Hold]].
    rewrite Hbig. simpl required_right in Hg, Hold. rewrite Hg. simpl.
    assert (Ho : match n_room o with
                 | Some R0 => N.eqb R0 R || grantedR defs R0 (n_author x) en (n_mdate x) (needed (N.eqb (n_author o) (n_author x)))
                 | None => true end = true).
    { destruct (n_room o) as [R0|]; [|reflexivity]. destruct Hold as [H|H]; rewrite H; [reflexivity|apply orb_true_r]. }
    rewrite Ho. simpl. intros Hin.
    destruct (n_ent o) as [eo|]; [|contradiction]. destruct (_ || _); simpl in Hin; [contradiction|]. destruct Hin as [<-|[]]. reflexivity.
  - destruct (validate_node_true defs x None None R en Er Ee Hval) as [Hbig [Hg _]].
    rewrite Hbig. simpl required_right in Hg. rewrite Hg. simpl. contradiction.
Qed.

Theorem step_nodes_viol defs dm R st batch v :
  let r := step_nodes (build_rooms defs) dm R st batch in
  In v (viol_step defs dm (SNodes R batch) (match snd r with 0 :: _ => true | _ => false end) st (fst r)) ->
  v = 3.
Proof.
  unfold step_nodes. destruct (forallb n_sig_ok (filter (requested st) batch)) eqn:Hsig; cbn [fst snd viol_step negb].
  2:{ unfold unchanged. intros H. repeat (apply in_app_or in H; destruct H as [H|H]; [exfalso; eapply frame_refl; eauto|]).
      exfalso; eapply frame_refl; eauto. }
  set (acc := filter (accept_node (build_rooms defs) dm R st) (filter (requested st) batch)).
  unfold viol_nodes. destruct (fold_put_node_frame acc st) as [Fe [Fn Fd]]. rewrite Fe, Fn, Fd.
  intros H.
  apply in_app_or in H. destruct H as [H|H]; [exfalso; eapply frame_refl; eauto|].
  apply in_app_or in H. destruct H as [H|H]; [exfalso; eapply frame_refl; eauto|].
  apply in_app_or in H. destruct H as [H|H]; [exfalso; eapply frame_refl; eauto|].
  apply in_app_or in H. destruct H as [H|H].
  - apply in_flat_map in H. destruct H as [x [Hx Hv]].
    destruct (has_tag n_tag (s_nodes st) (n_tag x)) eqn:Ht; [contradiction|].
    destruct (fold_put_node_in _ _ _ Hx) as [Hin|Hin].
    + rewrite (has_tag_in n_tag _ _ Hin) in Ht. discriminate.
    + unfold acc in Hin. apply filter_In in Hin. destruct Hin as [Hreq Hacc].
      assert (Hb : In x batch) by (apply filter_In in Hreq; tauto).
      rewrite (has_tag_in n_tag _ _ Hb) in Hv. simpl in Hv.
      eapply accept_node_entitled; eauto.
      rewrite forallb_forall in Hsig. apply Hsig; assumption.
  - apply in_flat_map in H. destruct H as [y [Hy Hv]].
    destruct (fold_put_node_keep acc st y Hy) as [Hk|[x [Hx [Hid Ha]]]].
    + rewrite (has_tag_in n_tag _ _ Hk) in Hv. contradiction.
    + destruct (has_tag n_tag _ (n_tag y)); [contradiction|].
      assert (He : existsb (fun x0 => N.eqb (n_id x0) (n_id y) && has_tag n_tag batch (n_tag x0)) (s_nodes (fold_left put_node acc st)) = true).
      { apply existsb_exists. exists x. split; [assumption|]. rewrite Hid, N.eqb_refl. simpl.
        apply has_tag_in. unfold acc in Ha. apply filter_In in Ha. destruct Ha as [Ha _]. apply filter_In in Ha. tauto. }
      rewrite He in Hv. contradiction.
Qed.

(* ---- references ---- *)
Lemma edge_ok_entitled defs R r st st' x v :
  find_room (build_rooms defs) R = Some r -> s_nodes st' = s_nodes st ->
  edge_ok r R st x = true -> e_sig_ok x = true ->
  In v (edge_entitled defs R st st' x) -> v = 4.
Proof.
  unfold edge_ok, edge_right, edge_entitled. intros Hr Hn Hok Hsig. destruct (e_ent x) as [en|]; [|discriminate].
  apply andb_prop in Hok. destruct Hok as [Hsrc Hcan].
  rewrite Hsig, (can_grantedR _ _ _ _ _ _ _ Hr Hcan), Hn, Hsrc. simpl. intros Hin.
  destruct (find _ _) as [o|]; [|contradiction]. destruct (_ || _); simpl in Hin; [contradiction|]. destruct Hin as [<-|[]]. reflexivity.
Qed.

Ltac kill_frames H :=
  repeat (apply in_app_or in H; destruct H as [H|H]; [exfalso; eapply frame_refl; eauto; fail|]).

Lemma unchanged_refl st v : ~ In v (unchanged st st).
Proof.
  unfold unchanged. intros H. kill_frames H. eapply frame_refl; eauto.
Qed.

Theorem step_edges_viol defs dm R st batch v :
  let r := step_edges (build_rooms defs) R st batch in
  In v (viol_step defs dm (SEdges R batch) (match snd r with 0 :: _ => true | _ => false end) st (fst r)) ->
  v = 4.
Proof.
  unfold step_edges. destruct (forallb e_sig_ok batch) eqn:Hsig; cbn [fst snd viol_step negb].
  2:{ intros H. exfalso. eapply unchanged_refl; eauto. }
  destruct (find_room (build_rooms defs) R) as [r|] eqn:Hr; cbn [fst snd viol_step negb].
  2:{ intros H. exfalso. eapply unchanged_refl; eauto. }
  set (acc := filter (edge_ok r R st) batch).
  unfold viol_edges. destruct (fold_put_edge_frame acc st) as [Fn [Fd Fe]]. rewrite Fn, Fd, Fe.
  intros H. kill_frames H.
  apply in_app_or in H. destruct H as [H|H].
  - apply in_flat_map in H. destruct H as [x [Hx Hv]].
    destruct (has_tag e_tag (s_edges st) (e_tag x)) eqn:Ht; [contradiction|].
    destruct (fold_put_edge_in _ _ _ Hx) as [Hin|Hin].
    + rewrite (has_tag_in e_tag _ _ Hin) in Ht. discriminate.
    + unfold acc in Hin. apply filter_In in Hin. destruct Hin as [Hb Hok].
      rewrite (has_tag_in e_tag _ _ Hb) in Hv. simpl in Hv.
      eapply edge_ok_entitled; eauto. rewrite forallb_forall in Hsig. apply Hsig; assumption.
  - apply in_flat_map in H. destruct H as [y [Hy Hv]].
    destruct (fold_put_edge_keep acc st y Hy) as [Hk|[x [Hx [Hpk Ha]]]].
    + rewrite (has_tag_in e_tag _ _ Hk) in Hv. contradiction.
    + destruct (has_tag e_tag _ (e_tag y)); [contradiction|].
      assert (He : existsb (fun x0 => same_edge_pk x0 y && has_tag e_tag batch (e_tag x0)) (s_edges (fold_left put_edge acc st)) = true).
      { apply existsb_exists. exists x. split; [assumption|]. rewrite Hpk. simpl.
        apply has_tag_in. unfold acc in Ha. apply filter_In in Ha. tauto. }
      rewrite He in Hv. contradiction.
Qed.

(* ---- node tombstones ---- *)
Lemma unique_same_id st y o : ids_unique st -> In y (s_nodes st) -> In o (s_nodes st) -> n_id o = n_id y -> o = y.
Proof.
  intros Hu Hy Ho Hid. pose proof (find_unique n_id _ _ Hu Hy) as F1. pose proof (find_unique n_id _ _ Hu Ho) as F2.
  rewrite Hid in F2. congruence.
Qed.
Lemma node_hit_id d y : node_hit d y = true -> n_id y = nd_id d.
Proof. unfold node_hit. intros H. apply andb_prop in H. destruct H as [H _]. apply andb_prop in H. destruct H as [_ H]. apply N.eqb_eq in H. exact H. Qed.
Lemma lookup_in st y : ids_unique st -> In y (s_nodes st) -> lookup_node st (n_id y) = Some y.
Proof. intros Hu Hy. unfold lookup_node. apply find_unique; assumption. Qed.

(* an entry accepted against the current rows is entitled in the oracle's sense, relative to the
   rows held before the call and the entries of the answer processed so far *)
Lemma ndel_ok_entitled defs st cur p d :
  ids_unique cur ->
  (forall y, In y (s_nodes st) -> (forall e, In e p -> node_hit e y = false) -> In y (s_nodes cur)) ->
  ndel_ok (build_rooms defs) cur d = true -> nd_sig_ok d = true ->
  ndel_entitled defs st p d = true.
Proof.
  intros Hu Hkeep Hok Hsig. unfold ndel_ok in Hok. unfold ndel_entitled. destruct (nd_ent d) as [en|] eqn:Ee; [|discriminate].
  destruct (find_room (build_rooms defs) (nd_room d)) as [r|] eqn:Hr; [|discriminate]. rewrite Hsig. cbn [andb].
  assert (Hself : grantedR defs (nd_room d) (nd_author d) en (nd_date d) MutateSelf = true).
  { destruct (lookup_node cur (nd_id d)) as [ex|].
    - apply andb_prop in Hok. destruct Hok as [_ Hc]. eapply grantedR_needed. eapply can_grantedR; eauto.
    - eapply can_grantedR; eauto. }
  destruct (find (node_hit d) (s_nodes st)) as [o|] eqn:Hf; [|rewrite Hself; reflexivity].
  destruct (existsb (fun e => node_hit e o) p) eqn:Hex; [rewrite Hself; reflexivity|].
  apply find_some in Hf. destruct Hf as [Hin Hh].
  assert (Hcur : In o (s_nodes cur)).
  { apply Hkeep; [assumption|]. intros e He. destruct (node_hit e o) eqn:E; [|reflexivity].
    assert (existsb (fun e0 => node_hit e0 o) p = true) by (apply existsb_exists; exists e; auto). congruence. }
  rewrite <- (node_hit_id _ _ Hh), (lookup_in _ _ Hu Hcur) in Hok.
  apply andb_prop in Hok. destruct Hok as [He Hc]. rewrite (can_grantedR _ _ _ _ _ _ _ Hr Hc). rewrite He. reflexivity.
Qed.

(* an accepted entry that removes a row is entitled to remove THAT row (no earlier entry considered) *)
Lemma ndel_ok_entitled_strict defs st cur d y :
  ids_unique st -> ids_unique cur -> (forall z, In z (s_nodes cur) -> In z (s_nodes st)) ->
  In y (s_nodes cur) -> node_hit d y = true ->
  ndel_ok (build_rooms defs) cur d = true -> nd_sig_ok d = true ->
  ndel_entitled defs st [] d = true.
Proof.
  intros Hust Hu Hsub Hy Hh Hok Hsig. unfold ndel_ok in Hok. unfold ndel_entitled.
  destruct (nd_ent d) as [en|] eqn:Ee; [|discriminate].
  destruct (find_room (build_rooms defs) (nd_room d)) as [r|] eqn:Hr; [|discriminate]. rewrite Hsig. cbn [andb existsb].
  destruct (find (node_hit d) (s_nodes st)) as [o|] eqn:Hf.
  - apply find_some in Hf. destruct Hf as [Hin Hho].
    assert (o = y). { apply (unique_same_id st y o Hust (Hsub _ Hy) Hin). rewrite (node_hit_id _ _ Hho), (node_hit_id _ _ Hh). reflexivity. }
    subst o. rewrite <- (node_hit_id _ _ Hh), (lookup_in _ _ Hu Hy) in Hok.
    apply andb_prop in Hok. destruct Hok as [He Hc]. rewrite (can_grantedR _ _ _ _ _ _ _ Hr Hc). rewrite He. reflexivity.
  - exfalso. pose proof (find_none _ _ Hf y (Hsub _ Hy)) as Hn. congruence.
Qed.

Lemma entitled_at_mid defs st x : forall p1 q p2,
  ndel_entitled defs st (q ++ p1) x = true -> entitled_at defs st q (p1 ++ x :: p2) x = true.
Proof.
  induction p1 as [|y tl IH]; intros q p2 H; simpl.
  - rewrite app_nil_r in H. rewrite N.eqb_refl, H. reflexivity.
  - rewrite IH; [apply orb_true_r|]. rewrite <- app_assoc. exact H.
Qed.

(* the state after the entries p of the answer, started from st *)
Record ndel_inv defs (st : store) (p : list rndel) (cur : store) : Prop := {
  ni_frame : s_edges cur = s_edges st /\ s_edels cur = s_edels st;
  ni_unique : ids_unique cur;
  ni_sub : forall y, In y (s_nodes cur) -> In y (s_nodes st);
  ni_keep : forall y, In y (s_nodes st) -> (forall e, In e p -> node_hit e y = false) -> In y (s_nodes cur);
  ni_gone : forall y, In y (s_nodes st) ->
            In y (s_nodes cur) \/ exists d, In d p /\ node_hit d y = true /\ ndel_entitled defs st [] d = true;
  ni_new : forall x, In x (s_ndels cur) ->
           In x (s_ndels st) \/ exists p1 p2, p = p1 ++ x :: p2 /\ ndel_entitled defs st p1 x = true;
  ni_dkeep : forall y, In y (s_ndels st) ->
             In y (s_ndels cur) \/ exists x, In x (s_ndels cur) /\ same_ndel_pk x y = true /\ In x p
}.

Lemma ndel_inv_init defs st : ids_unique st -> ndel_inv defs st [] st.
Proof. intros Hu. constructor; auto. Qed.

Lemma ndel_inv_step defs st p cur d :
  ids_unique st -> nd_sig_ok d = true ->
  ndel_inv defs st p cur -> ndel_inv defs st (p ++ [d]) (one_ndel (build_rooms defs) cur d).
Proof.
  intros Hust Hsig [[Fe Fd] Hu Hsub Hkeep Hgone Hnew Hdk]. unfold one_ndel.
  destruct (ndel_ok (build_rooms defs) cur d) eqn:Hok.
  - (* accepted *)
    assert (HA : ndel_entitled defs st p d = true) by (eapply ndel_ok_entitled; eauto).
    constructor.
    + simpl. auto.
    + apply ids_unique_apply_ndel; assumption.
    + intros y Hy. simpl in Hy. apply filter_In in Hy. apply Hsub. tauto.
    + intros y Hy Hno. simpl. apply filter_In. split.
      * apply Hkeep; [assumption|]. intros e He. apply Hno. apply in_or_app. auto.
      * rewrite (Hno d); [reflexivity|]. apply in_or_app. right. left. reflexivity.
    + intros y Hy. destruct (Hgone y Hy) as [Hc|[e [He [Hh Hen]]]].
      * destruct (node_hit d y) eqn:Hh.
        -- right. exists d. split; [apply in_or_app; right; left; reflexivity|]. split; [assumption|].
           eapply ndel_ok_entitled_strict; eauto.
        -- left. simpl. apply filter_In. split; [assumption|]. rewrite Hh. reflexivity.
      * right. exists e. split; [apply in_or_app; auto|auto].
    + intros x Hx. simpl in Hx. destruct Hx as [<-|Hx].
      * right. exists p, []. auto.
      * apply filter_In in Hx. destruct Hx as [Hx _]. destruct (Hnew x Hx) as [H|[p1 [p2 [-> Hen]]]]; [auto|].
        right. exists p1, (p2 ++ [d]). split; [rewrite <- app_assoc; reflexivity|assumption].
    + intros y Hy. destruct (Hdk y Hy) as [Hc|[x [Hx [Hpk Hp]]]].
      * destruct (same_ndel_pk y d) eqn:E.
        -- right. exists d. split; [simpl; auto|]. split; [apply same_ndel_pk_sym; assumption|apply in_or_app; right; left; reflexivity].
        -- left. simpl. right. apply filter_In. split; [assumption|]. rewrite E. reflexivity.
      * destruct (same_ndel_pk x d) eqn:E.
        -- right. exists d. split; [simpl; auto|]. split; [|apply in_or_app; right; left; reflexivity].
           apply same_ndel_pk_trans with x; [apply same_ndel_pk_sym; assumption|assumption].
        -- right. exists x. split; [simpl; right; apply filter_In; split; [assumption|rewrite E; reflexivity]|].
           split; [assumption|apply in_or_app; auto].
  - (* refused: nothing changes *)
    constructor; auto.
    + intros y Hy Hno. apply Hkeep; [assumption|]. intros e He. apply Hno. apply in_or_app. auto.
    + intros y Hy. destruct (Hgone y Hy) as [Hc|[e [He [Hh Hen]]]]; [auto|]. right. exists e. split; [apply in_or_app; auto|auto].
    + intros x Hx. destruct (Hnew x Hx) as [H|[p1 [p2 [-> Hen]]]]; [auto|].
      right. exists p1, (p2 ++ [d]). split; [rewrite <- app_assoc; reflexivity|assumption].
    + intros y Hy. destruct (Hdk y Hy) as [Hc|[x [Hx [Hpk Hp]]]]; [auto|]. right. exists x. repeat split; auto. apply in_or_app; auto.
Qed.

Lemma ndel_inv_fold defs st : ids_unique st -> forall rest p cur,
  forallb nd_sig_ok rest = true -> ndel_inv defs st p cur ->
  ndel_inv defs st (p ++ rest) (fold_left (one_ndel (build_rooms defs)) rest cur).
Proof.
  intros Hust. induction rest as [|d tl IH]; intros p cur Hsig Hinv; simpl.
  - rewrite app_nil_r. exact Hinv.
  - simpl in Hsig. apply andb_prop in Hsig. destruct Hsig as [Hd Htl].
    replace (p ++ d :: tl) with ((p ++ [d]) ++ tl) by (rewrite <- app_assoc; reflexivity).
    apply IH; [assumption|]. apply ndel_inv_step; assumption.
Qed.

(* the repaired path: no violation at all (classes 2 of the first round and the batching defect are gone) *)
Theorem step_ndels_viol defs dm st batch v :
  ids_unique st ->
  let r := step_ndels (build_rooms defs) st batch in
  ~ In v (viol_step defs dm (SNDels batch) (match snd r with 0 :: _ => true | _ => false end) st (fst r)).
Proof.
  intros Hu. unfold step_ndels. destruct (forallb nd_sig_ok batch) eqn:Hsig; cbn [fst snd viol_step negb].
  2:{ apply unchanged_refl. }
  pose proof (ndel_inv_fold defs st Hu batch [] st Hsig (ndel_inv_init defs st Hu)) as Hinv. simpl in Hinv.
  destruct Hinv as [[Fe Fd] Hu' Hsub Hkeep Hgone Hnew Hdk].
  set (st' := fold_left (one_ndel (build_rooms defs)) batch st) in *.
  unfold viol_ndels. rewrite Fe, Fd. intros H. kill_frames H.
  apply in_app_or in H. destruct H as [H|H].
  { apply in_flat_map in H. destruct H as [d [Hd Hv]].
    destruct (has_tag nd_tag (s_ndels st) (nd_tag d)) eqn:Ht; [contradiction|].
    destruct (Hnew d Hd) as [Hin|[p1 [p2 [Hb Hen]]]].
    - rewrite (has_tag_in nd_tag _ _ Hin) in Ht. discriminate.
    - rewrite Hb in Hv. rewrite (entitled_at_mid defs st d p1 [] p2 Hen) in Hv. contradiction. }
  apply in_app_or in H. destruct H as [H|H].
  { apply in_flat_map in H. destruct H as [y [Hy Hv]].
    destruct (Hdk y Hy) as [Hk|[x [Hx [Hpk Ha]]]].
    - rewrite (has_tag_in nd_tag _ _ Hk) in Hv. contradiction.
    - destruct (has_tag nd_tag _ (nd_tag y)); [contradiction|].
      assert (He : existsb (fun d => same_ndel_pk d y && has_tag nd_tag batch (nd_tag d)) (s_ndels st') = true).
      { apply existsb_exists. exists x. split; [assumption|]. rewrite Hpk. simpl. apply has_tag_in. assumption. }
      rewrite He in Hv. contradiction. }
  apply in_app_or in H. destruct H as [H|H].
  { apply in_flat_map in H. destruct H as [y [Hy Hv]].
    destruct (Hgone y Hy) as [Hk|[d [Hd [Hh Hen]]]].
    - rewrite (has_tag_in n_tag _ _ Hk) in Hv. contradiction.
    - destruct (has_tag n_tag _ (n_tag y)); [contradiction|].
      assert (He : existsb (fun d0 => node_hit d0 y && ndel_entitled defs st [] d0) batch = true).
      { apply existsb_exists. exists d. split; [assumption|]. rewrite Hh, Hen. reflexivity. }
      rewrite He in Hv. contradiction. }
  { assert (Hf : forallb (fun x => has_tag n_tag (s_nodes st) (n_tag x)) (s_nodes st') = true).
    { apply forallb_forall. intros x Hx. apply has_tag_in. apply Hsub; assumption. }
    rewrite Hf in H. simpl in H. contradiction. }
Qed.

Lemma no_zero_of {l : list Z} {k : Z} : k <> 0 -> (forall v, In v l -> v = k) -> existsb (Z.eqb 0) l = false.
Proof.
  intros Hk H. destruct (existsb (Z.eqb 0) l) eqn:E; [|reflexivity]. apply existsb_exists in E. destruct E as [z [Hz He]].
  apply Z.eqb_eq in He. subst z. specialize (H _ Hz). congruence.
Qed.

(* ---- reference tombstones ---- *)
Lemma edel_ok_entitled defs st d v :
  edel_ok (build_rooms defs) st d = true -> ed_sig_ok d = true ->
  In v (edel_entitled defs st d) -> v = 1.
Proof.
  unfold edel_ok, edel_entitled. intros Hok Hsig. destruct (ed_ent d) as [en|]; [|discriminate].
  destruct (find_room (build_rooms defs) (ed_room d)) as [r|] eqn:Hr; [|discriminate].
  rewrite Hsig, (can_grantedR _ _ _ _ _ _ _ Hr Hok). simpl.
  destruct (find (edge_hit d) (s_edges st)); [|contradiction].
  destruct (src_in_room _ _ _ _); simpl; [contradiction|]. intros [<-|[]]. reflexivity.
Qed.

Theorem step_edels_viol defs dm st batch v :
  let r := step_edels (build_rooms defs) st batch in
  In v (viol_step defs dm (SEDels batch) (match snd r with 0 :: _ => true | _ => false end) st (fst r)) ->
  v = 1.
Proof.
  unfold step_edels. destruct (forallb ed_sig_ok batch) eqn:Hsig; cbn [fst snd viol_step negb].
  2:{ intros H. exfalso. eapply unchanged_refl; eauto. }
  set (acc := filter (edel_ok (build_rooms defs) st) batch).
  assert (Hacc : forall d, In d acc -> In d batch /\ edel_ok (build_rooms defs) st d = true /\ ed_sig_ok d = true).
  { intros d Hd. unfold acc in Hd. apply filter_In in Hd. destruct Hd as [Hd Hok].
    repeat split; try assumption. rewrite forallb_forall in Hsig. apply Hsig; assumption. }
  unfold viol_edels. destruct (fold_edel_frame acc st) as [Fn Fd]. rewrite Fn, Fd.
  intros H. kill_frames H.
  apply in_app_or in H. destruct H as [H|H].
  { apply in_flat_map in H. destruct H as [d [Hd Hv]].
    destruct (has_tag ed_tag (s_edels st) (ed_tag d)) eqn:Ht; [contradiction|].
    destruct (fold_edel_in _ _ _ Hd) as [Hin|Hin].
    - rewrite (has_tag_in ed_tag _ _ Hin) in Ht. discriminate.
    - destruct (Hacc _ Hin) as [Hb [Hok Hs]]. rewrite (has_tag_in ed_tag _ _ Hb) in Hv. simpl in Hv.
      eapply edel_ok_entitled; eauto. }
  apply in_app_or in H. destruct H as [H|H].
  { apply in_flat_map in H. destruct H as [y [Hy Hv]]. exfalso.
    destruct (fold_edel_keep acc st y Hy) as [Hk|[x [Hx [Hpk Ha]]]].
    - rewrite (has_tag_in ed_tag _ _ Hk) in Hv. contradiction.
    - destruct (has_tag ed_tag _ (ed_tag y)); [contradiction|].
      assert (He : existsb (fun d => same_edel_pk d y && has_tag ed_tag batch (ed_tag d)) (s_edels (fold_left apply_edel acc st)) = true).
      { apply existsb_exists. exists x. split; [assumption|]. rewrite Hpk. simpl. apply has_tag_in. apply Hacc; assumption. }
      rewrite He in Hv. contradiction. }
  apply in_app_or in H. destruct H as [H|H].
  { apply in_flat_map in H. destruct H as [y [Hy Hv]]. exfalso.
    destruct (fold_edel_edges_keep acc st y Hy) as [Hk|[d [Hd Hh]]].
    - rewrite (has_tag_in e_tag _ _ Hk) in Hv. contradiction.
    - destruct (has_tag e_tag _ (e_tag y)); [contradiction|].
      destruct (Hacc _ Hd) as [Hb [Hok Hs]].
      assert (He : existsb (fun d0 => edge_hit d0 y && negb (existsb (Z.eqb 0) (edel_entitled defs st d0))) batch = true).
      { apply existsb_exists. exists d. split; [assumption|]. rewrite Hh. simpl.
        rewrite (@no_zero_of _ 1); [reflexivity|discriminate|]. intros w Hw. eapply edel_ok_entitled; eauto. }
      rewrite He in Hv. contradiction. }
  { exfalso. assert (Hf : forallb (fun x => has_tag e_tag (s_edges st) (e_tag x)) (s_edges (fold_left apply_edel acc st)) = true).
    { apply forallb_forall. intros x Hx. apply has_tag_in. eapply fold_edel_edges_sub; eauto. }
    rewrite Hf in H. simpl in H. contradiction. }
Qed.

(* ------------------------------------------------------------------ any sequence of calls *)
Definition known_kind (v : Z) : Prop := v = 1 \/ v = 3 \/ v = 4.
Definition status_ok (a : list Z) : bool := match a with 0 :: _ => true | _ => false end.
Definition observed (rs : list (store * list Z)) : list (bool * store) :=
  map (fun r => (status_ok (snd r), fst r)) rs.

Lemma do_step_viol defs dm st s v :
  ids_unique st ->
  let r := do_step (build_rooms defs) dm st s in
  In v (viol_step defs dm s (status_ok (snd r)) st (fst r)) -> known_kind v.
Proof.
  intros Hu. unfold known_kind, status_ok. destruct s as [R b|R b|b|b]; cbn [do_step]; intros H.
  - pose proof (step_nodes_viol defs dm R st b v H). auto.
  - pose proof (step_edges_viol defs dm R st b v H). auto.
  - exfalso. eapply (step_ndels_viol defs dm st b v Hu); eauto.
  - pose proof (step_edels_viol defs dm st b v H). auto.
Qed.

Theorem model_violations_known defs dm : forall ss st v,
  ids_unique st ->
  In v (viol_steps defs dm st ss (observed (run_steps (build_rooms defs) dm st ss))) -> known_kind v.
Proof.
  induction ss as [|s tl IH]; intros st v Hu H; [contradiction|].
  cbn [run_steps observed map viol_steps] in H. apply in_app_or in H. destruct H as [H|H].
  - eapply do_step_viol; eauto.
  - eapply IH; [|exact H]. apply ids_unique_step; assumption.
Qed.

(* a call that fails as a whole leaves the four tables as they were *)
Theorem failed_call_changes_nothing rooms dm st s :
  status_ok (snd (do_step rooms dm st s)) = false -> fst (do_step rooms dm st s) = st.
Proof.
  destruct s as [R b|R b|b|b]; cbn [do_step].
  - unfold step_nodes. destruct (forallb _ _); [discriminate|reflexivity].
  - unfold step_edges. destruct (forallb _ _); [|reflexivity]. destruct (find_room rooms R); [discriminate|reflexivity].
  - unfold step_ndels. destruct (forallb _ _); [discriminate|reflexivity].
  - unfold step_edels. destruct (forallb _ _); [discriminate|reflexivity].
Qed.

(* the verdict on one row depends on that row, the room definitions, the data model, the stored
   row of the same id and the stored deletion records of that id only: not on the rest of the
   batch, not on other stored rows *)
Theorem node_verdict_local rooms dm R st st' x :
  lookup_node st (n_id x) = lookup_node st' (n_id x) ->
  tombstoned st x = tombstoned st' x ->
  requested st x = requested st' x /\ accept_node rooms dm R st x = accept_node rooms dm R st' x.
Proof. unfold requested, accept_node. intros -> ->. split; reflexivity. Qed.


(* a rejected row leaves no trace: rows of a node batch that are requested but refused are not
   among the stored rows afterwards unless they were stored before *)
Theorem rejected_node_not_stored rooms dm R st batch x :
  accept_node rooms dm R st x = false ->
  (forall y, In y batch -> n_tag y = n_tag x -> y = x) ->
  In x (s_nodes (fst (step_nodes rooms dm R st batch))) -> In x (s_nodes st).
Proof.
  intros Hrej _. unfold step_nodes. destruct (forallb _ _); simpl; [|auto]. intros H.
  destruct (fold_put_node_in _ _ _ H) as [H1|H1]; [assumption|].
  apply filter_In in H1. destruct H1 as [_ H1]. congruence.
Qed.

(* outside the delimited classes the property holds on the model: if the violations the oracle finds
   on the model's run lie in no known class, there are none *)
Lemma dedupz_nil l : dedupz l = [] -> l = [].
Proof.
  induction l as [|h t IH]; simpl; [reflexivity|]. destruct (existsb (Z.eqb h) t) eqn:E; [|discriminate].
  intros H. apply IH in H. subst t. discriminate.
Qed.
Theorem model_outside_known defs dm ss st :
  ids_unique st ->
  classes_of (viol_steps defs dm st ss (observed (run_steps (build_rooms defs) dm st ss))) = [] ->
  viol_steps defs dm st ss (observed (run_steps (build_rooms defs) dm st ss)) = [].
Proof.
  intros Hu. unfold classes_of.
  set (v := viol_steps defs dm st ss (observed (run_steps (build_rooms defs) dm st ss))).
  assert (Hk : forallb (fun k => Z.ltb 0 k) v = true).
  { apply forallb_forall. intros k Hin. destruct (model_violations_known defs dm ss st k Hu Hin) as [H|[H|H]]; subst k; reflexivity. }
  rewrite Hk. apply dedupz_nil.
Qed.

(* ------------------------------------------------------------------ closed witnesses *)
Local Open Scope N_scope.
Definition fs_w : list field := [{| f_short := 32%N; f_type := TString; f_nullable := false; f_default := false |}].
Definition dm_w : dmodel := [(1%N, fs_w); (2%N, fs_w)].
Definition member_w (g : uid) (k : key) (e : entity) (s a : bool) : list event :=
  [EvGroup g; EvUser g k 10%Z true; EvRight g e 10%Z s a].
Definition node_w (tag id : N) (room : uid) (ent : entity) (j : option json) (mdate : Z) (author : key) : rnode :=
  {| n_tag := tag; n_id := id; n_room := Some room; n_ent := Some ent; n_json := j; n_mdate := mdate;
     n_author := author; n_sig := tag; n_sig_ok := true; n_too_big := false |}.
Definition good_w : option json := Some [(32%N, JStr false)].
Definition edge_w (tag src : N) (ent : entity) (dest : N) (cdate : Z) (author : key) : redge :=
  {| e_tag := tag; e_src := src; e_ent := Some ent; e_label := 1%N; e_dest := dest; e_cdate := cdate; e_author := author; e_sig_ok := true |}.
Definition st_w (ns : list rnode) (es : list redge) : store := {| s_nodes := ns; s_edges := es; s_ndels := []; s_edels := [] |}.

(* (repaired by a9c9d9e) key 2 may write E1 rows in room 2 only; it attaches a reference to a row of room 1 *)
Definition w_K1 : c02case :=
  CIngest [(1%N, member_w 1 1 0 true true); (2%N, member_w 1 2 1 true false)] dm_w
    (st_w [node_w 1 100 1 1 good_w 20 1; node_w 2 101 1 2 good_w 20 1] [])
    [SEdges 2%N [edge_w 3 100 1 101 30 2]].
(* K1, tombstone side: key 2 (all-rows right in room 2) removes a reference of a row of room 1 *)
Definition w_K1b : c02case :=
  CIngest [(1%N, member_w 1 1 0 true true); (2%N, member_w 1 2 1 true true)] dm_w
    (st_w [node_w 1 100 1 1 good_w 20 1; node_w 2 101 1 2 good_w 20 1] [edge_w 3 100 1 101 20 1])
    [SEDels [{| ed_tag := 4%N; ed_room := 2%N; ed_src := 100%N; ed_ent := Some 1%N; ed_label := 1%N; ed_dest := 101%N;
                ed_cdate := 20; ed_date := 30; ed_author := 2%N; ed_sig_ok := true |}]].
(* (repaired by 8ef09c7) key 2 has rights on E2 only; its tombstone names E2 for the E1 row of key 1 *)
Definition w_K2 : c02case :=
  CIngest [(1%N, member_w 1 1 1 true true ++ member_w 2 2 2 true true)] dm_w
    (st_w [node_w 1 100 1 1 good_w 20 1] [])
    [SNDels [{| nd_tag := 2%N; nd_room := 1%N; nd_id := 100%N; nd_ent := Some 2%N; nd_mdate := 20; nd_date := 30;
                nd_author := 2%N; nd_sig_ok := true |}]].
(* K3: key 2 has rights on E2 only and replaces the E1 row of key 1 by an E2 row *)
Definition w_K3 : c02case :=
  CIngest [(1%N, member_w 1 1 1 true true ++ member_w 2 2 2 true true)] dm_w
    (st_w [node_w 1 100 1 1 good_w 20 1] [])
    [SNodes 1%N [node_w 2 100 1 2 good_w 30 2]].
(* K4: key 2 has the own-rows right only and replaces the reference written by key 1 *)
Definition w_K4 : c02case :=
  CIngest [(1%N, member_w 1 1 1 true true ++ member_w 2 2 1 true false)] dm_w
    (st_w [node_w 1 100 1 1 good_w 20 1; node_w 2 101 1 2 good_w 20 1] [edge_w 3 100 1 101 20 1])
    [SEdges 1%N [edge_w 4 100 1 101 30 2]].
(* (repaired by 95fc165) a row without JSON content although `name` is required *)
Definition w_K5 : c02case :=
  CIngest [(1%N, member_w 1 1 1 true false)] dm_w (st_w [] []) [SNodes 1%N [node_w 1 100 1 1 None 20 1]].
(* an honest exchange: tombstone, new version, new row, reference: all stored, no violation *)
Definition w_ok : c02case :=
  CIngest [(1%N, member_w 1 1 0 true true ++ member_w 2 2 0 true false)] dm_w
    (st_w [node_w 1 100 1 1 good_w 20 2; node_w 2 101 1 2 good_w 20 2] [edge_w 3 100 1 101 20 2])
    [SEDels [{| ed_tag := 4%N; ed_room := 1%N; ed_src := 100%N; ed_ent := Some 1%N; ed_label := 1%N; ed_dest := 101%N;
                ed_cdate := 20; ed_date := 25; ed_author := 2%N; ed_sig_ok := true |}];
     SNDels [{| nd_tag := 5%N; nd_room := 1%N; nd_id := 101%N; nd_ent := Some 2%N; nd_mdate := 20; nd_date := 26;
                nd_author := 2%N; nd_sig_ok := true |}];
     SNodes 1%N [node_w 6 100 1 1 good_w 27 2; node_w 7 102 1 2 good_w 27 1];
     SEdges 1%N [edge_w 8 100 1 102 27 2];
     (* refused: key 2 has no all-rows right for the row of key 1; key 3 is no member *)
     SNodes 1%N [node_w 9 102 1 2 good_w 28 2; node_w 10 103 1 1 good_w 28 3]].

(* the classes that are still open *)
Example witnesses :
  violations w_K1b (run_C02 w_K1b) = [1%Z] /\ violations w_K3 (run_C02 w_K3) = [3%Z] /\
  violations w_K4 (run_C02 w_K4) = [4%Z].
Proof. repeat split; vm_compute; reflexivity. Qed.

Example witness_classes :
  known_C02 w_K1b = [1%Z] /\ known_C02 w_K3 = [3%Z] /\ known_C02 w_K4 = [4%Z].
Proof. repeat split; vm_compute; reflexivity. Qed.

(* the witnesses of the repaired classes are now refused and leave the tables as they were:
   the reference on a row of another room (rejected id 100), the tombstone naming another entity
   (ignored: the row stays, nothing is logged), the row without JSON content (rejected id 100) *)
Example repaired_witnesses :
  run_C02 w_K1 = [2; 1; 2; 0; 0; 0;  0; 1; 100;  2; 1; 2; 0; 0; 0]%Z /\ violations w_K1 (run_C02 w_K1) = [] /\
  run_C02 w_K2 = [1; 1; 0; 0; 0;  0;  1; 1; 0; 0; 0]%Z /\ violations w_K2 (run_C02 w_K2) = [] /\
  run_C02 w_K5 = [0; 0; 0; 0;  0; 1; 100;  0; 0; 0; 0]%Z /\ violations w_K5 (run_C02 w_K5) = [].
Proof. repeat split; vm_compute; reflexivity. Qed.

(* non-vacuity: the honest exchange is stored (tables: 3 rows, 1 reference, 2 tombstones at the end),
   its refused rows are reported, and the oracle finds nothing *)
Example honest_exchange :
  spec_C02 w_ok (run_C02 w_ok) = true /\ known_C02 w_ok = [] /\
  run_C02 w_ok = ([2; 1; 2; 1; 3; 0; 0;
                  0; 2; 1; 2; 0; 0; 1; 4;
                  0; 1; 1; 0; 1; 5; 1; 4;
                  0; 0; 2; 6; 7; 0; 1; 5; 1; 4;
                  0; 0; 2; 6; 7; 1; 8; 1; 5; 1; 4;
                  0; 2; 102; 103; 2; 6; 7; 1; 8; 1; 5; 1; 4])%Z.
Proof. repeat split; vm_compute; reflexivity. Qed.
