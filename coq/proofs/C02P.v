(* C02P.v — proofs for C02: every change the remote-ingestion model makes to the four tables is
   either entitled by the room history (`granted`) or one of the delimited defect kinds 1..5;
   nothing else changes; a refused call changes nothing. *)
From DV Require Import RightsP Run_C01 C01P Run_C02.

(* ------------------------------------------------------------------ small list facts *)
Lemma in_flat_map_iff {A B} (f : A -> list B) l b : In b (flat_map f l) <-> exists a, In a l /\ In b (f a).
Proof. apply in_flat_map. Qed.

Lemma has_tag_in {A} (tag : A -> N) l x : In x l -> has_tag tag l (tag x) = true.
Proof. intros H. unfold has_tag. apply existsb_exists. exists x. split; [assumption|apply N.eqb_refl]. Qed.

Lemma same_tags_refl {A} (tag : A -> N) l : same_tags tag l l = true.
Proof.
  unfold same_tags. assert (H : forallb (fun x => has_tag tag l (tag x)) l = true).
  { apply forallb_forall. intros x Hx. apply has_tag_in; assumption. }
  rewrite H. reflexivity.
Qed.

Lemma frame_refl {A} (tag : A -> N) l v : ~ In v (frame_viol (same_tags tag l l)).
Proof. rewrite same_tags_refl. simpl. tauto. Qed.

(* ------------------------------------------------------------------ rights: the specification side *)
Lemma flags_all_self sa : flags_allow sa MutateAll = true -> flags_allow sa MutateSelf = true.
Proof. destruct sa as [s a]. simpl. intros ->. apply orb_true_r. Qed.

Lemma right_granted_all_self evs g e d :
  right_granted evs g e d MutateAll = true -> right_granted evs g e d MutateSelf = true.
Proof.
  unfold right_granted. destruct (in_force (right_entries evs g e) d) as [[? sa]|].
  - apply flags_all_self.
  - destruct (in_force (right_entries evs g wildcard) d) as [[? sa]|]; [apply flags_all_self|discriminate].
Qed.

Lemma granted_all_self evs k e d : granted evs k e d MutateAll = true -> granted evs k e d MutateSelf = true.
Proof.
  unfold granted. intros H. apply existsb_exists in H. destruct H as [g [Hg H]].
  apply existsb_exists. exists g. split; [assumption|].
  apply andb_prop in H. destruct H as [H1 H2]. rewrite H1. simpl. apply right_granted_all_self; assumption.
Qed.

Lemma grantedR_all_self defs rid k e d : grantedR defs rid k e d MutateAll = true -> grantedR defs rid k e d MutateSelf = true.
Proof.
  unfold grantedR. intros H. apply andb_prop in H. destruct H as [H1 H2]. rewrite H1. simpl. apply granted_all_self; assumption.
Qed.

Lemma grantedR_needed defs rid k e d b : grantedR defs rid k e d (needed b) = true -> grantedR defs rid k e d MutateSelf = true.
Proof. destruct b; simpl; [tauto|apply grantedR_all_self]. Qed.

(* what a `can` of a room built from the definitions means *)
Lemma can_grantedR defs rid r k e d t :
  find_room (build_rooms defs) rid = Some r -> can r k e d t = true -> grantedR defs rid k e d t = true.
Proof.
  intros Hr Hc. destruct (find_room_build _ _ _ Hr) as [Hk Hg]. unfold grantedR. rewrite Hk, <- Hg. exact Hc.
Qed.

(* ------------------------------------------------------------------ stores with unique row ids *)
Definition ids_unique (st : store) : Prop := NoDup (map n_id (s_nodes st)).

Lemma NoDup_map_filter {A B} (f : A -> B) (p : A -> bool) l : NoDup (map f l) -> NoDup (map f (filter p l)).
Proof.
  induction l as [|a l IH]; simpl; intros H; [constructor|].
  inversion H as [|? ? Hn Hd]; subst. destruct (p a); simpl; [|auto].
  constructor; [|auto]. intros Hin. apply Hn. apply in_map_iff in Hin. destruct Hin as [x [Hx Hi]].
  apply in_map_iff. exists x. split; [assumption|]. apply filter_In in Hi. tauto.
Qed.

Lemma find_unique {A} (f : A -> N) l o :
  NoDup (map f l) -> In o l -> find (fun y => N.eqb (f y) (f o)) l = Some o.
Proof.
  induction l as [|a l IH]; simpl; intros Hnd Hin; [contradiction|].
  inversion Hnd as [|? ? Hn Hd]; subst. destruct Hin as [->|Hin].
  - rewrite N.eqb_refl. reflexivity.
  - destruct (N.eqb (f a) (f o)) eqn:He.
    + exfalso. apply N.eqb_eq in He. apply Hn. rewrite He. apply in_map; assumption.
    + apply IH; assumption.
Qed.

Lemma ids_unique_put st x : ids_unique st -> ids_unique (put_node st x).
Proof.
  unfold ids_unique, put_node. simpl. intros H. constructor.
  - intros Hin. apply in_map_iff in Hin. destruct Hin as [y [Hy Hi]]. apply filter_In in Hi.
    destruct Hi as [_ Hi]. rewrite Hy, N.eqb_refl in Hi. discriminate.
  - apply NoDup_map_filter; assumption.
Qed.
Lemma ids_unique_fold_put acc : forall st, ids_unique st -> ids_unique (fold_left put_node acc st).
Proof. induction acc as [|x tl IH]; simpl; intros st H; [assumption|]. apply IH, ids_unique_put; assumption. Qed.
Lemma ids_unique_fold_edge acc : forall st, ids_unique st -> ids_unique (fold_left put_edge acc st).
Proof. induction acc as [|x tl IH]; simpl; intros st H; [assumption|]. apply IH. exact H. Qed.
Lemma ids_unique_fold_ndel acc : forall st, ids_unique st -> ids_unique (fold_left apply_ndel acc st).
Proof.
  induction acc as [|x tl IH]; simpl; intros st H; [assumption|]. apply IH.
  unfold ids_unique, apply_ndel. simpl. apply NoDup_map_filter; assumption.
Qed.
Lemma ids_unique_fold_edel acc : forall st, ids_unique st -> ids_unique (fold_left apply_edel acc st).
Proof. induction acc as [|x tl IH]; simpl; intros st H; [assumption|]. apply IH. exact H. Qed.

Lemma ids_unique_step rooms dm st s : ids_unique st -> ids_unique (fst (do_step rooms dm st s)).
Proof.
  intros H. destruct s as [R b|R b|b|b]; simpl.
  - unfold step_nodes. destruct (forallb _ _); simpl; [apply ids_unique_fold_put|]; assumption.
  - unfold step_edges. destruct (forallb _ _); simpl; [|assumption].
    destruct (find_room rooms R); simpl; [apply ids_unique_fold_edge|]; assumption.
  - unfold step_ndels. destruct (forallb _ _); simpl; [apply ids_unique_fold_ndel|]; assumption.
  - unfold step_edels. destruct (forallb _ _); simpl; [apply ids_unique_fold_edel|]; assumption.
Qed.

(* ------------------------------------------------------------------ folds: what they keep, add, remove *)
Lemma fold_put_node_frame acc : forall st,
  s_edges (fold_left put_node acc st) = s_edges st /\
  s_ndels (fold_left put_node acc st) = s_ndels st /\
  s_edels (fold_left put_node acc st) = s_edels st.
Proof. induction acc as [|x tl IH]; simpl; intros st; [auto|]. destruct (IH (put_node st x)) as [A [B C]]. rewrite A, B, C. auto. Qed.

Lemma fold_put_node_in acc : forall st x,
  In x (s_nodes (fold_left put_node acc st)) -> In x (s_nodes st) \/ In x acc.
Proof.
  induction acc as [|a tl IH]; simpl; intros st x H; [auto|].
  destruct (IH _ _ H) as [H1|H1]; [|auto]. simpl in H1. destruct H1 as [->|H1]; [auto|].
  apply filter_In in H1. tauto.
Qed.

Lemma fold_put_node_keep acc : forall st y,
  In y (s_nodes st) ->
  In y (s_nodes (fold_left put_node acc st)) \/
  exists x, In x (s_nodes (fold_left put_node acc st)) /\ n_id x = n_id y /\ In x acc.
Proof.
  induction acc as [|a tl IH]; simpl; intros st y Hy; [auto|].
  destruct (N.eqb (n_id y) (n_id a)) eqn:He.
  - apply N.eqb_eq in He. destruct (IH (put_node st a) a) as [H|[x [Hx [Hi Ha]]]]; [simpl; auto| |].
    + right. exists a. auto.
    + right. exists x. repeat split; [assumption|congruence|auto].
  - destruct (IH (put_node st a) y) as [H|[x [Hx [Hi Ha]]]].
    + simpl. right. apply filter_In. split; [assumption|]. rewrite He. reflexivity.
    + auto.
    + right. exists x. auto.
Qed.

Lemma fold_put_edge_frame acc : forall st,
  s_nodes (fold_left put_edge acc st) = s_nodes st /\
  s_ndels (fold_left put_edge acc st) = s_ndels st /\
  s_edels (fold_left put_edge acc st) = s_edels st.
Proof. induction acc as [|x tl IH]; simpl; intros st; [auto|]. destruct (IH (put_edge st x)) as [A [B C]]. rewrite A, B, C. auto. Qed.

Lemma fold_put_edge_in acc : forall st x,
  In x (s_edges (fold_left put_edge acc st)) -> In x (s_edges st) \/ In x acc.
Proof.
  induction acc as [|a tl IH]; simpl; intros st x H; [auto|].
  destruct (IH _ _ H) as [H1|H1]; [|auto]. simpl in H1. destruct H1 as [->|H1]; [auto|].
  apply filter_In in H1. tauto.
Qed.

Lemma same_edge_pk_sym a b : same_edge_pk a b = same_edge_pk b a.
Proof. unfold same_edge_pk. rewrite (N.eqb_sym (e_src a)), (N.eqb_sym (e_label a)), (N.eqb_sym (e_dest a)). reflexivity. Qed.
Lemma same_edge_pk_trans a b c : same_edge_pk a b = true -> same_edge_pk b c = true -> same_edge_pk a c = true.
Proof.
  unfold same_edge_pk. intros H1 H2.
  apply andb_prop in H1. destruct H1 as [H1 H1c]. apply andb_prop in H1. destruct H1 as [H1a H1b].
  apply andb_prop in H2. destruct H2 as [H2 H2c]. apply andb_prop in H2. destruct H2 as [H2a H2b].
  apply N.eqb_eq in H1a, H1b, H1c, H2a, H2b, H2c.
  rewrite H1a, H1b, H1c, H2a, H2b, H2c, !N.eqb_refl. reflexivity.
Qed.
Lemma same_edge_pk_refl a : same_edge_pk a a = true.
Proof. unfold same_edge_pk. rewrite !N.eqb_refl. reflexivity. Qed.

Lemma fold_put_edge_keep acc : forall st y,
  In y (s_edges st) ->
  In y (s_edges (fold_left put_edge acc st)) \/
  exists x, In x (s_edges (fold_left put_edge acc st)) /\ same_edge_pk x y = true /\ In x acc.
Proof.
  induction acc as [|a tl IH]; simpl; intros st y Hy; [auto|].
  destruct (same_edge_pk y a) eqn:He.
  - destruct (IH (put_edge st a) a) as [H|[x [Hx [Hi Ha]]]]; [simpl; auto| |].
    + right. exists a. rewrite same_edge_pk_sym. auto.
    + right. exists x. repeat split; [assumption| |auto].
      apply same_edge_pk_trans with a; [assumption|]. rewrite same_edge_pk_sym. assumption.
  - destruct (IH (put_edge st a) y) as [H|[x [Hx [Hi Ha]]]].
    + simpl. right. apply filter_In. split; [assumption|]. rewrite He. reflexivity.
    + auto.
    + right. exists x. auto.
Qed.

(* node tombstones *)
Lemma fold_ndel_frame acc : forall st,
  s_edges (fold_left apply_ndel acc st) = s_edges st /\ s_edels (fold_left apply_ndel acc st) = s_edels st.
Proof. induction acc as [|x tl IH]; simpl; intros st; [auto|]. destruct (IH (apply_ndel st x)) as [A B]. rewrite A, B. auto. Qed.

Lemma fold_ndel_in acc : forall st d,
  In d (s_ndels (fold_left apply_ndel acc st)) -> In d (s_ndels st) \/ In d acc.
Proof.
  induction acc as [|a tl IH]; simpl; intros st d H; [auto|].
  destruct (IH _ _ H) as [H1|H1]; [|auto]. simpl in H1. destruct H1 as [->|H1]; [auto|].
  apply filter_In in H1. tauto.
Qed.

Lemma same_ndel_pk_refl a : same_ndel_pk a a = true.
Proof. unfold same_ndel_pk, oent_eqb. rewrite !N.eqb_refl, Z.eqb_refl. destruct (nd_ent a); simpl; [apply N.eqb_refl|reflexivity]. Qed.
Lemma oent_eqb_eq a b : oent_eqb a b = true -> a = b.
Proof. destruct a, b; simpl; try discriminate; [|reflexivity]. intros H. apply N.eqb_eq in H. congruence. Qed.
Lemma same_ndel_pk_eq a b : same_ndel_pk a b = true ->
  nd_room a = nd_room b /\ nd_date a = nd_date b /\ nd_id a = nd_id b /\ nd_ent a = nd_ent b.
Proof.
  unfold same_ndel_pk. intros H. apply andb_prop in H. destruct H as [H H4]. apply andb_prop in H. destruct H as [H H3].
  apply andb_prop in H. destruct H as [H1 H2]. apply N.eqb_eq in H1, H3. apply Z.eqb_eq in H2. apply oent_eqb_eq in H4. auto.
Qed.
Lemma same_ndel_pk_sym a b : same_ndel_pk a b = true -> same_ndel_pk b a = true.
Proof. intros H. destruct (same_ndel_pk_eq _ _ H) as [A [B [C D]]]. unfold same_ndel_pk. rewrite A, B, C, D. apply same_ndel_pk_refl. Qed.
Lemma same_ndel_pk_trans a b c : same_ndel_pk a b = true -> same_ndel_pk b c = true -> same_ndel_pk a c = true.
Proof.
  intros H1 H2. destruct (same_ndel_pk_eq _ _ H1) as [A [B [C D]]]. destruct (same_ndel_pk_eq _ _ H2) as [A' [B' [C' D']]].
  unfold same_ndel_pk. rewrite A, B, C, D, A', B', C', D'. apply same_ndel_pk_refl.
Qed.

Lemma fold_ndel_keep acc : forall st y,
  In y (s_ndels st) ->
  In y (s_ndels (fold_left apply_ndel acc st)) \/
  exists x, In x (s_ndels (fold_left apply_ndel acc st)) /\ same_ndel_pk x y = true /\ In x acc.
Proof.
  induction acc as [|a tl IH]; simpl; intros st y Hy; [auto|].
  destruct (same_ndel_pk y a) eqn:He.
  - destruct (IH (apply_ndel st a) a) as [H|[x [Hx [Hi Ha]]]]; [simpl; auto| |].
    + right. exists a. split; [assumption|]. split; [apply same_ndel_pk_sym; assumption|auto].
    + right. exists x. repeat split; [assumption| |auto].
      apply same_ndel_pk_trans with a; [assumption|]. apply same_ndel_pk_sym. assumption.
  - destruct (IH (apply_ndel st a) y) as [H|[x [Hx [Hi Ha]]]].
    + simpl. right. apply filter_In. split; [assumption|]. rewrite He. reflexivity.
    + auto.
    + right. exists x. auto.
Qed.

Lemma fold_ndel_nodes_sub acc : forall st x, In x (s_nodes (fold_left apply_ndel acc st)) -> In x (s_nodes st).
Proof.
  induction acc as [|a tl IH]; simpl; intros st x H; [assumption|].
  apply IH in H. simpl in H. apply filter_In in H. tauto.
Qed.
Lemma fold_ndel_nodes_keep acc : forall st y,
  In y (s_nodes st) -> In y (s_nodes (fold_left apply_ndel acc st)) \/ exists d, In d acc /\ node_hit d y = true.
Proof.
  induction acc as [|a tl IH]; simpl; intros st y Hy; [auto|].
  destruct (node_hit a y) eqn:He.
  - right. exists a. auto.
  - destruct (IH (apply_ndel st a) y) as [H|[d [Hd Hh]]].
    + simpl. apply filter_In. split; [assumption|]. rewrite He. reflexivity.
    + auto.
    + right. exists d. auto.
Qed.

(* edge tombstones *)
Lemma fold_edel_frame acc : forall st,
  s_nodes (fold_left apply_edel acc st) = s_nodes st /\ s_ndels (fold_left apply_edel acc st) = s_ndels st.
Proof. induction acc as [|x tl IH]; simpl; intros st; [auto|]. destruct (IH (apply_edel st x)) as [A B]. rewrite A, B. auto. Qed.

Lemma fold_edel_in acc : forall st d,
  In d (s_edels (fold_left apply_edel acc st)) -> In d (s_edels st) \/ In d acc.
Proof.
  induction acc as [|a tl IH]; simpl; intros st d H; [auto|].
  destruct (IH _ _ H) as [H1|H1]; [|auto]. simpl in H1. destruct H1 as [->|H1]; [auto|].
  apply filter_In in H1. tauto.
Qed.

Lemma same_edel_pk_eq a b : same_edel_pk a b = true ->
  ed_room a = ed_room b /\ ed_date a = ed_date b /\ ed_src a = ed_src b /\ ed_label a = ed_label b /\ ed_dest a = ed_dest b.
Proof.
  unfold same_edel_pk. intros H. apply andb_prop in H. destruct H as [H H5]. apply andb_prop in H. destruct H as [H H4].
  apply andb_prop in H. destruct H as [H H3]. apply andb_prop in H. destruct H as [H1 H2].
  apply N.eqb_eq in H1, H3, H4, H5. apply Z.eqb_eq in H2. auto.
Qed.
Lemma same_edel_pk_refl a : same_edel_pk a a = true.
Proof. unfold same_edel_pk. rewrite !N.eqb_refl, Z.eqb_refl. reflexivity. Qed.
Lemma same_edel_pk_sym a b : same_edel_pk a b = true -> same_edel_pk b a = true.
Proof. intros H. destruct (same_edel_pk_eq _ _ H) as [A [B [C [D E]]]]. unfold same_edel_pk. rewrite A, B, C, D, E. apply same_edel_pk_refl. Qed.
Lemma same_edel_pk_trans a b c : same_edel_pk a b = true -> same_edel_pk b c = true -> same_edel_pk a c = true.
Proof.
  intros H1 H2. destruct (same_edel_pk_eq _ _ H1) as [A [B [C [D E]]]]. destruct (same_edel_pk_eq _ _ H2) as [A' [B' [C' [D' E']]]].
  unfold same_edel_pk. rewrite A, B, C, D, E, A', B', C', D', E'. apply same_edel_pk_refl.
Qed.

Lemma fold_edel_keep acc : forall st y,
  In y (s_edels st) ->
  In y (s_edels (fold_left apply_edel acc st)) \/
  exists x, In x (s_edels (fold_left apply_edel acc st)) /\ same_edel_pk x y = true /\ In x acc.
Proof.
  induction acc as [|a tl IH]; simpl; intros st y Hy; [auto|].
  destruct (same_edel_pk y a) eqn:He.
  - destruct (IH (apply_edel st a) a) as [H|[x [Hx [Hi Ha]]]]; [simpl; auto| |].
    + right. exists a. split; [assumption|]. split; [apply same_edel_pk_sym; assumption|auto].
    + right. exists x. repeat split; [assumption| |auto].
      apply same_edel_pk_trans with a; [assumption|]. apply same_edel_pk_sym. assumption.
  - destruct (IH (apply_edel st a) y) as [H|[x [Hx [Hi Ha]]]].
    + simpl. right. apply filter_In. split; [assumption|]. rewrite He. reflexivity.
    + auto.
    + right. exists x. auto.
Qed.

Lemma fold_edel_edges_sub acc : forall st x, In x (s_edges (fold_left apply_edel acc st)) -> In x (s_edges st).
Proof.
  induction acc as [|a tl IH]; simpl; intros st x H; [assumption|].
  apply IH in H. simpl in H. apply filter_In in H. tauto.
Qed.
Lemma fold_edel_edges_keep acc : forall st y,
  In y (s_edges st) -> In y (s_edges (fold_left apply_edel acc st)) \/ exists d, In d acc /\ edge_hit d y = true.
Proof.
  induction acc as [|a tl IH]; simpl; intros st y Hy; [auto|].
  destruct (edge_hit a y) eqn:He.
  - right. exists a. auto.
  - destruct (IH (apply_edel st a) y) as [H|[d [Hd Hh]]].
    + simpl. apply filter_In. split; [assumption|]. rewrite He. reflexivity.
    + auto.
    + right. exists d. auto.
Qed.

Lemma dedup_last_in l d : In d (dedup_last l) -> In d l.
Proof.
  induction l as [|a tl IH]; simpl; [tauto|]. destruct (existsb _ tl); simpl; intros H; [auto|].
  destruct H; auto.
Qed.

(* ------------------------------------------------------------------ accepted => entitled *)
Lemma validate_node_true defs x orm oau R en :
  n_room x = Some R -> n_ent x = Some en ->
  validate_node (build_rooms defs) x orm oau = true ->
  n_too_big x = false /\
  grantedR defs R (n_author x) en (n_mdate x) (required_right oau (n_author x)) = true /\
  match orm with
  | Some R0 => N.eqb R0 R = true \/ grantedR defs R0 (n_author x) en (n_mdate x) (required_right oau (n_author x)) = true
  | None => True
  end.
Proof.
  intros Hroom Hent. unfold validate_node. rewrite Hroom, Hent.
  destruct (n_too_big x); [discriminate|]. intros H. split; [reflexivity|].
  destruct orm as [orid|].
  - destruct (N.eqb orid R) eqn:He.
    + simpl in H. destruct (find_room (build_rooms defs) R) as [r|] eqn:Hr; [|discriminate].
      split; [eapply can_grantedR; eauto|auto].
    + destruct (find_room (build_rooms defs) orid) as [oroom|] eqn:Hor; [|discriminate].
      destruct (can oroom (n_author x) en (n_mdate x) (required_right oau (n_author x))) eqn:Hoc; [|discriminate].
      simpl in H. destruct (find_room (build_rooms defs) R) as [r|] eqn:Hr; [|discriminate].
      split; [eapply can_grantedR; eauto|]. right. eapply can_grantedR; eauto.
  - simpl in H. destruct (find_room (build_rooms defs) R) as [r|] eqn:Hr; [|discriminate].
    split; [eapply can_grantedR; eauto|exact I].
Qed.

Lemma in_app_2 {A} (v : A) l1 l2 (P Q : Prop) : (In v l1 -> P) -> (In v l2 -> Q) -> In v (l1 ++ l2) -> P \/ Q.
Proof. intros H1 H2 H. apply in_app_or in H. tauto. Qed.

Lemma accept_node_entitled defs dm R st x v :
  accept_node (build_rooms defs) dm R st x = true -> n_sig_ok x = true ->
  In v (node_entitled defs dm R st x) -> v = 3 \/ v = 5.
Proof.
  unfold accept_node, prefilter, node_entitled. intros Hacc Hsig.
  apply andb_prop in Hacc. destruct Hacc as [Hpre Hval]. apply andb_prop in Hpre. destruct Hpre as [Hroom Hmodel].
  destruct (n_room x) as [r|] eqn:Er; [|discriminate]. apply N.eqb_eq in Hroom. subst r.
  destruct (n_ent x) as [en|] eqn:Ee; [|discriminate].
  destruct (fields_of dm en) as [fs|]; [|discriminate].
  rewrite Hsig, Hmodel. simpl opt_eqb. rewrite N.eqb_refl.
  destruct (lookup_node st (n_id x)) as [o|].
  - destruct (validate_node_true defs x (n_room o) (Some (n_author o)) R en Er Ee Hval) as [Hbig [Hg Hold]].
    rewrite Hbig. simpl required_right in Hg, Hold. rewrite Hg. simpl.
    assert (Ho : match n_room o with
                 | Some R0 => N.eqb R0 R || grantedR defs R0 (n_author x) en (n_mdate x) (needed (N.eqb (n_author o) (n_author x)))
                 | None => true end = true).
    { destruct (n_room o) as [R0|]; [|reflexivity]. destruct Hold as [H|H]; rewrite H; [reflexivity|apply orb_true_r]. }
    rewrite Ho. simpl. intros Hin. apply in_app_or in Hin. destruct Hin as [Hin|Hin].
    + destruct (spec_conform fs (n_json x)); simpl in Hin; [contradiction|]. destruct Hin as [<-|[]]. auto.
    + destruct (n_ent o) as [eo|]; [|contradiction]. destruct (_ || _); simpl in Hin; [contradiction|]. destruct Hin as [<-|[]]. auto.
  - destruct (validate_node_true defs x None None R en Er Ee Hval) as [Hbig [Hg _]].
    rewrite Hbig. simpl required_right in Hg. rewrite Hg. simpl. intros Hin. rewrite app_nil_r in Hin.
    destruct (spec_conform fs (n_json x)); simpl in Hin; [contradiction|]. destruct Hin as [<-|[]]. auto.
Qed.

Theorem step_nodes_viol defs dm R st batch v :
  let r := step_nodes (build_rooms defs) dm R st batch in
  In v (viol_step defs dm (SNodes R batch) (match snd r with 0 :: _ => true | _ => false end) st (fst r)) ->
  v = 3 \/ v = 5.
Proof.
  unfold step_nodes. destruct (forallb n_sig_ok (filter (requested st) batch)) eqn:Hsig; simpl.
  2:{ unfold unchanged. intros H. repeat (apply in_app_or in H; destruct H as [H|H]; [exfalso; eapply frame_refl; eauto|]).
      exfalso; eapply frame_refl; eauto. }
  set (acc := filter (accept_node (build_rooms defs) dm R st) (filter (requested st) batch)).
  unfold viol_nodes. destruct (fold_put_node_frame acc st) as [Fe [Fn Fd]]. rewrite Fe, Fn, Fd.
  intros H.
  apply in_app_or in H. destruct H as [H|H]; [exfalso; eapply frame_refl; eauto|].
  apply in_app_or in H. destruct H as [H|H]; [exfalso; eapply frame_refl; eauto|].
  apply in_app_or in H. destruct H as [H|H]; [exfalso; eapply frame_refl; eauto|].
  apply in_app_or in H. destruct H as [H|H].
  - apply in_flat_map in H. destruct H as [x [Hx Hv]].
    destruct (has_tag n_tag (s_nodes st) (n_tag x)) eqn:Ht; [contradiction|].
    destruct (fold_put_node_in _ _ _ Hx) as [Hin|Hin].
    + rewrite (has_tag_in n_tag _ _ Hin) in Ht. discriminate.
    + unfold acc in Hin. apply filter_In in Hin. destruct Hin as [Hreq Hacc].
      assert (Hb : In x batch) by (apply filter_In in Hreq; tauto).
      rewrite (has_tag_in n_tag _ _ Hb) in Hv. simpl in Hv.
      eapply accept_node_entitled; eauto.
      rewrite forallb_forall in Hsig. apply Hsig; assumption.
  - apply in_flat_map in H. destruct H as [y [Hy Hv]].
    destruct (fold_put_node_keep acc st y Hy) as [Hk|[x [Hx [Hid Ha]]]].
    + rewrite (has_tag_in n_tag _ _ Hk) in Hv. contradiction.
    + destruct (has_tag n_tag _ (n_tag y)); [contradiction|].
      assert (He : existsb (fun x0 => N.eqb (n_id x0) (n_id y) && has_tag n_tag batch (n_tag x0)) (s_nodes (fold_left put_node acc st)) = true).
      { apply existsb_exists. exists x. split; [assumption|]. rewrite Hid, N.eqb_refl. simpl.
        apply has_tag_in. unfold acc in Ha. apply filter_In in Ha. destruct Ha as [Ha _]. apply filter_In in Ha. tauto. }
      rewrite He in Hv. contradiction.
Qed.
