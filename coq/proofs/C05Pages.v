(* C05Pages.v — paging with first n + after(keys of the last row) visits every matching row exactly once,
   provided the key tuple is unique and never null on the matching rows. *)
From DV Require Import Eval Sql Run_C05 C05Sort C05Order C05Sql C05P.
From Coq Require Import Permutation Sorted.
Open Scope list_scope.

(* ---------- the cursor variables ---------- *)
Lemma str_eqb_neq : forall a b, a <> b -> str_eqb a b = false.
Proof. intros a b H. destruct (str_eqb a b) eqn:E; [|reflexivity]. apply str_eqb_eq in E. contradiction. Qed.

Lemma cursor_name_inj : forall i j, cursor_name i = cursor_name j -> i = j.
Proof.
  intros i j H. unfold cursor_name in H. injection H as H.
  assert (Hl : List.length (repeat 48%N i) = List.length (repeat 48%N j)) by (rewrite H; reflexivity).
  rewrite !repeat_length in Hl. exact Hl.
Qed.
Lemma cursor_name_is : forall j, is_cursor_name (cursor_name j) = true.
Proof.
  intros j. unfold is_cursor_name, cursor_name. rewrite N.eqb_refl. simpl.
  induction j as [|j IH]; simpl. reflexivity. exact IH.
Qed.

Definition cparams (start : nat) (c : list val) : params :=
  map (fun jv : nat * val => (cursor_name (fst jv), snd jv)) (combine (seq start (List.length c)) c).

Lemma cparams_cons : forall start x c, cparams start (x :: c) = (cursor_name start, x) :: cparams (S start) c.
Proof. reflexivity. Qed.

Lemma lookup_not_cursor : forall n c start ps, is_cursor_name n = false -> lookup n (cparams start c ++ ps) = lookup n ps.
Proof.
  intros n c. induction c as [|x c IH]; intros start ps Hn. reflexivity.
  rewrite cparams_cons. cbn [app lookup]. rewrite str_eqb_neq. apply (IH (S start) ps Hn).
  intros Hc. subst n. rewrite cursor_name_is in Hn. discriminate.
Qed.

Lemma lookup_cursor : forall c start j ps, (j < List.length c)%nat ->
  lookup (cursor_name (start + j)) (cparams start c ++ ps) = Some (nth j c VNull).
Proof.
  induction c as [|x c IH]; intros start j ps Hj; simpl in Hj. lia.
  rewrite cparams_cons. cbn [app lookup nth]. destruct j as [|j].
  - rewrite Nat.add_0_r, str_eqb_refl. reflexivity.
  - rewrite str_eqb_neq. replace (start + S j)%nat with (S start + j)%nat by lia. apply (IH (S start) j ps). lia.
    intros Hc. apply cursor_name_inj in Hc. lia.
Qed.

Lemma cursor_params_some : forall c, cursor_params (Some c) = cparams 0 c.
Proof. reflexivity. Qed.

(* the values of the cursor variables *)
Lemma cursor_values_gen : forall c pre ps,
  all_some (map (operand_value (cparams 0 (pre ++ c) ++ ps))
                (map (fun j => OVar (cursor_name j)) (seq (List.length pre) (List.length c)))) = Some c.
Proof.
  induction c as [|x c IH]; intros pre ps. reflexivity.
  cbn [List.length seq map all_some operand_value].
  pose proof (lookup_cursor (pre ++ x :: c) 0 (List.length pre) ps) as Hlk. cbn [Nat.add] in Hlk.
  rewrite Hlk by (rewrite app_length; simpl; lia).
  rewrite app_nth2 by lia. rewrite Nat.sub_diag. cbn [nth].
  specialize (IH (pre ++ [x]) ps). rewrite <- app_assoc in IH. cbn [app] in IH.
  rewrite app_length in IH. cbn [List.length] in IH. rewrite Nat.add_1_r in IH. rewrite IH. reflexivity.
Qed.
Lemma cursor_values : forall c ps,
  all_some (map (operand_value (cursor_params (Some c) ++ ps)) (map (fun j => OVar (cursor_name j)) (seq 0 (List.length c)))) = Some c.
Proof. intros c ps. rewrite cursor_params_some. apply (cursor_values_gen c [] ps). Qed.

Lemma existsb_ext_in' : forall A (f g : A -> bool) l, (forall x, In x l -> f x = g x) -> existsb f l = existsb g l.
Proof.
  intros A f g l. induction l as [|x t IH]; intros H. reflexivity.
  simpl. rewrite (H x (or_introl eq_refl)), IH. reflexivity. intros y Hy. apply H. right. exact Hy.
Qed.
Lemma forallb_ext_in' : forall A (f g : A -> bool) l, (forall x, In x l -> f x = g x) -> forallb f l = forallb g l.
Proof.
  intros A f g l. induction l as [|x t IH]; intros H. reflexivity.
  simpl. rewrite (H x (or_introl eq_refl)), IH. reflexivity. intros y Hy. apply H. right. exact Hy.
Qed.
Lemma filter_filter' : forall A (f g : A -> bool) l, filter (fun x => f x && g x) l = filter g (filter f l).
Proof.
  intros A f g l. induction l as [|x t IH]. reflexivity. simpl. destruct (f x); simpl. destruct (g x); rewrite IH; reflexivity. exact IH.
Qed.

Section Pages.
  Variable m : emodel.
  Variable rows : db.
  Variable q : query.
  Variable ps : params.
  Variable n : Z.
  Hypothesis Hwfp : wf_pages m q ps = true.
  Hypothesis Hn : 0 < n.
  Hypothesis Hk1 : k_paging (List.length (q_order q)) m rows q ps = false.
  Hypothesis Hties : k_ties m rows q ps = false.
  Hypothesis Hk2 : k_rawkey m rows q = false.
  Hypothesis Hk3 : k_booldefault m rows q = false.
  Hypothesis Hk6 : k_nullvar q ps = false.

  (* unpacking wf_pages *)
  Lemma wfp_parts : wf_query m q = true /\ params_ok q ps = true /\
    q_paging q = PNone /\ q_first q = OLit (VInt 0) /\ q_skip q = None /\ q_order q <> [] /\
    (forall k, In k (q_order q) -> key_pos q k <> None) /\
    (forall v, In v (query_vars q) -> is_cursor_name v = false).
  Proof.
    pose proof Hwfp as H. unfold wf_pages in H.
    apply andb_prop in H. destruct H as [H H5]. apply andb_prop in H. destruct H as [H H4].
    apply andb_prop in H. destruct H as [H H3]. apply andb_prop in H. destruct H as [H H2].
    apply andb_prop in H. destruct H as [H0 H1].
    split. exact H0. split. exact H1.
    destruct (q_paging q); try discriminate. destruct (q_first q) as [[| |z| |]|]; try discriminate. destruct z; try discriminate.
    destruct (q_skip q); try discriminate. repeat split.
    - intros Hc. rewrite Hc in H3. discriminate.
    - intros k Hk Hc. rewrite forallb_forall in H4. specialize (H4 k Hk). rewrite Hc in H4. discriminate.
    - intros v Hv. rewrite forallb_forall in H5. specialize (H5 v Hv). destruct (is_cursor_name v); [discriminate | reflexivity].
  Qed.

  Let Hwf := proj1 wfp_parts.
  Let Hpo := proj1 (proj2 wfp_parts).

  (* a filter variable means the same with the cursor variables added *)
  Lemma operand_value_filter : forall cur f, In f (q_filters q) ->
    operand_value (cursor_params cur ++ ps) (fl_val f) = operand_value ps (fl_val f).
  Proof.
    intros cur f Hin. destruct (fl_val f) as [v|nm] eqn:Ev. reflexivity. simpl.
    destruct cur as [c|]; [|reflexivity]. rewrite cursor_params_some. apply lookup_not_cursor.
    apply (proj2 (proj2 (proj2 (proj2 (proj2 (proj2 (proj2 wfp_parts))))))). eapply vars_filter; eauto.
  Qed.

  Lemma filter_values_page : forall cur, filter_values (with_page q n cur) (cursor_params cur ++ ps) = filter_values q ps.
  Proof.
    intros cur. unfold filter_values. cbn [with_page q_filters]. apply map_ext_in. intros f Hin.
    rewrite operand_value_filter by exact Hin. reflexivity.
  Qed.

  Definition valid_cursor (cur : option (list val)) : Prop :=
    match cur with
    | None => True
    | Some c => List.length c = List.length (q_order q) /\ Forall (fun v => v <> VNull) c
    end.

  Lemma page_vars_length : forall (c : list val), List.length (map (fun j => OVar (cursor_name j)) (seq 0 (List.length c))) = List.length c.
  Proof. intros c. rewrite map_length, seq_length. reflexivity. Qed.

  Lemma page_wf : forall cur, valid_cursor cur -> wf_query m (with_page q n cur) = true.
  Proof.
    intros cur Hv. pose proof Hwf as H. unfold wf_query in H |- *.
    apply andb_prop in H. destruct H as [H W4]. apply andb_prop in H. destruct H as [H W3]. apply andb_prop in H. destruct H as [W1 W2].
    cbn [with_page q_filters q_paging q_order].
    apply andb_true_intro. split. apply andb_true_intro. split. apply andb_true_intro. split.
    - exact W1.
    - exact W2.
    - destruct cur as [c|]; cbn [paging_values]. 2: reflexivity.
      apply forallb_forall. intros o Ho. apply in_map_iff in Ho. destruct Ho as (j & <- & _). reflexivity.
    - destruct cur as [c|]. 2: reflexivity. cbn [paging_values]. rewrite page_vars_length.
      destruct Hv as [Hl _]. rewrite Hl. destruct (proj2 (proj2 (proj2 (proj2 (proj2 wfp_parts))))) as [Hne _].
      assert (Hpos : List.length (q_order q) <> 0%nat) by (intro Hz; apply length_zero_iff_nil in Hz; contradiction).
      apply andb_true_intro. split. apply negb_true_iff. apply Nat.eqb_neq. exact Hpos. apply Nat.leb_refl.
  Qed.

  Lemma page_params : forall cur, valid_cursor cur -> params_ok (with_page q n cur) (cursor_params cur ++ ps) = true.
  Proof.
    intros cur Hv. pose proof Hpo as H. unfold params_ok in H |- *.
    apply andb_prop in H. destruct H as [H P4]. apply andb_prop in H. destruct H as [H P3]. apply andb_prop in H. destruct H as [P1 P2].
    rewrite forallb_forall in P1.
    cbn [with_page q_first q_skip q_paging operand_value option_map as_int].
    apply andb_true_intro. split. apply andb_true_intro. split. apply andb_true_intro. split.
    - apply forallb_forall. intros v Hin. unfold query_vars in Hin. cbn [with_page q_filters q_paging q_first q_skip] in Hin.
      apply in_flat_map in Hin. destruct Hin as (o & Ho & Hvo).
      apply in_app_or in Ho. destruct Ho as [Ho|Ho].
      + apply in_map_iff in Ho. destruct Ho as (f & <- & Hf). destruct (fl_val f) as [lv|nm] eqn:Ev. contradiction.
        destruct Hvo as [<-|[]].
        pose proof (operand_value_filter cur f Hf) as Hop. rewrite Ev in Hop. simpl in Hop. rewrite Hop.
        apply P1. eapply vars_filter; eauto.
      + apply in_app_or in Ho. destruct Ho as [Ho|Ho].
        * destruct cur as [c|]; cbn [paging_values] in Ho. 2: contradiction.
          apply in_map_iff in Ho. destruct Ho as (j & <- & Hj). destruct Hvo as [<-|[]].
          apply in_seq in Hj. rewrite cursor_params_some.
          pose proof (lookup_cursor c 0 j ps) as Hl. cbn [Nat.add] in Hl. rewrite Hl by lia. reflexivity.
        * destruct Ho as [<-|[]]. contradiction.
    - reflexivity.
    - reflexivity.
    - destruct cur as [c|]; cbn [paging_values]. 2: reflexivity.
      apply forallb_forall. intros o Ho. apply in_map_iff in Ho. destruct Ho as (j & <- & Hj). apply in_seq in Hj.
      cbn [operand_value]. rewrite cursor_params_some. pose proof (lookup_cursor c 0 j ps) as Hl. cbn [Nat.add] in Hl. rewrite Hl by lia.
      destruct Hv as [_ Hnn]. rewrite Forall_forall in Hnn.
      assert (Hx : nth j c VNull <> VNull) by (apply Hnn; apply nth_In; lia).
      destruct (nth j c VNull); try reflexivity. congruence.
  Qed.

  Lemma matching_keys_page : forall cur, matching_keys m rows (with_page q n cur) (cursor_params cur ++ ps) = matching_keys m rows q ps.
  Proof.
    intros cur. unfold matching_keys. rewrite filter_values_page. reflexivity.
  Qed.

  Lemma with_page_length : forall (c c' : list val), List.length c = List.length c' -> with_page q n (Some c) = with_page q n (Some c').
  Proof. intros c c' H. unfold with_page. rewrite H. reflexivity. Qed.

  Lemma page_known : forall cur, valid_cursor cur -> known_query m rows (with_page q n cur) (cursor_params cur ++ ps) = [].
  Proof.
    intros cur Hv. unfold known_query.
    assert (E1 : match q_paging (with_page q n cur) with
                 | PNone => false
                 | p => k_paging (List.length (paging_values p)) m rows (with_page q n cur) (cursor_params cur ++ ps)
                 end = false).
    { destruct cur as [c|]. 2: reflexivity. cbn [with_page q_paging paging_values]. rewrite page_vars_length.
      unfold k_paging. rewrite matching_keys_page. destruct Hv as [Hl _]. rewrite Hl. exact Hk1. }
    assert (E2 : k_rawkey m rows (with_page q n cur) = false) by exact Hk2.
    assert (E3 : k_booldefault m rows (with_page q n cur) = false) by exact Hk3.
    assert (E6 : k_nullvar (with_page q n cur) (cursor_params cur ++ ps) = false).
    { rewrite <- Hk6. unfold k_nullvar. cbn [with_page q_filters]. apply existsb_ext_in'. intros f Hf.
      destruct (fl_val f) as [lv|nm] eqn:Ev. reflexivity.
      pose proof (operand_value_filter cur f Hf) as Hop. rewrite Ev in Hop. simpl in Hop. rewrite Hop. reflexivity. }
    assert (E7 : k_firstzero (with_page q n cur) (cursor_params cur ++ ps) = false) by reflexivity.
    rewrite E1, E2, E3, E6, E7. reflexivity.
  Qed.

  Lemma page_run : forall cur, valid_cursor cur ->
    run_query m rows (with_page q n cur) (cursor_params cur ++ ps) = eval m rows (with_page q n cur) (cursor_params cur ++ ps).
  Proof.
    intros cur Hv. apply T1_outside_known. apply page_wf; assumption. apply page_params; assumption. apply page_known; assumption.
  Qed.

  (* ---------- the reference evaluation of the whole result and of one page ---------- *)
  Definition passes (r : row) : bool :=
    forallb (fun fv : qfilter * val => holds (fl_op (fst fv)) (ref_value m q r (fl_ref (fst fv))) (snd fv))
            (combine (q_filters q) (filter_values q ps)).
  Definition M : list row := filter passes rows.
  Definition S : list row := isort (rcmp m q) M.
  Definition after (c : list val) (r : row) : bool :=
    match lex_cmp (dirs q) (row_keys m q r) c with Gt => true | _ => false end.

  Lemma fvals_some : forall cur,
    all_some (map (fun f => operand_value (cursor_params cur ++ ps) (fl_val f)) (q_filters q)) = Some (filter_values q ps).
  Proof.
    intros cur. pose proof Hpo as H. unfold params_ok in H.
    apply andb_prop in H. destruct H as [H _]. apply andb_prop in H. destruct H as [H _]. apply andb_prop in H. destruct H as [P1 _].
    rewrite forallb_forall in P1.
    destruct (all_some_Forall2 _ _ (fun f => operand_value ps (fl_val f)) (q_filters q)) as (fv & Hfv & Hfv2).
    { intros f Hin. destruct (fl_val f) as [v|nm] eqn:Ev; simpl. discriminate.
      specialize (P1 nm (vars_filter q f nm Hin Ev)). destruct (lookup nm ps); congruence. }
    rewrite (filter_values_eq q ps fv Hfv2). rewrite <- Hfv. f_equal. apply map_ext_in. intros f Hin. apply operand_value_filter. exact Hin.
  Qed.

  Lemma eval_full : eval m rows q ps = Some (map (project m q) S).
  Proof.
    pose proof wfp_parts as W. destruct W as (_ & _ & Epg & Ef & Es & _).
    unfold eval. pose proof (fvals_some None) as Hf. cbn [cursor_params app] in Hf. rewrite Hf.
    rewrite Epg, Ef, Es. cbn [paging_values map all_some operand_value option_map as_int].
    unfold take_first, drop_skip. cbn [Z.leb Z.compare]. f_equal. f_equal.
    unfold ordered, S, M, matching. rewrite Epg. f_equal. apply filter_ext. intros r. rewrite andb_true_r. reflexivity.
  Qed.

  Lemma M_matching : matching m (no_paging q) (filter_values q ps) [] rows = M.
  Proof.
    unfold matching, M. cbn [no_paging q_filters q_paging]. apply filter_ext. intros r. rewrite andb_true_r.
    unfold passes. apply forallb_ext_in'. intros fv _. rewrite ref_value_no_paging. reflexivity.
  Qed.

  Lemma has_dup_pairs : forall A (eqv : A -> A -> bool) l, has_dup eqv l = false -> ForallOrdPairs (fun a b => eqv a b = false) l.
  Proof.
    intros A eqv l. induction l as [|x t IH]; intros H. constructor.
    simpl in H. apply orb_false_elim in H. destruct H as [H1 H2]. constructor.
    - apply Forall_forall. intros y Hy. destruct (eqv x y) eqn:E; [|reflexivity].
      assert (existsb (eqv x) t = true) by (apply existsb_exists; exists y; split; assumption). congruence.
    - apply IH. exact H2.
  Qed.

  Lemma M_pairwise : pairwise_ne (rcmp m q) M.
  Proof.
    pose proof Hties as H. unfold k_ties, matching_keys in H. rewrite M_matching in H.
    apply has_dup_pairs in H. unfold pairwise_ne. induction M as [|x t IH]. constructor.
    simpl in H. inversion H as [|? ? Hx Ht]; subst. constructor.
    - rewrite Forall_forall in *. intros y Hy. specialize (Hx (row_keys m q y) (in_map _ _ _ Hy)).
      unfold lex_eq in Hx. unfold rcmp. destruct (lex_cmp (dirs q) (row_keys m q x) (row_keys m q y)); congruence.
    - apply IH. exact Ht.
  Qed.

  Lemma S_perm : Permutation M S.
  Proof. apply isort_perm. Qed.

  Lemma S_strict : StronglySorted (clt (rcmp m q)) S.
  Proof.
    apply sorted_strict.
    - apply isort_sorted. apply rcmp_antisym. apply rcmp_eq_congr. apply rcmp_lt_trans.
    - apply no_equiv_pairwise. eapply pairwise_ne_perm. apply rcmp_antisym. apply S_perm. apply M_pairwise.
  Qed.

  Lemma S_in_M : forall y, In y S -> In y rows /\ passes y = true.
  Proof.
    intros y Hy. eapply Permutation_in in Hy; [|apply Permutation_sym, S_perm]. unfold M in Hy. apply filter_In in Hy. exact Hy.
  Qed.

  (* keys of matching rows are never null outside class 1 *)
  Lemma keys_nonnull : forall y, In y S -> Forall (fun v => v <> VNull) (row_keys m q y).
  Proof.
    intros y Hy. pose proof Hk1 as H. unfold k_paging, matching_keys in H. rewrite M_matching in H.
    apply Forall_forall. intros v Hv Hnull. subst v.
    assert (Hex : existsb (existsb is_null) (map (firstn (List.length (q_order q))) (map (row_keys m q) M)) = true).
    { apply existsb_exists. exists (row_keys m q y). split.
      - apply in_map_iff. exists (row_keys m q y). split.
        + apply firstn_all2. rewrite row_keys_length. unfold dirs. rewrite map_length. lia.
        + apply in_map. eapply Permutation_in. apply Permutation_sym, S_perm. exact Hy.
      - apply existsb_exists. exists VNull. split. exact Hv. reflexivity. }
    congruence.
  Qed.

  Lemma eval_page : forall cur, valid_cursor cur ->
    eval m rows (with_page q n cur) (cursor_params cur ++ ps) =
    Some (map (project m q) (firstn (Z.to_nat n) (match cur with None => S | Some c => filter (after c) S end))).
  Proof.
    intros cur Hv. unfold eval. cbn [with_page q_filters q_paging q_first q_skip].
    rewrite (fvals_some cur). cbn [operand_value option_map as_int].
    assert (Hcur : all_some (map (operand_value (cursor_params cur ++ ps))
                   (paging_values match cur with Some c => PAfter (map (fun j => OVar (cursor_name j)) (seq 0 (List.length c))) | None => PNone end))
                   = Some (match cur with Some c => c | None => [] end)).
    { destruct cur as [c|]. cbn [paging_values]. apply cursor_values. reflexivity. }
    rewrite Hcur.
    unfold take_first, drop_skip. cbn [Z.leb Z.compare].
    assert (Hnle : Z.leb n 0 = false) by (apply Z.leb_gt; exact Hn). rewrite Hnle.
    f_equal. 
    assert (Hproj : forall l, map (project m (with_page q n cur)) l = map (project m q) l) by reflexivity.
    rewrite Hproj. f_equal. f_equal.
    destruct cur as [c|].
    - (* a page after a cursor *)
      change (ordered m (with_page q n (Some c)) (matching m (with_page q n (Some c)) (filter_values q ps) c rows))
        with (isort (rcmp m q) (filter (fun r => passes r && after c r) rows)).
      rewrite filter_filter'. fold M. unfold S.
      apply isort_filter. apply rcmp_antisym. apply rcmp_eq_congr. apply rcmp_lt_trans. apply M_pairwise.
    - change (ordered m (with_page q n None) (matching m (with_page q n None) (filter_values q ps) [] rows))
        with (isort (rcmp m q) (filter (fun r => passes r && true) rows)).
      unfold S, M. f_equal. apply filter_ext. intros r. apply andb_true_r.
  Qed.

  (* ---------- the client's cursor ---------- *)
  Lemma find_pos_spec : forall A (p : A -> bool) l i k, find_pos p l i = Some k ->
    exists x, nth_error l (k - i) = Some x /\ p x = true /\ (i <= k)%nat.
  Proof.
    intros A p l. induction l as [|y t IH]; intros i k H; simpl in H. discriminate.
    destruct (p y) eqn:E.
    - injection H as <-. exists y. rewrite Nat.sub_diag. repeat split; auto.
    - destruct (IH _ _ H) as (x & Hx & Hp & Hle). exists x. repeat split; auto; try lia.
      replace (k - i)%nat with (Datatypes.S (k - Datatypes.S i)) by lia. exact Hx.
  Qed.

  Lemma nth_project : forall y p sf, nth_error (q_sel q) p = Some sf -> nth p (project m q y) VNull = field_value m y (sf_field sf).
  Proof.
    intros y p sf H. unfold project. apply nth_error_nth. rewrite nth_error_map, H. reflexivity.
  Qed.

  Lemma all_some_map_ext : forall A B (g : A -> option B) (h : A -> B) l,
    (forall x, In x l -> g x = Some (h x)) -> all_some (map g l) = Some (map h l).
  Proof.
    intros A B g h l. induction l as [|x t IH]; intros H. reflexivity.
    simpl. rewrite (H x (or_introl eq_refl)), IH. reflexivity. intros y Hy. apply H. right. exact Hy.
  Qed.

  Lemma cursor_of_project : forall y, In y S -> cursor_of q (project m q y) = Some (row_keys m q y).
  Proof.
    intros y Hy. unfold cursor_of, row_keys. apply all_some_map_ext. intros k Hk.
    pose proof wfp_parts as W. destruct W as (_ & _ & _ & _ & _ & _ & Hkp & _).
    assert (Hnn : ref_value m q y (ok_ref k) <> VNull).
    { pose proof (keys_nonnull y Hy) as Hf. rewrite Forall_forall in Hf. apply Hf. unfold row_keys. apply in_map_iff. exists k. split; auto. }
    assert (Hval : forall p, key_pos q k = Some p -> nth p (project m q y) VNull = ref_value m q y (ok_ref k)).
    { intros p Hp. unfold key_pos in Hp. unfold ref_value, ref_field. destruct (ok_ref k) as [i|j].
      - apply find_pos_spec in Hp. destruct Hp as (sf & Hsf & Hi & _). rewrite Nat.sub_0_r in Hsf.
        apply Nat.eqb_eq in Hi. rewrite (nth_project y p sf Hsf), Hi. reflexivity.
      - injection Hp as <-. destruct (nth_error (q_sel q) j) as [sf|] eqn:E.
        + rewrite (nth_project y j sf E). reflexivity.
        + simpl. apply nth_overflow. unfold project. rewrite map_length. apply nth_error_None. exact E. }
    destruct (key_pos q k) as [p|] eqn:Ep. 2: { exfalso. eapply Hkp; eauto. }
    rewrite (Hval p eq_refl). destruct (ref_value m q y (ok_ref k)); try reflexivity. congruence.
  Qed.

  Lemma valid_keys : forall y, In y S -> valid_cursor (Some (row_keys m q y)).
  Proof.
    intros y Hy. split. rewrite row_keys_length. unfold dirs. apply map_length. apply keys_nonnull. exact Hy.
  Qed.

  Lemma last_map : forall A B (f : A -> B) l d d', l <> [] -> last (map f l) d' = f (last l d).
  Proof.
    intros A B f l d d'. induction l as [|x t IH]; intros H. congruence.
    destruct t as [|y t]. reflexivity. change (last (map f (x :: y :: t)) d') with (last (map f (y :: t)) d').
    change (last (x :: y :: t) d) with (last (y :: t) d). apply IH. discriminate.
  Qed.

  (* after the keys of a member of the strictly sorted result come exactly the rows behind it *)
  Lemma after_suffix : forall P y T, S = P ++ y :: T -> filter (after (row_keys m q y)) S = T.
  Proof.
    intros P y T E. pose proof S_strict as Hs. rewrite E in Hs |- *.
    apply (strict_after (rcmp m q) (rcmp_antisym m q) P y T Hs).
  Qed.

  (* ---------- the loop ---------- *)
  Lemma pages_loop : forall fuel P T cur,
    S = P ++ T ->
    match cur with None => P = [] | Some c => exists P' y, P = P' ++ [y] /\ c = row_keys m q y end ->
    (List.length T < fuel)%nat ->
    exists pgs, pages (run_query m rows) q ps n fuel cur = (0, pgs) /\ List.concat pgs = map (project m q) T.
  Proof.
    induction fuel as [|fuel IH]; intros P T cur ES Hcur Hlen. lia.
    cbn [pages].
    assert (Hvc : valid_cursor cur).
    { destruct cur as [c|]; [|exact I]. destruct Hcur as (P' & y & -> & ->). apply valid_keys.
      rewrite ES. apply in_or_app. left. apply in_or_app. right. left. reflexivity. }
    rewrite (page_run cur Hvc), (eval_page cur Hvc).
    assert (HX : match cur with None => S | Some c => filter (after c) S end = T).
    { destruct cur as [c|]. destruct Hcur as (P' & y & -> & ->). apply (after_suffix P' y T). rewrite ES, <- app_assoc. reflexivity.
      subst P. exact ES. }
    rewrite HX.
    destruct (Z.to_nat n) as [|k] eqn:Ek. lia.
    destruct T as [|t0 T']. 
    - exists []. split; reflexivity.
    - set (L := firstn (Datatypes.S k) (t0 :: T')).
      assert (HL : L <> []) by (unfold L; simpl; discriminate).
      assert (Hmap : map (project m q) L = project m q t0 :: map (project m q) (firstn k T')) by reflexivity.
      rewrite Hmap. rewrite <- Hmap.
      rewrite (last_map _ _ (project m q) L t0 [] HL).
      assert (HinT : In (last L t0) (t0 :: T')).
      { apply (In_firstn _ (Datatypes.S k)). fold L. destruct (exists_last HL) as (L' & z & ->). rewrite last_last. apply in_or_app. right. left. reflexivity. }
      assert (HinS : In (last L t0) S) by (rewrite ES; apply in_or_app; right; exact HinT).
      rewrite (cursor_of_project _ HinS).
      destruct (IH (P ++ L) (skipn (Datatypes.S k) (t0 :: T')) (Some (row_keys m q (last L t0)))) as (pgs & Hp & Hc).
      + rewrite ES, <- app_assoc. f_equal. unfold L. symmetry. apply firstn_skipn.
      + destruct (exists_last HL) as (L' & z & EL). exists (P ++ L'), z. split. rewrite EL, app_assoc. reflexivity.
        rewrite EL, last_last. reflexivity.
      + rewrite skipn_length. simpl in Hlen |- *. lia.
      + rewrite Hp. exists (map (project m q) L :: pgs). split. 
        * destruct (map (project m q) L) eqn:EmL. { rewrite Hmap in EmL. discriminate. } reflexivity.
        * cbn [List.concat]. rewrite Hc, <- map_app. unfold L. rewrite firstn_skipn. reflexivity.
  Qed.

  Theorem pages_complete : forall fuel, (List.length rows < fuel)%nat ->
    exists pgs full, pages (run_query m rows) q ps n fuel None = (0, pgs) /\ eval m rows q ps = Some full /\ List.concat pgs = full.
  Proof.
    intros fuel Hf. destruct (pages_loop fuel [] S None) as (pgs & Hp & Hc). reflexivity. reflexivity.
    - eapply Nat.le_lt_trans; [|exact Hf]. rewrite <- (Permutation_length S_perm). unfold M.
      clear. induction rows as [|r t IH]; simpl. lia. destruct (passes r); simpl; lia.
    - exists pgs, (map (project m q) S). split. exact Hp. split. apply eval_full. exact Hc.
  Qed.
End Pages.
