(* C08P.v — proofs about the serving side of a connection (model/Outbound.v, interpreting the
   generated gen/OutboundTable.v) and the oracle of run/Run_C08.v. *)
From DV Require Import RightsP Run_C08.
Open Scope N_scope.

(* ------------------------------------------------------------------ the generated table *)
(* every request kind that can carry room data: guarded by allowed_room.contains(room), the guarded
   variable is the one handed to the data source, no success answer outside the guard, the data
   source restricts rows to that room; RoomList: served only to a proven, ready key, from
   rooms_for_peer(key, now) *)
Definition room_source (s : source) : bool :=
  match s with SSign | SFingerprint | SRoomsForPeer => false | _ => true end.
Definition is_guard (g1 g2 : guard) : bool :=
  match g1, g2 with GNone, GNone | GKeySelf, GKeySelf | GKeyReady, GKeyReady | GAllowedRoom, GAllowedRoom => true | _, _ => false end.
Definition arm_ok (k : qkind) : bool :=
  let a := arm_of k in
  if a_first_arg_is_room a
  then (* the request names a room: its data comes from a room source *)
    is_guard (a_guard a) GAllowedRoom && negb (a_unguarded_success a) && a_source_arg_is_guarded_room a &&
    a_refuses_otherwise a && room_source (a_source a) && source_room_filtered (a_source a) &&
    match a_inserts a with InsNone => true | _ => false end
  else
    match k with
    | QProveIdentity => match a_source a with SSign => true | _ => false end &&
                        match a_inserts a with InsNone => true | _ => false end
    | QHardwareFingerprint => match a_source a with SFingerprint => true | _ => false end &&
                              is_guard (a_guard a) GKeySelf && negb (a_unguarded_success a) &&
                              match a_inserts a with InsNone => true | _ => false end
    | QRoomList => match a_source a with SRoomsForPeer => true | _ => false end &&
                   is_guard (a_guard a) GKeyReady && negb (a_unguarded_success a) &&
                   a_source_arg_is_guarded_room a && source_room_filtered (a_source a)
    | _ => false      (* a request kind without a room argument that is not one of the three above: to be reviewed *)
    end.
Lemma all_kinds_complete : forall k, In k all_kinds.
Proof. intros k. destruct k; vm_compute; tauto. Qed.
Lemma all_arms_guarded :
  forallb arm_ok all_kinds = true /\
  allowed_write_sites_as_expected = true /\ event_insert_guarded_by_has_user = true.
Proof. vm_compute. repeat split. Qed.
Lemma arm_ok_all : forall k, arm_ok k = true.
Proof.
  intros k. destruct all_arms_guarded as [H _]. rewrite forallb_forall in H. apply H. apply all_kinds_complete.
Qed.

(* what the state machine needs from the table (all consequences of all_arms_guarded) *)
Lemma is_guard_eq : forall g1 g2, is_guard g1 g2 = true -> g1 = g2.
Proof. intros [] []; cbn; congruence. Qed.
Lemma room_arm_facts : forall k, a_first_arg_is_room (arm_of k) = true ->
  a_guard (arm_of k) = GAllowedRoom /\ a_unguarded_success (arm_of k) = false /\ source_room_filtered (a_source (arm_of k)) = true.
Proof.
  intros k Hr. pose proof (arm_ok_all k) as H. unfold arm_ok in H. rewrite Hr in H.
  apply andb_true_iff in H. destruct H as [H Hins]. apply andb_true_iff in H. destruct H as [H Hfilt].
  apply andb_true_iff in H. destruct H as [H Hrs]. apply andb_true_iff in H. destruct H as [H Href].
  apply andb_true_iff in H. destruct H as [H Harg]. apply andb_true_iff in H. destruct H as [Hg Hnu].
  apply is_guard_eq in Hg. apply negb_true_iff in Hnu. auto.
Qed.
Lemma rk_first_arg : forall k, a_first_arg_is_room (arm_of (rk_kind k)) = true.
Proof. intros k. destruct k; reflexivity. Qed.
Lemma room_kind_arm : forall k, let a := arm_of (rk_kind k) in
  a_guard a = GAllowedRoom /\ a_unguarded_success a = false.
Proof. intros k. destruct (room_arm_facts (rk_kind k) (rk_first_arg k)) as (A & B & _). split; assumption. Qed.
Lemma nodes_arm : a_guard (arm_of QNodes) = GAllowedRoom /\ a_unguarded_success (arm_of QNodes) = false /\ source_room_filtered (a_source (arm_of QNodes)) = true.
Proof. apply room_arm_facts. reflexivity. Qed.
Lemma edges_arm : a_guard (arm_of QEdges) = GAllowedRoom /\ a_unguarded_success (arm_of QEdges) = false /\ source_room_filtered (a_source (arm_of QEdges)) = true.
Proof. apply room_arm_facts. reflexivity. Qed.
Lemma roomlist_arm : a_guard (arm_of QRoomList) = GKeyReady /\ a_unguarded_success (arm_of QRoomList) = false.
Proof.
  pose proof (arm_ok_all QRoomList) as H. unfold arm_ok in H.
  change (a_first_arg_is_room (arm_of QRoomList)) with false in H. cbv iota in H.
  apply andb_true_iff in H. destruct H as [H Hfilt]. apply andb_true_iff in H. destruct H as [H Harg].
  apply andb_true_iff in H. destruct H as [H Hnu]. apply andb_true_iff in H. destruct H as [Hsrc Hg].
  apply is_guard_eq in Hg. apply negb_true_iff in Hnu. auto.
Qed.

(* ------------------------------------------------------------------ room.rs decides what the history says *)
Theorem Rep_valid evs r k d : Rep evs r -> is_user_valid_at r k d = member_spec evs k d.
Proof.
  intros HR. pose proof (Rep_is_admin evs r k d HR) as Ha.
  destruct HR as (Had & Hids & Hrep & Hsa & Hss & _). unfold is_user_valid_at, member_spec.
  rewrite Ha. f_equal. rewrite <- Hids, existsb_map. apply existsb_ext_in. intros a Hin.
  rewrite Forall_forall in Hrep, Hss. destruct (Hrep a Hin) as (R1 & R2 & _). destruct (Hss a Hin) as (S1 & S2 & _).
  unfold auth_user_valid, member_at. rewrite R1 in *. rewrite R2 in *.
  rewrite !enabled_at_in_force by assumption. rewrite user_entries_of, uadmin_entries_of. reflexivity.
Qed.
Theorem valid_spec r evs k d : is_user_valid_at (build r evs) k d = member_spec (accepted r evs) k d.
Proof. apply Rep_valid. apply build_Rep. Qed.

(* ------------------------------------------------------------------ small facts *)
Lemma memU_In : forall x l, memU x l = true <-> In x l.
Proof.
  intros x l. unfold memU. rewrite existsb_exists. split.
  - intros [y [Hy He]]. apply N.eqb_eq in He. subst. exact Hy.
  - intros H. exists x. split; [exact H | apply N.eqb_refl].
Qed.
Lemma nodupN_NoDup : forall l, nodupN l = true -> NoDup l.
Proof.
  induction l as [|x t IH]; intros H; [constructor|]. cbn [nodupN] in H. apply andb_true_iff in H. destruct H as [H1 H2].
  constructor; [|apply IH; exact H2]. intros Hin. apply memU_In in Hin. rewrite Hin in H1. discriminate.
Qed.
Lemma find_unique {A} (kf : A -> N) (l : list A) (x : A) :
  NoDup (map kf l) -> In x l -> find (fun y => N.eqb (kf y) (kf x)) l = Some x.
Proof.
  induction l as [|y t IH]; intros Hnd Hin; [destruct Hin|]. cbn [map] in Hnd. inversion Hnd as [|? ? Hny Hnt]; subst.
  cbn [find]. destruct Hin as [Hin|Hin].
  - subst. rewrite N.eqb_refl. reflexivity.
  - destruct (N.eqb (kf y) (kf x)) eqn:E.
    + apply N.eqb_eq in E. exfalso. apply Hny. rewrite E. apply in_map. exact Hin.
    + apply IH; assumption.
Qed.
Lemma def_of_in : forall defs d, NoDup (map fst defs) -> In d defs -> def_of defs (fst d) = Some (snd d).
Proof.
  intros defs d Hnd Hin. unfold def_of.
  match goal with |- context [find ?p ?l] =>
    assert (E : find p l = Some d) by (exact (find_unique (@fst N (list event)) defs d Hnd Hin)); rewrite E end.
  reflexivity.
Qed.
Lemma define_fst : forall defs r ev, map fst (define defs r ev) = map fst defs.
Proof.
  induction defs as [|d tl IH]; intros r ev; [reflexivity|]. cbn [define].
  destruct (N.eqb (fst d) r); cbn [map fst]; [reflexivity | rewrite IH; reflexivity].
Qed.

(* ------------------------------------------------------------------ invariant of a connection *)
Definition covers (gh : list (uid * bool)) (l : list uid) : Prop :=
  forall r, In r l -> find (fun x : uid * bool => N.eqb (fst x) r) gh <> None.
Record OI (s : ost) (bound : bool) (defs : list (uid * list event)) (gh : list (uid * bool)) : Prop := {
  oi_bound : o_bound s = bound;
  oi_defs : o_defs s = defs;
  oi_nd : NoDup (map fst defs);
  oi_unbound : bound = false -> o_allowed s = [];
  oi_cov : covers gh (o_allowed s) }.

Lemma find_app_some {A} (p : A -> bool) l1 l2 : find p l1 <> None -> find p (l1 ++ l2) <> None.
Proof.
  induction l1 as [|x t IH]; intros H; [exfalso; apply H; reflexivity|]. cbn [find app] in *.
  destruct (p x); [discriminate | apply IH; exact H].
Qed.
Lemma find_app_last {A} (p : A -> bool) l x : p x = true -> find p (l ++ [x]) <> None.
Proof.
  intros Hx. induction l as [|y t IH]; cbn [find app]; [rewrite Hx; discriminate|].
  destruct (p y); [discriminate | exact IH].
Qed.
Lemma tag_new_keeps : forall key defs now old new acc r,
  find (fun x : uid * bool => N.eqb (fst x) r) acc <> None ->
  find (fun x : uid * bool => N.eqb (fst x) r) (tag_new key defs now old new acc) <> None.
Proof.
  intros key defs now old. unfold tag_new. induction new as [|y new IH]; intros acc r H; cbn [fold_left]; [exact H|].
  apply IH. destruct (memU y old); [exact H | apply find_app_some; exact H].
Qed.
Lemma tag_new_covers : forall key defs now old new gh,
  covers gh old -> covers (tag_new key defs now old new gh) new /\ covers (tag_new key defs now old new gh) old.
Proof.
  intros key defs now old. unfold tag_new.
  induction new as [|x new IH]; intros gh Hc; cbn [fold_left].
  - split; [intros r [] | exact Hc].
  - set (gh1 := if memU x old then gh else gh ++ [(x, room_valid_now defs x key now)]).
    assert (Hc1 : covers gh1 old).
    { unfold gh1. destruct (memU x old); [exact Hc|]. intros r Hr. apply find_app_some. apply Hc. exact Hr. }
    assert (Hx : find (fun y : uid * bool => N.eqb (fst y) x) gh1 <> None).
    { unfold gh1. destruct (memU x old) eqn:E; [apply Hc; apply memU_In; exact E|]. apply find_app_last. cbn [fst]. apply N.eqb_refl. }
    destruct (IH gh1 Hc1) as [H1 H2]. split; [|exact H2].
    intros r [Hr|Hr]; [|apply H1; exact Hr]. subst r.
    exact (tag_new_keeps key defs now old new gh1 x Hx).
Qed.

Lemma addU_In : forall x l y, In y (addU x l) <-> y = x \/ In y l.
Proof.
  intros x l y. unfold addU. destruct (memU x l) eqn:E.
  - apply memU_In in E. split; [right; auto | intros [H|H]; subst; auto].
  - rewrite in_app_iff. cbn [In]. intuition congruence.
Qed.
Lemma fold_addU_In : forall l acc y, In y (fold_left (fun a r => addU r a) l acc) <-> In y l \/ In y acc.
Proof.
  induction l as [|x l IH]; intros acc y; cbn [fold_left]; [cbn [In]; tauto|].
  rewrite IH, addU_In. cbn [In]. intuition congruence.
Qed.

Definition no12 (l : list Z) : Prop := existsb (Z.eqb 1) l = false /\ existsb (Z.eqb 2) l = false.
Lemma no12_app : forall a b, no12 (a ++ b) -> no12 a /\ no12 b.
Proof.
  intros a b [H1 H2]. rewrite existsb_app in H1, H2. apply orb_false_iff in H1, H2. unfold no12. tauto.
Qed.
Lemma dedupZ_nil : forall l, dedupZ l = [] -> no12 l.
Proof.
  intros l H. unfold dedupZ in H. unfold no12.
  destruct (existsb (Z.eqb 1) l); [discriminate|]. destruct (existsb (Z.eqb 2) l); [discriminate|]. auto.
Qed.

(* a room that is in allowed_room and named by a request at a moment the history is outside the
   known classes: the key is valid in it now *)
Lemma allowed_valid : forall key s bound defs gh now q r,
  OI s bound defs gh -> no12 (stale_class key s gh (OQuery now q)) -> room_arg q = Some r -> In r (o_allowed s) ->
  bound = true /\ room_valid_now defs r key now = true.
Proof.
  intros key s bound defs gh now q r HI Hno Hq Hin.
  assert (Hb : bound = true).
  { destruct bound; [reflexivity|]. rewrite (oi_unbound _ _ _ _ HI eq_refl) in Hin. destruct Hin. }
  split; [exact Hb|]. cbn [stale_class] in Hno. rewrite Hq in Hno. rewrite (oi_bound _ _ _ _ HI), Hb, (oi_defs _ _ _ _ HI) in Hno. cbn [andb] in Hno.
  destruct (room_valid_now defs r key now); [reflexivity|]. cbn [negb] in Hno.
  pose proof (oi_cov _ _ _ _ HI r Hin) as Hc.
  Show. destruct (find (fun x : uid * bool => N.eqb (fst x) r) gh) as [[r0 [|]]|]; [| |congruence]; destruct Hno as [H1 H2]; cbn in H1, H2; first [discriminate H1 | discriminate H2].
Qed.
Lemma valid_member : forall defs r key now, room_valid_now defs r key now = true -> member_now defs r key now = true.
Proof.
  intros defs r key now H. unfold room_valid_now in H. unfold member_now.
  destruct (def_of defs r) as [evs|]; [|discriminate]. rewrite <- valid_spec. exact H.
Qed.

Lemma node_room_unique : forall (nodes : list nrow) n, NoDup (map n_id nodes) -> In n nodes -> node_room nodes (n_id n) = n_room n.
Proof. intros nodes n Hnd Hin. unfold node_room. rewrite (find_unique n_id nodes n Hnd Hin). reflexivity. Qed.
Lemma edge_room_unique : forall i e, NoDup (map e_id (i_edges i)) -> In e (i_edges i) -> edge_room i (e_id e) = node_room (i_nodes i) (e_src e).
Proof. intros i e Hnd Hin. unfold edge_room. rewrite (find_unique e_id (i_edges i) e Hnd Hin). reflexivity. Qed.
Lemma opt_is_some : forall o r, opt_is o r = true -> o = Some r.
Proof. intros [x|] r H; cbn in H; [apply N.eqb_eq in H; subst; reflexivity | discriminate]. Qed.

Definition item_ok (key : key) (bound : bool) (defs : list (uid * list event)) (now : Z) (ro : option uid) : bool :=
  match ro with Some r => bound && member_now defs r key now | None => false end.

(* one request: every item served belongs to a room the key is a member of now *)
Lemma query_ok : forall self key i s bound defs gh now q s' a,
  NoDup (map n_id (i_nodes i)) -> NoDup (map e_id (i_edges i)) ->
  OI s bound defs gh -> no12 (stale_class key s gh (OQuery now q)) ->
  do_query self key i s now q = (s', a) ->
  forallb (item_ok key bound defs now) (item_rooms i q (snd a)) = true.
Proof.
  intros self key i s bound defs gh now q s' a Hnn Hne HI Hno H.
  apply forallb_forall. intros ro Hro.
  destruct q as [| | |k r nonempty|r ids|r l]; cbn [item_rooms] in Hro; try (destruct Hro; fail).
  - (* RoomList *)
    unfold do_query in H. cbn [kind_of] in H. destruct roomlist_arm as [Hg Hu]. rewrite Hg in H. cbn [serve] in H.
    destruct (o_bound s && o_ready s) eqn:Eb; inversion H; subst; cbn [snd] in Hro; [|destruct Hro].
    apply in_map_iff in Hro. destruct Hro as (r & Hr & Hin). subst ro.
    unfold rooms_for_peer in Hin. apply in_map_iff in Hin. destruct Hin as (d & Hd & Hin). apply filter_In in Hin. destruct Hin as [Hin Hv].
    apply andb_true_iff in Eb. destruct Eb as [Eb _]. rewrite (oi_bound _ _ _ _ HI) in Eb. rewrite (oi_defs _ _ _ _ HI) in Hin.
    cbn [item_ok]. rewrite Eb. cbn [andb]. unfold member_now. subst r. rewrite (def_of_in defs d (oi_nd _ _ _ _ HI) Hin).
    rewrite <- valid_spec. exact Hv.
  - (* a room-keyed request *)
    unfold do_query in H. cbn [kind_of] in H. destruct (room_kind_arm k) as [Hg Hu]. cbv zeta in Hg, Hu. rewrite Hg, Hu in H.
    cbn [room_arg] in H. rewrite orb_false_r in H. cbn [serve] in H.
    destruct (memU r (o_allowed s)) eqn:Em.
    + inversion H; subst. cbn [snd] in Hro. destruct nonempty; [|destruct Hro]. destruct Hro as [Hro|[]]. subst ro.
      destruct (allowed_valid key s bound defs gh now (QryRoom k r true) r HI Hno eq_refl (proj1 (memU_In _ _) Em)) as [Hb Hv].
      cbn [item_ok]. rewrite Hb, (valid_member _ _ _ _ Hv). reflexivity.
    + destruct (a_refuses_otherwise (arm_of (rk_kind k))); inversion H; subst; destruct Hro.
  - (* Nodes *)
    unfold do_query in H. cbn [kind_of] in H. destruct nodes_arm as (Hg & Hu & Hs). rewrite Hg, Hu in H.
    cbn [room_arg] in H. rewrite orb_false_r in H.
    destruct (memU r (o_allowed s)) eqn:Em; [|destruct (a_refuses_otherwise (arm_of QNodes)); inversion H; subst; destruct Hro].
    cbn [serve kind_of] in H. rewrite Hs in H. inversion H; subst. cbn [snd] in Hro.
    destruct (allowed_valid key s bound defs gh now (QryNodes r ids) r HI Hno eq_refl (proj1 (memU_In _ _) Em)) as [Hb Hv].
    apply in_map_iff in Hro. destruct Hro as (id & Hid & Hin). apply in_map_iff in Hin. destruct Hin as (n & Hn & Hin). subst id ro.
    apply filter_In in Hin. destruct Hin as [Hin Hf]. apply andb_true_iff in Hf. destruct Hf as [_ Hf].
    rewrite (node_room_unique _ n Hnn Hin). apply opt_is_some in Hf. rewrite Hf.
    cbn [item_ok]. rewrite Hb, (valid_member _ _ _ _ Hv). reflexivity.
  - (* Edges *)
    unfold do_query in H. cbn [kind_of] in H. destruct edges_arm as (Hg & Hu & Hs). rewrite Hg, Hu in H.
    cbn [room_arg] in H. rewrite orb_false_r in H.
    destruct (memU r (o_allowed s)) eqn:Em; [|destruct (a_refuses_otherwise (arm_of QEdges)); inversion H; subst; destruct Hro].
    cbn [serve kind_of] in H. rewrite Hs in H. inversion H; subst. cbn [snd] in Hro.
    destruct (allowed_valid key s bound defs gh now (QryEdges r l) r HI Hno eq_refl (proj1 (memU_In _ _) Em)) as [Hb Hv].
    apply in_map_iff in Hro. destruct Hro as (id & Hid & Hin). apply in_map_iff in Hin. destruct Hin as (e & He & Hin). subst id ro.
    apply filter_In in Hin. destruct Hin as [Hin Hf]. apply andb_true_iff in Hf. destruct Hf as [_ Hf].
    rewrite (edge_room_unique _ e Hne Hin). apply opt_is_some in Hf. rewrite Hf.
    cbn [item_ok]. rewrite Hb, (valid_member _ _ _ _ Hv). reflexivity.
Qed.
