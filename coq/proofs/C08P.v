(* C08P.v — proofs about the serving side of a connection (model/Outbound.v, interpreting the
   generated gen/OutboundTable.v) and the oracle of run/Run_C08.v. *)
From DV Require Import RightsP Run_C08.
Open Scope N_scope.

(* ------------------------------------------------------------------ the generated table *)
(* every request kind that can carry room data: guarded by allowed_room.contains(room), the guarded
   variable is the one handed to the data source, no success answer outside the guard, the data
   source restricts rows to that room; RoomList: served only to a proven, ready key, from
   rooms_for_peer(key, now) *)
Definition room_source (s : source) : bool :=
  match s with SSign | SFingerprint | SRoomsForPeer => false | _ => true end.
Definition is_guard (g1 g2 : guard) : bool :=
  match g1, g2 with GNone, GNone | GKeySelf, GKeySelf | GKeyReady, GKeyReady | GAllowedRoom, GAllowedRoom => true | _, _ => false end.
Definition arm_ok (k : qkind) : bool :=
  let a := arm_of k in
  if a_first_arg_is_room a
  then (* the request names a room: its data comes from a room source *)
    is_guard (a_guard a) GAllowedRoom && negb (a_unguarded_success a) && a_source_arg_is_guarded_room a &&
    a_refuses_otherwise a && room_source (a_source a) && source_room_filtered (a_source a) &&
    match a_inserts a with InsNone => true | _ => false end
  else
    match k with
    | QProveIdentity => match a_source a with SSign => true | _ => false end &&
                        match a_inserts a with InsNone => true | _ => false end
    | QHardwareFingerprint => match a_source a with SFingerprint => true | _ => false end &&
                              is_guard (a_guard a) GKeySelf && negb (a_unguarded_success a) &&
                              match a_inserts a with InsNone => true | _ => false end
    | QRoomList => match a_source a with SRoomsForPeer => true | _ => false end &&
                   is_guard (a_guard a) GKeyReady && negb (a_unguarded_success a) &&
                   a_source_arg_is_guarded_room a && source_room_filtered (a_source a)
    | _ => false      (* a request kind without a room argument that is not one of the three above: to be reviewed *)
    end.
Lemma all_kinds_complete : forall k, In k all_kinds.
Proof. intros k. destruct k; vm_compute; tauto. Qed.
Lemma all_arms_guarded :
  forallb arm_ok all_kinds = true /\
  allowed_write_sites_as_expected = true /\ event_insert_guarded_by_has_user = true.
Proof. vm_compute. repeat split. Qed.
Lemma arm_ok_all : forall k, arm_ok k = true.
Proof.
  intros k. destruct all_arms_guarded as [H _]. rewrite forallb_forall in H. apply H. apply all_kinds_complete.
Qed.

(* what the state machine needs from the table (all consequences of all_arms_guarded) *)
Lemma is_guard_eq : forall g1 g2, is_guard g1 g2 = true -> g1 = g2.
Proof. intros [] []; cbn; congruence. Qed.
Lemma room_arm_facts : forall k, a_first_arg_is_room (arm_of k) = true ->
  a_guard (arm_of k) = GAllowedRoom /\ a_unguarded_success (arm_of k) = false /\ source_room_filtered (a_source (arm_of k)) = true.
Proof.
  intros k Hr. pose proof (arm_ok_all k) as H. unfold arm_ok in H. rewrite Hr in H.
  apply andb_true_iff in H. destruct H as [H Hins]. apply andb_true_iff in H. destruct H as [H Hfilt].
  apply andb_true_iff in H. destruct H as [H Hrs]. apply andb_true_iff in H. destruct H as [H Href].
  apply andb_true_iff in H. destruct H as [H Harg]. apply andb_true_iff in H. destruct H as [Hg Hnu].
  apply is_guard_eq in Hg. apply negb_true_iff in Hnu. auto.
Qed.
Lemma rk_first_arg : forall k, a_first_arg_is_room (arm_of (rk_kind k)) = true.
Proof. intros k. destruct k; reflexivity. Qed.
Lemma room_kind_arm : forall k, let a := arm_of (rk_kind k) in
  a_guard a = GAllowedRoom /\ a_unguarded_success a = false.
Proof. intros k. destruct (room_arm_facts (rk_kind k) (rk_first_arg k)) as (A & B & _). split; assumption. Qed.
Lemma nodes_arm : a_guard (arm_of QNodes) = GAllowedRoom /\ a_unguarded_success (arm_of QNodes) = false /\ source_room_filtered (a_source (arm_of QNodes)) = true.
Proof. apply room_arm_facts. reflexivity. Qed.
Lemma edges_arm : a_guard (arm_of QEdges) = GAllowedRoom /\ a_unguarded_success (arm_of QEdges) = false /\ source_room_filtered (a_source (arm_of QEdges)) = true.
Proof. apply room_arm_facts. reflexivity. Qed.
Lemma roomlist_arm : a_guard (arm_of QRoomList) = GKeyReady /\ a_unguarded_success (arm_of QRoomList) = false.
Proof.
  pose proof (arm_ok_all QRoomList) as H. unfold arm_ok in H.
  change (a_first_arg_is_room (arm_of QRoomList)) with false in H. cbv iota in H.
  apply andb_true_iff in H. destruct H as [H Hfilt]. apply andb_true_iff in H. destruct H as [H Harg].
  apply andb_true_iff in H. destruct H as [H Hnu]. apply andb_true_iff in H. destruct H as [Hsrc Hg].
  apply is_guard_eq in Hg. apply negb_true_iff in Hnu. auto.
Qed.

(* ------------------------------------------------------------------ room.rs decides what the history says *)
Theorem Rep_valid evs r k d : Rep evs r -> is_user_valid_at r k d = member_spec evs k d.
Proof.
  intros HR. pose proof (Rep_is_admin evs r k d HR) as Ha.
  destruct HR as (Had & Hids & Hrep & Hsa & Hss & _). unfold is_user_valid_at, member_spec.
  rewrite Ha. f_equal. rewrite <- Hids, existsb_map. apply existsb_ext_in. intros a Hin.
  rewrite Forall_forall in Hrep, Hss. destruct (Hrep a Hin) as (R1 & R2 & _). destruct (Hss a Hin) as (S1 & S2 & _).
  unfold auth_user_valid, member_at. rewrite R1 in *. rewrite R2 in *.
  rewrite !enabled_at_in_force by assumption. rewrite user_entries_of, uadmin_entries_of. reflexivity.
Qed.
Theorem valid_spec r evs k d : is_user_valid_at (build r evs) k d = member_spec (accepted r evs) k d.
Proof. apply Rep_valid. apply build_Rep. Qed.

(* ------------------------------------------------------------------ small facts *)
Lemma memU_In : forall x l, memU x l = true <-> In x l.
Proof.
  intros x l. unfold memU. rewrite existsb_exists. split.
  - intros [y [Hy He]]. apply N.eqb_eq in He. subst. exact Hy.
  - intros H. exists x. split; [exact H | apply N.eqb_refl].
Qed.
Lemma nodupN_NoDup : forall l, nodupN l = true -> NoDup l.
Proof.
  induction l as [|x t IH]; intros H; [constructor|]. cbn [nodupN] in H. apply andb_true_iff in H. destruct H as [H1 H2].
  constructor; [|apply IH; exact H2]. intros Hin. apply memU_In in Hin. rewrite Hin in H1. discriminate.
Qed.
Lemma find_unique {A} (kf : A -> N) (l : list A) (x : A) :
  NoDup (map kf l) -> In x l -> find (fun y => N.eqb (kf y) (kf x)) l = Some x.
Proof.
  induction l as [|y t IH]; intros Hnd Hin; [destruct Hin|]. cbn [map] in Hnd. inversion Hnd as [|? ? Hny Hnt]; subst.
  cbn [find]. destruct Hin as [Hin|Hin].
  - subst. rewrite N.eqb_refl. reflexivity.
  - destruct (N.eqb (kf y) (kf x)) eqn:E.
    + apply N.eqb_eq in E. exfalso. apply Hny. rewrite E. apply in_map. exact Hin.
    + apply IH; assumption.
Qed.
Lemma def_of_in : forall defs d, NoDup (map fst defs) -> In d defs -> def_of defs (fst d) = Some (snd d).
Proof.
  intros defs d Hnd Hin. unfold def_of.
  match goal with |- context [find ?p ?l] =>
    assert (E : find p l = Some d) by (exact (find_unique (@fst N (list event)) defs d Hnd Hin)); rewrite E end.
  reflexivity.
Qed.
Lemma define_fst : forall defs r ev, map fst (define defs r ev) = map fst defs.
Proof.
  induction defs as [|d tl IH]; intros r ev; [reflexivity|]. cbn [define].
  destruct (N.eqb (fst d) r); cbn [map fst]; [reflexivity | rewrite IH; reflexivity].
Qed.

(* ------------------------------------------------------------------ invariant of a connection *)
Definition covers (gh : list (uid * bool)) (l : list uid) : Prop :=
  forall r, In r l -> find (fun x : uid * bool => N.eqb (fst x) r) gh <> None.
Record OI (s : ost) (bound : bool) (defs : list (uid * list event)) (gh : list (uid * bool)) : Prop := {
  oi_bound : o_bound s = bound;
  oi_defs : o_defs s = defs;
  oi_nd : NoDup (map fst defs);
  oi_unbound : bound = false -> o_allowed s = [];
  oi_cov : covers gh (o_allowed s) }.

Lemma find_app_some {A} (p : A -> bool) l1 l2 : find p l1 <> None -> find p (l1 ++ l2) <> None.
Proof.
  induction l1 as [|x t IH]; intros H; [exfalso; apply H; reflexivity|]. cbn [find app] in *.
  destruct (p x); [discriminate | apply IH; exact H].
Qed.
Lemma find_app_last {A} (p : A -> bool) l x : p x = true -> find p (l ++ [x]) <> None.
Proof.
  intros Hx. induction l as [|y t IH]; cbn [find app]; [rewrite Hx; discriminate|].
  destruct (p y); [discriminate | exact IH].
Qed.
Lemma tag_new_keeps : forall key defs now old new acc r,
  find (fun x : uid * bool => N.eqb (fst x) r) acc <> None ->
  find (fun x : uid * bool => N.eqb (fst x) r) (tag_new key defs now old new acc) <> None.
Proof.
  intros key defs now old. unfold tag_new. induction new as [|y new IH]; intros acc r H; cbn [fold_left]; [exact H|].
  apply IH. destruct (memU y old); [exact H | apply find_app_some; exact H].
Qed.
Lemma tag_new_covers : forall key defs now old new gh,
  covers gh old -> covers (tag_new key defs now old new gh) new /\ covers (tag_new key defs now old new gh) old.
Proof.
  intros key defs now old. unfold tag_new.
  induction new as [|x new IH]; intros gh Hc; cbn [fold_left].
  - split; [intros r [] | exact Hc].
  - set (gh1 := if memU x old then gh else gh ++ [(x, room_valid_now defs x key now)]).
    assert (Hc1 : covers gh1 old).
    { unfold gh1. destruct (memU x old); [exact Hc|]. intros r Hr. apply find_app_some. apply Hc. exact Hr. }
    assert (Hx : find (fun y : uid * bool => N.eqb (fst y) x) gh1 <> None).
    { unfold gh1. destruct (memU x old) eqn:E; [apply Hc; apply memU_In; exact E|]. apply find_app_last. cbn [fst]. apply N.eqb_refl. }
    destruct (IH gh1 Hc1) as [H1 H2]. split; [|exact H2].
    intros r [Hr|Hr]; [|apply H1; exact Hr]. subst r.
    exact (tag_new_keeps key defs now old new gh1 x Hx).
Qed.

Lemma addU_In : forall x l y, In y (addU x l) <-> y = x \/ In y l.
Proof.
  intros x l y. unfold addU. destruct (memU x l) eqn:E.
  - apply memU_In in E. split; [right; auto | intros [H|H]; subst; auto].
  - rewrite in_app_iff. cbn [In]. intuition congruence.
Qed.
Lemma fold_addU_In : forall l acc y, In y (fold_left (fun a r => addU r a) l acc) <-> In y l \/ In y acc.
Proof.
  induction l as [|x l IH]; intros acc y; cbn [fold_left]; [cbn [In]; tauto|].
  rewrite IH, addU_In. cbn [In]. intuition congruence.
Qed.

Definition no12 (l : list Z) : Prop := existsb (Z.eqb 1) l = false /\ existsb (Z.eqb 2) l = false.
Lemma no12_app : forall a b, no12 (a ++ b) -> no12 a /\ no12 b.
Proof.
  intros a b [H1 H2]. rewrite existsb_app in H1, H2. apply orb_false_iff in H1, H2. unfold no12. tauto.
Qed.
Lemma dedupZ_nil : forall l, dedupZ l = [] -> no12 l.
Proof.
  intros l H. unfold dedupZ in H. unfold no12.
  destruct (existsb (Z.eqb 1) l); [discriminate|]. destruct (existsb (Z.eqb 2) l); [discriminate|]. auto.
Qed.

(* a room that is in allowed_room and named by a request at a moment the history is outside the
   known classes: the key is valid in it now *)
Lemma allowed_valid : forall key s bound defs gh now q r,
  OI s bound defs gh -> no12 (stale_class key s gh (OQuery now q)) -> room_arg q = Some r -> In r (o_allowed s) ->
  bound = true /\ room_valid_now defs r key now = true.
Proof.
  intros key s bound defs gh now q r HI Hno Hq Hin.
  assert (Hb : bound = true).
  { destruct bound; [reflexivity|]. rewrite (oi_unbound _ _ _ _ HI eq_refl) in Hin. destruct Hin. }
  split; [exact Hb|]. cbn [stale_class] in Hno. rewrite Hq in Hno. rewrite (oi_bound _ _ _ _ HI), Hb, (oi_defs _ _ _ _ HI) in Hno. cbn [andb] in Hno.
  destruct (room_valid_now defs r key now); [reflexivity|]. cbn [negb] in Hno.
  pose proof (oi_cov _ _ _ _ HI r Hin) as Hc.
  match type of Hno with no12 (match ?f with _ => _ end) => destruct f as [[r0 [|]]|] eqn:Ef end.
  - destruct Hno as [H1 _]. cbn in H1. discriminate H1.
  - destruct Hno as [_ H2]. cbn in H2. discriminate H2.
  - exfalso. apply Hc. exact Ef.
Qed.
Lemma valid_member : forall defs r key now, room_valid_now defs r key now = true -> member_now defs r key now = true.
Proof.
  intros defs r key now H. unfold room_valid_now in H. unfold member_now.
  destruct (def_of defs r) as [evs|]; [|discriminate]. rewrite <- valid_spec. exact H.
Qed.

Lemma node_room_unique : forall (nodes : list nrow) n, NoDup (map n_id nodes) -> In n nodes -> node_room nodes (n_id n) = n_room n.
Proof. intros nodes n Hnd Hin. unfold node_room. rewrite (find_unique n_id nodes n Hnd Hin). reflexivity. Qed.
Lemma edge_room_unique : forall i e, NoDup (map e_id (i_edges i)) -> In e (i_edges i) -> edge_room i (e_id e) = node_room (i_nodes i) (e_src e).
Proof. intros i e Hnd Hin. unfold edge_room. rewrite (find_unique e_id (i_edges i) e Hnd Hin). reflexivity. Qed.
Lemma opt_is_some : forall o r, opt_is o r = true -> o = Some r.
Proof. intros [x|] r H; cbn in H; [apply N.eqb_eq in H; subst; reflexivity | discriminate]. Qed.

Definition item_ok (key : key) (bound : bool) (defs : list (uid * list event)) (now : Z) (ro : option uid) : bool :=
  match ro with Some r => bound && member_now defs r key now | None => false end.

(* one request: every item served belongs to a room the key is a member of now *)
Lemma query_ok : forall self key i s bound defs gh now q s' a,
  NoDup (map n_id (i_nodes i)) -> NoDup (map e_id (i_edges i)) ->
  OI s bound defs gh -> no12 (stale_class key s gh (OQuery now q)) ->
  do_query self key i s now q = (s', a) ->
  forallb (item_ok key bound defs now) (item_rooms i q (snd a)) = true.
Proof.
  intros self key i s bound defs gh now q s' a Hnn Hne HI Hno H.
  apply forallb_forall. intros ro Hro.
  destruct q as [| | |k r nonempty|r ids|r l]; cbn [item_rooms] in Hro; try (destruct Hro; fail).
  - (* RoomList *)
    unfold do_query in H. cbn [kind_of] in H. destruct roomlist_arm as [Hg Hu]. rewrite Hg in H. cbn [serve] in H.
    destruct (o_bound s && o_ready s) eqn:Eb; inversion H; subst; cbn [snd] in Hro; [|destruct Hro].
    apply in_map_iff in Hro. destruct Hro as (r & Hr & Hin). subst ro.
    unfold rooms_for_peer in Hin. apply in_map_iff in Hin. destruct Hin as (d & Hd & Hin). apply filter_In in Hin. destruct Hin as [Hin Hv].
    apply andb_true_iff in Eb. destruct Eb as [Eb _]. rewrite (oi_bound _ _ _ _ HI) in Eb. rewrite (oi_defs _ _ _ _ HI) in Hin.
    cbn [item_ok]. rewrite Eb. cbn [andb]. unfold member_now. subst r. rewrite (def_of_in defs d (oi_nd _ _ _ _ HI) Hin).
    rewrite <- valid_spec. exact Hv.
  - (* a room-keyed request *)
    unfold do_query in H. cbn [kind_of] in H. destruct (room_kind_arm k) as [Hg Hu]. cbv zeta in Hg, Hu. rewrite Hg, Hu in H.
    cbn [room_arg] in H. rewrite orb_false_r in H. cbn [serve] in H.
    destruct (memU r (o_allowed s)) eqn:Em.
    + inversion H; subst. cbn [snd] in Hro. destruct nonempty; [|destruct Hro]. destruct Hro as [Hro|[]]. subst ro.
      destruct (allowed_valid key s bound defs gh now (QryRoom k r true) r HI Hno eq_refl (proj1 (memU_In _ _) Em)) as [Hb Hv].
      cbn [item_ok]. rewrite Hb, (valid_member _ _ _ _ Hv). reflexivity.
    + destruct (a_refuses_otherwise (arm_of (rk_kind k))); inversion H; subst; destruct Hro.
  - (* Nodes *)
    unfold do_query in H. cbn [kind_of] in H. destruct nodes_arm as (Hg & Hu & Hs). rewrite Hg, Hu in H.
    cbn [room_arg] in H. rewrite orb_false_r in H.
    destruct (memU r (o_allowed s)) eqn:Em; [|destruct (a_refuses_otherwise (arm_of QNodes)); inversion H; subst; destruct Hro].
    cbn [serve kind_of] in H. rewrite Hs in H. inversion H; subst. cbn [snd] in Hro.
    destruct (allowed_valid key s bound defs gh now (QryNodes r ids) r HI Hno eq_refl (proj1 (memU_In _ _) Em)) as [Hb Hv].
    apply in_map_iff in Hro. destruct Hro as (id & Hid & Hin). apply in_map_iff in Hin. destruct Hin as (n & Hn & Hin). subst id ro.
    apply filter_In in Hin. destruct Hin as [Hin Hf]. apply andb_true_iff in Hf. destruct Hf as [_ Hf].
    rewrite (node_room_unique _ n Hnn Hin). apply opt_is_some in Hf. rewrite Hf.
    cbn [item_ok]. rewrite Hb, (valid_member _ _ _ _ Hv). reflexivity.
  - (* Edges *)
    unfold do_query in H. cbn [kind_of] in H. destruct edges_arm as (Hg & Hu & Hs). rewrite Hg, Hu in H.
    cbn [room_arg] in H. rewrite orb_false_r in H.
    destruct (memU r (o_allowed s)) eqn:Em; [|destruct (a_refuses_otherwise (arm_of QEdges)); inversion H; subst; destruct Hro].
    cbn [serve kind_of] in H. rewrite Hs in H. inversion H; subst. cbn [snd] in Hro.
    destruct (allowed_valid key s bound defs gh now (QryEdges r l) r HI Hno eq_refl (proj1 (memU_In _ _) Em)) as [Hb Hv].
    apply in_map_iff in Hro. destruct Hro as (id & Hid & Hin). apply in_map_iff in Hin. destruct Hin as (e & He & Hin). subst id ro.
    apply filter_In in Hin. destruct Hin as [Hin Hf]. apply andb_true_iff in Hf. destruct Hf as [_ Hf].
    rewrite (edge_room_unique _ e Hne Hin). apply opt_is_some in Hf. rewrite Hf.
    cbn [item_ok]. rewrite Hb, (valid_member _ _ _ _ Hv). reflexivity.
Qed.

(* ------------------------------------------------------------------ steps keep the invariant *)
Lemma do_query_frame : forall self key i s now q s' a, do_query self key i s now q = (s', a) ->
  o_bound s' = o_bound s /\ o_defs s' = o_defs s /\ (o_allowed s' = o_allowed s \/ o_bound s = true).
Proof.
  intros self key i s now q s' a H. unfold do_query in H.
  assert (Hserve : forall ans al, serve self key i s now q = (ans, al) -> al = o_allowed s \/ q = QryRoomList).
  { intros ans al Hs. destruct q; cbn [serve] in Hs; inversion Hs; auto. }
  destruct (serve self key i s now q) as [ans al] eqn:Es.
  destruct (a_guard (arm_of (kind_of q))) eqn:Eg.
  - inversion H; subst. cbn [set_allowed o_bound o_defs o_allowed]. repeat split.
    destruct (Hserve _ _ eq_refl) as [Hal|Hq]; [left; exact Hal|]. subst q. cbn [kind_of] in Eg. destruct roomlist_arm as [Hg _]. congruence.
  - destruct (o_bound s) eqn:Eb.
    + destruct (N.eqb key self); inversion H; subst; cbn [set_allowed o_bound o_defs o_allowed]; auto.
    + inversion H; subst. auto.
  - destruct (o_bound s) eqn:Eb; cbn [andb] in H.
    + destruct (o_ready s); inversion H; subst; cbn [set_allowed o_bound o_defs o_allowed]; auto.
    + inversion H; subst. auto.
  - destruct ((match room_arg q with Some r => memU r (o_allowed s) | None => false end) || a_unguarded_success (arm_of (kind_of q))).
    + inversion H; subst. cbn [set_allowed o_bound o_defs o_allowed]. repeat split.
      destruct (Hserve _ _ eq_refl) as [Hal|Hq]; [left; exact Hal|]. subst q. cbn [kind_of] in Eg. destruct roomlist_arm as [Hg _]. congruence.
    + destruct (a_refuses_otherwise (arm_of (kind_of q))); inversion H; subst; auto.
Qed.

Definition next_bound (bound : bool) (e : oev) : bool := match e with OBind => true | _ => bound end.
Definition next_defs (defs : list (uid * list event)) (e : oev) : list (uid * list event) :=
  match e with ODefine r ev => define defs r ev | _ => defs end.

Lemma ostep_OI : forall self key i s bound defs gh e s' a,
  OI s bound defs gh -> ostep self key i s e = (s', a) ->
  OI s' (next_bound bound e) (next_defs defs e) (tag_new key (o_defs s) (ev_time e) (o_allowed s) (o_allowed s') gh).
Proof.
  intros self key i s bound defs gh e s' a HI H.
  destruct HI as [Hb Hd Hnd Hub Hcov].
  assert (Hcov' : covers (tag_new key (o_defs s) (ev_time e) (o_allowed s) (o_allowed s') gh) (o_allowed s'))
    by (apply tag_new_covers; exact Hcov).
  destruct e as [|b|r ev|now r|now q]; cbn [ostep next_bound next_defs] in *.
  - inversion H; subst. constructor; cbn [o_bound o_defs o_allowed] in *; auto. discriminate.
  - inversion H; subst. constructor; cbn [o_bound o_defs o_allowed] in *; auto.
  - inversion H; subst. constructor; cbn [o_bound o_defs o_allowed] in *; auto. rewrite define_fst. exact Hnd.
  - destruct (o_bound s && room_has_user (o_defs s) r key) eqn:E; inversion H; subst; constructor; cbn [set_allowed o_bound o_defs o_allowed] in *; auto.
    intros Hf. rewrite Hf in E. discriminate.
  - destruct (do_query_frame _ _ _ _ _ _ _ _ H) as (F1 & F2 & F3). constructor; auto; try congruence.
    intros Hf. destruct F3 as [F3|F3]; [rewrite F3; apply Hub; exact Hf | congruence].
Qed.

(* ------------------------------------------------------------------ a whole connection *)
Theorem session_ok : forall es self key i s bound defs gh,
  NoDup (map n_id (i_nodes i)) -> NoDup (map e_id (i_edges i)) ->
  OI s bound defs gh -> no12 (known_from self key i s gh es) ->
  spec_from key i bound defs es (orun self key i s es) = true.
Proof.
  induction es as [|e tl IH]; intros self key i s bound defs gh Hnn Hne HI Hno; [reflexivity|].
  cbn [orun known_from] in *. destruct (ostep self key i s e) as [s' a] eqn:Es. cbn [fst] in Hno.
  apply no12_app in Hno. destruct Hno as [Hno1 Hno2].
  pose proof (ostep_OI _ _ _ _ _ _ _ _ _ _ HI Es) as HI'.
  specialize (IH self key i s' _ _ _ Hnn Hne HI' Hno2).
  cbn [spec_from]. destruct e as [|b|r ev|now r|now q]; cbn [next_bound next_defs] in IH; try exact IH.
  apply andb_true_iff. split; [|exact IH].
  cbn [ostep] in Es. exact (query_ok self key i s bound defs gh now q s' a Hnn Hne HI Hno1 Es).
Qed.

Lemma take_n_enc : forall items rest, take_n (length items) (map zn items ++ rest) = Some (items, rest).
Proof.
  induction items as [|x t IH]; intros rest; [reflexivity|]. cbn [length map app take_n]. rewrite IH. unfold zn. rewrite N2Z.id. reflexivity.
Qed.
Lemma decode_encode : forall al, decode (length al) (encode al) = Some al.
Proof.
  induction al as [|[code items] al IH]; [reflexivity|].
  unfold encode in *. cbn [length flat_map enc_ans fst snd app decode]. rewrite Nat2Z.id, take_n_enc, IH. reflexivity.
Qed.
Lemma orun_length : forall es self key i s, length (orun self key i s es) = length es.
Proof.
  induction es as [|e tl IH]; intros; [reflexivity|]. cbn [orun]. destruct (ostep self key i s e). cbn [length]. rewrite IH. reflexivity.
Qed.

Lemma OI_init : forall i, NoDup (map fst (i_defs i)) -> OI (oinit i) false (i_defs i) [].
Proof. intros i H. constructor; cbn; auto. intros r []. Qed.

Theorem outside_known : forall c, wf_case c = true -> known_C08 c = [] -> spec_C08 c (run_C08 c) = true.
Proof.
  intros [self key i es] Hwf Hk. unfold wf_case in Hwf. apply andb_true_iff in Hwf. destruct Hwf as [Hwf Hd]. apply andb_true_iff in Hwf. destruct Hwf as [Hn He].
  unfold spec_C08, run_C08, run_answers. rewrite <- (orun_length es self key i (oinit i)), decode_encode.
  unfold known_C08 in Hk. apply dedupZ_nil in Hk.
  apply (session_ok es self key i (oinit i) false (i_defs i) []); auto using nodupN_NoDup, OI_init.
Qed.

(* ------------------------------------------------------------------ before a key is proven: nothing *)
Theorem preauth_nothing : forall es self key i s,
  o_bound s = false -> o_allowed s = [] -> ~ In OBind es ->
  forall a, In a (orun self key i s es) -> snd a = [].
Proof.
  induction es as [|e tl IH]; intros self key i s Hb Hal Hnb a Ha; [destruct Ha|].
  cbn [orun] in Ha. destruct (ostep self key i s e) as [s' a0] eqn:Es.
  assert (Hstep : snd a0 = [] /\ o_bound s' = false /\ o_allowed s' = []).
  { destruct e as [|b|r ev|now r|now q]; cbn [ostep] in Es.
    - exfalso. apply Hnb. left. reflexivity.
    - inversion Es; subst. auto.
    - inversion Es; subst. auto.
    - rewrite Hb in Es. cbn [andb] in Es. inversion Es; subst. auto.
    - destruct (do_query_frame _ _ _ _ _ _ _ _ Es) as (F1 & _ & F3).
      assert (Hal' : o_allowed s' = []) by (destruct F3 as [F3|F3]; [rewrite F3; exact Hal | congruence]).
      split; [|split; [congruence | exact Hal']].
      unfold do_query in Es. destruct q as [| | |k r ne|r ids|r l]; cbn [kind_of] in Es.
      + destruct (a_guard (arm_of QProveIdentity)); cbn [serve] in Es; rewrite ?Hb in Es; cbn [andb room_arg orb] in Es;
          repeat match type of Es with context [if ?c then _ else _] => destruct c end; inversion Es; reflexivity.
      + destruct (a_guard (arm_of QHardwareFingerprint)); cbn [serve] in Es; rewrite ?Hb in Es; cbn [andb room_arg orb] in Es;
          repeat match type of Es with context [if ?c then _ else _] => destruct c end; inversion Es; reflexivity.
      + destruct roomlist_arm as [Hg _]. rewrite Hg, Hb in Es. cbn [andb] in Es. inversion Es; reflexivity.
      + destruct (room_kind_arm k) as [Hg Hu]. cbv zeta in Hg, Hu. rewrite Hg, Hu, Hal in Es. cbn [room_arg memU existsb orb] in Es.
        destruct (a_refuses_otherwise (arm_of (rk_kind k))); inversion Es; reflexivity.
      + destruct nodes_arm as (Hg & Hu & _). rewrite Hg, Hu, Hal in Es. cbn [room_arg memU existsb orb] in Es.
        destruct (a_refuses_otherwise (arm_of QNodes)); inversion Es; reflexivity.
      + destruct edges_arm as (Hg & Hu & _). rewrite Hg, Hu, Hal in Es. cbn [room_arg memU existsb orb] in Es.
        destruct (a_refuses_otherwise (arm_of QEdges)); inversion Es; reflexivity. }
  destruct Hstep as (H1 & H2 & H3). destruct Ha as [Ha|Ha]; [subst; exact H1|].
  apply (IH self key i s' H2 H3); [intros Hin; apply Hnb; right; exact Hin | exact Ha].
Qed.

(* ------------------------------------------------------------------ a room in which the key has no entry is never served *)
Lemma enabled_has_key : forall l k d, enabled_at l k d = true -> has_key l k = true.
Proof.
  intros l k d H. unfold enabled_at, lookup_user in H. destruct (find _ l) as [u|] eqn:E; [|discriminate].
  apply find_some in E. destruct E as [Hin Hk]. apply andb_true_iff in Hk. destruct Hk as [Hk _].
  unfold has_key. apply existsb_exists. exists u. split; assumption.
Qed.
Lemma valid_has_user : forall r k d, is_user_valid_at r k d = true -> has_user r k = true.
Proof.
  intros r k d H. unfold is_user_valid_at in H. unfold has_user. apply orb_true_iff in H. apply orb_true_iff. destruct H as [H|H].
  - left. unfold is_admin in H. apply enabled_has_key in H. exact H.
  - right. apply existsb_exists in H. destruct H as (a & Ha & Hv). apply existsb_exists. exists a. split; [exact Ha|].
    unfold auth_user_valid in Hv. apply orb_true_iff in Hv. apply orb_true_iff.
    destruct Hv as [Hv|Hv]; [left | right]; apply enabled_has_key in Hv; exact Hv.
Qed.

(* the key has no entry (enabled or not) in room r, at any moment of the connection *)
Fixpoint no_entry_along (self key : key) (i : inst) (s : ost) (es : list oev) (r : uid) : bool :=
  negb (room_has_user (o_defs s) r key) &&
  match es with
  | [] => true
  | e :: tl => no_entry_along self key i (fst (ostep self key i s e)) tl r
  end.

Lemma do_query_no_entry : forall self key i s now q s' a r,
  NoDup (map fst (o_defs s)) ->
  room_has_user (o_defs s) r key = false -> ~ In r (o_allowed s) ->
  do_query self key i s now q = (s', a) ->
  ~ In r (o_allowed s') /\ (room_arg q = Some r -> a = (1%Z, [])) /\ (q = QryRoomList -> ~ In r (snd a)).
Proof.
  intros self key i s now q s' a r Hnd Hno Hnin H.
  assert (Hlist : ~ In r (rooms_for_peer (o_defs s) key now)).
  { intros Hin. unfold rooms_for_peer in Hin. apply in_map_iff in Hin. destruct Hin as (d & Hd & Hin). apply filter_In in Hin. destruct Hin as [Hin Hv].
    apply valid_has_user in Hv. unfold room_has_user in Hno. subst r. rewrite (def_of_in _ d Hnd Hin) in Hno. unfold room_of in Hv. congruence. }
  unfold do_query in H. destruct q as [| | |k r0 ne|r0 ids|r0 l]; cbn [kind_of] in H.
  - assert (o_allowed s' = o_allowed s).
    { destruct (a_guard (arm_of QProveIdentity)); cbn [serve room_arg orb] in H;
        repeat match type of H with context [if ?c then _ else _] => destruct c end; inversion H; reflexivity. }
    rewrite H0. repeat split; auto; discriminate.
  - assert (o_allowed s' = o_allowed s).
    { destruct (a_guard (arm_of QHardwareFingerprint)); cbn [serve room_arg orb] in H;
        repeat match type of H with context [if ?c then _ else _] => destruct c end; inversion H; reflexivity. }
    rewrite H0. repeat split; auto; discriminate.
  - destruct roomlist_arm as [Hg _]. rewrite Hg in H. cbn [serve] in H.
    destruct (o_bound s && o_ready s).
    + match type of H with (set_allowed s ?al, _) = _ => set (al' := al) in H; assert (Hal' : ~ In r al') end.
      { unfold al'. destruct (a_inserts (arm_of (kind_of QryRoomList))); [exact Hnin|]. destruct (o_allowed s) eqn:Eal; [|exact Hnin].
        intros Hin. apply fold_addU_In in Hin. destruct Hin as [Hin|[]]. exact (Hlist Hin). }
      clearbody al'. inversion H; subst. cbn [set_allowed o_allowed snd]. split; [exact Hal'|]. split; [discriminate | intros _; exact Hlist].
    + inversion H; subst. split; [exact Hnin|]. split; [discriminate | intros _ []].
  - destruct (room_kind_arm k) as [Hg Hu]. cbv zeta in Hg, Hu. rewrite Hg, Hu in H. cbn [room_arg serve] in H. rewrite orb_false_r in H.
    destruct (memU r0 (o_allowed s)) eqn:Em.
    + inversion H; subst. cbn [set_allowed o_allowed]. repeat split; [exact Hnin | | discriminate].
      intros Hq. inversion Hq; subst. apply memU_In in Em. contradiction.
    + pose proof (arm_ok_all (rk_kind k)) as Hk. unfold arm_ok in Hk. rewrite (rk_first_arg k) in Hk.
      assert (Href : a_refuses_otherwise (arm_of (rk_kind k)) = true).
      { repeat (apply andb_true_iff in Hk; destruct Hk as [Hk ?]); assumption. }
      rewrite Href in H. inversion H; subst. repeat split; auto; try discriminate.
  - destruct nodes_arm as (Hg & Hu & Hs). rewrite Hg, Hu in H. cbn [room_arg serve] in H. rewrite orb_false_r in H.
    destruct (memU r0 (o_allowed s)) eqn:Em.
    + inversion H; subst. cbn [set_allowed o_allowed]. repeat split; [exact Hnin | | discriminate].
      intros Hq. inversion Hq; subst. apply memU_In in Em. contradiction.
    + pose proof (arm_ok_all QNodes) as Hk. unfold arm_ok in Hk. change (a_first_arg_is_room (arm_of QNodes)) with true in Hk. cbv iota in Hk.
      assert (Href : a_refuses_otherwise (arm_of QNodes) = true).
      { repeat (apply andb_true_iff in Hk; destruct Hk as [Hk ?]); assumption. }
      rewrite Href in H. inversion H; subst. repeat split; auto; try discriminate.
  - destruct edges_arm as (Hg & Hu & Hs). rewrite Hg, Hu in H. cbn [room_arg serve] in H. rewrite orb_false_r in H.
    destruct (memU r0 (o_allowed s)) eqn:Em.
    + inversion H; subst. cbn [set_allowed o_allowed]. repeat split; [exact Hnin | | discriminate].
      intros Hq. inversion Hq; subst. apply memU_In in Em. contradiction.
    + pose proof (arm_ok_all QEdges) as Hk. unfold arm_ok in Hk. change (a_first_arg_is_room (arm_of QEdges)) with true in Hk. cbv iota in Hk.
      assert (Href : a_refuses_otherwise (arm_of QEdges) = true).
      { repeat (apply andb_true_iff in Hk; destruct Hk as [Hk ?]); assumption. }
      rewrite Href in H. inversion H; subst. repeat split; auto; try discriminate.
Qed.

(* what each answer must look like for that room *)
Definition answer_spares (r : uid) (e : oev) (a : answer) : Prop :=
  match e with
  | OQuery _ q => (room_arg q = Some r -> a = (1%Z, [])) /\ (q = QryRoomList -> ~ In r (snd a))
  | _ => True
  end.
Theorem no_entry_not_served : forall es self key i s r,
  NoDup (map fst (o_defs s)) -> ~ In r (o_allowed s) -> no_entry_along self key i s es r = true ->
  Forall2 (answer_spares r) es (orun self key i s es) /\ ~ In r (o_allowed (ostate self key i s es)).
Proof.
  induction es as [|e tl IH]; intros self key i s r Hnd Hnin Hne; cbn [orun ostate no_entry_along] in *.
  - split; [constructor | exact Hnin].
  - apply andb_true_iff in Hne. destruct Hne as [Hno Hne]. apply negb_true_iff in Hno.
    destruct (ostep self key i s e) as [s' a] eqn:Es. cbn [fst] in *.
    assert (Hstep : ~ In r (o_allowed s') /\ NoDup (map fst (o_defs s')) /\ answer_spares r e a).
    { destruct e as [|b|r0 ev|now r0|now q]; cbn [ostep] in Es.
      - inversion Es; subst. cbn. auto.
      - inversion Es; subst. cbn. auto.
      - inversion Es; subst. cbn [o_allowed o_defs answer_spares]. rewrite define_fst. auto.
      - destruct (o_bound s && room_has_user (o_defs s) r0 key) eqn:E; inversion Es; subst; cbn [set_allowed o_allowed o_defs answer_spares]; auto.
        split; [|auto]. intros Hin. apply addU_In in Hin. destruct Hin as [Hin|Hin]; [|contradiction].
        subst r0. apply andb_true_iff in E. destruct E as [_ E]. congruence.
      - destruct (do_query_no_entry _ _ _ _ _ _ _ _ r Hnd Hno Hnin Es) as (A & B & C).
        destruct (do_query_frame _ _ _ _ _ _ _ _ Es) as (_ & F2 & _). rewrite F2. cbn [answer_spares]. auto. }
    destruct Hstep as (A & B & C). destruct (IH self key i s' r B A Hne) as [IH1 IH2].
    split; [constructor; assumption | exact IH2].
Qed.

(* ------------------------------------------------------------------ witnesses *)
Definition inst_w (evs : list event) : inst :=
  {| i_defs := [(1, evs); (2, [EvAdmin 1 100 true; EvGroup 21; EvUser 21 3 100 true])];
     i_nodes := [{| n_id := 1; n_room := Some 1 |}; {| n_id := 2; n_room := Some 2 |}];
     i_edges := [{| e_id := 1; e_src := 1; e_cdate := 120 |}] |}.
(* K1: disabled while connected, still served *)
Definition k1_witness : c08case :=
  COut 1 2 (inst_w [EvAdmin 1 100 true; EvGroup 11; EvUser 11 2 100 true])
    [OBind; OReady true; OQuery 200 QryRoomList; ODefine 1 (EvUser 11 2 300 false); OQuery 400 QryRoomList; OQuery 400 (QryNodes 1 [1; 2])].
(* K2: a former member is admitted again by the next definition event *)
Definition k2_witness : c08case :=
  COut 1 2 (inst_w [EvAdmin 1 100 true; EvGroup 11; EvUser 11 2 100 true; EvUser 11 2 150 false])
    [OBind; OReady true; OQuery 200 QryRoomList; OQuery 200 (QryNodes 1 [1; 2]); ODefine 1 (EvUser 11 3 300 true); ODefChanged 300 1; OQuery 400 (QryNodes 1 [1; 2])].
Lemma refuted :
  wf_case k1_witness = true /\ spec_C08 k1_witness (run_C08 k1_witness) = false /\ known_C08 k1_witness = [1%Z] /\
  wf_case k2_witness = true /\ spec_C08 k2_witness (run_C08 k2_witness) = false /\ known_C08 k2_witness = [2%Z].
Proof. vm_compute. repeat split. Qed.

Definition ok_witness : c08case :=
  COut 1 2 (inst_w [EvAdmin 1 100 true; EvGroup 11; EvUser 11 2 100 true])
    [OQuery 150 (QryNodes 1 [1; 2]); OBind; OReady true; OQuery 200 QryRoomList; OQuery 210 (QryNodes 1 [1; 2]); OQuery 220 (QryNodes 2 [1; 2]);
     OQuery 230 (QryEdges 1 [(1, 0%Z)]); OQuery 240 (QryRoom RLog 1 true); OQuery 250 (QryRoom RLog 2 true)].
Lemma nonvacuous :
  wf_case ok_witness = true /\ known_C08 ok_witness = [] /\
  run_answers ok_witness = [(1%Z, []); (0%Z, []); (0%Z, []); (2%Z, [1]); (2%Z, [1]); (1%Z, []); (2%Z, [1]); (2%Z, [1]); (1%Z, [])].
Proof. vm_compute. repeat split. Qed.
