(* C05Sort.v — generic facts about three-way comparisons, the stable insertion sort of Eval.v /
   Sql.v, and strictly sorted lists.  Used by C05P.v. *)
From DV Require Import Eval.
From Coq Require Import Permutation Sorted.
Open Scope list_scope.

Section Cmp.
  Context {A : Type}.
  Variable cmp : A -> A -> comparison.

  Definition c_antisym := forall a b, cmp b a = CompOpp (cmp a b).
  Definition c_eq_congr := forall a b x, cmp a b = Eq -> cmp a x = cmp b x.
  Definition c_lt_trans := forall a b x, cmp a b = Lt -> cmp b x = Lt -> cmp a x = Lt.

  Hypothesis Hanti : c_antisym.
  Hypothesis Hcongr : c_eq_congr.
  Hypothesis Htrans : c_lt_trans.

  Lemma c_refl : forall a, cmp a a = Eq.
  Proof.
    intros a. pose proof (Hanti a a) as H. destruct (cmp a a); simpl in H; congruence.
  Qed.

  Lemma c_eq_sym : forall a b, cmp a b = Eq -> cmp b a = Eq.
  Proof. intros a b H. rewrite Hanti, H. reflexivity. Qed.

  Lemma c_eq_congr_r : forall a b x, cmp a b = Eq -> cmp x a = cmp x b.
  Proof.
    intros a b x H. rewrite (Hanti a x), (Hanti b x). f_equal. apply Hcongr. exact H.
  Qed.

  Lemma c_gt_lt : forall a b, cmp a b = Gt <-> cmp b a = Lt.
  Proof.
    intros a b. rewrite (Hanti a b). destruct (cmp a b); simpl; split; congruence.
  Qed.

  Lemma c_gt_trans : forall a b x, cmp a b = Gt -> cmp b x = Gt -> cmp a x = Gt.
  Proof.
    intros a b x H1 H2. apply c_gt_lt. apply c_gt_lt in H1. apply c_gt_lt in H2.
    eapply Htrans; eauto.
  Qed.

  (* a <= b *)
  Definition cle (a b : A) : Prop := cmp a b <> Gt.

  Lemma cle_trans : forall a b x, cle a b -> cle b x -> cle a x.
  Proof.
    unfold cle. intros a b x H1 H2.
    destruct (cmp a b) eqn:E1; try congruence.
    - rewrite (Hcongr _ _ x E1). exact H2.
    - destruct (cmp b x) eqn:E2; try congruence.
      + rewrite <- (c_eq_congr_r _ _ a E2). rewrite E1. discriminate.
      + rewrite (Htrans _ _ _ E1 E2). discriminate.
  Qed.

  Lemma clt_le_trans : forall a b x, cmp a b = Lt -> cle b x -> cmp a x = Lt.
  Proof.
    unfold cle. intros a b x H1 H2. destruct (cmp b x) eqn:E2; try congruence.
    - rewrite <- (c_eq_congr_r _ _ a E2). exact H1.
    - eapply Htrans; eauto.
  Qed.

  Lemma cle_lt_trans : forall a b x, cle a b -> cmp b x = Lt -> cmp a x = Lt.
  Proof.
    unfold cle. intros a b x H1 H2. destruct (cmp a b) eqn:E1; try congruence.
    - rewrite (Hcongr _ _ x E1). exact H2.
    - eapply Htrans; eauto.
  Qed.

  (* ---- insertion sort ---- *)
  Lemma insert_perm : forall x l, Permutation (x :: l) (insert cmp x l).
  Proof.
    intros x l. induction l as [|y t IH]; simpl.
    - apply Permutation_refl.
    - destruct (cmp x y); try apply Permutation_refl.
      eapply perm_trans. apply perm_swap. apply perm_skip. exact IH.
  Qed.

  Lemma isort_perm : forall l, Permutation l (isort cmp l).
  Proof.
    induction l as [|x t IH]; simpl.
    - apply perm_nil.
    - eapply perm_trans. apply perm_skip. exact IH. apply insert_perm.
  Qed.

  Lemma insert_sorted : forall x l, StronglySorted cle l -> StronglySorted cle (insert cmp x l).
  Proof.
    intros x l Hs. induction Hs as [|y t Hs IH Hall]; simpl.
    - constructor. constructor. constructor.
    - destruct (cmp x y) eqn:E.
      + constructor. constructor; assumption.
        constructor. unfold cle; rewrite E; discriminate.
        eapply Forall_impl; [|exact Hall]. intros z Hz. eapply cle_trans; [|exact Hz]. unfold cle; rewrite E; discriminate.
      + constructor. constructor; assumption.
        constructor. unfold cle; rewrite E; discriminate.
        eapply Forall_impl; [|exact Hall]. intros z Hz. eapply cle_trans; [|exact Hz]. unfold cle; rewrite E; discriminate.
      + constructor. exact IH.
        assert (Hyx : cle y x). { unfold cle. apply c_gt_lt in E. rewrite E. discriminate. }
        eapply Permutation_Forall. apply insert_perm. constructor; assumption.
  Qed.

  Lemma isort_sorted : forall l, StronglySorted cle (isort cmp l).
  Proof.
    induction l as [|x t IH]; simpl. constructor. apply insert_sorted. exact IH.
  Qed.

  (* ---- strictly sorted lists ---- *)
  Definition clt (a b : A) : Prop := cmp a b = Lt.

  Lemma clt_irrefl : forall a, ~ clt a a.
  Proof. intros a H. unfold clt in H. rewrite c_refl in H. discriminate. Qed.

  Lemma clt_asym : forall a b, clt a b -> clt b a -> False.
  Proof.
    unfold clt. intros a b H1 H2. rewrite Hanti, H1 in H2. discriminate.
  Qed.

  (* two strictly sorted lists with the same elements are the same list *)
  Lemma strict_sorted_unique : forall l1 l2,
    StronglySorted clt l1 -> StronglySorted clt l2 -> Permutation l1 l2 -> l1 = l2.
  Proof.
    induction l1 as [|x t IH]; intros l2 H1 H2 Hp.
    - apply Permutation_nil in Hp. congruence.
    - destruct l2 as [|y u]. { apply Permutation_sym, Permutation_nil in Hp. discriminate. }
      inversion H1 as [|? ? Ht Hx]; subst. inversion H2 as [|? ? Hu Hy]; subst.
      assert (x = y) as ->.
      { assert (Hin1 : In x (y :: u)) by (eapply Permutation_in; [exact Hp | left; reflexivity]).
        assert (Hin2 : In y (x :: t)) by (eapply Permutation_in; [apply Permutation_sym; exact Hp | left; reflexivity]).
        destruct Hin1 as [->|Hin1]; [reflexivity|]. destruct Hin2 as [->|Hin2]; [reflexivity|].
        rewrite Forall_forall in Hx, Hy. exfalso. eapply clt_asym; [apply Hy, Hin1 | apply Hx, Hin2]. }
      f_equal. apply IH; try assumption. eapply Permutation_cons_inv. exact Hp.
  Qed.

  Lemma strict_filter : forall (p : A -> bool) l, StronglySorted clt l -> StronglySorted clt (filter p l).
  Proof.
    intros p l H. induction H as [|x t Ht IH Hx]; simpl. constructor.
    destruct (p x). constructor. exact IH.
    rewrite Forall_forall in *. intros z Hz. apply filter_In in Hz. apply Hx. tauto. exact IH.
  Qed.

  (* a sorted list without two equivalent elements is strictly sorted *)
  Definition no_equiv (l : list A) : Prop := forall l1 a l2 b l3, l = l1 ++ a :: l2 ++ b :: l3 -> cmp a b <> Eq.

  Lemma no_equiv_tail : forall x l, no_equiv (x :: l) -> no_equiv l.
  Proof. intros x l H l1 a l2 b l3 E. apply (H (x :: l1) a l2 b l3). rewrite E. reflexivity. Qed.

  Lemma no_equiv_head : forall x l, no_equiv (x :: l) -> forall y, In y l -> cmp x y <> Eq.
  Proof.
    intros x l H y Hin. apply in_split in Hin. destruct Hin as (l2 & l3 & ->).
    apply (H [] x l2 y l3). reflexivity.
  Qed.

  Lemma sorted_strict : forall l, StronglySorted cle l -> no_equiv l -> StronglySorted clt l.
  Proof.
    intros l H. induction H as [|x t Ht IH Hx]; intros Hn. constructor.
    constructor. apply IH. eapply no_equiv_tail; eauto.
    rewrite Forall_forall in *. intros y Hy. specialize (Hx y Hy). pose proof (no_equiv_head _ _ Hn y Hy) as Hne.
    unfold cle, clt in *. destruct (cmp x y); congruence.
  Qed.

  (* no_equiv is invariant under permutation: stated through a symmetric pairwise predicate *)
  Definition pairwise_ne (l : list A) : Prop := ForallOrdPairs (fun a b => cmp a b <> Eq) l.

  Lemma no_equiv_pairwise : forall l, no_equiv l <-> pairwise_ne l.
  Proof.
    induction l as [|x t IH]; split; intros H.
    - constructor.
    - intros l1 a l2 b l3 E. destruct l1; discriminate.
    - constructor. rewrite Forall_forall. intros y Hy. eapply no_equiv_head; eauto.
      apply IH. eapply no_equiv_tail; eauto.
    - inversion H as [|? ? Hx Ht]; subst. intros l1 a l2 b l3 E. destruct l1 as [|z l1]; simpl in E.
      + injection E as -> ->. rewrite Forall_forall in Hx. apply Hx. apply in_or_app. right. left. reflexivity.
      + injection E as -> ->. apply IH in Ht. eapply Ht. reflexivity.
  Qed.

  Lemma pairwise_ne_perm : forall l l', Permutation l l' -> pairwise_ne l -> pairwise_ne l'.
  Proof.
    intros l l' Hp. induction Hp as [| x l l' Hp IH | x y l | l l' l'' Hp1 IH1 Hp2 IH2]; intros H.
    - constructor.
    - inversion H as [|? ? Hx Ht]; subst. constructor. eapply Permutation_Forall; eauto. apply IH. exact Ht.
    - inversion H as [|? ? Hy Ht]; subst. inversion Ht as [|? ? Hx Hl]; subst. inversion Hy as [|? ? Hyx Hyl]; subst.
      constructor. constructor. intros E. apply Hyx. apply c_eq_sym. exact E. exact Hx.
      constructor. exact Hyl. exact Hl.
    - apply IH2, IH1, H.
  Qed.

  Lemma pairwise_ne_filter : forall (p : A -> bool) l, pairwise_ne l -> pairwise_ne (filter p l).
  Proof.
    intros p l H. induction H as [|x t Hx Ht IH]; simpl. constructor.
    destruct (p x). constructor.
    rewrite Forall_forall in *. intros z Hz. apply filter_In in Hz. apply Hx. tauto. exact IH. exact IH.
  Qed.

  Lemma filter_perm : forall (p : A -> bool) l l', Permutation l l' -> Permutation (filter p l) (filter p l').
  Proof.
    intros p l l' Hp. induction Hp as [| x l1 l2 Hp IH | x y l1 | l1 l2 l3 Hp1 IH1 Hp2 IH2]; simpl.
    - constructor.
    - destruct (p x). apply perm_skip. exact IH. exact IH.
    - destruct (p x), (p y); try apply Permutation_refl. apply perm_swap.
    - eapply perm_trans; eauto.
  Qed.

  (* sorting commutes with filtering when no two elements are equivalent *)
  Lemma isort_filter : forall (p : A -> bool) l, pairwise_ne l ->
    isort cmp (filter p l) = filter p (isort cmp l).
  Proof.
    intros p l Hn. apply strict_sorted_unique.
    - apply sorted_strict. apply isort_sorted. apply no_equiv_pairwise.
      eapply pairwise_ne_perm. apply isort_perm. apply pairwise_ne_filter. exact Hn.
    - apply strict_filter. apply sorted_strict. apply isort_sorted. apply no_equiv_pairwise.
      eapply pairwise_ne_perm. apply isort_perm. exact Hn.
    - eapply perm_trans. apply Permutation_sym, isort_perm. apply filter_perm. apply isort_perm.
  Qed.

  (* in a strictly sorted list the elements greater than a member are exactly those after it *)
  Lemma strict_after : forall l1 y l2, StronglySorted clt (l1 ++ y :: l2) ->
    filter (fun z => match cmp z y with Gt => true | _ => false end) (l1 ++ y :: l2) = l2.
  Proof.
    induction l1 as [|x t IH]; intros y l2 H; simpl in *.
    - rewrite c_refl. inversion H as [|? ? Hs Hy]; subst.
      rewrite Forall_forall in Hy.
      clear H. induction l2 as [|z u IHu]; simpl. reflexivity.
      assert (Hz : cmp z y = Gt). { apply c_gt_lt. apply Hy. left. reflexivity. }
      rewrite Hz. f_equal. apply IHu.
      inversion Hs; assumption. intros w Hw. apply Hy. right. exact Hw.
    - inversion H as [|? ? Hs Hx]; subst. rewrite Forall_forall in Hx.
      assert (Hxy : cmp x y = Lt). { apply Hx. apply in_or_app. right. left. reflexivity. }
      rewrite Hxy. apply IH. exact Hs.
  Qed.
End Cmp.
