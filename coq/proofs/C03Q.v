(* C03Q.v — more about C03: each clause of the oracle on the model's own states, and the winner of a
   row does not depend on the order of the pulls. *)
From DV Require Import Sync SyncObs SyncP Run_C03 C03P.
From Coq Require Import Lia.
Open Scope Z_scope.

(* ---------- the per-pull clause of spec_C03 on the model's states ---------- *)
Theorem pull_delivers : forall dst src days,
  tombs src = [] -> tombs dst = [] -> nodup_ids (nodes src) ->
  days_cover days (needed_days dst src) = true ->
  delivered src (fst (pull_replica dst src days)) = true.
Proof.
  intros dst src days Ht Hd Hs Hc. unfold delivered. rewrite Ht. cbn [tombs_subset forallb]. rewrite Bool.andb_true_r.
  apply forallb_forall. intros n Hin. unfold holds_at_least.
  rewrite (pull_is_join dst src days (n_id n) Ht Hd Hs Hc), (find_node_in _ _ Hs Hin). cbn [vjoin].
  destruct (find_node (n_id n) (nodes dst)) as [e|].
  - destruct (newer n e) eqn:E; [rewrite newer_irrefl|rewrite E]; reflexivity.
  - rewrite newer_irrefl. reflexivity.
Qed.

(* ---------- the join of all members' views ---------- *)
Definition has_id (x : uid) (o : option nrow) : Prop := match o with Some n => n_id n = x | None => True end.
Definition gjoin (vs : list (option nrow)) : option nrow := fold_right vjoin None vs.
Definition views (S : sys) (x : uid) : list (option nrow) := map (fun r => find_node x (nodes r)) S.
Definition gview (S : sys) (x : uid) : option nrow := gjoin (views S x).

Lemma has_id_same : forall x a b, has_id x a -> has_id x b -> same_id a b.
Proof. intros x [a|] [b|] Ha Hb; cbn in *; congruence || exact I. Qed.
Lemma has_id_vjoin : forall x a b, has_id x a -> has_id x b -> has_id x (vjoin a b).
Proof. intros x [a|] [b|] Ha Hb; cbn in *; try assumption. destruct (newer b a); assumption. Qed.
Lemma has_id_find : forall x l, has_id x (find_node x l).
Proof. intros x l. destruct (find_node x l) eqn:F; [|exact I]. apply find_node_some in F. apply F. Qed.
Lemma has_id_gjoin : forall x vs, Forall (has_id x) vs -> has_id x (gjoin vs).
Proof. intros x vs H. induction H as [|v vs Hv _ IH]; [exact I|]. cbn. apply has_id_vjoin; assumption. Qed.

Lemma vjoin_swap : forall x a b c, has_id x a -> has_id x b -> has_id x c -> vjoin a (vjoin b c) = vjoin b (vjoin a c).
Proof.
  intros x a b c Ha Hb Hc.
  rewrite <- (vjoin_assoc a b c), <- (vjoin_assoc b a c); eauto using has_id_same.
  rewrite (vjoin_comm a b); eauto using has_id_same.
Qed.

Lemma gjoin_absorb : forall x vs b, Forall (has_id x) vs -> In b vs -> vjoin b (gjoin vs) = gjoin vs.
Proof.
  intros x vs b H. induction H as [|v vs Hv Hvs IH]; intros Hin; [inversion Hin|]. cbn [gjoin fold_right].
  fold (gjoin vs). pose proof (has_id_gjoin x vs Hvs) as Hg. destruct Hin as [->|Hin].
  - rewrite <- vjoin_assoc; eauto using has_id_same. rewrite vjoin_idem. reflexivity.
  - assert (Hb : has_id x b) by (rewrite Forall_forall in Hvs; apply Hvs; exact Hin).
    rewrite (vjoin_swap x b v (gjoin vs)); try assumption. rewrite IH by exact Hin. reflexivity.
Qed.

Fixpoint upd {A} (k : nat) (a : A) (l : list A) : list A :=
  match k, l with
  | O, _ :: t => a :: t
  | S k', h :: t => h :: upd k' a t
  | _, [] => []
  end.

Lemma gjoin_upd : forall x vs k a b, Forall (has_id x) vs -> has_id x b -> nth_error vs k = Some a ->
  gjoin (upd k (vjoin a b) vs) = vjoin b (gjoin vs).
Proof.
  intros x vs. induction vs as [|v vs IH]; intros k a b H Hb Hk; [destruct k; discriminate|].
  inversion H as [|? ? Hv Hvs]; subst. pose proof (has_id_gjoin x vs Hvs) as Hg.
  destruct k as [|k]; cbn [upd gjoin fold_right nth_error] in *; fold (gjoin vs).
  - inversion Hk; subst a. rewrite (vjoin_comm v b); eauto using has_id_same. apply vjoin_assoc; eauto using has_id_same.
  - fold (gjoin (upd k (vjoin a b) vs)). rewrite (IH k a b Hvs Hb Hk). apply (vjoin_swap x); assumption.
Qed.

Lemma map_set_nth : forall (f : replica -> option nrow) k r S, map f (set_nth k r S) = upd k (f r) (map f S).
Proof.
  intros f k r S. revert k. induction S as [|a S IH]; intros k; destruct k; cbn [set_nth upd map]; try reflexivity.
  rewrite IH. reflexivity.
Qed.

Lemma views_forall : forall S x, Forall (has_id x) (views S x).
Proof. intros S x. unfold views. apply Forall_forall. intros o H. apply in_map_iff in H. destruct H as [r [<- _]]. apply has_id_find. Qed.

(* a complete pull does not change the join of all views *)
Theorem pull_keeps_gview : forall S d s days x,
  no_tombs S -> wf S -> (N.to_nat d < length S)%nat -> (N.to_nat s < length S)%nat ->
  days_cover days (needed_days (get d S) (get s S)) = true ->
  gview (fst (fst (step S (Pull d s days)))) x = gview S x.
Proof.
  intros S d s days x Ht Hw Hd Hs Hc. cbn [step].
  pose proof (pull_is_join (get d S) (get s S) days x (Ht s) (Ht d) (Hw s) Hc) as J.
  destruct (pull_replica (get d S) (get s S) days) as [r cnt]. cbn [fst] in *.
  unfold gview, views, set. rewrite (map_set_nth (fun r0 => find_node x (nodes r0))). cbn beta. rewrite J.
  rewrite (gjoin_upd x _ (N.to_nat d) (find_node x (nodes (get d S))) (find_node x (nodes (get s S)))).
  - apply (gjoin_absorb x); [apply views_forall|].
    unfold views, get. apply (in_map (fun r0 => find_node x (nodes r0))). apply nth_In. exact Hs.
  - apply views_forall.
  - apply has_id_find.
  - unfold get. rewrite nth_error_map. rewrite (nth_error_nth' S empty_replica Hd). reflexivity.
Qed.

Lemma gjoin_const : forall v vs, vs <> [] -> (forall o, In o vs -> o = v) -> gjoin vs = v.
Proof.
  intros v vs Hne H. induction vs as [|a vs IH]; [contradiction|]. cbn [gjoin fold_right]. fold (gjoin vs).
  rewrite (H a (or_introl eq_refl)). destruct vs as [|b vs].
  - cbn. destruct v; reflexivity.
  - rewrite IH; [apply vjoin_idem|discriminate|]. intros o Ho. apply H. right. exact Ho.
Qed.

Definition pulls_in_range (n : nat) (ops : list sop) : Prop :=
  forall o, In o ops -> match o with Pull d s _ => (N.to_nat d < n)%nat /\ (N.to_nat s < n)%nat | _ => False end.

Lemma run_keeps_gview : forall ops S x, no_tombs S -> wf S -> pulls_in_range (length S) ops ->
  run_complete S ops = true -> gview (run_sys S ops) x = gview S x.
Proof.
  induction ops as [|o ops IH]; intros S x Ht Hw Hr Hc; [reflexivity|]. cbn [run_sys run_complete] in *.
  apply Bool.andb_true_iff in Hc. destruct Hc as [Hc0 Hc].
  pose proof (Hr o (or_introl eq_refl)) as Ho. destruct o as [p y t sg|p y t sgs|p y t sg|p y t|p y z t sg|p y z t sg|d s days]; try contradiction.
  destruct Ho as [Hd Hs].
  destruct (step_inv S (Pull d s days) Hw Ht eq_refl) as [W [T L]].
  rewrite IH; try assumption.
  - apply pull_keeps_gview; assumption.
  - rewrite L. intros o Hin. apply Hr. right. exact Hin.
Qed.

(* the winner does not depend on the order of the pulls: whatever sequence of complete pulls leads
   from S to a state in which all members agree, every member then holds, for every row, the join
   (greatest (mdate, signature)) of the versions the members held in S *)
Theorem winner_order_independent : forall S ops x p,
  no_tombs S -> wf S -> pulls_in_range (length S) ops -> run_complete S ops = true ->
  (N.to_nat p < length S)%nat ->
  (forall q r, find_node x (nodes (get q (run_sys S ops))) = find_node x (nodes (get r (run_sys S ops)))) ->
  find_node x (nodes (get p (run_sys S ops))) = gview S x.
Proof.
  intros S ops x p Ht Hw Hr Hc Hp Hagree.
  rewrite <- (run_keeps_gview ops S x Ht Hw Hr Hc).
  set (S1 := run_sys S ops) in *.
  assert (L1 : length S1 = length S).
  { assert (G : forall ops0 S0, pulls_in_range (length S0) ops0 -> wf S0 -> no_tombs S0 -> length (run_sys S0 ops0) = length S0).
    { induction ops0 as [|o ops0 IH0]; intros S0 R0 W0 T0; [reflexivity|]. cbn [run_sys].
      pose proof (R0 o (or_introl eq_refl)) as Ho. destruct o as [? ? ? ?|? ? ? ?|? ? ? ?|? ? ?|? ? ? ? ?|? ? ? ? ?|d s days]; try contradiction.
      destruct (step_inv S0 (Pull d s days) W0 T0 eq_refl) as [W [T L]]. rewrite IH0; try assumption.
      rewrite L. intros o Hin. apply R0. right. exact Hin. }
    apply G; assumption. }
  symmetry. unfold gview. apply gjoin_const.
  - unfold views. destruct S1; [cbn in L1; lia|discriminate].
  - intros o Ho. unfold views in Ho. apply in_map_iff in Ho. destruct Ho as [r [<- Hin]].
    destruct (In_nth S1 r empty_replica Hin) as [k [Hk Hn]].
    specialize (Hagree (N.of_nat k) p). unfold get in Hagree at 1. rewrite Nat2N.id, Hn in Hagree. exact Hagree.
Qed.
