(* C04Shape.v — non-interference of the SQL text: the statement compiled for a query does not depend on the
   characters of its String literals (they travel as bound parameters only), provided no variable is captured
   by a literal (class 3). *)
From DV Require Import Codec Sql Run_C04 C05Order C05Sql.
Open Scope list_scope.

Definition shape_operand (o o' : operand) : Prop :=
  match o, o' with
  | OLit (VStr _), OLit (VStr _) => True
  | _, _ => o = o'
  end.
Definition shape_filter (f f' : qfilter) : Prop :=
  fl_ref f = fl_ref f' /\ fl_op f = fl_op f' /\ shape_operand (fl_val f) (fl_val f').
Definition shape_paging (p p' : paging) : Prop :=
  match p, p' with
  | PNone, PNone => True
  | PAfter vs, PAfter vs' => Forall2 shape_operand vs vs'
  | PBefore vs, PBefore vs' => Forall2 shape_operand vs vs'
  | _, _ => False
  end.
Definition same_shape (q q' : query) : Prop :=
  q_alias q = q_alias q' /\ q_sel q = q_sel q' /\ Forall2 shape_filter (q_filters q) (q_filters q') /\
  q_order q = q_order q' /\ q_first q = q_first q' /\ q_skip q = q_skip q' /\ shape_paging (q_paging q) (q_paging q').

(* two parameter lists that differ only in the text of internal (literal) entries *)
Definition sim (vo vo' : list pentry) : Prop :=
  Forall2 (fun p p' : pentry => fst p = fst p' /\ (fst p = false -> snd p = snd p')) vo vo'.

Lemma sim_refl : forall vo, sim vo vo.
Proof. induction vo; constructor; auto. Qed.
Lemma sim_length : forall vo vo', sim vo vo' -> List.length vo = List.length vo'.
Proof. intros vo vo' H. induction H; simpl; congruence. Qed.
Lemma sim_app : forall a a' b b', sim a a' -> sim b b' -> sim (a ++ b) (a' ++ b').
Proof. intros. apply Forall2_app; assumption. Qed.

Lemma find_param_sim : forall n vo vo' k, sim vo vo' ->
  (forall p, fm n vo = Some p -> fst p = false) -> (forall p, fm n vo' = Some p -> fst p = false) ->
  find_param n vo k = find_param n vo' k.
Proof.
  intros n vo vo' k H. revert k. induction H as [|p p' t t' (Hf & Hs) Hrest IH]; intros k H1 H2. reflexivity.
  cbn [find_param]. unfold fm in H1, H2. cbn [find] in H1, H2.
  destruct (str_eqb n (snd p)) eqn:E; destruct (str_eqb n (snd p')) eqn:E'.
  - reflexivity.
  - specialize (H1 p eq_refl). rewrite <- (Hs H1), E in E'. discriminate.
  - specialize (H2 p' eq_refl). rewrite <- Hf in H2. rewrite (Hs H2), E' in E. discriminate.
  - apply IH; assumption.
Qed.

Lemma add_param_var_sim : forall n vo vo' vo1 vo1' i i' vf vf',
  sim vo vo' -> add_param vo n false = (vo1, i) -> add_param vo' n false = (vo1', i') ->
  pfx vo1 vf -> pfx vo1' vf' -> var_ok vf n -> var_ok vf' n ->
  i = i' /\ sim vo1 vo1'.
Proof.
  intros n vo vo' vo1 vo1' i i' vf vf' Hs H H' Hp Hp' Hok Hok'. unfold add_param in H, H'.
  assert (Hpv : pfx vo vf).
  { destruct (find_param n vo 0); injection H as <- _. exact Hp. eapply pfx_trans; [apply pfx_app | exact Hp]. }
  assert (Hpv' : pfx vo' vf').
  { destruct (find_param n vo' 0); injection H' as <- _. exact Hp'. eapply pfx_trans; [apply pfx_app | exact Hp']. }
  assert (Hfind : find_param n vo 0 = find_param n vo' 0).
  { apply find_param_sim. exact Hs.
    - intros p Hfm. apply Hok. destruct Hpv as [t ->]. apply fm_app_some. exact Hfm.
    - intros p Hfm. apply Hok'. destruct Hpv' as [t ->]. apply fm_app_some. exact Hfm. }
  rewrite <- Hfind in H'. destruct (find_param n vo 0).
  - injection H as <- <-. injection H' as <- <-. split. reflexivity. exact Hs.
  - injection H as <- <-. injection H' as <- <-. split. rewrite (sim_length _ _ Hs). reflexivity.
    apply sim_app. exact Hs. constructor. split; auto. constructor.
Qed.

Lemma add_param_int_sim : forall s s' vo vo' vo1 vo1' i i',
  sim vo vo' -> add_param vo s true = (vo1, i) -> add_param vo' s' true = (vo1', i') -> i = i' /\ sim vo1 vo1' /\ pfx vo vo1 /\ pfx vo' vo1'.
Proof.
  intros s s' vo vo' vo1 vo1' i i' Hs H H'. unfold add_param in H, H'. injection H as <- <-. injection H' as <- <-.
  split. rewrite (sim_length _ _ Hs). reflexivity. split. apply sim_app. exact Hs. constructor. split. reflexivity. intros Hc. discriminate. constructor.
  split; apply pfx_app.
Qed.

Lemma add_param_pfx : forall vo v i vo1 k, add_param vo v i = (vo1, k) -> pfx vo vo1.
Proof.
  intros vo v i vo1 k H. unfold add_param in H. destruct i. injection H as <- _. apply pfx_app.
  destruct (find_param v vo 0); injection H as <- _. apply pfx_refl. apply pfx_app.
Qed.
Lemma operand_sx_pfx : forall vo o vo1 x, operand_sx vo o = (vo1, x) -> pfx vo vo1.
Proof. intros vo o vo1 x H. apply (operand_sx_sem _ _ _ _ H). Qed.

Lemma operand_sx_sim : forall o o' vo vo' vo1 vo1' x x' vf vf',
  shape_operand o o' -> sim vo vo' ->
  operand_sx vo o = (vo1, x) -> operand_sx vo' o' = (vo1', x') ->
  pfx vo1 vf -> pfx vo1' vf' ->
  (forall n, o = OVar n -> var_ok vf n /\ var_ok vf' n) ->
  x = x' /\ sim vo1 vo1'.
Proof.
  intros o o' vo vo' vo1 vo1' x x' vf vf' Hsh Hs H H' Hp Hp' Hok.
  destruct o as [v|n].
  - destruct v as [|b|z|q|s].
    1-4: (simpl in Hsh; subst o'; cbn [operand_sx] in H, H'; injection H as <- <-; injection H' as <- <-; split; [reflexivity | exact Hs]).
    destruct o' as [v'|n']; simpl in Hsh; try discriminate. destruct v'; try discriminate.
    cbn [operand_sx] in H, H'.
    destruct (add_param vo s true) as [a i] eqn:E. destruct (add_param vo' s0 true) as [a' i'] eqn:E'.
    injection H as <- <-. injection H' as <- <-.
    destruct (add_param_int_sim _ _ _ _ _ _ _ _ Hs E E') as (-> & Hs1 & _). split. reflexivity. exact Hs1.
  - simpl in Hsh. subst o'. cbn [operand_sx] in H, H'.
    destruct (add_param vo n false) as [a i] eqn:E. destruct (add_param vo' n false) as [a' i'] eqn:E'.
    injection H as <- <-. injection H' as <- <-. destruct (Hok n eq_refl) as [Ho Ho'].
    destruct (add_param_var_sim _ _ _ _ _ _ _ _ _ Hs E E' Hp Hp' Ho Ho') as (-> & Hs1). split. reflexivity. exact Hs1.
Qed.

Lemma compile_filters_pfx : forall m q fs vo vo2 sfs, compile_filters m q vo fs = (vo2, sfs) -> pfx vo vo2.
Proof. intros m q fs vo vo2 sfs H. apply (compile_filters_shape _ _ _ _ _ _ H). Qed.
Lemma compile_eqs_pfx : forall kvs vo vo2 eqs, compile_eqs vo kvs = (vo2, eqs) -> pfx vo vo2.
Proof. intros kvs vo vo2 eqs H. apply (compile_eqs_sem _ _ _ _ H). Qed.
Lemma compile_disjs_pfx : forall before todo vo done vo2 ds, compile_disjs before vo done todo = (vo2, ds) -> pfx vo vo2.
Proof. intros before todo vo done vo2 ds H. apply (compile_disjs_sem _ _ _ _ _ _ H). Qed.

Lemma filter_sop_shape : forall f f', shape_filter f f' ->
  match fl_val f, fl_op f with OLit VNull, OEq => SIs | OLit VNull, ONe => SIsNot | _, op => SCmp op end =
  match fl_val f', fl_op f' with OLit VNull, OEq => SIs | OLit VNull, ONe => SIsNot | _, op => SCmp op end.
Proof.
  intros f f' (_ & Hop & Hv). rewrite <- Hop. destruct (fl_val f) as [[| | | |]|], (fl_val f') as [[| | | |]|]; simpl in Hv; try discriminate; try reflexivity.
Qed.

Lemma compile_filters_sim : forall m q q' fs fs' vo vo' vo2 vo2' sfs sfs' vf vf',
  q_sel q = q_sel q' -> Forall2 shape_filter fs fs' -> sim vo vo' ->
  compile_filters m q vo fs = (vo2, sfs) -> compile_filters m q' vo' fs' = (vo2', sfs') ->
  pfx vo2 vf -> pfx vo2' vf' ->
  (forall f n, In f fs -> fl_val f = OVar n -> var_ok vf n /\ var_ok vf' n) ->
  sfs = sfs' /\ sim vo2 vo2'.
Proof.
  intros m q q' fs fs' vo vo' vo2 vo2' sfs sfs' vf vf' Hsel HF. revert vo vo' vo2 vo2' sfs sfs'.
  induction HF as [|f f' fs fs' Hff Hrest IH]; intros vo vo' vo2 vo2' sfs sfs' Hs H H' Hp Hp' Hok; cbn [compile_filters] in H, H'.
  - injection H as <- <-. injection H' as <- <-. split. reflexivity. exact Hs.
  - destruct (operand_sx vo (fl_val f)) as [vo1 xv] eqn:E1. destruct (compile_filters m q vo1 fs) as [vo3 rest] eqn:E2.
    destruct (operand_sx vo' (fl_val f')) as [vo1' xv'] eqn:E1'. destruct (compile_filters m q' vo1' fs') as [vo3' rest'] eqn:E2'.
    injection H as <- <-. injection H' as <- <-.
    pose proof (compile_filters_pfx _ _ _ _ _ _ E2) as P2. pose proof (compile_filters_pfx _ _ _ _ _ _ E2') as P2'.
    destruct Hff as (Hr & Hop & Hv).
    destruct (operand_sx_sim _ _ _ _ _ _ _ _ vf vf' Hv Hs E1 E1') as (-> & Hs1).
    { eapply pfx_trans; eauto. } { eapply pfx_trans; eauto. }
    { intros n Hn. apply (Hok f n). left. reflexivity. exact Hn. }
    destruct (IH _ _ _ _ _ _ Hs1 E2 E2' Hp Hp') as (-> & Hs2).
    { intros f0 n Hin. apply Hok. right. exact Hin. }
    split; [|exact Hs2]. f_equal.
    rewrite (filter_sop_shape f f' (conj Hr (conj Hop Hv))). rewrite <- Hr.
    assert (Hrf : ref_field q (fl_ref f) = ref_field q' (fl_ref f)) by (unfold ref_field; rewrite Hsel; reflexivity).
    rewrite Hrf. reflexivity.
Qed.

Definition shape_pair (ko ko' : okey * operand) : Prop := fst ko = fst ko' /\ shape_operand (snd ko) (snd ko').

Lemma compile_eqs_sim : forall kvs kvs' vo vo' vo2 vo2' eqs eqs' vf vf',
  Forall2 shape_pair kvs kvs' -> sim vo vo' ->
  compile_eqs vo kvs = (vo2, eqs) -> compile_eqs vo' kvs' = (vo2', eqs') ->
  pfx vo2 vf -> pfx vo2' vf' ->
  (forall ko n, In ko kvs -> snd ko = OVar n -> var_ok vf n /\ var_ok vf' n) ->
  eqs = eqs' /\ sim vo2 vo2'.
Proof.
  intros kvs kvs' vo vo' vo2 vo2' eqs eqs' vf vf' HF. revert vo vo' vo2 vo2' eqs eqs'.
  induction HF as [|[k o] [k' o'] t t' (Hk & Ho) Hrest IH]; intros vo vo' vo2 vo2' eqs eqs' Hs H H' Hp Hp' Hok; cbn [compile_eqs] in H, H'.
  - injection H as <- <-. injection H' as <- <-. split. reflexivity. exact Hs.
  - simpl in Hk, Ho. subst k'.
    destruct (operand_sx vo o) as [vo1 v] eqn:E1. destruct (compile_eqs vo1 t) as [vo3 rest] eqn:E2.
    destruct (operand_sx vo' o') as [vo1' v'] eqn:E1'. destruct (compile_eqs vo1' t') as [vo3' rest'] eqn:E2'.
    injection H as <- <-. injection H' as <- <-.
    pose proof (compile_eqs_pfx _ _ _ _ E2) as P2. pose proof (compile_eqs_pfx _ _ _ _ E2') as P2'.
    destruct (operand_sx_sim _ _ _ _ _ _ _ _ vf vf' Ho Hs E1 E1') as (-> & Hs1).
    { eapply pfx_trans; eauto. } { eapply pfx_trans; eauto. }
    { intros n Hn. apply (Hok (k, o) n). left. reflexivity. exact Hn. }
    destruct (IH _ _ _ _ _ _ Hs1 E2 E2' Hp Hp') as (-> & Hs2).
    { intros ko n Hin. apply Hok. right. exact Hin. }
    split. reflexivity. exact Hs2.
Qed.

Lemma compile_disjs_sim : forall before todo todo' vo vo' done done' vo2 vo2' ds ds' vf vf',
  Forall2 shape_pair todo todo' -> Forall2 shape_pair done done' -> sim vo vo' ->
  compile_disjs before vo done todo = (vo2, ds) -> compile_disjs before vo' done' todo' = (vo2', ds') ->
  pfx vo2 vf -> pfx vo2' vf' ->
  (forall ko n, In ko (done ++ todo) -> snd ko = OVar n -> var_ok vf n /\ var_ok vf' n) ->
  ds = ds' /\ sim vo2 vo2'.
Proof.
  intros before todo todo' vo vo' done done' vo2 vo2' ds ds' vf vf' HF. revert vo vo' done done' vo2 vo2' ds ds'.
  induction HF as [|[k o] [k' o'] t t' (Hk & Ho) Hrest IH]; intros vo vo' done done' vo2 vo2' ds ds' Hd Hs H H' Hp Hp' Hok; cbn [compile_disjs] in H, H'.
  - injection H as <- <-. injection H' as <- <-. split. reflexivity. exact Hs.
  - simpl in Hk, Ho. subst k'.
    destruct (compile_eqs vo done) as [vo1 eqs] eqn:E1. destruct (operand_sx vo1 o) as [vo3 v] eqn:E2.
    destruct (compile_disjs before vo3 (done ++ [(k, o)]) t) as [vo4 rest] eqn:E3.
    destruct (compile_eqs vo' done') as [vo1' eqs'] eqn:E1'. destruct (operand_sx vo1' o') as [vo3' v'] eqn:E2'.
    destruct (compile_disjs before vo3' (done' ++ [(k, o')]) t') as [vo4' rest'] eqn:E3'.
    injection H as <- <-. injection H' as <- <-.
    pose proof (operand_sx_pfx _ _ _ _ E2) as P2. pose proof (operand_sx_pfx _ _ _ _ E2') as P2'.
    pose proof (compile_disjs_pfx _ _ _ _ _ _ E3) as P3. pose proof (compile_disjs_pfx _ _ _ _ _ _ E3') as P3'.
    destruct (compile_eqs_sim _ _ _ _ _ _ _ _ vf vf' Hd Hs E1 E1') as (-> & Hs1).
    { eapply pfx_trans. exact P2. eapply pfx_trans; eauto. } { eapply pfx_trans. exact P2'. eapply pfx_trans; eauto. }
    { intros ko n Hin. apply Hok. apply in_or_app. left. exact Hin. }
    destruct (operand_sx_sim _ _ _ _ _ _ _ _ vf vf' Ho Hs1 E2 E2') as (-> & Hs2).
    { eapply pfx_trans; eauto. } { eapply pfx_trans; eauto. }
    { intros n Hn. apply (Hok (k, o) n). apply in_or_app. right. left. reflexivity. exact Hn. }
    assert (Hd' : Forall2 shape_pair (done ++ [(k, o)]) (done' ++ [(k, o')])).
    { apply Forall2_app. exact Hd. constructor. split. reflexivity. exact Ho. constructor. }
    destruct (IH _ _ _ _ _ _ _ _ Hd' Hs2 E3 E3' Hp Hp') as (-> & Hs3).
    { intros ko n Hin. apply Hok. rewrite <- app_assoc in Hin. exact Hin. }
    split. reflexivity. exact Hs3.
Qed.

Lemma limit_sx_sim : forall o vo vo' vo1 vo1' x x' vf vf',
  sim vo vo' -> limit_sx vo o = (vo1, x) -> limit_sx vo' o = (vo1', x') ->
  pfx vo1 vf -> pfx vo1' vf' -> (forall n, o = OVar n -> var_ok vf n /\ var_ok vf' n) ->
  x = x' /\ sim vo1 vo1'.
Proof.
  intros o vo vo' vo1 vo1' x x' vf vf' Hs H H' Hp Hp' Hok. destruct o as [v|n]; cbn [limit_sx] in H, H'.
  - destruct v; injection H as <- <-; injection H' as <- <-; split; try reflexivity; exact Hs.
  - destruct (add_param vo n false) as [a i] eqn:E. destruct (add_param vo' n false) as [a' i'] eqn:E'.
    injection H as <- <-. injection H' as <- <-. destruct (Hok n eq_refl) as [Ho Ho'].
    destruct (add_param_var_sim _ _ _ _ _ _ _ _ _ Hs E E' Hp Hp' Ho Ho') as (-> & Hs1). split. reflexivity. exact Hs1.
Qed.
Lemma limit_sx_pfx : forall vo o vo1 x, limit_sx vo o = (vo1, x) -> pfx vo vo1.
Proof. intros vo o vo1 x H. apply (limit_sx_sem _ _ _ _ H). Qed.

Lemma shape_operand_vars : forall l l', Forall2 shape_operand l l' ->
  flat_map (fun o => match o with OVar n => [n] | _ => [] end) l = flat_map (fun o => match o with OVar n => [n] | _ => [] end) l'.
Proof.
  intros l l' H. induction H as [|o o' l l' Ho Hrest IH]. reflexivity.
  cbn [flat_map]. rewrite IH. f_equal.
  destruct o as [[| | | |]|], o' as [[| | | |]|]; simpl in Ho; try discriminate; try reflexivity; congruence.
Qed.

Lemma shape_vars : forall q q', same_shape q q' -> query_vars q = query_vars q'.
Proof.
  intros q q' (_ & _ & Hf & _ & Hfi & Hsk & Hp). unfold query_vars. apply shape_operand_vars.
  apply Forall2_app.
  - clear -Hf. induction Hf as [|f f' l l' (_ & _ & Hv) Hrest IH]; cbn [map]; constructor; assumption.
  - apply Forall2_app.
    + unfold shape_paging in Hp. destruct (q_paging q), (q_paging q'); try contradiction; cbn [paging_values]; try constructor; exact Hp.
    + rewrite Hfi, Hsk. clear. induction ([q_first q'] ++ match q_skip q' with Some o => [o] | None => [] end) as [|o l IH]; constructor.
      destruct o as [[| | | |]|]; simpl; auto. exact IH.
Qed.

Lemma capture_var_ok : forall m q vf s, compile m q = (vf, s) -> k_capture m q = false -> forall n, In n (query_vars q) -> var_ok vf n.
Proof.
  intros m q vf s Ec K n Hn p Hfm. destruct (fst p) eqn:E; [exfalso | reflexivity].
  unfold k_capture in K. rewrite Ec in K. cbn [fst] in K.
  assert (Hex : existsb (fun n0 => match find (fun p0 : pentry => str_eqb n0 (snd p0)) vf with Some p0 => fst p0 | None => false end) (query_vars q) = true).
  { apply existsb_exists. exists n. split. exact Hn. unfold fm in Hfm. rewrite Hfm. exact E. }
  congruence.
Qed.

Lemma in_vars : forall (l : list operand) o n, In o l -> o = OVar n ->
  In n (flat_map (fun o => match o with OVar n => [n] | _ => [] end) l).
Proof. intros l o n Hin ->. apply in_flat_map. exists (OVar n). split. exact Hin. left. reflexivity. Qed.

Theorem nostructure_stmt : forall m q q',
  same_shape q q' -> k_capture m q = false -> k_capture m q' = false ->
  snd (compile m q) = snd (compile m q').
Proof.
  intros m q q' Hsh K K'. pose proof (shape_vars q q' Hsh) as Hvars.
  destruct Hsh as (Hal & Hsel & Hfl & Hord & Hfi & Hsk & Hpg).
  destruct (compile m q) as [vf s] eqn:Ec. destruct (compile m q') as [vf' s'] eqn:Ec'. cbn [snd].
  pose proof (capture_var_ok m q vf s Ec K) as Hok. pose proof (capture_var_ok m q' vf' s' Ec' K') as Hok'. rewrite <- Hvars in Hok'.
  unfold compile in Ec, Ec'. rewrite <- Hsel in Ec'.
  destruct (compile_sel m [] (q_sel q)) as [vo1 sel] eqn:E1.
  destruct (compile_filters m q vo1 (q_filters q)) as [vo2 fs] eqn:E2.
  destruct (compile_filters m q' vo1 (q_filters q')) as [vo2' fs'] eqn:E2'.
  destruct (compile_disjs (is_before (q_paging q)) vo2 [] (combine (q_order q) (paging_values (q_paging q)))) as [vo3 pg] eqn:E3.
  destruct (compile_disjs (is_before (q_paging q')) vo2' [] (combine (q_order q') (paging_values (q_paging q')))) as [vo3' pg'] eqn:E3'.
  destruct (compile_limit vo3 q) as [[vo4 lim] off] eqn:E4. destruct (compile_limit vo3' q') as [[vo4' lim'] off'] eqn:E4'.
  injection Ec as <- <-. injection Ec' as <- <-.
  (* prefixes *)
  pose proof (compile_disjs_pfx _ _ _ _ _ _ E3) as P3. pose proof (compile_disjs_pfx _ _ _ _ _ _ E3') as P3'.
  assert (P4 : pfx vo3 vo4). { unfold compile_limit in E4. destruct (limit_sx vo3 (q_first q)) as [a l1] eqn:A.
    pose proof (limit_sx_pfx _ _ _ _ A). destruct (q_skip q). destruct (limit_sx a o) as [b l2] eqn:B. injection E4 as <- _ _.
    eapply pfx_trans; eauto. eapply limit_sx_pfx; eauto. injection E4 as <- _ _. assumption. }
  assert (P4' : pfx vo3' vo4'). { unfold compile_limit in E4'. destruct (limit_sx vo3' (q_first q')) as [a l1] eqn:A.
    pose proof (limit_sx_pfx _ _ _ _ A). destruct (q_skip q'). destruct (limit_sx a o) as [b l2] eqn:B. injection E4' as <- _ _.
    eapply pfx_trans; eauto. eapply limit_sx_pfx; eauto. injection E4' as <- _ _. assumption. }
  (* filters *)
  destruct (compile_filters_sim m q q' _ _ _ _ _ _ _ _ vo4 vo4' Hsel Hfl (sim_refl vo1) E2 E2') as (-> & S2).
  { eapply pfx_trans; eauto. } { eapply pfx_trans; eauto. }
  { intros f n Hin Hv. assert (Hn : In n (query_vars q)).
    { unfold query_vars. eapply in_vars; [|exact Hv]. apply in_or_app. left. apply in_map. exact Hin. }
    split; [apply Hok | apply Hok']; exact Hn. }
  (* paging *)
  assert (Hbefore : is_before (q_paging q) = is_before (q_paging q')).
  { unfold shape_paging in Hpg. destruct (q_paging q), (q_paging q'); try contradiction; reflexivity. }
  assert (Hpairs : Forall2 shape_pair (combine (q_order q) (paging_values (q_paging q))) (combine (q_order q') (paging_values (q_paging q')))).
  { rewrite <- Hord.
    assert (Hvals : Forall2 shape_operand (paging_values (q_paging q)) (paging_values (q_paging q'))).
    { unfold shape_paging in Hpg. destruct (q_paging q), (q_paging q'); try contradiction; cbn [paging_values]; try constructor; exact Hpg. }
    clear -Hvals. revert Hvals. generalize (paging_values (q_paging q)) (paging_values (q_paging q')) (q_order q).
    intros l l' ord H. revert ord. induction H as [|o o' l l' Ho Hrest IH]; intros ord; destruct ord as [|k ord]; cbn [combine]; try constructor.
    split. reflexivity. exact Ho. apply IH. }
  rewrite <- Hbefore in E3'.
  destruct (compile_disjs_sim _ _ _ _ _ _ _ _ _ _ _ vo4 vo4' Hpairs (Forall2_nil _) S2 E3 E3' P4 P4') as (-> & S3).
  { intros ko n Hin Hv. cbn [app] in Hin. assert (Hn : In n (query_vars q)).
    { unfold query_vars. eapply in_vars; [|exact Hv]. apply in_or_app. right. apply in_or_app. left.
      destruct ko as [k o]. eapply in_combine_r. exact Hin. }
    split; [apply Hok | apply Hok']; exact Hn. }
  (* first / skip *)
  unfold compile_limit in E4, E4'. rewrite <- Hfi, <- Hsk in E4'.
  destruct (limit_sx vo3 (q_first q)) as [a l1] eqn:A. destruct (limit_sx vo3' (q_first q)) as [a' l1'] eqn:A'.
  assert (Hfirst : l1 = l1' /\ sim a a').
  { apply (limit_sx_sim (q_first q) vo3 vo3' a a' l1 l1' vo4 vo4' S3 A A').
    - destruct (q_skip q). destruct (limit_sx a o) as [b l2] eqn:B. injection E4 as <- _ _. eapply limit_sx_pfx; eauto. injection E4 as <- _ _. apply pfx_refl.
    - destruct (q_skip q). destruct (limit_sx a' o) as [b l2] eqn:B. injection E4' as <- _ _. eapply limit_sx_pfx; eauto. injection E4' as <- _ _. apply pfx_refl.
    - intros n Hn. assert (Hin : In n (query_vars q)).
      { unfold query_vars. eapply in_vars; [|exact Hn]. apply in_or_app. right. apply in_or_app. right. apply in_or_app. left. left. reflexivity. }
      split; [apply Hok | apply Hok']; exact Hin. }
  destruct Hfirst as [-> S4].
  destruct (q_skip q) as [so|] eqn:Esk.
  - destruct (limit_sx a so) as [b l2] eqn:B. destruct (limit_sx a' so) as [b' l2'] eqn:B'.
    injection E4 as <- <- <-. injection E4' as <- <- <-.
    destruct (limit_sx_sim so a a' _ _ _ _ _ _ S4 B B' (pfx_refl _) (pfx_refl _)) as (-> & _).
    { intros n Hn. assert (Hin : In n (query_vars q)).
      { unfold query_vars. rewrite Esk. eapply in_vars; [|exact Hn]. apply in_or_app. right. apply in_or_app. right. apply in_or_app. right. left. reflexivity. }
      split; [apply Hok | apply Hok']; exact Hin. }
    unfold sql_aliased_name. rewrite Hal, Hord. reflexivity.
  - injection E4 as <- <- <-. injection E4' as <- <- <-.
    unfold sql_aliased_name. rewrite Hal, Hord. reflexivity.
Qed.

(* the SQL text does not depend on the characters of the String literals of the query *)
Theorem nostructure : forall m q q',
  same_shape q q' -> k_capture m q = false -> k_capture m q' = false -> sql_text m q = sql_text m q'.
Proof. intros m q q' H K K'. unfold sql_text. rewrite (nostructure_stmt m q q' H K K'). reflexivity. Qed.

(* in particular for the neutral version used by the harness *)
Lemma neutral_same_shape : forall q, same_shape q (neutral_query q).
Proof.
  intros q. unfold same_shape, neutral_query. cbn [q_alias q_sel q_filters q_order q_first q_skip q_paging].
  repeat split.
  - induction (q_filters q) as [|f l IH]; cbn [map]; constructor. 2: exact IH.
    unfold shape_filter. cbn [fl_ref fl_op fl_val]. repeat split. destruct (fl_val f) as [[| | | |]|]; simpl; auto.
  - assert (H : forall vs, Forall2 shape_operand vs (map neutral_operand vs)).
    { induction vs as [|o vs IH]; cbn [map]; constructor. destruct o as [[| | | |]|]; simpl; auto. exact IH. }
    destruct (q_paging q); simpl; auto.
Qed.

Theorem shape_spec : forall m q, known_C04 (CShape m q) = [] -> spec_C04 (CShape m q) (run_C04 (CShape m q)) = true.
Proof.
  intros m q Hk. cbn [known_C04] in Hk. unfold cls in Hk.
  destruct (k_capture m q || k_capture m (neutral_query q)) eqn:E; try discriminate.
  apply orb_false_elim in E. destruct E as [K K'].
  cbn [spec_C04 run_C04]. rewrite (nostructure m q (neutral_query q) (neutral_same_shape q) K K'), str_eqb_refl. reflexivity.
Qed.

(* integers, floats, booleans: the model is the identity, the oracle asks for the identity *)
Lemma zlist_eqb_refl : forall l, zlist_eqb l l = true.
Proof. induction l as [|x l IH]. reflexivity. unfold zlist_eqb in *. cbn [list_eqb]. rewrite Z.eqb_refl, IH. reflexivity. Qed.
Theorem scalars_spec : forall c,
  match c with CInt _ _ | CBool _ _ => True | CFlt _ b tb de => b = tb /\ de = true | _ => False end ->
  spec_C04 c (run_C04 c) = true.
Proof.
  intros c H. destruct c; try contradiction; cbn [spec_C04 run_C04].
  - apply zlist_eqb_refl.
  - destruct H as [-> ->]. rewrite Z.eqb_refl. destruct h; apply zlist_eqb_refl.
  - apply zlist_eqb_refl.
Qed.

(* the unrestricted property does not hold of the faithful model *)
Definition C04_full : Prop :=
  forall c, match c with
            | CStr h w => intended h w <> None
            | CFlt _ b tb _ => b = tb
            | _ => True
            end -> spec_C04 c (run_C04 c) = true.
