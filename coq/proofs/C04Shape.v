(* C04Shape.v — non-interference of the SQL text: the statement compiled for a query does not depend on the
   characters of its String literals (they travel as bound parameters only), provided no variable is captured
   by a literal (class 3). *)
From DV Require Import Codec Sql Run_C04 C05Order C05Sql.
Open Scope list_scope.

Definition shape_operand (o o' : operand) : Prop :=
  match o, o' with
  | OLit (VStr _), OLit (VStr _) => True
  | _, _ => o = o'
  end.
Definition shape_filter (f f' : qfilter) : Prop :=
  fl_ref f = fl_ref f' /\ fl_op f = fl_op f' /\ shape_operand (fl_val f) (fl_val f').
Definition shape_paging (p p' : paging) : Prop :=
  match p, p' with
  | PNone, PNone => True
  | PAfter vs, PAfter vs' => Forall2 shape_operand vs vs'
  | PBefore vs, PBefore vs' => Forall2 shape_operand vs vs'
  | _, _ => False
  end.
Definition same_shape (q q' : query) : Prop :=
  q_alias q = q_alias q' /\ q_sel q = q_sel q' /\ Forall2 shape_filter (q_filters q) (q_filters q') /\
  q_order q = q_order q' /\ q_first q = q_first q' /\ q_skip q = q_skip q' /\ shape_paging (q_paging q) (q_paging q').

(* two parameter lists that differ only in the text of internal (literal) entries *)
Definition sim (vo vo' : list pentry) : Prop :=
  Forall2 (fun p p' : pentry => fst p = fst p' /\ (fst p = false -> snd p = snd p')) vo vo'.

Lemma sim_refl : forall vo, sim vo vo.
Proof. induction vo; constructor; auto. Qed.
Lemma sim_length : forall vo vo', sim vo vo' -> List.length vo = List.length vo'.
Proof. intros vo vo' H. induction H; simpl; congruence. Qed.
Lemma sim_app : forall a a' b b', sim a a' -> sim b b' -> sim (a ++ b) (a' ++ b').
Proof. intros. apply Forall2_app; assumption. Qed.

Lemma find_param_sim : forall n vo vo' k, sim vo vo' ->
  (forall p, fm n vo = Some p -> fst p = false) -> (forall p, fm n vo' = Some p -> fst p = false) ->
  find_param n vo k = find_param n vo' k.
Proof.
  intros n vo vo' k H. revert k. induction H as [|p p' t t' (Hf & Hs) Hrest IH]; intros k H1 H2. reflexivity.
  cbn [find_param]. unfold fm in H1, H2. cbn [find] in H1, H2.
  destruct (str_eqb n (snd p)) eqn:E; destruct (str_eqb n (snd p')) eqn:E'.
  - reflexivity.
  - specialize (H1 p eq_refl). rewrite <- (Hs H1), E in E'. discriminate.
  - specialize (H2 p' eq_refl). rewrite <- Hf in H2. rewrite (Hs H2), E' in E. discriminate.
  - apply IH; assumption.
Qed.

Lemma add_param_var_sim : forall n vo vo' vo1 vo1' i i' vf vf',
  sim vo vo' -> add_param vo n false = (vo1, i) -> add_param vo' n false = (vo1', i') ->
  pfx vo1 vf -> pfx vo1' vf' -> var_ok vf n -> var_ok vf' n ->
  i = i' /\ sim vo1 vo1'.
Proof.
  intros n vo vo' vo1 vo1' i i' vf vf' Hs H H' Hp Hp' Hok Hok'. unfold add_param in H, H'.
  assert (Hpv : pfx vo vf).
  { destruct (find_param n vo 0); injection H as <- _. exact Hp. eapply pfx_trans; [apply pfx_app | exact Hp]. }
  assert (Hpv' : pfx vo' vf').
  { destruct (find_param n vo' 0); injection H' as <- _. exact Hp'. eapply pfx_trans; [apply pfx_app | exact Hp']. }
  assert (Hfind : find_param n vo 0 = find_param n vo' 0).
  { apply find_param_sim. exact Hs.
    - intros p Hfm. apply Hok. destruct Hpv as [t ->]. apply fm_app_some. exact Hfm.
    - intros p Hfm. apply Hok'. destruct Hpv' as [t ->]. apply fm_app_some. exact Hfm. }
  rewrite <- Hfind in H'. destruct (find_param n vo 0).
  - injection H as <- <-. injection H' as <- <-. split. reflexivity. exact Hs.
  - injection H as <- <-. injection H' as <- <-. split. rewrite (sim_length _ _ Hs). reflexivity.
    apply sim_app. exact Hs. constructor. split; auto. constructor.
Qed.

Lemma add_param_int_sim : forall s s' vo vo' vo1 vo1' i i',
  sim vo vo' -> add_param vo s true = (vo1, i) -> add_param vo' s' true = (vo1', i') -> i = i' /\ sim vo1 vo1' /\ pfx vo vo1 /\ pfx vo' vo1'.
Proof.
  intros s s' vo vo' vo1 vo1' i i' Hs H H'. unfold add_param in H, H'. injection H as <- <-. injection H' as <- <-.
  split. rewrite (sim_length _ _ Hs). reflexivity. split. apply sim_app. exact Hs. constructor. split. reflexivity. intros Hc. discriminate. constructor.
  split; apply pfx_app.
Qed.

Lemma add_param_pfx : forall vo v i vo1 k, add_param vo v i = (vo1, k) -> pfx vo vo1.
Proof.
  intros vo v i vo1 k H. unfold add_param in H. destruct i. injection H as <- _. apply pfx_app.
  destruct (find_param v vo 0); injection H as <- _. apply pfx_refl. apply pfx_app.
Qed.
Lemma operand_sx_pfx : forall vo o vo1 x, operand_sx vo o = (vo1, x) -> pfx vo vo1.
Proof. intros vo o vo1 x H. apply (operand_sx_sem _ _ _ _ H). Qed.

Lemma operand_sx_sim : forall o o' vo vo' vo1 vo1' x x' vf vf',
  shape_operand o o' -> sim vo vo' ->
  operand_sx vo o = (vo1, x) -> operand_sx vo' o' = (vo1', x') ->
  pfx vo1 vf -> pfx vo1' vf' ->
  (forall n, o = OVar n -> var_ok vf n /\ var_ok vf' n) ->
  x = x' /\ sim vo1 vo1'.
Proof.
  intros o o' vo vo' vo1 vo1' x x' vf vf' Hsh Hs H H' Hp Hp' Hok.
  destruct o as [v|n].
  - destruct v as [|b|z|q|s].
    1-4: (simpl in Hsh; subst o'; cbn [operand_sx] in H, H'; injection H as <- <-; injection H' as <- <-; split; [reflexivity | exact Hs]).
    destruct o' as [v'|n']; simpl in Hsh; try discriminate. destruct v'; try discriminate.
    cbn [operand_sx] in H, H'.
    destruct (add_param vo s true) as [a i] eqn:E. destruct (add_param vo' s0 true) as [a' i'] eqn:E'.
    injection H as <- <-. injection H' as <- <-.
    destruct (add_param_int_sim _ _ _ _ _ _ _ _ Hs E E') as (-> & Hs1 & _). split. reflexivity. exact Hs1.
  - simpl in Hsh. subst o'. cbn [operand_sx] in H, H'.
    destruct (add_param vo n false) as [a i] eqn:E. destruct (add_param vo' n false) as [a' i'] eqn:E'.
    injection H as <- <-. injection H' as <- <-. destruct (Hok n eq_refl) as [Ho Ho'].
    destruct (add_param_var_sim _ _ _ _ _ _ _ _ _ Hs E E' Hp Hp' Ho Ho') as (-> & Hs1). split. reflexivity. exact Hs1.
Qed.

Lemma compile_filters_pfx : forall m q fs vo vo2 sfs, compile_filters m q vo fs = (vo2, sfs) -> pfx vo vo2.
Proof. intros m q fs vo vo2 sfs H. apply (compile_filters_shape _ _ _ _ _ _ H). Qed.
Lemma compile_eqs_pfx : forall kvs vo vo2 eqs, compile_eqs vo kvs = (vo2, eqs) -> pfx vo vo2.
Proof. intros kvs vo vo2 eqs H. apply (compile_eqs_sem _ _ _ _ H). Qed.
Lemma compile_disjs_pfx : forall before todo vo done vo2 ds, compile_disjs before vo done todo = (vo2, ds) -> pfx vo vo2.
Proof. intros before todo vo done vo2 ds H. apply (compile_disjs_sem _ _ _ _ _ _ H). Qed.

Lemma filter_sop_shape : forall f f', shape_filter f f' ->
  match fl_val f, fl_op f with OLit VNull, OEq => SIs | OLit VNull, ONe => SIsNot | _, op => SCmp op end =
  match fl_val f', fl_op f' with OLit VNull, OEq => SIs | OLit VNull, ONe => SIsNot | _, op => SCmp op end.
Proof.
  intros f f' (_ & Hop & Hv). rewrite <- Hop. destruct (fl_val f) as [[| | | |]|], (fl_val f') as [[| | | |]|]; simpl in Hv; try discriminate; try reflexivity.
Qed.

Lemma compile_filters_sim : forall m q q' fs fs' vo vo' vo2 vo2' sfs sfs' vf vf',
  q_sel q = q_sel q' -> Forall2 shape_filter fs fs' -> sim vo vo' ->
  compile_filters m q vo fs = (vo2, sfs) -> compile_filters m q' vo' fs' = (vo2', sfs') ->
  pfx vo2 vf -> pfx vo2' vf' ->
  (forall f n, In f fs -> fl_val f = OVar n -> var_ok vf n /\ var_ok vf' n) ->
  sfs = sfs' /\ sim vo2 vo2'.
Proof.
  intros m q q' fs fs' vo vo' vo2 vo2' sfs sfs' vf vf' Hsel HF. revert vo vo' vo2 vo2' sfs sfs'.
  induction HF as [|f f' fs fs' Hff Hrest IH]; intros vo vo' vo2 vo2' sfs sfs' Hs H H' Hp Hp' Hok; cbn [compile_filters] in H, H'.
  - injection H as <- <-. injection H' as <- <-. split. reflexivity. exact Hs.
  - destruct (operand_sx vo (fl_val f)) as [vo1 xv] eqn:E1. destruct (compile_filters m q vo1 fs) as [vo3 rest] eqn:E2.
    destruct (operand_sx vo' (fl_val f')) as [vo1' xv'] eqn:E1'. destruct (compile_filters m q' vo1' fs') as [vo3' rest'] eqn:E2'.
    injection H as <- <-. injection H' as <- <-.
    pose proof (compile_filters_pfx _ _ _ _ _ _ E2) as P2. pose proof (compile_filters_pfx _ _ _ _ _ _ E2') as P2'.
    destruct Hff as (Hr & Hop & Hv).
    destruct (operand_sx_sim _ _ _ _ _ _ _ _ vf vf' Hv Hs E1 E1') as (-> & Hs1).
    { eapply pfx_trans; eauto. } { eapply pfx_trans; eauto. }
    { intros n Hn. apply (Hok f n). left. reflexivity. exact Hn. }
    destruct (IH _ _ _ _ _ _ Hs1 E2 E2' Hp Hp') as (-> & Hs2).
    { intros f0 n Hin. apply Hok. right. exact Hin. }
    split; [|exact Hs2]. f_equal.
    rewrite (filter_sop_shape f f' (conj Hr (conj Hop Hv))). rewrite <- Hr.
    assert (Hrf : ref_field q (fl_ref f) = ref_field q' (fl_ref f)) by (unfold ref_field; rewrite Hsel; reflexivity).
    rewrite Hrf. reflexivity.
Qed.

Definition shape_pair (ko ko' : okey * operand) : Prop := fst ko = fst ko' /\ shape_operand (snd ko) (snd ko').

Lemma compile_eqs_sim : forall kvs kvs' vo vo' vo2 vo2' eqs eqs' vf vf',
  Forall2 shape_pair kvs kvs' -> sim vo vo' ->
  compile_eqs vo kvs = (vo2, eqs) -> compile_eqs vo' kvs' = (vo2', eqs') ->
  pfx vo2 vf -> pfx vo2' vf' ->
  (forall ko n, In ko kvs -> snd ko = OVar n -> var_ok vf n /\ var_ok vf' n) ->
  eqs = eqs' /\ sim vo2 vo2'.
Proof.
  intros kvs kvs' vo vo' vo2 vo2' eqs eqs' vf vf' HF. revert vo vo' vo2 vo2' eqs eqs'.
  induction HF as [|[k o] [k' o'] t t' (Hk & Ho) Hrest IH]; intros vo vo' vo2 vo2' eqs eqs' Hs H H' Hp Hp' Hok; cbn [compile_eqs] in H, H'.
  - injection H as <- <-. injection H' as <- <-. split. reflexivity. exact Hs.
  - simpl in Hk, Ho. subst k'.
    destruct (operand_sx vo o) as [vo1 v] eqn:E1. destruct (compile_eqs vo1 t) as [vo3 rest] eqn:E2.
    destruct (operand_sx vo' o') as [vo1' v'] eqn:E1'. destruct (compile_eqs vo1' t') as [vo3' rest'] eqn:E2'.
    injection H as <- <-. injection H' as <- <-.
    pose proof (compile_eqs_pfx _ _ _ _ E2) as P2. pose proof (compile_eqs_pfx _ _ _ _ E2') as P2'.
    destruct (operand_sx_sim _ _ _ _ _ _ _ _ vf vf' Ho Hs E1 E1') as (-> & Hs1).
    { eapply pfx_trans; eauto. } { eapply pfx_trans; eauto. }
    { intros n Hn. apply (Hok (k, o) n). left. reflexivity. exact Hn. }
    destruct (IH _ _ _ _ _ _ Hs1 E2 E2' Hp Hp') as (-> & Hs2).
    { intros ko n Hin. apply Hok. right. exact Hin. }
    split. reflexivity. exact Hs2.
Qed.

Lemma compile_disjs_sim : forall before todo todo' vo vo' done done' vo2 vo2' ds ds' vf vf',
  Forall2 shape_pair todo todo' -> Forall2 shape_pair done done' -> sim vo vo' ->
  compile_disjs before vo done todo = (vo2, ds) -> compile_disjs before vo' done' todo' = (vo2', ds') ->
  pfx vo2 vf -> pfx vo2' vf' ->
  (forall ko n, In ko (done ++ todo) -> snd ko = OVar n -> var_ok vf n /\ var_ok vf' n) ->
  ds = ds' /\ sim vo2 vo2'.
Proof.
  intros before todo todo' vo vo' done done' vo2 vo2' ds ds' vf vf' HF. revert vo vo' done done' vo2 vo2' ds ds'.
  induction HF as [|[k o] [k' o'] t t' (Hk & Ho) Hrest IH]; intros vo vo' done done' vo2 vo2' ds ds' Hd Hs H H' Hp Hp' Hok; cbn [compile_disjs] in H, H'.
  - injection H as <- <-. injection H' as <- <-. split. reflexivity. exact Hs.
  - simpl in Hk, Ho. subst k'.
    destruct (compile_eqs vo done) as [vo1 eqs] eqn:E1. destruct (operand_sx vo1 o) as [vo3 v] eqn:E2.
    destruct (compile_disjs before vo3 (done ++ [(k, o)]) t) as [vo4 rest] eqn:E3.
    destruct (compile_eqs vo' done') as [vo1' eqs'] eqn:E1'. destruct (operand_sx vo1' o') as [vo3' v'] eqn:E2'.
    destruct (compile_disjs before vo3' (done' ++ [(k, o')]) t') as [vo4' rest'] eqn:E3'.
    injection H as <- <-. injection H' as <- <-.
    pose proof (operand_sx_pfx _ _ _ _ E2) as P2. pose proof (operand_sx_pfx _ _ _ _ E2') as P2'.
    pose proof (compile_disjs_pfx _ _ _ _ _ _ E3) as P3. pose proof (compile_disjs_pfx _ _ _ _ _ _ E3') as P3'.
    destruct (compile_eqs_sim _ _ _ _ _ _ _ _ vf vf' Hd Hs E1 E1') as (-> & Hs1).
    { eapply pfx_trans. exact P2. eapply pfx_trans; eauto. } { eapply pfx_trans. exact P2'. eapply pfx_trans; eauto. }
    { intros ko n Hin. apply Hok. apply in_or_app. left. exact Hin. }
    destruct (operand_sx_sim _ _ _ _ _ _ _ _ vf vf' Ho Hs1 E2 E2') as (-> & Hs2).
    { eapply pfx_trans; eauto. } { eapply pfx_trans; eauto. }
    { intros n Hn. apply (Hok (k, o) n). apply in_or_app. right. left. reflexivity. exact Hn. }
    destruct (IH _ _ _ _ _ _ _ _ (Forall2_app Hd (Forall2_cons _ _ (conj eq_refl Ho) (Forall2_nil _))) Hs2 E3 E3' Hp Hp') as (-> & Hs3).
    { intros ko n Hin. apply Hok. rewrite <- app_assoc in Hin. exact Hin. }
    split. reflexivity. exact Hs3.
Qed.

Lemma limit_sx_sim : forall o vo vo' vo1 vo1' x x' vf vf',
  sim vo vo' -> limit_sx vo o = (vo1, x) -> limit_sx vo' o = (vo1', x') ->
  pfx vo1 vf -> pfx vo1' vf' -> (forall n, o = OVar n -> var_ok vf n /\ var_ok vf' n) ->
  x = x' /\ sim vo1 vo1'.
Proof.
  intros o vo vo' vo1 vo1' x x' vf vf' Hs H H' Hp Hp' Hok. destruct o as [v|n]; cbn [limit_sx] in H, H'.
  - destruct v; injection H as <- <-; injection H' as <- <-; split; try reflexivity; exact Hs.
  - destruct (add_param vo n false) as [a i] eqn:E. destruct (add_param vo' n false) as [a' i'] eqn:E'.
    injection H as <- <-. injection H' as <- <-. destruct (Hok n eq_refl) as [Ho Ho'].
    destruct (add_param_var_sim _ _ _ _ _ _ _ _ _ Hs E E' Hp Hp' Ho Ho') as (-> & Hs1). split. reflexivity. exact Hs1.
Qed.
Lemma limit_sx_pfx : forall vo o vo1 x, limit_sx vo o = (vo1, x) -> pfx vo vo1.
Proof. intros vo o vo1 x H. apply (limit_sx_sem _ _ _ _ H). Qed.
