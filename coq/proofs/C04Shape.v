(* C04Shape.v — non-interference of the SQL text: the statement compiled for a query depends neither on the
   characters of the query's String literals nor on the characters of the model's String default values — they
   all travel as bound parameters (query.rs after e64e320 and 936f709). *)
From DV Require Import Codec Sql Run_C04 C05Order C05Sql.
Open Scope list_scope.

Definition shape_operand (o o' : operand) : Prop :=
  match o, o' with
  | OLit (VStr _), OLit (VStr _) => True
  | _, _ => o = o'
  end.
Definition shape_filter (f f' : qfilter) : Prop :=
  fl_ref f = fl_ref f' /\ fl_op f = fl_op f' /\ shape_operand (fl_val f) (fl_val f').
Definition shape_paging (p p' : paging) : Prop :=
  match p, p' with
  | PNone, PNone => True
  | PAfter vs, PAfter vs' => Forall2 shape_operand vs vs'
  | PBefore vs, PBefore vs' => Forall2 shape_operand vs vs'
  | _, _ => False
  end.
Definition same_shape (q q' : query) : Prop :=
  q_alias q = q_alias q' /\ q_sel q = q_sel q' /\ Forall2 shape_filter (q_filters q) (q_filters q') /\
  q_order q = q_order q' /\ q_first q = q_first q' /\ q_skip q = q_skip q' /\ shape_paging (q_paging q) (q_paging q').

(* two models that differ only in the text of String defaults *)
Definition shape_default (d d' : option val) : Prop :=
  match d, d' with
  | Some (VStr _), Some (VStr _) => True
  | _, _ => d = d'
  end.
Definition shape_field (fd fd' : fdef) : Prop :=
  fd_name fd = fd_name fd' /\ fd_short fd = fd_short fd' /\ fd_type fd = fd_type fd' /\ fd_nullable fd = fd_nullable fd' /\
  shape_default (fd_default fd) (fd_default fd').
Definition same_model_up_to_string_defaults (m m' : emodel) : Prop :=
  em_name m = em_name m' /\ em_short m = em_short m' /\ Forall2 shape_field (em_fields m) (em_fields m').

(* two parameter lists that differ only in the text of internal (literal / default) entries *)
Definition sim (vo vo' : list pentry) : Prop :=
  Forall2 (fun p p' : pentry => fst p = fst p' /\ (fst p = false -> snd p = snd p')) vo vo'.

Lemma sim_refl : forall vo, sim vo vo.
Proof. induction vo; constructor; auto. Qed.
Lemma sim_length : forall vo vo', sim vo vo' -> List.length vo = List.length vo'.
Proof. intros vo vo' H. induction H; simpl; congruence. Qed.
Lemma sim_app : forall a a' b b', sim a a' -> sim b b' -> sim (a ++ b) (a' ++ b').
Proof. intros. apply Forall2_app; assumption. Qed.

(* the slot of a variable is found among the variables only: literals play no role *)
Lemma find_param_sim : forall n vo vo' k, sim vo vo' -> find_param n vo k = find_param n vo' k.
Proof.
  intros n vo vo' k H. revert k. induction H as [|p p' t t' (Hf & Hs) Hrest IH]; intros k. reflexivity.
  cbn [find_param]. rewrite <- Hf. destruct (fst p) eqn:E; cbn [negb andb].
  - apply IH.
  - rewrite <- (Hs eq_refl). destruct (str_eqb n (snd p)). reflexivity. apply IH.
Qed.

Lemma add_param_var_sim : forall n vo vo' vo1 vo1' i i',
  sim vo vo' -> add_param vo n false = (vo1, i) -> add_param vo' n false = (vo1', i') -> i = i' /\ sim vo1 vo1'.
Proof.
  intros n vo vo' vo1 vo1' i i' Hs H H'. unfold add_param in H, H'. rewrite <- (find_param_sim n vo vo' 0 Hs) in H'.
  destruct (find_param n vo 0).
  - injection H as <- <-. injection H' as <- <-. split. reflexivity. exact Hs.
  - injection H as <- <-. injection H' as <- <-. split. rewrite (sim_length _ _ Hs). reflexivity.
    apply sim_app. exact Hs. constructor. split; auto. constructor.
Qed.

Lemma add_param_int_sim : forall s s' vo vo' vo1 vo1' i i',
  sim vo vo' -> add_param vo s true = (vo1, i) -> add_param vo' s' true = (vo1', i') -> i = i' /\ sim vo1 vo1'.
Proof.
  intros s s' vo vo' vo1 vo1' i i' Hs H H'. unfold add_param in H, H'. injection H as <- <-. injection H' as <- <-.
  split. rewrite (sim_length _ _ Hs). reflexivity. apply sim_app. exact Hs. constructor. split. reflexivity. intros Hc. discriminate. constructor.
Qed.

Lemma operand_sx_sim : forall o o' vo vo' vo1 vo1' x x',
  shape_operand o o' -> sim vo vo' -> operand_sx vo o = (vo1, x) -> operand_sx vo' o' = (vo1', x') -> x = x' /\ sim vo1 vo1'.
Proof.
  intros o o' vo vo' vo1 vo1' x x' Hsh Hs H H'.
  destruct o as [v|n].
  - destruct v as [|b|z|q|s].
    1-4: (simpl in Hsh; subst o'; cbn [operand_sx] in H, H'; injection H as <- <-; injection H' as <- <-; split; [reflexivity | exact Hs]).
    destruct o' as [v'|n']; simpl in Hsh; try discriminate. destruct v'; try discriminate.
    cbn [operand_sx] in H, H'.
    destruct (add_param vo s true) as [a i] eqn:E. destruct (add_param vo' s0 true) as [a' i'] eqn:E'.
    injection H as <- <-. injection H' as <- <-.
    destruct (add_param_int_sim _ _ _ _ _ _ _ _ Hs E E') as (-> & Hs1). split. reflexivity. exact Hs1.
  - simpl in Hsh. subst o'. cbn [operand_sx] in H, H'.
    destruct (add_param vo n false) as [a i] eqn:E. destruct (add_param vo' n false) as [a' i'] eqn:E'.
    injection H as <- <-. injection H' as <- <-.
    destruct (add_param_var_sim _ _ _ _ _ _ _ Hs E E') as (-> & Hs1). split. reflexivity. exact Hs1.
Qed.

Definition shape_val (d d' : val) : Prop := match d, d' with VStr _, VStr _ => True | _, _ => d = d' end.

Lemma default_sx_sim : forall d d' vo vo' vo1 vo1' x x',
  shape_val d d' -> sim vo vo' -> default_sx vo d = (vo1, x) -> default_sx vo' d' = (vo1', x') -> x = x' /\ sim vo1 vo1'.
Proof.
  intros d d' vo vo' vo1 vo1' x x' Hsh Hs H H'.
  destruct d as [|b|z|q|s].
  1-4: (simpl in Hsh; subst d'; cbn [default_sx] in H, H'; injection H as <- <-; injection H' as <- <-; split; [reflexivity | exact Hs]).
  destruct d'; simpl in Hsh; try discriminate. cbn [default_sx] in H, H'.
  destruct (add_param vo s true) as [a i] eqn:E. destruct (add_param vo' s0 true) as [a' i'] eqn:E'.
  injection H as <- <-. injection H' as <- <-.
  destruct (add_param_int_sim _ _ _ _ _ _ _ _ Hs E E') as (-> & Hs1). split. reflexivity. exact Hs1.
Qed.

(* ---------- the model ---------- *)
Lemma field_def_shape : forall m m' i, same_model_up_to_string_defaults m m' ->
  match field_def m i, field_def m' i with
  | Some a, Some b => shape_field a b
  | None, None => True
  | _, _ => False
  end.
Proof.
  intros m m' i (_ & _ & H). unfold field_def. revert i. induction H as [|a b l l' Hab Hrest IH]; intros i; destruct i; simpl; auto.
  apply IH.
Qed.

Lemma default_shape : forall m m' i, same_model_up_to_string_defaults m m' ->
  shape_default (match field_def m i with Some fd => fd_default fd | None => None end)
                (match field_def m' i with Some fd => fd_default fd | None => None end).
Proof.
  intros m m' i H. pose proof (field_def_shape m m' i H) as Hf.
  destruct (field_def m i), (field_def m' i); try contradiction. apply Hf. reflexivity.
Qed.

Lemma sel_name_shape : forall m m' sf, same_model_up_to_string_defaults m m' -> sel_name m sf = sel_name m' sf.
Proof.
  intros m m' sf H. unfold sel_name. destruct (sf_alias sf). reflexivity.
  pose proof (field_def_shape m m' (sf_field sf) H) as Hf.
  destruct (field_def m (sf_field sf)), (field_def m' (sf_field sf)); try contradiction. apply Hf. reflexivity.
Qed.

Lemma field_short_shape : forall m m' i, same_model_up_to_string_defaults m m' -> field_short m i = field_short m' i.
Proof.
  intros m m' i H. unfold field_short. pose proof (field_def_shape m m' i H) as Hf.
  destruct (field_def m i), (field_def m' i); try contradiction. apply Hf. reflexivity.
Qed.

Lemma compile_sel_sim : forall m m' sel vo vo' vo1 vo1' ss ss',
  same_model_up_to_string_defaults m m' -> sim vo vo' ->
  compile_sel m vo sel = (vo1, ss) -> compile_sel m' vo' sel = (vo1', ss') -> ss = ss' /\ sim vo1 vo1'.
Proof.
  intros m m' sel. induction sel as [|sf t IH]; intros vo vo' vo1 vo1' ss ss' Hm Hs H H'; cbn [compile_sel] in H, H'.
  - injection H as <- <-. injection H' as <- <-. split. reflexivity. exact Hs.
  - pose proof (default_shape m m' (sf_field sf) Hm) as Hd. rewrite (sel_name_shape m m' sf Hm) in H.
    destruct (match field_def m (sf_field sf) with Some fd => fd_default fd | None => None end) as [d|];
    destruct (match field_def m' (sf_field sf) with Some fd => fd_default fd | None => None end) as [d'|].
    + destruct d as [|b|z|x|s].
      1-4: (simpl in Hd; injection Hd as <-;
            destruct (compile_sel m vo t) as [a r] eqn:E; destruct (compile_sel m' vo' t) as [a' r'] eqn:E';
            injection H as <- <-; injection H' as <- <-; destruct (IH _ _ _ _ _ _ Hm Hs E E') as (-> & Hs1); split; [reflexivity | exact Hs1]).
      destruct d'; simpl in Hd; try discriminate.
      destruct (add_param vo s true) as [b i] eqn:A. destruct (add_param vo' s0 true) as [b' i'] eqn:A'.
      destruct (add_param_int_sim _ _ _ _ _ _ _ _ Hs A A') as (-> & Hs0).
      destruct (compile_sel m b t) as [a r] eqn:E; destruct (compile_sel m' b' t) as [a' r'] eqn:E'.
      injection H as <- <-; injection H' as <- <-. destruct (IH _ _ _ _ _ _ Hm Hs0 E E') as (-> & Hs1). split; [reflexivity | exact Hs1].
    + simpl in Hd. destruct d; discriminate.
    + simpl in Hd. discriminate.
    + destruct (compile_sel m vo t) as [a r] eqn:E; destruct (compile_sel m' vo' t) as [a' r'] eqn:E'.
      injection H as <- <-; injection H' as <- <-. destruct (IH _ _ _ _ _ _ Hm Hs E E') as (-> & Hs1). split; [reflexivity | exact Hs1].
Qed.

Lemma filter_sop_shape : forall f f', shape_filter f f' ->
  match fl_val f, fl_op f with OLit VNull, OEq => SIs | OLit VNull, ONe => SIsNot | _, op => SCmp op end =
  match fl_val f', fl_op f' with OLit VNull, OEq => SIs | OLit VNull, ONe => SIsNot | _, op => SCmp op end.
Proof.
  intros f f' (_ & Hop & Hv). rewrite <- Hop. destruct (fl_val f) as [[| | | |]|], (fl_val f') as [[| | | |]|]; simpl in Hv; try discriminate; try reflexivity.
Qed.

Lemma compile_filters_sim : forall m m' q q' fs fs' vo vo' vo2 vo2' sfs sfs',
  same_model_up_to_string_defaults m m' -> q_sel q = q_sel q' -> Forall2 shape_filter fs fs' -> sim vo vo' ->
  compile_filters m q vo fs = (vo2, sfs) -> compile_filters m' q' vo' fs' = (vo2', sfs') ->
  sfs = sfs' /\ sim vo2 vo2'.
Proof.
  intros m m' q q' fs fs' vo vo' vo2 vo2' sfs sfs' Hm Hsel HF. revert vo vo' vo2 vo2' sfs sfs'.
  induction HF as [|f f' fs fs' Hff Hrest IH]; intros vo vo' vo2 vo2' sfs sfs' Hs H H'; cbn [compile_filters] in H, H'.
  - injection H as <- <-. injection H' as <- <-. split. reflexivity. exact Hs.
  - destruct (operand_sx vo (fl_val f)) as [vo1 xv] eqn:E1. destruct (operand_sx vo' (fl_val f')) as [vo1' xv'] eqn:E1'.
    pose proof Hff as (Hr & Hop & Hv).
    destruct (operand_sx_sim _ _ _ _ _ _ _ _ Hv Hs E1 E1') as (-> & Hs1).
    rewrite (filter_sop_shape f f' Hff) in H. rewrite <- Hr in H'.
    assert (Hrf : ref_field q' (fl_ref f) = ref_field q (fl_ref f)) by (unfold ref_field; rewrite Hsel; reflexivity).
    rewrite Hrf in H'.
    destruct (ref_field q (fl_ref f)) as [i|].
    + pose proof (default_shape m m' i Hm) as Hd.
      destruct (match field_def m i with Some fd => fd_default fd | None => None end) as [d|];
      destruct (match field_def m' i with Some fd => fd_default fd | None => None end) as [d'|].
      * assert (Hsv : shape_val d d'). { destruct d, d'; simpl in Hd |- *; try exact I; congruence. }
        destruct (default_sx vo1 d) as [b dx] eqn:D. destruct (default_sx vo1' d') as [b' dx'] eqn:D'.
        destruct (default_sx_sim _ _ _ _ _ _ _ _ Hsv Hs1 D D') as (-> & Hs2).
        destruct (compile_filters m q b fs) as [a r] eqn:E. destruct (compile_filters m' q' b' fs') as [a' r'] eqn:E'.
        injection H as <- <-. injection H' as <- <-. destruct (IH _ _ _ _ _ _ Hs2 E E') as (-> & Hs3). split; [reflexivity | exact Hs3].
      * simpl in Hd. destruct d; discriminate.
      * simpl in Hd. discriminate.
      * destruct (compile_filters m q vo1 fs) as [a r] eqn:E. destruct (compile_filters m' q' vo1' fs') as [a' r'] eqn:E'.
        injection H as <- <-. injection H' as <- <-. destruct (IH _ _ _ _ _ _ Hs1 E E') as (-> & Hs3). split; [reflexivity | exact Hs3].
    + destruct (compile_filters m q vo1 fs) as [a r] eqn:E. destruct (compile_filters m' q' vo1' fs') as [a' r'] eqn:E'.
      injection H as <- <-. injection H' as <- <-. destruct (IH _ _ _ _ _ _ Hs1 E E') as (-> & Hs3). split; [reflexivity | exact Hs3].
Qed.

Definition shape_pair (ko ko' : okey * operand) : Prop := fst ko = fst ko' /\ shape_operand (snd ko) (snd ko').

Lemma compile_eqs_sim : forall kvs kvs' vo vo' vo2 vo2' eqs eqs',
  Forall2 shape_pair kvs kvs' -> sim vo vo' ->
  compile_eqs vo kvs = (vo2, eqs) -> compile_eqs vo' kvs' = (vo2', eqs') -> eqs = eqs' /\ sim vo2 vo2'.
Proof.
  intros kvs kvs' vo vo' vo2 vo2' eqs eqs' HF. revert vo vo' vo2 vo2' eqs eqs'.
  induction HF as [|[k o] [k' o'] t t' (Hk & Ho) Hrest IH]; intros vo vo' vo2 vo2' eqs eqs' Hs H H'; cbn [compile_eqs] in H, H'.
  - injection H as <- <-. injection H' as <- <-. split. reflexivity. exact Hs.
  - simpl in Hk, Ho. subst k'.
    destruct (operand_sx vo o) as [vo1 v] eqn:E1. destruct (compile_eqs vo1 t) as [vo3 rest] eqn:E2.
    destruct (operand_sx vo' o') as [vo1' v'] eqn:E1'. destruct (compile_eqs vo1' t') as [vo3' rest'] eqn:E2'.
    injection H as <- <-. injection H' as <- <-.
    destruct (operand_sx_sim _ _ _ _ _ _ _ _ Ho Hs E1 E1') as (-> & Hs1).
    destruct (IH _ _ _ _ _ _ Hs1 E2 E2') as (-> & Hs2). split. reflexivity. exact Hs2.
Qed.

Lemma compile_disjs_sim : forall before todo todo' vo vo' done done' vo2 vo2' ds ds',
  Forall2 shape_pair todo todo' -> Forall2 shape_pair done done' -> sim vo vo' ->
  compile_disjs before vo done todo = (vo2, ds) -> compile_disjs before vo' done' todo' = (vo2', ds') ->
  ds = ds' /\ sim vo2 vo2'.
Proof.
  intros before todo todo' vo vo' done done' vo2 vo2' ds ds' HF. revert vo vo' done done' vo2 vo2' ds ds'.
  induction HF as [|[k o] [k' o'] t t' (Hk & Ho) Hrest IH]; intros vo vo' done done' vo2 vo2' ds ds' Hd Hs H H'; cbn [compile_disjs] in H, H'.
  - injection H as <- <-. injection H' as <- <-. split. reflexivity. exact Hs.
  - simpl in Hk, Ho. subst k'.
    destruct (compile_eqs vo done) as [vo1 eqs] eqn:E1. destruct (operand_sx vo1 o) as [vo3 v] eqn:E2.
    destruct (compile_disjs before vo3 (done ++ [(k, o)]) t) as [vo4 rest] eqn:E3.
    destruct (compile_eqs vo' done') as [vo1' eqs'] eqn:E1'. destruct (operand_sx vo1' o') as [vo3' v'] eqn:E2'.
    destruct (compile_disjs before vo3' (done' ++ [(k, o')]) t') as [vo4' rest'] eqn:E3'.
    injection H as <- <-. injection H' as <- <-.
    destruct (compile_eqs_sim _ _ _ _ _ _ _ _ Hd Hs E1 E1') as (-> & Hs1).
    destruct (operand_sx_sim _ _ _ _ _ _ _ _ Ho Hs1 E2 E2') as (-> & Hs2).
    assert (Hd' : Forall2 shape_pair (done ++ [(k, o)]) (done' ++ [(k, o')])).
    { apply Forall2_app. exact Hd. constructor. split. reflexivity. exact Ho. constructor. }
    destruct (IH _ _ _ _ _ _ _ _ Hd' Hs2 E3 E3') as (-> & Hs3). split. reflexivity. exact Hs3.
Qed.

Lemma limit_sx_sim : forall o vo vo' vo1 vo1' x x',
  sim vo vo' -> limit_sx vo o = (vo1, x) -> limit_sx vo' o = (vo1', x') -> x = x' /\ sim vo1 vo1'.
Proof.
  intros o vo vo' vo1 vo1' x x' Hs H H'. destruct o as [v|n]; cbn [limit_sx] in H, H'.
  - destruct v; injection H as <- <-; injection H' as <- <-; split; try reflexivity; exact Hs.
  - destruct (add_param vo n false) as [a i] eqn:E. destruct (add_param vo' n false) as [a' i'] eqn:E'.
    injection H as <- <-. injection H' as <- <-.
    destruct (add_param_var_sim _ _ _ _ _ _ _ Hs E E') as (-> & Hs1). split. reflexivity. exact Hs1.
Qed.

(* ---------- the statement ---------- *)
Theorem nostructure_stmt : forall m m' q q',
  same_model_up_to_string_defaults m m' -> same_shape q q' -> snd (compile m q) = snd (compile m' q').
Proof.
  intros m m' q q' Hm (Hal & Hsel & Hfl & Hord & Hfi & Hsk & Hpg).
  unfold compile. rewrite <- Hsel.
  destruct (compile_sel m [] (q_sel q)) as [vo1 sel] eqn:E1. destruct (compile_sel m' [] (q_sel q)) as [vo1' sel'] eqn:E1'.
  destruct (compile_sel_sim m m' _ _ _ _ _ _ _ Hm (sim_refl []) E1 E1') as (-> & S1).
  destruct (compile_filters m q vo1 (q_filters q)) as [vo2 fs] eqn:E2.
  destruct (compile_filters m' q' vo1' (q_filters q')) as [vo2' fs'] eqn:E2'.
  destruct (compile_filters_sim m m' q q' _ _ _ _ _ _ _ _ Hm Hsel Hfl S1 E2 E2') as (-> & S2).
  assert (Hbefore : is_before (q_paging q) = is_before (q_paging q')).
  { unfold shape_paging in Hpg. destruct (q_paging q), (q_paging q'); try contradiction; reflexivity. }
  assert (Hpairs : Forall2 shape_pair (combine (q_order q) (paging_values (q_paging q))) (combine (q_order q') (paging_values (q_paging q')))).
  { rewrite <- Hord.
    assert (Hvals : Forall2 shape_operand (paging_values (q_paging q)) (paging_values (q_paging q'))).
    { unfold shape_paging in Hpg. destruct (q_paging q), (q_paging q'); try contradiction; cbn [paging_values]; try constructor; exact Hpg. }
    clear -Hvals. revert Hvals. generalize (paging_values (q_paging q)) (paging_values (q_paging q')) (q_order q).
    intros l l' ord H. revert ord. induction H as [|o o' l l' Ho Hrest IH]; intros ord; destruct ord as [|k ord]; cbn [combine]; try constructor.
    split. reflexivity. exact Ho. apply IH. }
  rewrite <- Hbefore.
  destruct (compile_disjs (is_before (q_paging q)) vo2 [] (combine (q_order q) (paging_values (q_paging q)))) as [vo3 pg] eqn:E3.
  destruct (compile_disjs (is_before (q_paging q)) vo2' [] (combine (q_order q') (paging_values (q_paging q')))) as [vo3' pg'] eqn:E3'.
  destruct (compile_disjs_sim _ _ _ _ _ _ _ _ _ _ _ Hpairs (Forall2_nil _) S2 E3 E3') as (-> & S3).
  unfold compile_limit. rewrite <- Hfi, <- Hsk.
  destruct (limit_sx vo3 (q_first q)) as [a l1] eqn:A. destruct (limit_sx vo3' (q_first q)) as [a' l1'] eqn:A'.
  destruct (limit_sx_sim _ _ _ _ _ _ _ S3 A A') as (-> & S4).
  destruct Hm as (Hn & Hs & _).
  destruct (q_skip q) as [so|].
  - destruct (limit_sx a so) as [b l2] eqn:B. destruct (limit_sx a' so) as [b' l2'] eqn:B'.
    destruct (limit_sx_sim _ _ _ _ _ _ _ S4 B B') as (-> & _).
    cbn [snd]. unfold sql_aliased_name. rewrite Hal, Hord, Hn, Hs. reflexivity.
  - cbn [snd]. unfold sql_aliased_name. rewrite Hal, Hord, Hn, Hs. reflexivity.
Qed.

(* the printer reads the model only through the short names of the fields *)
Lemma print_ref_shape : forall m m' names x, same_model_up_to_string_defaults m m' -> print_ref m names x = print_ref m' names x.
Proof. intros m m' names x H. destruct x; cbn [print_ref]; try reflexivity. rewrite (field_short_shape m m' i H). reflexivity. Qed.

Lemma print_shape : forall m m' s, same_model_up_to_string_defaults m m' -> print m s = print m' s.
Proof.
  intros m m' s H.
  assert (Hsel : forall names l, map (print_sel m names) l = map (print_sel m' names) l).
  { intros names l. apply map_ext. intros x. unfold print_sel. rewrite (field_short_shape m m' _ H).
    destruct (ss_default x); [rewrite (print_ref_shape m m' names s0 H)|]; reflexivity. }
  assert (Hfil : forall names l, map (print_filter m names) l = map (print_filter m' names) l).
  { intros names l. apply map_ext. intros f. destruct f; cbn [print_filter]; rewrite ?(print_ref_shape m m' names _ H); reflexivity. }
  assert (Hdis : forall names b l, map (print_disj m names b) l = map (print_disj m' names b) l).
  { intros names b l. apply map_ext. intros d. unfold print_disj. destruct (pd_last d) as [[x op] v].
    rewrite !(print_ref_shape m m' names _ H).
    assert (Hfm : flat_map (fun e : sx * sx => print_ref m names (fst e) ++ lit " = " ++ print_ref m names (snd e) ++ lit " AND ") (pd_eqs d)
                = flat_map (fun e : sx * sx => print_ref m' names (fst e) ++ lit " = " ++ print_ref m' names (snd e) ++ lit " AND ") (pd_eqs d)).
    { induction (pd_eqs d) as [|e t IH]. reflexivity. cbn [flat_map]. rewrite IH, !(print_ref_shape m m' names _ H). reflexivity. }
    rewrite Hfm. reflexivity. }
  assert (Hord : forall names l, map (print_order m names) l = map (print_order m' names) l).
  { intros names l. apply map_ext. intros o. unfold print_order. rewrite (print_ref_shape m m' names _ H). reflexivity. }
  unfold print.
  destruct (st_sel s) as [|s1 sl]; destruct (st_filters s) as [|f1 fl]; destruct (st_paging s) as [|d1 dl]; destruct (st_order s) as [|o1 ol];
    destruct (st_limit s) as [l|]; destruct (st_offset s) as [o|];
    rewrite ?Hsel, ?Hfil, ?Hdis, ?Hord, ?(print_ref_shape m m' _ _ H); reflexivity.
Qed.

(* the SQL text depends neither on the characters of the String literals of the query nor on those of the
   String defaults of the model *)
Theorem nostructure : forall m m' q q',
  same_model_up_to_string_defaults m m' -> same_shape q q' -> sql_text m q = sql_text m' q'.
Proof.
  intros m m' q q' Hm Hq. unfold sql_text. rewrite (nostructure_stmt m m' q q' Hm Hq), (print_shape m m' _ Hm). reflexivity.
Qed.

(* in particular for the neutral versions used by the harness *)
Lemma model_shape_refl : forall m, same_model_up_to_string_defaults m m.
Proof.
  intros m. repeat split. induction (em_fields m) as [|fd l IH]; constructor. 2: exact IH.
  repeat split. unfold shape_default. destruct (fd_default fd) as [[| | | |]|]; auto.
Qed.

Lemma neutral_same_shape : forall q, same_shape q (neutral_query q).
Proof.
  intros q. unfold same_shape, neutral_query. cbn [q_alias q_sel q_filters q_order q_first q_skip q_paging].
  repeat split.
  - induction (q_filters q) as [|f l IH]; cbn [map]; constructor. 2: exact IH.
    unfold shape_filter. cbn [fl_ref fl_op fl_val]. repeat split. destruct (fl_val f) as [[| | | |]|]; simpl; auto.
  - assert (H : forall vs, Forall2 shape_operand vs (map neutral_operand vs)).
    { induction vs as [|o vs IH]; cbn [map]; constructor. destruct o as [[| | | |]|]; simpl; auto. exact IH. }
    destruct (q_paging q); simpl; auto.
Qed.

Lemma same_shape_refl : forall q, same_shape q q.
Proof.
  intros q. repeat split.
  - induction (q_filters q) as [|f l IH]; constructor. 2: exact IH. repeat split. destruct (fl_val f) as [[| | | |]|]; simpl; auto.
  - assert (H : forall vs, Forall2 shape_operand vs vs).
    { induction vs as [|o vs IH]; constructor. destruct o as [[| | | |]|]; simpl; auto. exact IH. }
    destruct (q_paging q); simpl; auto.
Qed.

Lemma neutral_model_shape : forall m, same_model_up_to_string_defaults m (neutral_model m).
Proof.
  intros m. unfold neutral_model. repeat split. cbn [em_fields].
  induction (em_fields m) as [|fd l IH]; cbn [map]; constructor. 2: exact IH.
  unfold shape_field. cbn [fd_name fd_short fd_type fd_nullable fd_default]. repeat split.
  unfold shape_default. destruct (fd_default fd) as [[| | | |]|]; auto.
Qed.

Lemma str_eqb_refl' : forall a, str_eqb a a = true.
Proof. intros a. apply str_eqb_eq. reflexivity. Qed.

Theorem shape_holds : forall m q, spec_C04 (CShape m q) (run_C04 (CShape m q)) = true.
Proof.
  intros m q. cbn [spec_C04 run_C04].
  rewrite (nostructure m m q (neutral_query q) (model_shape_refl m) (neutral_same_shape q)), str_eqb_refl'. reflexivity.
Qed.

(* the statement compiled under arbitrary String defaults is the statement compiled under neutral ones *)
Theorem defaults_holds : forall m q, sql_text m q = sql_text (neutral_model m) q.
Proof. intros m q. apply nostructure. apply neutral_model_shape. apply same_shape_refl. Qed.

(* integers, floats, booleans: the model is the identity, the oracle asks for the identity *)
Lemma zlist_eqb_refl : forall l, zlist_eqb l l = true.
Proof. induction l as [|x l IH]. reflexivity. unfold zlist_eqb in *. cbn [list_eqb]. rewrite Z.eqb_refl, IH. reflexivity. Qed.
Theorem scalars_spec : forall c,
  match c with CInt _ _ | CBool _ _ => True | CFlt _ b tb => b = tb | _ => False end ->
  spec_C04 c (run_C04 c) = true.
Proof.
  intros c H. destruct c; try contradiction; cbn [spec_C04 run_C04].
  - apply zlist_eqb_refl.
  - subst. rewrite Z.eqb_refl. destruct h; apply zlist_eqb_refl.
  - apply zlist_eqb_refl.
Qed.
