(* DataModelP.v — lemmas about model/DataModel.v: iteration order, the in-place loops,
   what parse_internal produces, what update_with keeps. *)
From DV Require Import DataModel.
From Coq Require Import Permutation.
Local Open Scope N_scope.

(* ------------------------------------------------------------------ small facts *)
Lemma memN_In : forall x l, memN x l = true <-> In x l.
Proof.
  intros x l. unfold memN. rewrite existsb_exists. split.
  - intros [y [Hy He]]. apply N.eqb_eq in He. subst. exact Hy.
  - intros Hi. exists x. split; [exact Hi | apply N.eqb_refl].
Qed.

Lemma ftype_eqb_eq : forall a b, ftype_eqb a b = true <-> a = b.
Proof.
  intros a b. split.
  - destruct a, b; cbn; intros H; try discriminate; try reflexivity;
      apply andb_true_iff in H; destruct H as [H1 H2]; apply N.eqb_eq in H1; apply N.eqb_eq in H2; subst; reflexivity.
  - intros ->. destruct b; cbn; try reflexivity; rewrite !N.eqb_refl; reflexivity.
Qed.

Lemma short_eqb_eq : forall a b : eshort, short_eqb a b = true <-> a = b.
Proof.
  intros [a1 a2] [b1 b2]. unfold short_eqb. cbn [fst snd]. split.
  - intros H. apply andb_true_iff in H. destruct H as [H1 H2]. apply N.eqb_eq in H2. subst.
    destruct a1, b1; cbn in H1; try discriminate; try reflexivity. apply N.eqb_eq in H1. subst. reflexivity.
  - intros H. inversion H. subst. rewrite N.eqb_refl, andb_true_r. destruct b1; cbn; [apply N.eqb_refl | reflexivity].
Qed.

Lemma len_app : forall A (l1 l2 : list A), len (l1 ++ l2) = len l1 + len l2.
Proof. intros. unfold len. rewrite app_length. lia. Qed.
Lemma len_cons1 : forall A (a : A), len [a] = 1.
Proof. reflexivity. Qed.
Lemma len_map : forall A B (f : A -> B) l, len (map f l) = len l.
Proof. intros. unfold len. rewrite map_length. reflexivity. Qed.

(* find by key *)
Section Keyed.
  Context {A : Type} (key : A -> N).
  Definition findk (k : N) (l : list A) := find (fun a => N.eqb (key a) k) l.
  Definition hask (k : N) (l : list A) := existsb (fun a => N.eqb (key a) k) l.

  Lemma hask_In : forall k l, hask k l = true <-> In k (map key l).
  Proof.
    intros k l. unfold hask. rewrite existsb_exists, in_map_iff. split.
    - intros [a [Ha He]]. apply N.eqb_eq in He. exists a. split; assumption.
    - intros [a [He Ha]]. exists a. split; [exact Ha | apply N.eqb_eq; exact He].
  Qed.
  Lemma hask_false : forall k l, hask k l = false <-> ~ In k (map key l).
  Proof.
    intros k l. rewrite <- hask_In. destruct (hask k l); split; intros H; try discriminate; try reflexivity.
    exfalso. apply H. reflexivity.
  Qed.

  Lemma findk_some : forall k l a, findk k l = Some a -> In a l /\ key a = k.
  Proof. intros k l a H. apply find_some in H. destruct H as [H1 H2]. apply N.eqb_eq in H2. split; assumption. Qed.
  Lemma findk_none : forall k l, findk k l = None -> ~ In k (map key l).
  Proof.
    intros k l H Hin. apply in_map_iff in Hin. destruct Hin as [a [He Ha]].
    pose proof (find_none _ _ H a Ha) as Hn. cbn in Hn. rewrite He, N.eqb_refl in Hn. discriminate.
  Qed.
  Lemma findk_nodup : forall l a, NoDup (map key l) -> In a l -> findk (key a) l = Some a.
  Proof.
    induction l as [|b l IH]; intros a Hnd Hin; [destruct Hin|].
    cbn in Hnd. inversion Hnd as [|? ? Hnotin Hnd']. subst. unfold findk. cbn [find].
    destruct Hin as [->|Hin].
    - rewrite N.eqb_refl. reflexivity.
    - destruct (N.eqb (key b) (key a)) eqn:He.
      + apply N.eqb_eq in He. exfalso. apply Hnotin. rewrite He. apply in_map. exact Hin.
      + apply IH; assumption.
  Qed.
End Keyed.

(* ------------------------------------------------------------------ sort_by is a permutation *)
Lemma ins_perm : forall A (rk : A -> N) a l, Permutation (ins rk a l) (a :: l).
Proof.
  induction l as [|b l IH]; cbn; [apply Permutation_refl|].
  destruct (rk a <=? rk b); [apply Permutation_refl|].
  eapply Permutation_trans; [apply perm_skip; exact IH | apply perm_swap].
Qed.
Lemma sort_by_perm : forall A (rk : A -> N) l, Permutation (sort_by rk l) l.
Proof.
  induction l as [|a l IH]; cbn; [apply Permutation_refl|].
  eapply Permutation_trans; [apply ins_perm | apply perm_skip; exact IH].
Qed.
Lemma sort_by_In : forall A (rk : A -> N) l a, In a (sort_by rk l) <-> In a l.
Proof. intros. split; apply Permutation_in; [apply sort_by_perm | apply Permutation_sym, sort_by_perm]. Qed.
Lemma sort_by_short : forall A (rk : A -> N) l, (length l <= 1)%nat -> sort_by rk l = l.
Proof. intros A rk [|a [|b l]] H; cbn in *; try reflexivity. lia. Qed.

(* ------------------------------------------------------------------ the in-place loop *)
Section Loop.
  Context {A : Type} (key : A -> N) (f : A -> A * option err).

  Lemma scan_none : forall l v, scan key f l = (v, None) -> v = map key l /\ forall a, In a l -> snd (f a) = None.
  Proof.
    induction l as [|a l IH]; intros v H; cbn in H.
    - inversion H. split; [reflexivity | intros a []].
    - destruct (snd (f a)) eqn:Ha; [discriminate|]. destruct (scan key f l) as [v' e'] eqn:Hs.
      inversion H. subst. destruct (IH v' eq_refl) as [Hv Hall]. split; [cbn; f_equal; exact Hv|].
      intros b [<-|Hb]; [exact Ha | apply Hall; exact Hb].
  Qed.
  Lemma scan_all_none : forall l, (forall a, In a l -> snd (f a) = None) -> scan key f l = (map key l, None).
  Proof.
    induction l as [|a l IH]; intros H; cbn; [reflexivity|].
    rewrite (H a (or_introl eq_refl)). rewrite IH; [reflexivity|]. intros b Hb. apply H. right. exact Hb.
  Qed.
  Lemma scan_some : forall l v e, scan key f l = (v, Some e) -> exists a, In a l /\ snd (f a) = Some e.
  Proof.
    induction l as [|a l IH]; intros v e H; cbn in H; [discriminate|].
    destruct (snd (f a)) eqn:Ha.
    - inversion H. subst. exists a. split; [left; reflexivity | exact Ha].
    - destruct (scan key f l) as [v' e'] eqn:Hs. inversion H. subst.
      destruct (IH v' e eq_refl) as [b [Hb He]]. exists b. split; [right; exact Hb | exact He].
  Qed.

  Variable rank : N -> N.

  (* the result is the old list, element by element either untouched or what f made of it *)
  Lemma loop_pointwise : forall l, exists g, fst (loop key rank f l) = map g l /\ forall a, g a = a \/ g a = fst (f a).
  Proof.
    intros l. unfold loop. destruct (scan key f (sort_by (fun a => rank (key a)) l)) as [vis e].
    exists (fun a => if memN (key a) vis then fst (f a) else a). split; [reflexivity|].
    intros a. destruct (memN (key a) vis); [right | left]; reflexivity.
  Qed.
  Lemma loop_Forall2 : forall (R : A -> A -> Prop) l,
    (forall a, In a l -> R a a) -> (forall a, In a l -> R a (fst (f a))) -> Forall2 R l (fst (loop key rank f l)).
  Proof.
    intros R l Hr Hf. destruct (loop_pointwise l) as [g [-> Hg]].
    induction l as [|a l IH]; cbn; constructor.
    - destruct (Hg a) as [-> | ->]; [apply Hr | apply Hf]; left; reflexivity.
    - apply IH; intros b Hb; [apply Hr | apply Hf]; right; exact Hb.
  Qed.
  Lemma loop_map_inv : forall B (h : A -> B) l, (forall a, In a l -> h (fst (f a)) = h a) -> map h (fst (loop key rank f l)) = map h l.
  Proof.
    intros B h l H. destruct (loop_pointwise l) as [g [-> Hg]]. rewrite map_map.
    apply map_ext_in. intros a Ha. destruct (Hg a) as [-> | ->]; [reflexivity | apply H; exact Ha].
  Qed.
  Lemma loop_length : forall l, length (fst (loop key rank f l)) = length l.
  Proof. intros l. destruct (loop_pointwise l) as [g [-> _]]. apply map_length. Qed.
  Lemma loop_Forall : forall (P : A -> Prop) l, Forall P l -> (forall a, In a l -> P a -> P (fst (f a))) -> Forall P (fst (loop key rank f l)).
  Proof.
    intros P l HP Hf. destruct (loop_pointwise l) as [g [-> Hg]]. rewrite Forall_forall in *.
    intros b Hb. apply in_map_iff in Hb. destruct Hb as [a [<- Ha]].
    destruct (Hg a) as [-> | ->]; [apply HP; exact Ha | apply Hf; [exact Ha | apply HP; exact Ha]].
  Qed.

  (* accepted <-> every element is accepted; then every element carries its new value *)
  Lemma loop_ok_all : forall l, snd (loop key rank f l) = None -> forall a, In a l -> snd (f a) = None.
  Proof.
    intros l H a Ha. unfold loop in H. destruct (scan key f (sort_by (fun a => rank (key a)) l)) as [vis e] eqn:Hs.
    cbn in H. subst e. destruct (scan_none _ _ Hs) as [_ Hall]. apply Hall. apply sort_by_In. exact Ha.
  Qed.
  Lemma loop_all_ok : forall l, (forall a, In a l -> snd (f a) = None) -> loop key rank f l = (map (fun a => fst (f a)) l, None).
  Proof.
    intros l H. unfold loop. rewrite scan_all_none; [|intros a Ha; apply H; apply sort_by_In in Ha; exact Ha].
    f_equal. apply map_ext_in. intros a Ha.
    assert (Hm : memN (key a) (map key (sort_by (fun a0 => rank (key a0)) l)) = true).
    { apply memN_In. apply in_map. apply sort_by_In. exact Ha. }
    rewrite Hm. reflexivity.
  Qed.
  Lemma loop_err_from : forall l e, snd (loop key rank f l) = Some e -> exists a, In a l /\ snd (f a) = Some e.
  Proof.
    intros l e H. unfold loop in H. destruct (scan key f (sort_by (fun a => rank (key a)) l)) as [vis e'] eqn:Hs.
    cbn in H. subst e'. destruct (scan_some _ _ _ Hs) as [a [Ha He]]. exists a. split; [apply sort_by_In in Ha; exact Ha | exact He].
  Qed.
End Loop.

(* two runs of a loop whose bodies agree on the elements: if one accepts, the other gives the same *)
Lemma loop_deterministic : forall A (key : A -> N) (f g : A -> A * option err) r1 r2 l,
  (forall a, In a l -> f a = g a) -> snd (loop key r1 f l) = None -> loop key r2 g l = loop key r1 f l.
Proof.
  intros A key f g r1 r2 l Hfg Hok.
  pose proof (loop_ok_all key f r1 l Hok) as Hall.
  rewrite (loop_all_ok key f r1 l Hall).
  rewrite (loop_all_ok key g r2 l); [|intros a Ha; rewrite <- Hfg; [apply Hall|]; exact Ha].
  f_equal. apply map_ext_in. intros a Ha. rewrite Hfg; [reflexivity | exact Ha].
Qed.
