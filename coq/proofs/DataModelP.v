(* DataModelP.v — lemmas about model/DataModel.v: iteration order, the in-place loops,
   what parse_internal produces, what update_with keeps. *)
From DV Require Import DataModel.
From Coq Require Import Permutation.
Local Open Scope N_scope.

(* ------------------------------------------------------------------ small facts *)
Lemma memN_In : forall x l, memN x l = true <-> In x l.
Proof.
  intros x l. unfold memN. rewrite existsb_exists. split.
  - intros [y [Hy He]]. apply N.eqb_eq in He. subst. exact Hy.
  - intros Hi. exists x. split; [exact Hi | apply N.eqb_refl].
Qed.

Lemma ftype_eqb_eq : forall a b, ftype_eqb a b = true <-> a = b.
Proof.
  intros a b. split.
  - destruct a, b; cbn; intros H; try discriminate; try reflexivity;
      apply andb_true_iff in H; destruct H as [H1 H2]; apply N.eqb_eq in H1; apply N.eqb_eq in H2; subst; reflexivity.
  - intros ->. destruct b; cbn; try reflexivity; rewrite !N.eqb_refl; reflexivity.
Qed.

Lemma short_eqb_eq : forall a b : eshort, short_eqb a b = true <-> a = b.
Proof.
  intros [a1 a2] [b1 b2]. unfold short_eqb. cbn [fst snd]. split.
  - intros H. apply andb_true_iff in H. destruct H as [H1 H2]. apply N.eqb_eq in H2. subst.
    destruct a1, b1; cbn in H1; try discriminate; try reflexivity. apply N.eqb_eq in H1. subst. reflexivity.
  - intros H. inversion H. subst. rewrite N.eqb_refl, andb_true_r. destruct b1; cbn; [apply N.eqb_refl | reflexivity].
Qed.

Lemma len_app : forall A (l1 l2 : list A), len (l1 ++ l2) = len l1 + len l2.
Proof. intros. unfold len. rewrite app_length. lia. Qed.
Lemma len_cons1 : forall A (a : A), len [a] = 1.
Proof. reflexivity. Qed.
Lemma len_map : forall A B (f : A -> B) l, len (map f l) = len l.
Proof. intros. unfold len. rewrite map_length. reflexivity. Qed.

(* find by key *)
Section Keyed.
  Context {A : Type} (key : A -> N).
  Definition findk (k : N) (l : list A) := find (fun a => N.eqb (key a) k) l.
  Definition hask (k : N) (l : list A) := existsb (fun a => N.eqb (key a) k) l.

  Lemma hask_In : forall k l, hask k l = true <-> In k (map key l).
  Proof.
    intros k l. unfold hask. rewrite existsb_exists, in_map_iff. split.
    - intros [a [Ha He]]. apply N.eqb_eq in He. exists a. split; assumption.
    - intros [a [He Ha]]. exists a. split; [exact Ha | apply N.eqb_eq; exact He].
  Qed.
  Lemma hask_false : forall k l, hask k l = false <-> ~ In k (map key l).
  Proof.
    intros k l. rewrite <- hask_In. destruct (hask k l); split; intros H; try discriminate; try reflexivity.
    exfalso. apply H. reflexivity.
  Qed.

  Lemma findk_some : forall k l a, findk k l = Some a -> In a l /\ key a = k.
  Proof. intros k l a H. apply find_some in H. destruct H as [H1 H2]. apply N.eqb_eq in H2. split; assumption. Qed.
  Lemma findk_none : forall k l, findk k l = None -> ~ In k (map key l).
  Proof.
    intros k l H Hin. apply in_map_iff in Hin. destruct Hin as [a [He Ha]].
    pose proof (find_none _ _ H a Ha) as Hn. cbn in Hn. rewrite He, N.eqb_refl in Hn. discriminate.
  Qed.
  Lemma findk_nodup : forall l a, NoDup (map key l) -> In a l -> findk (key a) l = Some a.
  Proof.
    induction l as [|b l IH]; intros a Hnd Hin; [destruct Hin|].
    cbn in Hnd. inversion Hnd as [|? ? Hnotin Hnd']. subst. unfold findk. cbn [find].
    destruct Hin as [->|Hin].
    - rewrite N.eqb_refl. reflexivity.
    - destruct (N.eqb (key b) (key a)) eqn:He.
      + apply N.eqb_eq in He. exfalso. apply Hnotin. rewrite He. apply in_map. exact Hin.
      + apply IH; assumption.
  Qed.
End Keyed.

(* ------------------------------------------------------------------ sort_by is a permutation *)
Lemma ins_perm : forall A (rk : A -> N) a l, Permutation (ins rk a l) (a :: l).
Proof.
  induction l as [|b l IH]; cbn; [apply Permutation_refl|].
  destruct (rk a <=? rk b); [apply Permutation_refl|].
  eapply Permutation_trans; [apply perm_skip; exact IH | apply perm_swap].
Qed.
Lemma sort_by_perm : forall A (rk : A -> N) l, Permutation (sort_by rk l) l.
Proof.
  induction l as [|a l IH]; cbn; [apply Permutation_refl|].
  eapply Permutation_trans; [apply ins_perm | apply perm_skip; exact IH].
Qed.
Lemma sort_by_In : forall A (rk : A -> N) l a, In a (sort_by rk l) <-> In a l.
Proof. intros. split; apply Permutation_in; [apply sort_by_perm | apply Permutation_sym, sort_by_perm]. Qed.
Lemma sort_by_short : forall A (rk : A -> N) l, (length l <= 1)%nat -> sort_by rk l = l.
Proof. intros A rk [|a [|b l]] H; cbn in *; try reflexivity. lia. Qed.

(* ------------------------------------------------------------------ the in-place loop *)
Section Loop.
  Context {A : Type} (key : A -> N) (f : A -> A * option err).

  Lemma scan_none : forall l v, scan key f l = (v, None) -> v = map key l /\ forall a, In a l -> snd (f a) = None.
  Proof.
    induction l as [|a l IH]; intros v H; cbn in H.
    - inversion H. split; [reflexivity | intros a []].
    - destruct (snd (f a)) eqn:Ha; [discriminate|]. destruct (scan key f l) as [v' e'] eqn:Hs.
      inversion H. subst. destruct (IH v' eq_refl) as [Hv Hall]. split; [cbn; f_equal; exact Hv|].
      intros b [<-|Hb]; [exact Ha | apply Hall; exact Hb].
  Qed.
  Lemma scan_all_none : forall l, (forall a, In a l -> snd (f a) = None) -> scan key f l = (map key l, None).
  Proof.
    induction l as [|a l IH]; intros H; cbn; [reflexivity|].
    rewrite (H a (or_introl eq_refl)). rewrite IH; [reflexivity|]. intros b Hb. apply H. right. exact Hb.
  Qed.
  Lemma scan_some : forall l v e, scan key f l = (v, Some e) -> exists a, In a l /\ snd (f a) = Some e.
  Proof.
    induction l as [|a l IH]; intros v e H; cbn in H; [discriminate|].
    destruct (snd (f a)) eqn:Ha.
    - inversion H. subst. exists a. split; [left; reflexivity | exact Ha].
    - destruct (scan key f l) as [v' e'] eqn:Hs. inversion H. subst.
      destruct (IH v' e eq_refl) as [b [Hb He]]. exists b. split; [right; exact Hb | exact He].
  Qed.

  Variable rank : N -> N.

  (* the result is the old list, element by element either untouched or what f made of it *)
  Lemma loop_pointwise : forall l, exists g, fst (loop key rank f l) = map g l /\ forall a, g a = a \/ g a = fst (f a).
  Proof.
    intros l. unfold loop. destruct (scan key f (sort_by (fun a => rank (key a)) l)) as [vis e].
    exists (fun a => if memN (key a) vis then fst (f a) else a). split; [reflexivity|].
    intros a. destruct (memN (key a) vis); [right | left]; reflexivity.
  Qed.
  Lemma loop_Forall2 : forall (R : A -> A -> Prop) l,
    (forall a, In a l -> R a a) -> (forall a, In a l -> R a (fst (f a))) -> Forall2 R l (fst (loop key rank f l)).
  Proof.
    intros R l Hr Hf. destruct (loop_pointwise l) as [g [-> Hg]].
    induction l as [|a l IH]; cbn; constructor.
    - destruct (Hg a) as [-> | ->]; [apply Hr | apply Hf]; left; reflexivity.
    - apply IH; intros b Hb; [apply Hr | apply Hf]; right; exact Hb.
  Qed.
  Lemma loop_map_inv : forall B (h : A -> B) l, (forall a, In a l -> h (fst (f a)) = h a) -> map h (fst (loop key rank f l)) = map h l.
  Proof.
    intros B h l H. destruct (loop_pointwise l) as [g [-> Hg]]. rewrite map_map.
    apply map_ext_in. intros a Ha. destruct (Hg a) as [-> | ->]; [reflexivity | apply H; exact Ha].
  Qed.
  Lemma loop_length : forall l, length (fst (loop key rank f l)) = length l.
  Proof. intros l. destruct (loop_pointwise l) as [g [-> _]]. apply map_length. Qed.
  Lemma loop_Forall : forall (P : A -> Prop) l, Forall P l -> (forall a, In a l -> P a -> P (fst (f a))) -> Forall P (fst (loop key rank f l)).
  Proof.
    intros P l HP Hf. destruct (loop_pointwise l) as [g [-> Hg]]. rewrite Forall_forall in *.
    intros b Hb. apply in_map_iff in Hb. destruct Hb as [a [<- Ha]].
    destruct (Hg a) as [-> | ->]; [apply HP; exact Ha | apply Hf; [exact Ha | apply HP; exact Ha]].
  Qed.

  (* accepted <-> every element is accepted; then every element carries its new value *)
  Lemma loop_ok_all : forall l, snd (loop key rank f l) = None -> forall a, In a l -> snd (f a) = None.
  Proof.
    intros l H a Ha. unfold loop in H. destruct (scan key f (sort_by (fun a => rank (key a)) l)) as [vis e] eqn:Hs.
    cbn in H. subst e. destruct (scan_none _ _ Hs) as [_ Hall]. apply Hall. apply sort_by_In. exact Ha.
  Qed.
  Lemma loop_all_ok : forall l, (forall a, In a l -> snd (f a) = None) -> loop key rank f l = (map (fun a => fst (f a)) l, None).
  Proof.
    intros l H. unfold loop. rewrite scan_all_none; [|intros a Ha; apply H; apply sort_by_In in Ha; exact Ha].
    f_equal. apply map_ext_in. intros a Ha.
    assert (Hm : memN (key a) (map key (sort_by (fun a0 => rank (key a0)) l)) = true).
    { apply memN_In. apply in_map. apply sort_by_In. exact Ha. }
    rewrite Hm. reflexivity.
  Qed.
  Lemma loop_err_from : forall l e, snd (loop key rank f l) = Some e -> exists a, In a l /\ snd (f a) = Some e.
  Proof.
    intros l e H. unfold loop in H. destruct (scan key f (sort_by (fun a => rank (key a)) l)) as [vis e'] eqn:Hs.
    cbn in H. subst e'. destruct (scan_some _ _ _ Hs) as [a [Ha He]]. exists a. split; [apply sort_by_In in Ha; exact Ha | exact He].
  Qed.
End Loop.

(* two runs of a loop whose bodies agree on the elements: if one accepts, the other gives the same *)
Lemma loop_deterministic : forall A (key : A -> N) (f g : A -> A * option err) r1 r2 l,
  (forall a, In a l -> f a = g a) -> snd (loop key r1 f l) = None -> loop key r2 g l = loop key r1 f l.
Proof.
  intros A key f g r1 r2 l Hfg Hok.
  pose proof (loop_ok_all key f r1 l Hok) as Hall.
  rewrite (loop_all_ok key f r1 l Hall).
  rewrite (loop_all_ok key g r2 l); [|intros a Ha; rewrite <- Hfg; [apply Hall|]; exact Ha].
  f_equal. apply map_ext_in. intros a Ha. rewrite Hfg; [reflexivity | exact Ha].
Qed.

(* ------------------------------------------------------------------ what an update keeps *)
Definition readable (f : field) : Prop := needs_default (f_nullable f) (f_default f) (f_type f) = false.

Definition field_ext (f f' : field) : Prop :=
  f_name f' = f_name f /\ f_short f' = f_short f /\ f_type f' = f_type f.
(* l' is l, element by element related by R, followed by new elements that satisfy Q *)
Definition list_ext {A} (R : A -> A -> Prop) (Q : A -> Prop) (l l' : list A) : Prop :=
  exists l1 l2, l' = l1 ++ l2 /\ Forall2 R l l1 /\ Forall Q l2.
Definition ent_ext (e e' : entity) : Prop :=
  e_name e' = e_name e /\ e_short e' = e_short e /\
  list_ext field_ext (fun f => readable f /\ ~ In (f_name f) (map f_name (e_fields e))) (e_fields e) (e_fields e').
Definition ns_ext (n n' : nspace) : Prop :=
  n_name n' = n_name n /\ n_id n' = n_id n /\
  list_ext ent_ext (fun e => ~ In (e_name e) (map e_name (n_ents n))) (n_ents n) (n_ents n').
Definition model_ext (M M' : list nspace) : Prop :=
  list_ext ns_ext (fun n => ~ In (n_name n) (map n_name M)) M M'.

Lemma Forall2_refl : forall A (R : A -> A -> Prop) l, (forall a, In a l -> R a a) -> Forall2 R l l.
Proof. induction l as [|a l IH]; intros H; constructor; [apply H; left; reflexivity | apply IH; intros b Hb; apply H; right; exact Hb]. Qed.
Lemma list_ext_refl : forall A (R : A -> A -> Prop) Q l, (forall a, In a l -> R a a) -> list_ext R Q l l.
Proof. intros. exists l, []. split; [rewrite app_nil_r; reflexivity|]. split; [apply Forall2_refl; assumption | constructor]. Qed.
Lemma list_ext_same : forall A (R : A -> A -> Prop) Q l l', Forall2 R l l' -> list_ext R Q l l'.
Proof. intros. exists l', []. split; [rewrite app_nil_r; reflexivity|]. split; [assumption | constructor]. Qed.

Lemma field_ext_refl : forall f, field_ext f f.
Proof. intros f. repeat split. Qed.
Lemma ent_ext_refl : forall e, ent_ext e e.
Proof. intros e. split; [reflexivity|]. split; [reflexivity|]. apply list_ext_refl. intros. apply field_ext_refl. Qed.
Lemma ns_ext_refl : forall n, ns_ext n n.
Proof. intros n. split; [reflexivity|]. split; [reflexivity|]. apply list_ext_refl. intros. apply ent_ext_refl. Qed.
Lemma model_ext_refl : forall M, model_ext M M.
Proof. intros M. apply list_ext_refl. intros. apply ns_ext_refl. Qed.

Lemma upd_field_ext : forall qfs f, field_ext f (fst (upd_field qfs f)).
Proof.
  intros qfs f. unfold upd_field.
  destruct (find_field (f_name f) qfs) as [g|]; [|apply field_ext_refl].
  destruct (negb (N.eqb (f_short f) (f_short g))); [apply field_ext_refl|].
  destruct (negb (ftype_eqb (f_type f) (f_type g))); [apply field_ext_refl|].
  destruct (f_nullable f && needs_default (f_nullable g) (f_default g) (f_type f)); [apply field_ext_refl|].
  cbn. repeat split.
Qed.

Lemma insert_new_ext : forall news fs, exists added,
  fst (insert_new news fs) = fs ++ added /\ Forall readable added /\ Forall (fun f => In (f_name f) (map f_name news)) added.
Proof.
  induction news as [|g news IH]; intros fs; cbn [insert_new].
  - exists []. cbn [fst]. rewrite app_nil_r. repeat split; constructor.
  - destruct (needs_default (f_nullable g) (f_default g) (f_type g)) eqn:Hnd.
    + exists []. cbn [fst]. rewrite app_nil_r. repeat split; constructor.
    + destruct (IH (fs ++ [mkF (f_name g) (reserved + len fs) (f_type g) (f_default g) (f_nullable g) (f_depr g)])) as [added [Heq [Hr Hn]]].
      exists (mkF (f_name g) (reserved + len fs) (f_type g) (f_default g) (f_nullable g) (f_depr g) :: added).
      split; [rewrite Heq, <- app_assoc; reflexivity|]. split.
      * constructor; [exact Hnd | exact Hr].
      * constructor; [left; reflexivity|]. eapply Forall_impl; [|exact Hn]. intros a Ha. right. exact Ha.
Qed.

Lemma new_fields_fresh : forall e q f, In f (new_fields e q) -> ~ In (f_name f) (map f_name (e_fields e)).
Proof.
  intros e q f H. unfold new_fields in H. apply filter_In in H. destruct H as [_ H].
  apply negb_true_iff in H. apply (hask_false f_name) in H. exact H.
Qed.

Lemma entity_update_ext : forall o nsn e q, ent_ext e (fst (entity_update o nsn e q)).
Proof.
  intros o nsn e q. unfold entity_update.
  destruct (loop f_name (o_fld o nsn (e_name e)) (upd_field (e_fields q)) (e_fields e)) as [fs1 er1] eqn:Hl.
  assert (H1 : Forall2 field_ext (e_fields e) fs1).
  { replace fs1 with (fst (loop f_name (o_fld o nsn (e_name e)) (upd_field (e_fields q)) (e_fields e))) by (rewrite Hl; reflexivity).
    apply loop_Forall2; intros; [apply field_ext_refl | apply upd_field_ext]. }
  destruct er1 as [x|].
  - cbn. split; [reflexivity|]. split; [reflexivity|]. apply list_ext_same. exact H1.
  - set (news := sort_by f_short (new_fields e q)).
    destruct (insert_new news fs1) as [fs2 er2] eqn:Hi.
    destruct (insert_new_ext news fs1) as [added [Heq [Hr Hn]]]. rewrite Hi in Heq. cbn in Heq. subst fs2.
    assert (Hext : list_ext field_ext (fun f => readable f /\ ~ In (f_name f) (map f_name (e_fields e))) (e_fields e) (fs1 ++ added)).
    { exists fs1, added. split; [reflexivity|]. split; [exact H1|].
      rewrite Forall_forall in *. intros f Hf. split; [apply Hr; exact Hf|].
      specialize (Hn f Hf). apply in_map_iff in Hn. destruct Hn as [g [Hg Hgin]]. rewrite <- Hg.
      apply (new_fields_fresh e q). unfold news in Hgin. apply sort_by_In in Hgin. exact Hgin. }
    destruct er2; cbn; (split; [reflexivity|]; split; [reflexivity|]; exact Hext).
Qed.

Lemma upd_ent_ext : forall o nsn qes e, ent_ext e (fst (upd_ent o nsn qes e)).
Proof.
  intros. unfold upd_ent. destruct (find_ent (e_name e) qes) as [q|]; [|apply ent_ext_refl].
  destruct (negb (short_eqb (e_short e) (e_short q))); [apply ent_ext_refl | apply entity_update_ext].
Qed.

Lemma new_ents_fresh : forall n p q, In q (new_ents n p) -> ~ In (e_name q) (map e_name (n_ents n)).
Proof.
  intros n p q H. unfold new_ents in H. apply filter_In in H. destruct H as [_ H].
  apply negb_true_iff in H. apply (hask_false e_name) in H. exact H.
Qed.

Lemma upd_ns_ext : forall o sys P n, ns_ext n (fst (upd_ns o sys P n)).
Proof.
  intros. unfold upd_ns. destruct (find_ns (n_name n) P) as [p|]; [|apply ns_ext_refl].
  destruct (negb (N.eqb (n_id p) (n_id n))); [apply ns_ext_refl|].
  destruct (loop e_name (o_ent o (n_name n)) (upd_ent o (n_name n) (n_ents p)) (n_ents n)) as [es er] eqn:Hl.
  assert (H1 : Forall2 ent_ext (n_ents n) es).
  { replace es with (fst (loop e_name (o_ent o (n_name n)) (upd_ent o (n_name n) (n_ents p)) (n_ents n))) by (rewrite Hl; reflexivity).
    apply loop_Forall2; intros; [apply ent_ext_refl | apply upd_ent_ext]. }
  destruct er; cbn; (split; [reflexivity|]; split; [reflexivity|]).
  - apply list_ext_same. exact H1.
  - exists es, (new_ents n p). split; [reflexivity|]. split; [exact H1|].
    rewrite Forall_forall. intros q Hq. apply (new_ents_fresh n p). exact Hq.
Qed.

Lemma new_nss_fresh : forall M P p, In p (new_nss M P) -> ~ In (n_name p) (map n_name M).
Proof.
  intros M P p H. unfold new_nss in H. apply filter_In in H. destruct H as [_ H].
  apply negb_true_iff in H. apply (hask_false n_name) in H. exact H.
Qed.

(* whatever the verdict and whatever the iteration orders: every namespace, entity and field that
   existed is still there with the same name, storage identifier and type; what was added to an
   existing entity can be read on old rows *)
Lemma apply_upd_ext : forall o sys M v, model_ext (m_nss M) (m_nss (fst (apply_upd o sys M v))).
Proof.
  intros. unfold apply_upd. destruct (parse (if sys then 0 else 1) v) as [P|e]; [|apply model_ext_refl].
  destruct (ns_check_fails sys P); [apply model_ext_refl|].
  destruct (loop n_name (o_ns o) (upd_ns o sys P) (m_nss M)) as [nss er] eqn:Hl.
  assert (H1 : Forall2 ns_ext (m_nss M) nss).
  { replace nss with (fst (loop n_name (o_ns o) (upd_ns o sys P) (m_nss M))) by (rewrite Hl; reflexivity).
    apply loop_Forall2; intros; [apply ns_ext_refl | apply upd_ns_ext]. }
  destruct er; cbn.
  - apply list_ext_same. exact H1.
  - exists nss, (new_nss (m_nss M) P). split; [reflexivity|]. split; [exact H1|].
    rewrite Forall_forall. intros p Hp. apply (new_nss_fresh (m_nss M) P). exact Hp.
Qed.

(* update_with: the result of apply_update on the clone when accepted, self otherwise *)
Lemma upd_cases : forall o sys M v,
  (snd (apply_upd o sys M v) = None /\ upd o sys M v = apply_upd o sys M v) \/
  (exists x, snd (apply_upd o sys M v) = Some x /\ upd o sys M v = (M, Some x)).
Proof.
  intros. unfold upd. destruct (apply_upd o sys M v) as [M' [x|]]; [right; exists x; split; reflexivity | left; split; reflexivity].
Qed.

Theorem upd_ext : forall o sys M v, model_ext (m_nss M) (m_nss (fst (upd o sys M v))).
Proof.
  intros. destruct (upd_cases o sys M v) as [[_ ->] | [x [_ ->]]]; [apply apply_upd_ext | apply model_ext_refl].
Qed.

(* ------------------------------------------------------------------ well-formedness *)
Definition wf_fields (fs : list field) : Prop :=
  NoDup (map f_name fs) /\ NoDup (map f_short fs) /\ Forall (fun f => reserved <= f_short f /\ f_short f < reserved + len fs) fs.
Definition wf_ent (e : entity) : Prop := wf_fields (e_fields e).
Definition nspart (n : nspace) : option N := if N.eqb (n_name n) 0 then None else Some (n_id n).
Definition wf_ents (part : option N) (es : list entity) : Prop :=
  NoDup (map e_name es) /\ NoDup (map e_short es) /\ Forall (fun e => fst (e_short e) = part /\ wf_ent e) es.
Definition wf_ns (n : nspace) : Prop := wf_ents (nspart n) (n_ents n).
(* "sys" has identifier 0, every other namespace an identifier >= 1 *)
Definition sys_rule (n : nspace) : Prop := if N.eqb (n_name n) 1 then n_id n = 0 else 1 <= n_id n.
Definition wf_model (M : list nspace) : Prop :=
  NoDup (map n_name M) /\ NoDup (map n_id M) /\ Forall wf_ns M /\ Forall sys_rule M.

(* what parse_internal builds, while it builds it: positions are below the current length *)
Definition wf_ns_b (n : nspace) : Prop := wf_ns n /\ Forall (fun e => snd (e_short e) < len (n_ents n)) (n_ents n).
Definition wf_parse (decal : N) (P : list nspace) : Prop :=
  NoDup (map n_name P) /\ NoDup (map n_id P) /\ Forall wf_ns_b P /\ Forall (fun n => decal <= n_id n /\ n_id n < decal + len P) P.

Lemma nodup_snoc : forall A (l : list A) x, NoDup l -> ~ In x l -> NoDup (l ++ [x]).
Proof.
  intros A l x Hnd Hx. apply (Permutation_NoDup (l := x :: l)); [apply Permutation_cons_append | constructor; assumption].
Qed.
Lemma len_snoc : forall A (l : list A) x, len (l ++ [x]) = len l + 1.
Proof. intros. rewrite len_app. reflexivity. Qed.
Lemma fresh_bound : forall A (h : A -> N) b l, Forall (fun a => h a < b) l -> ~ In b (map h l).
Proof.
  intros A h b l H Hin. apply in_map_iff in Hin. destruct Hin as [a [He Ha]].
  rewrite Forall_forall in H. specialize (H a Ha). lia.
Qed.

Lemma wf_fields_nil : wf_fields [].
Proof. repeat split; constructor. Qed.

Lemma wf_fields_snoc : forall fs nm ty df nu dp,
  wf_fields fs -> ~ In nm (map f_name fs) -> wf_fields (fs ++ [mkF nm (reserved + len fs) ty df nu dp]).
Proof.
  intros fs nm ty df nu dp [Hn [Hs Hb]] Hfresh. unfold wf_fields. rewrite !map_app. cbn [map f_name f_short].
  split; [apply nodup_snoc; assumption|]. split.
  - apply nodup_snoc; [exact Hs|]. apply fresh_bound. eapply Forall_impl; [|exact Hb]. intros a [_ Ha]. exact Ha.
  - rewrite len_snoc. apply Forall_app. split.
    + eapply Forall_impl; [|exact Hb]. cbv beta. intros a [Ha1 Ha2]. split; lia.
    + constructor; [|constructor]. cbn [f_short]. split; lia.
Qed.

Lemma add_fields_wf : forall ds acc fs, wf_fields acc -> add_fields ds acc = Ok fs -> wf_fields fs.
Proof.
  induction ds as [|d ds IH]; intros acc fs Hwf H; cbn [add_fields] in H.
  - inversion H. subst. exact Hwf.
  - destruct (has_field (fd_name d) acc) eqn:Hh; [discriminate|].
    destruct (is_sys_field (fd_name d)); [discriminate|].
    eapply IH; [|exact H]. apply wf_fields_snoc; [exact Hwf|]. apply (hask_false f_name). exact Hh.
Qed.

(* replace_ns puts n' where the namespace of that name was *)
Lemma replace_ns_spec : forall l n n', NoDup (map n_name l) -> In n l -> n_name n' = n_name n ->
  exists l1 l2, l = l1 ++ n :: l2 /\ replace_ns n' l = l1 ++ n' :: l2.
Proof.
  induction l as [|m l IH]; intros n n' Hnd Hin Hname; [destruct Hin|].
  cbn in Hnd. inversion Hnd as [|? ? Hnotin Hnd']. subst. cbn [replace_ns].
  destruct Hin as [->|Hin].
  - rewrite Hname, N.eqb_refl. exists [], l. split; reflexivity.
  - destruct (N.eqb (n_name m) (n_name n')) eqn:He.
    + apply N.eqb_eq in He. exfalso. apply Hnotin. rewrite He, Hname. apply in_map. exact Hin.
    + destruct (IH n n' Hnd' Hin Hname) as [l1 [l2 [H1 H2]]]. exists (m :: l1), l2. split; cbn; [rewrite H1 | rewrite H2]; reflexivity.
Qed.

Lemma insert_entity_wf : forall decal nsn d M M', wf_parse decal M -> insert_entity decal nsn d M = Ok M' -> wf_parse decal M'.
Proof.
  intros decal nsn d M M' Hwf H. unfold insert_entity in H.
  destruct (add_fields (ed_fields d) []) as [fs|] eqn:Hf; [|discriminate].
  pose proof (add_fields_wf _ _ _ wf_fields_nil Hf) as Hfs.
  set (M1 := if has_ns nsn M then M else M ++ [mkNs nsn (len M + decal) []]) in *.
  assert (Hwf1 : wf_parse decal M1).
  { unfold M1. destruct (has_ns nsn M) eqn:Hh; [exact Hwf|].
    destruct Hwf as [Hn [Hi [Hw Hb]]]. unfold wf_parse. rewrite !map_app. cbn [map n_name n_id].
    split; [apply nodup_snoc; [exact Hn | apply (hask_false n_name); exact Hh]|]. split.
    - apply nodup_snoc; [exact Hi|]. replace (len M + decal) with (decal + len M) by lia. apply fresh_bound.
      eapply Forall_impl; [|exact Hb]. intros a [_ Ha]. exact Ha.
    - split.
      + apply Forall_app. split; [exact Hw|]. constructor; [|constructor].
        split; [|constructor]. repeat split; constructor.
      + rewrite len_snoc. apply Forall_app. split.
        * eapply Forall_impl; [|exact Hb]. cbv beta. intros a [Ha1 Ha2]. split; lia.
        * constructor; [|constructor]. cbn [n_id]. split; lia. }
  clearbody M1. clear Hwf.
  destruct (find_ns nsn M1) as [n|] eqn:Hfind; [|discriminate].
  destruct (has_ent (ed_name d) (n_ents n)) eqn:Hhe; [discriminate|].
  destruct (add_indexes fs (ed_idx d) []) as [ixs|]; [|discriminate].
  inversion H. subst M'. clear H.
  apply (findk_some n_name) in Hfind. destruct Hfind as [Hin Hname].
  destruct Hwf1 as [Hn [Hi [Hw Hb]]].
  set (e := mkE (ed_name d) (if N.eqb nsn 0 then None else Some (n_id n), len (n_ents n)) fs ixs [] (ed_depr d) (ed_ft d)).
  destruct (replace_ns_spec M1 n (set_ents n (n_ents n ++ [e])) Hn Hin eq_refl) as [l1 [l2 [HM1 Hrep]]].
  rewrite Hrep. subst M1. unfold wf_parse in *. rewrite !map_app in *. cbn [map] in *.
  split; [exact Hn|]. split; [exact Hi|]. split.
  - apply Forall_app in Hw. destruct Hw as [Hw1 Hw2]. inversion Hw2 as [|? ? Hwn Hw2']. subst.
    apply Forall_app. split; [exact Hw1|]. constructor; [|exact Hw2'].
    destruct Hwn as [[Hen [Hes Hef]] Hpos]. unfold wf_ns_b, wf_ns, wf_ents. cbn [n_ents set_ents].
    rewrite !map_app. cbn [map].
    assert (Hpart : nspart (set_ents n (n_ents n ++ [e])) = nspart n) by reflexivity.
    rewrite Hpart. split; [split; [|split]|].
    + apply nodup_snoc; [exact Hen|]. cbn. apply (hask_false e_name). exact Hhe.
    + apply nodup_snoc; [exact Hes|]. cbn [e_short e]. intros Hc. apply in_map_iff in Hc. destruct Hc as [x [Hx Hxin]].
      rewrite Forall_forall in Hpos. specialize (Hpos x Hxin). rewrite Hx in Hpos. cbn [snd] in Hpos. lia.
    + apply Forall_app. split; [exact Hef|]. constructor; [|constructor]. cbn [e_short e fst e_fields]. split; [|exact Hfs].
      unfold nspart. cbn [n_name n_id]. reflexivity.
    + rewrite len_snoc. apply Forall_app. split.
      * eapply Forall_impl; [|exact Hpos]. cbv beta. intros a Ha. lia.
      * constructor; [|constructor]. cbn [e_short e snd]. lia.
  - rewrite !len_app in *. apply Forall_app in Hb. destruct Hb as [Hb1 Hb2]. inversion Hb2 as [|? ? Hbn Hb2']. subst.
    change (len (set_ents n (n_ents n ++ [e]) :: l2)) with (len (n :: l2)).
    apply Forall_app. split; [exact Hb1|]. constructor; [exact Hbn | exact Hb2'].
Qed.

Lemma insert_entities_wf : forall decal nsn ds M M', wf_parse decal M -> insert_entities decal nsn ds M = Ok M' -> wf_parse decal M'.
Proof.
  induction ds as [|d ds IH]; intros M M' Hwf H; cbn [insert_entities] in H.
  - inversion H. subst. exact Hwf.
  - destruct (insert_entity decal nsn d M) as [M1|] eqn:H1; [|discriminate].
    eapply IH; [|exact H]. eapply insert_entity_wf; eassumption.
Qed.
Lemma insert_blocks_wf : forall decal bs M M', wf_parse decal M -> insert_blocks decal bs M = Ok M' -> wf_parse decal M'.
Proof.
  induction bs as [|[nsn ds] bs IH]; intros M M' Hwf H; cbn [insert_blocks] in H.
  - inversion H. subst. exact Hwf.
  - destruct (insert_entities decal nsn ds M) as [M1|] eqn:H1; [|discriminate].
    eapply IH; [|exact H]. eapply insert_entities_wf; eassumption.
Qed.
Lemma wf_parse_nil : forall decal, wf_parse decal [].
Proof. intros. repeat split; constructor. Qed.

(* parse_internal numbers namespaces, entities and fields by position: no collisions *)
Theorem parse_wf : forall decal v P, parse decal v = Ok P -> wf_parse decal P.
Proof.
  intros decal v P H. unfold parse in H.
  destruct (insert_blocks decal (v_blocks v) []) as [M|] eqn:Hb; [|discriminate].
  destruct (consistent M); [|discriminate]. inversion H. subst.
  eapply insert_blocks_wf; [apply wf_parse_nil | exact Hb].
Qed.

(* ------------------------------------------------------------------ an update keeps well-formedness *)
Lemma NoDup_app_intro : forall A (l1 l2 : list A), NoDup l1 -> NoDup l2 -> (forall x, In x l1 -> ~ In x l2) -> NoDup (l1 ++ l2).
Proof.
  induction l1 as [|a l1 IH]; intros l2 H1 H2 Hd; cbn; [exact H2|].
  inversion H1 as [|? ? Ha H1']. subst. constructor.
  - intros Hin. apply in_app_or in Hin. destruct Hin as [Hin|Hin]; [apply Ha; exact Hin | apply (Hd a); [left; reflexivity | exact Hin]].
  - apply IH; [exact H1' | exact H2 | intros x Hx; apply Hd; right; exact Hx].
Qed.
Lemma NoDup_map_filter : forall A B (h : A -> B) (p : A -> bool) l, NoDup (map h l) -> NoDup (map h (filter p l)).
Proof.
  induction l as [|a l IH]; intros H; cbn; [constructor|].
  cbn in H. inversion H as [|? ? Ha H']. subst. destruct (p a); [|apply IH; exact H'].
  cbn. constructor; [|apply IH; exact H'].
  intros Hin. apply Ha. apply in_map_iff in Hin. destruct Hin as [x [Hx Hxin]]. apply filter_In in Hxin.
  rewrite <- Hx. apply in_map. apply Hxin.
Qed.
Lemma NoDup_map_inj : forall A B (h : A -> B) l a b, NoDup (map h l) -> In a l -> In b l -> h a = h b -> a = b.
Proof.
  induction l as [|x l IH]; intros a b H Ha Hb He; [destruct Ha|].
  cbn in H. inversion H as [|? ? Hx H']. subst.
  destruct Ha as [->|Ha], Hb as [->|Hb].
  - reflexivity.
  - exfalso. apply Hx. rewrite He. apply in_map. exact Hb.
  - exfalso. apply Hx. rewrite <- He. apply in_map. exact Ha.
  - apply IH; assumption.
Qed.

Lemma wf_fields_same_keys : forall fs fs', map f_name fs' = map f_name fs -> map f_short fs' = map f_short fs -> wf_fields fs -> wf_fields fs'.
Proof.
  intros fs fs' Hn Hs [H1 [H2 H3]]. unfold wf_fields. rewrite Hn, Hs. split; [exact H1|]. split; [exact H2|].
  assert (Hl : len fs' = len fs). { rewrite <- (len_map _ _ f_name fs'), Hn, len_map. reflexivity. }
  rewrite Hl.
  apply (Forall_map f_short (fun s => reserved <= s /\ s < reserved + len fs)).
  rewrite Hs. apply (Forall_map f_short (fun s => reserved <= s /\ s < reserved + len fs)). exact H3.
Qed.

Lemma loop_fields_wf : forall rank qfs fs, wf_fields fs -> wf_fields (fst (loop f_name rank (upd_field qfs) fs)).
Proof.
  intros rank qfs fs H. eapply wf_fields_same_keys; [| |exact H].
  - apply loop_map_inv. intros a _. apply upd_field_ext.
  - apply loop_map_inv. intros a _. apply upd_field_ext.
Qed.

Lemma insert_new_wf : forall news fs, wf_fields fs -> NoDup (map f_name news) ->
  (forall g, In g news -> ~ In (f_name g) (map f_name fs)) -> wf_fields (fst (insert_new news fs)).
Proof.
  induction news as [|g news IH]; intros fs Hwf Hnd Hfresh; cbn [insert_new]; [exact Hwf|].
  destruct (needs_default (f_nullable g) (f_default g) (f_type g)); [exact Hwf|].
  cbn in Hnd. inversion Hnd as [|? ? Hg Hnd']. subst.
  apply IH.
  - apply wf_fields_snoc; [exact Hwf | apply Hfresh; left; reflexivity].
  - exact Hnd'.
  - intros h Hh Hin. rewrite map_app in Hin. apply in_app_or in Hin. destruct Hin as [Hin|Hin].
    + apply (Hfresh h); [right; exact Hh | exact Hin].
    + cbn in Hin. destruct Hin as [Hin|[]]. apply Hg. rewrite Hin. apply in_map. exact Hh.
Qed.

Lemma entity_update_wf : forall o nsn e q, wf_ent e -> NoDup (map f_name (e_fields q)) -> wf_ent (fst (entity_update o nsn e q)).
Proof.
  intros o nsn e q Hwf Hq. unfold entity_update.
  destruct (loop f_name (o_fld o nsn (e_name e)) (upd_field (e_fields q)) (e_fields e)) as [fs1 er1] eqn:Hl.
  assert (H1 : wf_fields fs1).
  { replace fs1 with (fst (loop f_name (o_fld o nsn (e_name e)) (upd_field (e_fields q)) (e_fields e))) by (rewrite Hl; reflexivity).
    apply loop_fields_wf. exact Hwf. }
  assert (Hnames : map f_name fs1 = map f_name (e_fields e)).
  { replace fs1 with (fst (loop f_name (o_fld o nsn (e_name e)) (upd_field (e_fields q)) (e_fields e))) by (rewrite Hl; reflexivity).
    apply loop_map_inv. intros a _. apply upd_field_ext. }
  destruct er1; [exact H1|].
  set (news := sort_by f_short (new_fields e q)).
  assert (H2 : wf_fields (fst (insert_new news fs1))).
  { apply insert_new_wf; [exact H1| |].
    - apply (Permutation_NoDup (l := map f_name (new_fields e q))).
      + apply Permutation_map. apply Permutation_sym. apply sort_by_perm.
      + apply NoDup_map_filter. exact Hq.
    - intros g Hg. rewrite Hnames. apply (new_fields_fresh e q). unfold news in Hg. apply sort_by_In in Hg. exact Hg. }
  destruct (insert_new news fs1) as [fs2 er2]. cbn [fst] in H2. destruct er2; exact H2.
Qed.

Lemma upd_ent_wf : forall o nsn qes e, wf_ent e -> Forall wf_ent qes -> wf_ent (fst (upd_ent o nsn qes e)).
Proof.
  intros o nsn qes e Hwf Hq. unfold upd_ent. destruct (find_ent (e_name e) qes) as [q|] eqn:Hf; [|exact Hwf].
  destruct (negb (short_eqb (e_short e) (e_short q))); [exact Hwf|].
  apply entity_update_wf; [exact Hwf|]. apply (findk_some e_name) in Hf. destruct Hf as [Hin _].
  rewrite Forall_forall in Hq. apply (Hq q Hin).
Qed.

Lemma upd_ent_ok_inv : forall o nsn qes e, snd (upd_ent o nsn qes e) = None ->
  exists q, find_ent (e_name e) qes = Some q /\ e_short q = e_short e.
Proof.
  intros o nsn qes e H. unfold upd_ent in H. destruct (find_ent (e_name e) qes) as [q|]; [|discriminate].
  destruct (short_eqb (e_short e) (e_short q)) eqn:Hs; [|discriminate].
  exists q. split; [reflexivity|]. apply short_eqb_eq in Hs. symmetry. exact Hs.
Qed.

Lemma upd_ns_wf : forall o sys P n, wf_ns n -> Forall wf_ns P -> wf_ns (fst (upd_ns o sys P n)).
Proof.
  intros o sys P n Hwf HP. unfold upd_ns.
  destruct (find_ns (n_name n) P) as [p|] eqn:Hfp; [|exact Hwf].
  destruct (N.eqb (n_id p) (n_id n)) eqn:Hid; [|exact Hwf]. cbn [negb]. apply N.eqb_eq in Hid.
  apply (findk_some n_name) in Hfp. destruct Hfp as [Hpin Hpname].
  assert (Hp : wf_ns p) by (rewrite Forall_forall in HP; apply HP; exact Hpin).
  assert (Hpart : nspart p = nspart n) by (unfold nspart; rewrite Hpname, Hid; reflexivity).
  destruct Hwf as [Hn [Hs Hf]]. destruct Hp as [Hpn [Hps Hpf]].
  set (F := upd_ent o (n_name n) (n_ents p)).
  set (R := o_ent o (n_name n)).
  destruct (loop e_name R F (n_ents n)) as [es er] eqn:Hl.
  assert (Hes : es = fst (loop e_name R F (n_ents n))) by (rewrite Hl; reflexivity).
  assert (Hnames : map e_name es = map e_name (n_ents n)).
  { rewrite Hes. apply loop_map_inv. intros a _. apply upd_ent_ext. }
  assert (Hshorts : map e_short es = map e_short (n_ents n)).
  { rewrite Hes. apply loop_map_inv. intros a _. apply upd_ent_ext. }
  assert (Hfor : Forall (fun e => fst (e_short e) = nspart n /\ wf_ent e) es).
  { rewrite Hes. apply loop_Forall; [exact Hf|]. intros a Ha [Ha1 Ha2]. split.
    - destruct (upd_ent_ext o (n_name n) (n_ents p) a) as [_ [Hsh _]]. unfold F. rewrite Hsh. exact Ha1.
    - apply upd_ent_wf; [exact Ha2|]. eapply Forall_impl; [|exact Hpf]. intros x [_ Hx]. exact Hx. }
  destruct er as [x|]; unfold wf_ns, wf_ents; cbn [fst n_ents set_ents];
    change (nspart (set_ents n es)) with (nspart n); change (nspart (set_ents n (es ++ new_ents n p))) with (nspart n).
  - rewrite Hnames, Hshorts. split; [exact Hn|]. split; [exact Hs | exact Hfor].
  - assert (Hall : forall a, In a (n_ents n) -> snd (F a) = None).
    { apply (loop_ok_all e_name F R). rewrite Hl. reflexivity. }
    rewrite !map_app, Hnames, Hshorts. split; [|split].
    + apply NoDup_app_intro; [exact Hn | apply NoDup_map_filter; exact Hpn|].
      intros x Hx Hx2. apply in_map_iff in Hx2. destruct Hx2 as [q [Hq Hqin]]. apply (new_ents_fresh n p q Hqin). rewrite Hq. exact Hx.
    + apply NoDup_app_intro; [exact Hs | apply NoDup_map_filter; exact Hps|].
      intros x Hx Hx2. apply in_map_iff in Hx. destruct Hx as [a [Ha Hain]].
      apply in_map_iff in Hx2. destruct Hx2 as [r [Hr Hrin]].
      destruct (upd_ent_ok_inv o (n_name n) (n_ents p) a (Hall a Hain)) as [q [Hfq Hqs]].
      apply (findk_some e_name) in Hfq. destruct Hfq as [Hqin Hqname].
      assert (Hrp : In r (n_ents p)) by (unfold new_ents in Hrin; apply filter_In in Hrin; apply Hrin).
      assert (Heq : q = r). { apply (NoDup_map_inj _ _ e_short (n_ents p)); [exact Hps | exact Hqin | exact Hrp | congruence]. }
      subst r. apply (new_ents_fresh n p q Hrin). rewrite Hqname. apply in_map. exact Hain.
    + apply Forall_app. split; [exact Hfor|]. rewrite Forall_forall. intros q Hq.
      unfold new_ents in Hq. apply filter_In in Hq. destruct Hq as [Hq _].
      rewrite Forall_forall in Hpf. rewrite <- Hpart. apply Hpf. exact Hq.
Qed.

Lemma upd_ns_ok_inv : forall o sys P n, snd (upd_ns o sys P n) = None ->
  (find_ns (n_name n) P = None /\ (sys = true \/ n_name n = 1)) \/
  (exists p, find_ns (n_name n) P = Some p /\ n_id p = n_id n).
Proof.
  intros o sys P n H. unfold upd_ns in H. destruct (find_ns (n_name n) P) as [p|].
  - right. exists p. split; [reflexivity|]. destruct (N.eqb (n_id p) (n_id n)) eqn:Hid; [apply N.eqb_eq; exact Hid | discriminate].
  - left. split; [reflexivity|]. cbn in H. destruct sys; [left; reflexivity|]. right.
    destruct (N.eqb (n_name n) 1) eqn:He; [apply N.eqb_eq; exact He | discriminate].
Qed.

Lemma existsb_false_all : forall A (p : A -> bool) l, existsb p l = false -> forall a, In a l -> p a = false.
Proof.
  intros A p l H a Ha. destruct (p a) eqn:Hp; [|reflexivity].
  assert (existsb p l = true) by (apply existsb_exists; exists a; split; assumption). congruence.
Qed.

Lemma nodup_const_length : forall (l : list N) c, NoDup l -> (forall x, In x l -> x = c) -> (length l <= 1)%nat.
Proof.
  intros [|a [|b l]] c Hnd Hc; cbn; try lia.
  exfalso. inversion Hnd as [|? ? Ha _]. subst. apply Ha. left.
  rewrite (Hc a (or_introl eq_refl)). rewrite (Hc b (or_intror (or_introl eq_refl))). reflexivity.
Qed.

Lemma sys_parse_ids : forall P, wf_parse 0 P -> (forall p, In p P -> n_name p = 1) -> forall p, In p P -> n_id p = 0.
Proof.
  intros P [Hn [_ [_ Hb]]] Hall p Hp.
  assert (Hlen : (length (map n_name P) <= 1)%nat).
  { apply (nodup_const_length _ 1 Hn). intros x Hx. apply in_map_iff in Hx. destruct Hx as [q [<- Hq]]. apply Hall. exact Hq. }
  rewrite map_length in Hlen. rewrite Forall_forall in Hb. specialize (Hb p Hp). unfold len in Hb. lia.
Qed.

(* whatever the verdict and the iteration orders, the model stays free of collisions *)
Lemma apply_upd_wf : forall o sys M v, wf_model (m_nss M) -> wf_model (m_nss (fst (apply_upd o sys M v))).
Proof.
  intros o sys M v Hwf. unfold apply_upd.
  destruct (parse (if sys then 0 else 1) v) as [P|e] eqn:Hparse; [|exact Hwf].
  apply parse_wf in Hparse.
  destruct (ns_check_fails sys P) eqn:Hchk; [exact Hwf|].
  pose proof (existsb_false_all _ _ _ Hchk) as Hnames. clear Hchk.
  destruct Hparse as [HPn [HPi [HPw HPb]]].
  assert (HPwf : Forall wf_ns P) by (eapply Forall_impl; [|exact HPw]; intros a [Ha _]; exact Ha).
  destruct Hwf as [Hn [Hi [Hw Hr]]].
  set (F := upd_ns o sys P).
  destruct (loop n_name (o_ns o) F (m_nss M)) as [nss er] eqn:Hl.
  assert (Hnss : nss = fst (loop n_name (o_ns o) F (m_nss M))) by (rewrite Hl; reflexivity).
  assert (Hnm : map n_name nss = map n_name (m_nss M)).
  { rewrite Hnss. apply loop_map_inv. intros a _. apply upd_ns_ext. }
  assert (Hids : map n_id nss = map n_id (m_nss M)).
  { rewrite Hnss. apply loop_map_inv. intros a _. apply upd_ns_ext. }
  assert (Hwn : Forall wf_ns nss).
  { rewrite Hnss. apply loop_Forall; [exact Hw|]. intros a _ Ha. apply upd_ns_wf; assumption. }
  assert (Hrn : Forall sys_rule nss).
  { rewrite Hnss. apply loop_Forall; [exact Hr|]. intros a _ Ha. unfold sys_rule in *.
    destruct (upd_ns_ext o sys P a) as [H1 [H2 _]]. unfold F. rewrite H1, H2. exact Ha. }
  destruct er as [x|]; cbn [fst m_nss]; unfold wf_model.
  - rewrite Hnm, Hids. repeat split; assumption.
  - assert (Hall : forall a, In a (m_nss M) -> snd (F a) = None).
    { apply (loop_ok_all n_name F (o_ns o)). rewrite Hl. reflexivity. }
    (* facts about a new namespace r *)
    assert (Hnew : forall r, In r (new_nss (m_nss M) P) -> In r P /\ ~ In (n_name r) (map n_name (m_nss M))).
    { intros r Hr'. split; [unfold new_nss in Hr'; apply filter_In in Hr'; apply Hr' | apply (new_nss_fresh _ P); exact Hr']. }
    assert (Hsysid : sys = true -> forall r, In r P -> n_name r = 1 /\ n_id r = 0).
    { intros -> r Hrin.
      assert (Hone : forall p, In p P -> n_name p = 1).
      { intros p Hp. specialize (Hnames p Hp). cbn in Hnames. apply negb_false_iff in Hnames. apply N.eqb_eq. exact Hnames. }
      split; [apply Hone; exact Hrin|]. apply (sys_parse_ids P); [repeat split; assumption | exact Hone | exact Hrin]. }
    assert (Husr : sys = false -> forall r, In r P -> n_name r <> 1 /\ 1 <= n_id r).
    { intros -> r Hrin. split.
      - specialize (Hnames r Hrin). cbn in Hnames. apply N.eqb_neq. exact Hnames.
      - rewrite Forall_forall in HPb. apply HPb. exact Hrin. }
    rewrite !map_app, Hnm, Hids. split; [|split; [|split]].
    + apply NoDup_app_intro; [exact Hn | apply NoDup_map_filter; exact HPn|].
      intros x Hx Hx2. apply in_map_iff in Hx2. destruct Hx2 as [r [Hrx Hrin]]. apply (Hnew r Hrin). rewrite Hrx. exact Hx.
    + apply NoDup_app_intro; [exact Hi | apply NoDup_map_filter; exact HPi|].
      intros x Hx Hx2. apply in_map_iff in Hx. destruct Hx as [n [Hnx Hnin]].
      apply in_map_iff in Hx2. destruct Hx2 as [r [Hrx Hrin]]. destruct (Hnew r Hrin) as [HrP Hrfresh].
      assert (Hrule : sys_rule n) by (rewrite Forall_forall in Hr; apply Hr; exact Hnin).
      unfold sys_rule in Hrule.
      destruct (upd_ns_ok_inv o sys P n (Hall n Hnin)) as [[_ Hcase] | [p [Hfp Hpid]]].
      * destruct sys.
        -- destruct (Hsysid eq_refl r HrP) as [Hr1 Hr0].
           destruct (N.eqb (n_name n) 1) eqn:He.
           ++ apply N.eqb_eq in He. apply Hrfresh. rewrite Hr1, <- He. apply in_map. exact Hnin.
           ++ lia.
        -- destruct Hcase as [Hc|Hc]; [discriminate|]. rewrite Hc in Hrule. cbn in Hrule.
           destruct (Husr eq_refl r HrP) as [_ Hge]. lia.
      * apply (findk_some n_name) in Hfp. destruct Hfp as [HpP Hpname].
        assert (Heq : p = r). { apply (NoDup_map_inj _ _ n_id P); [exact HPi | exact HpP | exact HrP | congruence]. }
        subst r. apply Hrfresh. rewrite Hpname. apply in_map. exact Hnin.
    + apply Forall_app. split; [exact Hwn|]. rewrite Forall_forall. intros r Hr'.
      rewrite Forall_forall in HPwf. apply HPwf. apply (Hnew r Hr').
    + apply Forall_app. split; [exact Hrn|]. rewrite Forall_forall. intros r Hr'. destruct (Hnew r Hr') as [HrP _].
      unfold sys_rule. destruct sys.
      * destruct (Hsysid eq_refl r HrP) as [-> ->]. reflexivity.
      * destruct (Husr eq_refl r HrP) as [Hne Hge]. apply N.eqb_neq in Hne. rewrite Hne. exact Hge.
Qed.

Theorem upd_wf : forall o sys M v, wf_model (m_nss M) -> wf_model (m_nss (fst (upd o sys M v))).
Proof.
  intros o sys M v Hwf. destruct (upd_cases o sys M v) as [[_ ->] | [x [_ ->]]]; [apply apply_upd_wf; exact Hwf | exact Hwf].
Qed.

Lemma wf_model_nil : wf_model [].
Proof. repeat split; constructor. Qed.
