(* C11P.v — proofs for C11 (a deleted row stays deleted) over the model Sync.v. *)
From DV Require Import Sync SyncObs SyncP Run_C11.
From Coq Require Import Lia.
Open Scope Z_scope.

(* the invariant: no peer shows a row at or below (modification date) a deletion record it holds *)
Definition inv_replica (r : replica) : Prop :=
  forall n t, In n (nodes r) -> In t (tombs r) -> t_id t = n_id n -> t_mdate t < n_mdate n.
Definition inv_sys (S : sys) : Prop := forall p, inv_replica (get p S).
Definition inv_replica_b (r : replica) : bool := stays_deleted (tombs r) r.
Definition inv_sys_b (S : sys) : bool := forallb inv_replica_b S.

Lemma below_tomb_false : forall ts n, below_tomb ts n = false ->
  forall t, In t ts -> t_id t = n_id n -> t_mdate t < n_mdate n.
Proof.
  intros ts n H t Hin Hid. unfold below_tomb in H.
  assert (Hf : (N.eqb (t_id t) (n_id n) && (n_mdate n <=? t_mdate t))%bool = false).
  { destruct (N.eqb (t_id t) (n_id n) && (n_mdate n <=? t_mdate t))%bool eqn:E; [|reflexivity].
    assert (Ht : existsb (fun t0 => (N.eqb (t_id t0) (n_id n) && (n_mdate n <=? t_mdate t0))%bool) ts = true)
      by (apply existsb_exists; exists t; split; assumption).
    congruence. }
  rewrite Hid, N.eqb_refl in Hf. cbn [andb] in Hf. apply Z.leb_gt in Hf. exact Hf.
Qed.

Lemma below_tomb_true : forall ts n t, In t ts -> t_id t = n_id n -> n_mdate n <= t_mdate t -> below_tomb ts n = true.
Proof.
  intros ts n t Hin Hid Hle. unfold below_tomb. apply existsb_exists. exists t. split; [exact Hin|].
  rewrite Hid, N.eqb_refl. cbn [andb]. apply Z.leb_le. exact Hle.
Qed.

Lemma inv_replica_b_iff : forall r, inv_replica_b r = true <-> inv_replica r.
Proof.
  intros r. unfold inv_replica_b, stays_deleted, inv_replica. rewrite forallb_forall. split.
  - intros H n t Hn Ht Hid. specialize (H n Hn). apply Bool.negb_true_iff in H.
    apply (below_tomb_false _ _ H t Ht Hid).
  - intros H n Hn. apply Bool.negb_true_iff.
    destruct (below_tomb (tombs r) n) eqn:E; [|reflexivity]. exfalso.
    unfold below_tomb in E. apply existsb_exists in E. destruct E as [t [Ht Hc]].
    apply Bool.andb_true_iff in Hc. destruct Hc as [Hid Hle]. apply N.eqb_eq in Hid. apply Z.leb_le in Hle.
    specialize (H n t Hn Ht Hid). lia.
Qed.

(* ---------- pieces of a step ---------- *)
Lemma in_tomb_put : forall l u t, In t (tomb_put l u) -> t = u \/ In t l.
Proof.
  intros l u t H. unfold tomb_put in H. destruct H as [H|H]; [left; auto|right].
  apply filter_In in H. tauto.
Qed.

Lemma in_fold_put : forall f d n, In n (fold_left put_node f d) -> In n f \/ In n d.
Proof.
  induction f as [|a f IH]; intros d n H; cbn [fold_left] in H; [right; exact H|].
  apply IH in H. destruct H as [H|H]; [left; right; exact H|].
  unfold put_node in H. destruct H as [H|H]; [left; left; exact H|].
  apply in_remove_node in H. right. tauto.
Qed.

Lemma inv_apply_tomb : forall r t, inv_replica r -> inv_replica (apply_tomb r t).
Proof.
  intros r t H n u Hn Hu Hid. unfold apply_tomb in *. cbn [nodes tombs] in *.
  apply in_remove_node in Hn. destruct Hn as [Hn Hne].
  apply in_tomb_put in Hu. destruct Hu as [->|Hu]; [congruence|].
  apply (H n u Hn Hu Hid).
Qed.

Lemma inv_fold_apply_tomb : forall ts r, inv_replica r -> inv_replica (fold_left apply_tomb ts r).
Proof.
  induction ts as [|t ts IH]; intros r H; cbn [fold_left]; [exact H|]. apply IH. apply inv_apply_tomb. exact H.
Qed.

Definition day_resurrects (fixed : bool) (src dst : replica) (d : Z) : bool :=
  ev_resurrect (snd (sync_day fixed src (dst, 0%N, no_events) d)).

Lemma sync_day_shape : forall fixed src dst cnt ev d,
  fst (fst (sync_day fixed src (dst, cnt, ev) d)) = fst (fst (sync_day fixed src (dst, 0%N, no_events) d)) /\
  ev_resurrect (snd (sync_day fixed src (dst, cnt, ev) d)) = (ev_resurrect ev || day_resurrects fixed src dst d)%bool.
Proof.
  intros. unfold day_resurrects, sync_day. cbn [fst snd ev_or ev_resurrect no_events orb]. split; reflexivity.
Qed.

Lemma inv_sync_day : forall fixed src dst d, inv_replica dst -> day_resurrects fixed src dst d = false ->
  inv_replica (fst (fst (sync_day fixed src (dst, 0%N, no_events) d))).
Proof.
  intros fixed src dst d H Hr. unfold day_resurrects in Hr. unfold sync_day in *.
  cbn [fst snd ev_or ev_resurrect no_events orb] in *.
  set (dst1 := fold_left apply_tomb (dedup_tombs (tombs_on_day d (tombs src))) dst) in *.
  assert (H1 : inv_replica dst1) by (apply inv_fold_apply_tomb; exact H).
  set (fetch := filter (fun o => (wanted (nodes dst1) o && (negb fixed || negb (below_tomb (tombs dst1) o)))%bool) (on_day d (nodes src))) in *.
  intros n t Hn Ht Hid. cbn [nodes tombs] in *.
  apply in_fold_put in Hn. destruct Hn as [Hn|Hn].
  - assert (Hb : below_tomb (tombs dst1) n = false).
    { destruct (below_tomb (tombs dst1) n) eqn:E; [|reflexivity].
      assert (existsb (below_tomb (tombs dst1)) fetch = true) by (apply existsb_exists; exists n; split; assumption).
      congruence. }
    apply (below_tomb_false _ _ Hb t Ht Hid).
  - apply (H1 n t Hn Ht Hid).
Qed.

(* with the tombstone lookup of the repair no day resurrects anything *)
Lemma fixed_never_resurrects : forall src dst d, day_resurrects true src dst d = false.
Proof.
  intros src dst d. unfold day_resurrects, sync_day. cbn [fst snd ev_or ev_resurrect no_events orb negb].
  set (dst1 := fold_left apply_tomb (dedup_tombs (tombs_on_day d (tombs src))) dst).
  destruct (existsb (below_tomb (tombs dst1))
              (filter (fun o => (wanted (nodes dst1) o && negb (below_tomb (tombs dst1) o))%bool) (on_day d (nodes src)))) eqn:E;
    [|reflexivity].
  apply existsb_exists in E. destruct E as [n [Hin Hb]]. apply filter_In in Hin. destruct Hin as [_ Hf].
  rewrite Hb in Hf. rewrite Bool.andb_false_r in Hf. discriminate.
Qed.

Lemma fold_sync_resurrect_mono : forall fixed src days acc,
  ev_resurrect (snd (fold_left (sync_day fixed src) days acc)) = false -> ev_resurrect (snd acc) = false.
Proof.
  induction days as [|d rest IH]; intros acc H; cbn [fold_left] in H; [exact H|].
  apply IH in H. destruct acc as [[dst cnt] ev].
  rewrite (proj2 (sync_day_shape fixed src dst cnt ev d)) in H. apply Bool.orb_false_iff in H. cbn [snd]. tauto.
Qed.

Lemma inv_fold_sync : forall fixed src days acc, inv_replica (fst (fst acc)) ->
  ev_resurrect (snd (fold_left (sync_day fixed src) days acc)) = false ->
  inv_replica (fst (fst (fold_left (sync_day fixed src) days acc))).
Proof.
  induction days as [|d rest IH]; intros acc H Hr; cbn [fold_left] in *; [exact H|].
  apply IH; [|exact Hr].
  pose proof (fold_sync_resurrect_mono _ _ _ _ Hr) as H0.
  destruct acc as [[dst cnt] ev]. destruct (sync_day_shape fixed src dst cnt ev d) as [E1 E2].
  rewrite E2 in H0. apply Bool.orb_false_iff in H0. destruct H0 as [_ H0].
  rewrite E1. apply inv_sync_day; [exact H|exact H0].
Qed.

Lemma fold_sync_fixed_clean : forall src days acc, ev_resurrect (snd acc) = false ->
  ev_resurrect (snd (fold_left (sync_day true src) days acc)) = false.
Proof.
  induction days as [|d rest IH]; intros acc H; cbn [fold_left]; [exact H|].
  apply IH. destruct acc as [[dst cnt] ev]. rewrite (proj2 (sync_day_shape true src dst cnt ev d)).
  cbn [snd] in H. rewrite H, fixed_never_resurrects. reflexivity.
Qed.

Lemma inv_sys_set : forall S p r, inv_sys S -> inv_replica r -> inv_sys (set p r S).
Proof.
  intros S p r H Hr q. rewrite get_set. destruct (N.eqb q p && Nat.ltb (N.to_nat p) (length S))%bool; [exact Hr|apply H].
Qed.

Lemma mentions_false : forall x r, mentions x r = false -> forall t, In t (tombs r) -> t_id t <> x.
Proof.
  intros x r H t Hin Hid. unfold mentions in H. apply Bool.orb_false_iff in H. destruct H as [_ H].
  assert (existsb (fun t0 => N.eqb (t_id t0) x) (tombs r) = true)
    by (apply existsb_exists; exists t; split; [exact Hin|apply N.eqb_eq; exact Hid]).
  congruence.
Qed.

(* one step preserves the invariant unless it resurrects or leaves the envelope *)
Lemma step_preserves : forall fixed S o, inv_sys S ->
  ev_resurrect (snd (step fixed S o)) = false -> ev_guard (snd (step fixed S o)) = false ->
  inv_sys (fst (fst (step fixed S o))).
Proof.
  intros fixed S o H Hr Hg. destruct o as [p x t sg|p x t sg|p x t|d s days]; cbn [step] in *.
  - cbn [fst snd ev_guard] in *. apply inv_sys_set; [exact H|].
    intros n u Hn Hu Hid. cbn [nodes tombs] in *. unfold put_node in Hn. destruct Hn as [<-|Hn].
    + cbn [n_id] in Hid. exfalso. apply (mentions_false _ _ Hg u Hu Hid).
    + apply in_remove_node in Hn. apply (H p n u (proj1 Hn) Hu Hid).
  - destruct (find_node x (nodes (get p S))) as [e|] eqn:F; cbn [fst snd ev_guard] in *; [|exact H].
    apply inv_sys_set; [exact H|].
    apply find_node_some in F. destruct F as [Fin Fid].
    intros n u Hn Hu Hid. cbn [nodes tombs] in *. unfold put_node in Hn. destruct Hn as [<-|Hn].
    + cbn [n_id n_mdate] in *. apply Z.ltb_ge in Hg.
      assert (t_mdate u < n_mdate e) by (apply (H p e u Fin Hu); congruence). lia.
    + apply in_remove_node in Hn. apply (H p n u (proj1 Hn) Hu Hid).
  - destruct (find_node x (nodes (get p S))) as [e|] eqn:F; cbn [fst snd] in *; [|exact H].
    apply inv_sys_set; [exact H|].
    intros n u Hn Hu Hid. cbn [nodes tombs] in *.
    apply in_remove_node in Hn. destruct Hn as [Hn Hne].
    apply in_tomb_put in Hu. destruct Hu as [->|Hu]; [cbn [t_id] in Hid; congruence|].
    apply (H p n u Hn Hu Hid).
  - unfold pull_replica in *.
    pose proof (inv_fold_sync fixed (get s S) days (get d S, 0%N, no_events) (H d)) as HI.
    destruct (fold_left (sync_day fixed (get s S)) days (get d S, 0%N, no_events)) as [[r cnt] ev].
    cbn [fst snd] in *. apply inv_sys_set; [exact H|]. apply HI. exact Hr.
Qed.

Lemma ev_or_false : forall a b, ev_resurrect (ev_or a b) = false -> ev_guard (ev_or a b) = false ->
  (ev_resurrect a = false /\ ev_guard a = false) /\ (ev_resurrect b = false /\ ev_guard b = false).
Proof.
  intros a b H1 H2. cbn [ev_or ev_resurrect ev_guard] in *.
  apply Bool.orb_false_iff in H1. apply Bool.orb_false_iff in H2. tauto.
Qed.

Lemma run_preserves : forall fixed ops S, inv_sys S ->
  ev_resurrect (run_events fixed S ops) = false -> ev_guard (run_events fixed S ops) = false ->
  Forall inv_sys (run_trace fixed S ops).
Proof.
  induction ops as [|o ops IH]; intros S H Hr Hg; cbn [run_trace run_events] in *; [constructor|].
  destruct (step fixed S o) as [[S' flag] ev] eqn:E. cbn [fst] in *.
  destruct (ev_or_false _ _ Hr Hg) as [[Hr1 Hg1] [Hr2 Hg2]].
  assert (HS' : inv_sys S').
  { pose proof (step_preserves fixed S o H) as P. rewrite E in P. cbn [fst snd] in P. apply P; assumption. }
  constructor; [exact HS'|]. apply IH; assumption.
Qed.

Lemma inv_sys_b_of : forall S, inv_sys S -> inv_sys_b S = true.
Proof.
  intros S H. unfold inv_sys_b. apply forallb_forall. intros r Hin.
  apply inv_replica_b_iff. destruct (In_nth S r empty_replica Hin) as [k [Hk Hn]].
  specialize (H (N.of_nat k)). unfold get in H. rewrite Nat2N.id, Hn in H. exact H.
Qed.

Lemma init_inv : forall n, inv_sys (init_sys n).
Proof.
  intros n p k t Hn. unfold get, init_sys in Hn.
  destruct (nth_in_or_default (N.to_nat p) (repeat empty_replica (N.to_nat n)) empty_replica) as [H|H].
  - apply repeat_spec in H. rewrite H in Hn. inversion Hn.
  - rewrite H in Hn. inversion Hn.
Qed.

Lemma forall_forallb : forall {A} (P : A -> Prop) (f : A -> bool) l,
  (forall a, P a -> f a = true) -> Forall P l -> forallb f l = true.
Proof.
  intros A P f l H HF. induction HF as [|a l Ha _ IH]; [reflexivity|]. cbn [forallb]. rewrite (H a Ha), IH. reflexivity.
Qed.

(* C11 outside the known classes, as the code is: if no pull of the history stores a row at or below
   a deletion record the receiver holds (class 1 is exactly that event) and the local writes stay in
   the envelope (fresh ids for creations, update clocks not behind the stored version), then after
   every step no peer shows a row at or below a deletion record it holds *)
Theorem outside_known : forall n hist final,
  let c := C11Case n hist final in
  ev_resurrect (run_events false (init_sys n) (c11_ops c)) = false ->
  ev_guard (run_events false (init_sys n) (c11_ops c)) = false ->
  forallb inv_sys_b (run_trace false (init_sys n) (c11_ops c)) = true.
Proof.
  intros n hist final c Hr Hg.
  apply (forall_forallb inv_sys); [apply inv_sys_b_of|].
  apply run_preserves; [apply init_inv|exact Hr|exact Hg].
Qed.

Lemma known_nil_no_resurrect : forall c, known_C11 c = [] ->
  ev_resurrect (run_events false (init_sys (c11_n c)) (c11_ops c)) = false.
Proof.
  intros c H. unfold known_C11 in H.
  destruct (ev_resurrect (run_events false (init_sys (c11_n c)) (c11_ops c))); [|reflexivity].
  cbn in H. discriminate.
Qed.

Theorem outside_known' : forall n hist final,
  let c := C11Case n hist final in
  known_C11 c = [] ->
  ev_guard (run_events false (init_sys n) (c11_ops c)) = false ->
  forallb inv_sys_b (run_trace false (init_sys n) (c11_ops c)) = true.
Proof.
  intros n hist final c Hk Hg. apply outside_known; [|exact Hg].
  apply (known_nil_no_resurrect c Hk).
Qed.

(* with the tombstone lookup in filter_existing (requests/C11-fix-1.diff) the invariant holds for
   every history inside the envelope, whatever the order of pulls *)
Lemma run_fixed_clean : forall ops S, ev_resurrect (run_events true S ops) = false.
Proof.
  induction ops as [|o ops IH]; intros S; cbn [run_events]; [reflexivity|].
  destruct (step true S o) as [[S' flag] ev] eqn:E. cbn [ev_or ev_resurrect]. rewrite IH, Bool.orb_false_r.
  destruct o as [p x t sg|p x t sg|p x t|d s days]; cbn [step] in E.
  - inversion E. reflexivity.
  - destruct (find_node x (nodes (get p S))); inversion E; reflexivity.
  - destruct (find_node x (nodes (get p S))); inversion E; reflexivity.
  - unfold pull_replica in E.
    pose proof (fold_sync_fixed_clean (get s S) days (get d S, 0%N, no_events) eq_refl) as HC.
    destruct (fold_left (sync_day true (get s S)) days (get d S, 0%N, no_events)) as [[r cnt] ev0].
    inversion E. subst. exact HC.
Qed.

Theorem with_lookup_holds : forall n ops,
  ev_guard (run_events true (init_sys n) ops) = false ->
  forallb inv_sys_b (run_trace true (init_sys n) ops) = true.
Proof.
  intros n ops Hg. apply (forall_forallb inv_sys); [apply inv_sys_b_of|].
  apply run_preserves; [apply init_inv|apply run_fixed_clean|exact Hg].
Qed.

(* ---------- a stored deletion record is never lost (its key stays) ---------- *)
Definition has_key (l : list tomb) (t : tomb) : Prop := exists u, In u l /\ same_key u t = true.

Lemma same_key_refl : forall t, same_key t t = true.
Proof. intros. unfold same_key. rewrite N.eqb_refl, Z.eqb_refl. reflexivity. Qed.
Lemma same_key_trans : forall a b c, same_key a b = true -> same_key b c = true -> same_key a c = true.
Proof.
  intros a b c H1 H2. unfold same_key in *. apply Bool.andb_true_iff in H1. apply Bool.andb_true_iff in H2.
  destruct H1 as [A1 A2]. destruct H2 as [B1 B2]. apply N.eqb_eq in A1. apply N.eqb_eq in B1.
  apply Z.eqb_eq in A2. apply Z.eqb_eq in B2. apply Bool.andb_true_iff. split; [apply N.eqb_eq|apply Z.eqb_eq]; congruence.
Qed.
Lemma same_key_sym : forall a b, same_key a b = true -> same_key b a = true.
Proof.
  intros a b H. unfold same_key in *. apply Bool.andb_true_iff in H. destruct H as [A1 A2].
  apply N.eqb_eq in A1. apply Z.eqb_eq in A2. apply Bool.andb_true_iff. split; [apply N.eqb_eq|apply Z.eqb_eq]; congruence.
Qed.

Lemma has_key_tomb_put : forall l u t, has_key l t -> has_key (tomb_put l u) t.
Proof.
  intros l u t [w [Hin Hk]]. unfold tomb_put. destruct (same_key w u) eqn:E.
  - exists u. split; [left; reflexivity|]. apply (same_key_trans u w t); [apply same_key_sym; exact E|exact Hk].
  - exists w. split; [|exact Hk]. right. apply filter_In. split; [exact Hin|]. rewrite E. reflexivity.
Qed.

Lemma has_key_fold_apply : forall ts r t, has_key (tombs r) t -> has_key (tombs (fold_left apply_tomb ts r)) t.
Proof.
  induction ts as [|u ts IH]; intros r t H; cbn [fold_left]; [exact H|].
  apply IH. unfold apply_tomb. cbn [tombs]. apply has_key_tomb_put. exact H.
Qed.

Lemma has_key_sync_day : forall fixed src dst cnt ev d t, has_key (tombs dst) t ->
  has_key (tombs (fst (fst (sync_day fixed src (dst, cnt, ev) d)))) t.
Proof.
  intros. unfold sync_day. cbn [fst tombs]. apply has_key_fold_apply. assumption.
Qed.

Lemma has_key_fold_sync : forall fixed src days acc t, has_key (tombs (fst (fst acc))) t ->
  has_key (tombs (fst (fst (fold_left (sync_day fixed src) days acc)))) t.
Proof.
  induction days as [|d rest IH]; intros acc t H; cbn [fold_left]; [exact H|].
  apply IH. destruct acc as [[dst cnt] ev]. apply has_key_sync_day. exact H.
Qed.

Theorem tombstones_monotone : forall fixed S o p t,
  has_key (tombs (get p S)) t -> has_key (tombs (get p (fst (fst (step fixed S o))))) t.
Proof.
  intros fixed S o p t H. destruct o as [q x tt sg|q x tt sg|q x tt|d s days]; cbn [step].
  - cbn [fst]. rewrite get_set. destruct (N.eqb p q && Nat.ltb (N.to_nat q) (length S))%bool eqn:E; [|exact H].
    apply Bool.andb_true_iff in E. destruct E as [E _]. apply N.eqb_eq in E. subst q. exact H.
  - destruct (find_node x (nodes (get q S))); cbn [fst]; [|exact H].
    rewrite get_set. destruct (N.eqb p q && Nat.ltb (N.to_nat q) (length S))%bool eqn:E; [|exact H].
    apply Bool.andb_true_iff in E. destruct E as [E _]. apply N.eqb_eq in E. subst q. exact H.
  - destruct (find_node x (nodes (get q S))); cbn [fst]; [|exact H].
    rewrite get_set. destruct (N.eqb p q && Nat.ltb (N.to_nat q) (length S))%bool eqn:E; [|exact H].
    apply Bool.andb_true_iff in E. destruct E as [E _]. apply N.eqb_eq in E. subst q.
    cbn [tombs]. apply has_key_tomb_put. exact H.
  - unfold pull_replica.
    pose proof (has_key_fold_sync fixed (get s S) days (get d S, 0%N, no_events) t) as HK.
    destruct (fold_left (sync_day fixed (get s S)) days (get d S, 0%N, no_events)) as [[r cnt] ev].
    cbn [fst] in *. rewrite get_set.
    destruct (N.eqb p d && Nat.ltb (N.to_nat d) (length S))%bool eqn:E; [|exact H].
    apply Bool.andb_true_iff in E. destruct E as [E _]. apply N.eqb_eq in E. subst d. apply HK. exact H.
Qed.

(* ---------- closed witnesses ---------- *)
(* A creates x; B and C pull; A deletes x the next day; B<-A; B<-C; A<-B.
   The days are those the real pulls exchanged. *)
Definition witness : c11case :=
  C11Case 3%N
    [Create 0%N 1%N 1000 1%N; Pull 1%N 0%N [0]; Pull 2%N 0%N [0]; Delete 0%N 1%N 86401000;
     Pull 1%N 0%N [0; 86400000]; Pull 1%N 2%N [0]; Pull 0%N 1%N [0]] [].

Lemma refuted : spec_C11 witness (run_C11 witness) = false /\ known_C11 witness = [1] /\
  (* the row is visible again on B (peer 1) and on A (peer 0), which both hold the deletion record *)
  map (fun r => (length (nodes r), length (tombs r))) (run_sys false (init_sys 3%N) (c11_ops witness)) = [(1, 1); (1, 1); (1, 0)]%nat.
Proof. vm_compute. repeat split; reflexivity. Qed.

(* the same history with the tombstone lookup: B and A keep the row deleted *)
Lemma witness_repaired :
  map (fun r => (length (nodes r), length (tombs r))) (run_sys true (init_sys 3%N) (c11_ops witness)) = [(0, 1); (0, 1); (1, 0)]%nat /\
  ev_guard (run_events true (init_sys 3%N) (c11_ops witness)) = false.
Proof. vm_compute. split; reflexivity. Qed.

(* class 3: the deletion record of peer 0 never reaches peer 1 *)
Definition witness_collapse : c11case :=
  C11Case 2%N
    [Create 0%N 1%N 1000 1%N; Pull 1%N 0%N [0]; Delete 0%N 1%N 2000; Delete 1%N 1%N 3000; Pull 0%N 1%N [0]]
    [Pull 1%N 0%N [0]; Pull 0%N 1%N []; Pull 1%N 0%N [0]; Pull 0%N 1%N []].
Lemma refuted_collapse : known_C11 witness_collapse = [3] /\
  map (fun r => length (tombs r)) (run_sys false (init_sys 2%N) (c11_ops witness_collapse)) = [2; 1]%nat.
Proof. vm_compute. split; reflexivity. Qed.

(* the hypotheses of [outside_known] are satisfiable with a deletion that does propagate *)
Definition example_ok : c11case :=
  C11Case 3%N
    [Create 0%N 1%N 1000 1%N; Pull 1%N 0%N [0]; Pull 2%N 0%N [0]; Update 1%N 1%N 5000 2%N; Delete 0%N 1%N 86401000;
     Pull 1%N 0%N [0; 86400000]; Pull 2%N 1%N [0; 86400000]] [].
Lemma nonvacuous :
  ev_resurrect (run_events false (init_sys 3%N) (c11_ops example_ok)) = false /\
  ev_guard (run_events false (init_sys 3%N) (c11_ops example_ok)) = false /\
  spec_C11 example_ok (run_C11 example_ok) = true /\
  map (fun r => (length (nodes r), length (tombs r))) (run_sys false (init_sys 3%N) (c11_ops example_ok)) = [(0, 1); (0, 1); (0, 1)]%nat.
Proof. vm_compute. repeat split; reflexivity. Qed.
