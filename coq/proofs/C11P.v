(* C11P.v — proofs for C11 (a deleted row stays deleted) over the model Sync.v (code after the fixes
   ca69f52 / bb1bffb / ad91329). *)
From DV Require Import Sync SyncObs SyncP Run_C11.
From Coq Require Import Lia.
Open Scope Z_scope.

Definition inv_sys (S : sys) : Prop := forall p, inv_replica (get p S).
Definition inv_replica_b (r : replica) : bool := stays_deleted (tombs r) r.
Definition inv_sys_b (S : sys) : bool := forallb inv_replica_b S.

Lemma inv_replica_b_iff : forall r, inv_replica_b r = true <-> inv_replica r.
Proof.
  intros r. unfold inv_replica_b, stays_deleted, inv_replica. rewrite forallb_forall. split.
  - intros H n t Hn Ht Hid. specialize (H n Hn). apply Bool.negb_true_iff in H.
    apply (below_tomb_false _ _ H t Ht Hid).
  - intros H n Hn. apply Bool.negb_true_iff.
    destruct (below_tomb (tombs r) n) eqn:E; [|reflexivity]. exfalso.
    destruct (below_tomb_true _ _ E) as [t [Ht [Hid Hle]]]. specialize (H n t Hn Ht Hid). lia.
Qed.

Lemma inv_sys_b_of_good : forall S, good_sys S -> inv_sys_b S = true.
Proof.
  intros S H. unfold inv_sys_b. apply forallb_forall. intros r Hin.
  apply inv_replica_b_iff. destruct (In_nth S r empty_replica Hin) as [k [Hk Hn]].
  specialize (H (N.of_nat k)). unfold get in H. rewrite Nat2N.id, Hn in H. apply H.
Qed.

Lemma forall_forallb : forall {A} (P : A -> Prop) (f : A -> bool) l,
  (forall a, P a -> f a = true) -> Forall P l -> forallb f l = true.
Proof.
  intros A P f l H HF. induction HF as [|a l Ha _ IH]; [reflexivity|]. cbn [forallb]. rewrite (H a Ha), IH. reflexivity.
Qed.

(* C11 holds: any number of peers, any history of creations, updates, deletions and pulls in any order
   with any selection of days — inside the envelope (creations use ids the peer does not know yet,
   as the code's fresh uids do; no local update carries a clock behind the version it replaces) —:
   after EVERY step no peer shows a row at or below (modification date) a deletion record it holds *)
Theorem holds : forall n hist final,
  let c := C11Case n hist final in
  c11_envelope c = true ->
  forallb inv_sys_b (run_trace (init_sys n) (c11_ops c)) = true.
Proof.
  intros n hist final c He. unfold c11_envelope in He. apply Bool.negb_true_iff in He. cbn [c c11_n c11_ops] in He.
  apply (forall_forallb good_sys); [apply inv_sys_b_of_good|].
  apply run_good_trace; [apply init_good|exact He].
Qed.

(* ---------- a stored deletion record is never lost (its key stays) ---------- *)
Definition has_key (l : list tomb) (t : tomb) : Prop := exists u, In u l /\ same_key u t = true.

Lemma same_key_trans : forall a b c, same_key a b = true -> same_key b c = true -> same_key a c = true.
Proof.
  intros a b c H1 H2. unfold same_key in *. apply Bool.andb_true_iff in H1. apply Bool.andb_true_iff in H2.
  destruct H1 as [A1 A2]. destruct H2 as [B1 B2]. apply N.eqb_eq in A1. apply N.eqb_eq in B1.
  apply Z.eqb_eq in A2. apply Z.eqb_eq in B2. apply Bool.andb_true_iff. split; [apply N.eqb_eq|apply Z.eqb_eq]; congruence.
Qed.

Lemma has_key_tomb_put : forall l u t, has_key l t -> has_key (tomb_put l u) t.
Proof.
  intros l u t [w [Hin Hk]]. unfold tomb_put. destruct (has_tomb l u); [exists w; auto|].
  destruct (same_key w u) eqn:E.
  - exists u. split; [left; reflexivity|]. apply (same_key_trans u w t); [rewrite same_key_sym'; exact E|exact Hk].
  - exists w. split; [|exact Hk]. right. apply filter_In. split; [exact Hin|]. rewrite E. reflexivity.
Qed.

Lemma has_key_fold_put : forall ts l t, has_key l t -> has_key (fold_left tomb_put ts l) t.
Proof.
  induction ts as [|u ts IH]; intros l t H; cbn [fold_left]; [exact H|]. apply IH. apply has_key_tomb_put. exact H.
Qed.

Lemma has_key_fold_sync : forall src days acc t, has_key (tombs (fst acc)) t ->
  has_key (tombs (fst (fold_left (sync_day src) days acc))) t.
Proof.
  induction days as [|d rest IH]; intros acc t H; cbn [fold_left]; [exact H|].
  apply IH. destruct acc as [dst cnt]. unfold sync_day. cbn [fst tombs].
  rewrite tombs_fold_apply. apply has_key_fold_put.
  rewrite (proj2 (fold_apply_etomb_fields _ dst)). exact H.
Qed.

Theorem tombstones_monotone : forall S o p t,
  has_key (tombs (get p S)) t -> has_key (tombs (get p (fst (fst (step S o))))) t.
Proof.
  intros S o p t H.
  assert (K : forall q r, (q = p -> has_key (tombs r) t) -> has_key (tombs (get p (set q r S))) t).
  { intros q r Hr. rewrite get_set. destruct (N.eqb p q && Nat.ltb (N.to_nat q) (length S))%bool eqn:E; [|exact H].
    apply Bool.andb_true_iff in E. destruct E as [E _]. apply N.eqb_eq in E. apply Hr. congruence. }
  destruct o as [q x tt sg|q x0 tt sgs|q x tt sg|q x tt|q x y tt sg|q x y tt sg|d s days]; cbn [step].
  - cbn [fst]. apply K. intros ->. exact H.
  - pose proof (proj1 (create_rows_fields sgs (get q S) x0 tt)) as CT.
    destruct (create_rows (get q S) x0 tt sgs) as [r g]. cbn [fst] in *. apply K. intros ->. rewrite CT. exact H.
  - destruct (find_node x (nodes (get q S))); cbn [fst]; [|exact H]. apply K. intros ->. exact H.
  - destruct (find_node x (nodes (get q S))); cbn [fst]; [|exact H]. apply K. intros ->.
    cbn [tombs]. apply has_key_tomb_put. exact H.
  - destruct (find_node x (nodes (get q S))); [|exact H]. destruct (find_node y (nodes (get q S))); [|exact H].
    destruct (find_edge x y (edges (get q S))); cbn [fst]; [exact H|]. apply K. intros ->. exact H.
  - destruct (find_node x (nodes (get q S))); [|exact H].
    destruct (find_edge x y (edges (get q S))); cbn [fst]; apply K; intros ->; exact H.
  - unfold pull_replica.
    pose proof (has_key_fold_sync (get s S) days (get d S, 0%N) t) as HK.
    destruct (fold_left (sync_day (get s S)) days (get d S, 0%N)) as [r cnt].
    cbn [fst] in *. apply K. intros ->. apply HK. exact H.
Qed.

(* ---------- the former witnesses, now regression examples ---------- *)
(* A creates x; B and C pull; A deletes x the next day; B<-A; B<-C; A<-B: before ca69f52 the row came
   back on B and on A; now B and A keep it deleted (C has not yet seen the record) *)
Definition witness : c11case :=
  C11Case 3%N
    [Create 0%N 1%N 1000 1%N; Pull 1%N 0%N [0]; Pull 2%N 0%N [0]; Delete 0%N 1%N 86401000;
     Pull 1%N 0%N [0; 86400000]; Pull 1%N 2%N [0]; Pull 0%N 1%N [0]] [].
Lemma witness_holds : spec_C11 witness (run_C11 witness) = true /\ c11_envelope witness = true /\
  map (fun r => (length (nodes r), length (tombs r))) (run_sys (init_sys 3%N) (c11_ops witness)) = [(0, 1); (0, 1); (1, 0)]%nat.
Proof. vm_compute. repeat split; reflexivity. Qed.

(* both peers delete the row on the same day: before bb1bffb the second peer never stored the first
   peer's record; now both hold both records *)
Definition witness_two_records : c11case :=
  C11Case 2%N
    [Create 0%N 1%N 1000 1%N; Pull 1%N 0%N [0]; Delete 0%N 1%N 2000; Delete 1%N 1%N 3000; Pull 0%N 1%N [0]; Pull 1%N 0%N [0]]
    [Pull 0%N 1%N []; Pull 1%N 0%N []; Pull 0%N 1%N []; Pull 1%N 0%N []].
Lemma two_records_hold : spec_C11 witness_two_records (run_C11 witness_two_records) = true /\
  map (fun r => (length (nodes r), length (tombs r))) (run_sys (init_sys 2%N) (c11_ops witness_two_records)) = [(0, 2); (0, 2)]%nat.
Proof. vm_compute. split; reflexivity. Qed.

(* the envelope is satisfiable with a deletion racing an update: the later version survives the
   record that names the older one, everywhere *)
Definition example_ok : c11case :=
  C11Case 3%N
    [Create 0%N 1%N 1000 1%N; Pull 1%N 0%N [0]; Pull 2%N 0%N [0]; Update 1%N 1%N 5000 2%N; Delete 0%N 1%N 86401000;
     Pull 1%N 0%N [0; 86400000]; Pull 2%N 1%N [0; 86400000]; Pull 0%N 1%N [0]] [].
Lemma nonvacuous :
  c11_envelope example_ok = true /\ spec_C11 example_ok (run_C11 example_ok) = true /\
  map (fun r => (map n_mdate (nodes r), length (tombs r))) (run_sys (init_sys 3%N) (c11_ops example_ok)) =
  [([5000], 1%nat); ([5000], 1%nat); ([5000], 1%nat)].
Proof. vm_compute. repeat split; reflexivity. Qed.

(* class 4 (open), references: the same reference added on two peers (two creation dates), the later one
   removed: peer 0 applies the deletion record and still shows the reference (older version) *)
Definition witness_ref_below : c11case :=
  C11Case 2%N [Create 0%N 1%N 1000 1%N; Create 0%N 2%N 1001 3%N; Pull 1%N 0%N [0];
               AddRef 0%N 1%N 2%N 11000 5%N; AddRef 1%N 1%N 2%N 21000 2%N; DelRef 1%N 1%N 2%N 31000 4%N; Pull 0%N 1%N [0]; Pull 1%N 0%N []]
              [Pull 0%N 1%N []; Pull 1%N 0%N []; Pull 0%N 1%N []; Pull 1%N 0%N []].
Lemma refuted_ref_below : spec_C11 witness_ref_below (run_C11 witness_ref_below) = false /\ known_C11 witness_ref_below = [4].
Proof. vm_compute. split; reflexivity. Qed.

(* outside class 4 no peer ever holds a reference at or below a reference deletion record it holds:
   this is what [known_C11 = []] says of the model's run (references: see level_note) *)
Lemma refs_outside_known : forall c, known_C11 c = [] -> run_refs_coherent (init_sys (c11_n c)) (c11_ops c) = true.
Proof. intros c H. unfold known_C11 in H. destruct (run_refs_coherent (init_sys (c11_n c)) (c11_ops c)); [reflexivity|discriminate]. Qed.

(* class 5 (open): two peers delete one row in the same millisecond while holding different versions: the
   two records share the key (row, deletion date) and replace each other; the record peer 0 wrote is gone
   everywhere at the end *)
Definition witness_key_clash : c11case :=
  C11Case 2%N [Create 0%N 1%N 1000 1%N; Pull 1%N 0%N [0]; Update 0%N 1%N 5000 2%N; Delete 0%N 1%N 9000; Delete 1%N 1%N 9000; Pull 0%N 1%N [0]]
              [Pull 1%N 0%N []; Pull 0%N 1%N []; Pull 1%N 0%N []; Pull 0%N 1%N []].
Lemma refuted_key_clash : spec_C11 witness_key_clash (run_C11 witness_key_clash) = false /\ known_C11 witness_key_clash = [5] /\
  map (fun r => map t_mdate (tombs r)) (run_sys (init_sys 2%N) (c11_ops witness_key_clash)) = [[1000]; [1000]].
Proof. vm_compute. repeat split; reflexivity. Qed.
