(* C03P.v — proofs for C03 (synchronisation converges) over the model Sync.v (code after the fixes
   ca69f52 / bb1bffb / ad91329). *)
From DV Require Import Sync SyncObs SyncP Run_C03.
From Coq Require Import Lia.
Open Scope Z_scope.

Definition wf (S : sys) : Prop := forall p, nodup_ids (nodes (get p S)).
Definition no_tombs (S : sys) : Prop := forall p, tombs (get p S) = [].

(* ====================================================================================== *)
(* part 1: replicas without deletion records — a pull is the join                          *)
(* ====================================================================================== *)
Lemma sync_day_notombs : forall src dst cnt d0, tombs src = [] -> tombs dst = [] ->
  sync_day src (dst, cnt) d0 =
  ({| nodes := merge (nodes dst) (on_day d0 (nodes src)); tombs := [] |},
   (cnt + N.of_nat (length (filter (wanted (nodes dst)) (on_day d0 (nodes src)))))%N).
Proof.
  intros src dst cnt d0 Hs Hd. unfold sync_day. rewrite Hs. cbn [tombs_on_day filter fold_left]. rewrite Hd.
  match goal with |- context [filter ?f (on_day d0 (nodes src))] =>
    assert (Hf : filter f (on_day d0 (nodes src)) = filter (wanted (nodes dst)) (on_day d0 (nodes src)))
  end.
  { apply filter_ext. intros o. cbn [below_tomb existsb negb]. apply Bool.andb_true_r. }
  rewrite Hf. reflexivity.
Qed.

Lemma pull_fold : forall days src dst cnt, tombs src = [] -> tombs dst = [] ->
  let r := fold_left (sync_day src) days (dst, cnt) in
  nodes (fst r) = pull_nodes days (nodes dst) (nodes src) /\ tombs (fst r) = [] /\
  snd r = (cnt + N.of_nat (pull_count days (nodes dst) (nodes src)))%N.
Proof.
  induction days as [|d0 rest IH]; intros src dst cnt Hs Hd; cbn [fold_left pull_nodes pull_count].
  - cbn. repeat split; try assumption. lia.
  - rewrite (sync_day_notombs src dst cnt d0 Hs Hd).
    specialize (IH src {| nodes := merge (nodes dst) (on_day d0 (nodes src)); tombs := [] |}
                   (cnt + N.of_nat (length (filter (wanted (nodes dst)) (on_day d0 (nodes src)))))%N Hs eq_refl).
    cbn [nodes tombs] in IH. destruct IH as [I1 [I2 I3]]. repeat split; try assumption.
    rewrite I3. lia.
Qed.

Lemma pull_replica_notombs : forall dst src days, tombs src = [] -> tombs dst = [] ->
  nodes (fst (pull_replica dst src days)) = pull_nodes days (nodes dst) (nodes src) /\
  tombs (fst (pull_replica dst src days)) = [] /\
  snd (pull_replica dst src days) = N.of_nat (pull_count days (nodes dst) (nodes src)).
Proof.
  intros dst src days Hs Hd. unfold pull_replica.
  destruct (pull_fold days src dst 0%N Hs Hd) as [A [B C]]. repeat split; assumption.
Qed.

Lemma days_cover_complete : forall dst src days,
  days_cover days (needed_days dst src) = true -> complete (nodes dst) (nodes src) days.
Proof.
  intros dst src days H n Hin W. unfold days_cover, needed_days in H.
  rewrite forallb_app in H. apply Bool.andb_true_iff in H. destruct H as [H _].
  rewrite forallb_forall in H. apply (H (day (n_mdate n))).
  apply in_map_iff. exists n. split; [reflexivity|]. apply filter_In. split; assumption.
Qed.

(* filter_existing + write implement the join "greatest (mdate, signature) per row id" *)
Theorem pull_is_join : forall dst src days x,
  tombs src = [] -> tombs dst = [] -> nodup_ids (nodes src) ->
  days_cover days (needed_days dst src) = true ->
  find_node x (nodes (fst (pull_replica dst src days))) =
  vjoin (find_node x (nodes dst)) (find_node x (nodes src)).
Proof.
  intros dst src days x Ht Hd Hs Hc.
  destruct (pull_replica_notombs dst src days Ht Hd) as [A _]. rewrite A.
  apply lww_join; [exact Hs|]. apply days_cover_complete. exact Hc.
Qed.

(* between peers that show the same rows a further pull requests nothing *)
Theorem converged_stays_quiet : forall dst src days,
  tombs src = [] -> tombs dst = [] -> nodup_ids (nodes src) ->
  (forall x, find_node x (nodes dst) = find_node x (nodes src)) ->
  snd (pull_replica dst src days) = 0%N /\ nodes (fst (pull_replica dst src days)) = nodes dst.
Proof.
  intros dst src days Ht Hd Hs Hv.
  destruct (pull_replica_notombs dst src days Ht Hd) as [A [_ C]].
  pose proof (views_le_count days _ _ (same_view_le _ _ Hs Hv)) as H0.
  rewrite C, A, H0. split; [reflexivity|]. apply (proj1 (pull_count_zero days _ _ H0)).
Qed.

Lemma wf_set : forall S p r, wf S -> nodup_ids (nodes r) -> wf (set p r S).
Proof.
  intros S p r H Hr q. rewrite get_set. destruct (N.eqb q p && Nat.ltb (N.to_nat p) (length S))%bool; [exact Hr|apply H].
Qed.
Lemma no_tombs_set : forall S p r, no_tombs S -> tombs r = [] -> no_tombs (set p r S).
Proof.
  intros S p r H Hr q. rewrite get_set. destruct (N.eqb q p && Nat.ltb (N.to_nat p) (length S))%bool; [exact Hr|apply H].
Qed.

Definition is_delete (o : sop) : bool := match o with Delete _ _ _ => true | _ => false end.

Lemma step_inv : forall S o, wf S -> no_tombs S -> is_delete o = false ->
  wf (fst (fst (step S o))) /\ no_tombs (fst (fst (step S o))) /\ length (fst (fst (step S o))) = length S.
Proof.
  intros S o Hw Ht Hd. destruct o as [p x t sg|p x t sg|p x t|d s days]; cbn [step is_delete] in *.
  - cbn [fst]. repeat split.
    + apply wf_set; [exact Hw|]. cbn [nodes]. apply nodup_ids_put. apply Hw.
    + apply no_tombs_set; [exact Ht|]. cbn [tombs]. apply Ht.
    + apply length_set.
  - destruct (find_node x (nodes (get p S))); cbn [fst]; repeat split; auto.
    + apply wf_set; [exact Hw|]. cbn [nodes]. apply nodup_ids_put. apply Hw.
    + apply no_tombs_set; [exact Ht|]. cbn [tombs]. apply Ht.
    + apply length_set.
  - discriminate.
  - destruct (pull_replica_notombs (get d S) (get s S) days (Ht s) (Ht d)) as [A [B _]].
    destruct (pull_replica (get d S) (get s S) days) as [r cnt]. cbn [fst snd] in *.
    repeat split.
    + apply wf_set; [exact Hw|]. rewrite A. apply nodup_ids_pull_nodes. apply Hw.
    + apply no_tombs_set; [exact Ht|]. exact B.
    + apply length_set.
Qed.

Lemma init_wf : forall n, wf (init_sys n) /\ no_tombs (init_sys n) /\ length (init_sys n) = N.to_nat n.
Proof.
  intros n. repeat split.
  - intros p. apply (g_ids _ (init_good n p)).
  - intros p. unfold get, init_sys.
    destruct (nth_in_or_default (N.to_nat p) (repeat empty_replica (N.to_nat n)) empty_replica) as [H|H];
      [apply repeat_spec in H|]; rewrite H; reflexivity.
  - apply repeat_length.
Qed.

(* ====================================================================================== *)
(* part 2: with deletions — quiescence forces agreement                                    *)
(* ====================================================================================== *)
Lemma length_step : forall S o, length (fst (fst (step S o))) = length S.
Proof.
  intros S o. destruct o as [p x t sg|p x t sg|p x t|d s days]; cbn [step].
  - apply length_set.
  - destruct (find_node x (nodes (get p S))); cbn [fst]; [apply length_set|reflexivity].
  - destruct (find_node x (nodes (get p S))); cbn [fst]; [apply length_set|reflexivity].
  - destruct (pull_replica (get d S) (get s S) days). cbn [fst]. apply length_set.
Qed.
Lemma length_run : forall ops S, length (run_sys S ops) = length S.
Proof. induction ops as [|o ops IH]; intros S; cbn [run_sys]; [reflexivity|]. rewrite IH. apply length_step. Qed.

(* a pull whose selected days each move nothing moves nothing *)
Lemma pull_still_fixed : forall days dst src, pull_still dst src days = true -> pull_replica dst src days = (dst, 0%N).
Proof.
  intros days dst src H. unfold pull_replica. unfold pull_still in H. rewrite forallb_forall in H.
  induction days as [|d days IH]; [reflexivity|]. cbn [fold_left].
  pose proof (H d (or_introl eq_refl)) as Hd. unfold day_still in Hd.
  destruct (sync_day src (dst, 0%N) d) as [r c]. apply Bool.andb_true_iff in Hd. destruct Hd as [Hc Hr].
  apply N.eqb_eq in Hc. apply replica_eqb_eq in Hr. subst. apply IH. intros y Hy. apply H. right. exact Hy.
Qed.

Lemma still_fixed : forall final S, still S final = true ->
  run_sys S final = S /\ only_pulls final = true /\
  (forall d s days, In (Pull d s days) final -> pull_still (get d S) (get s S) days = true).
Proof.
  induction final as [|o final IH]; intros S H; [repeat split; intros d s days []|].
  destruct o as [p x t sg|p x t sg|p x t|d s days]; cbn [still] in H; try discriminate.
  apply Bool.andb_true_iff in H. destruct H as [H1 H2]. destruct (IH S H2) as [I1 [I2 I3]].
  assert (E : fst (fst (step S (Pull d s days))) = S).
  { cbn [step]. rewrite (pull_still_fixed _ _ _ H1). cbn [fst]. apply set_get_same. }
  repeat split.
  - cbn [run_sys]. rewrite E. exact I1.
  - cbn [only_pulls forallb]. exact I2.
  - intros d' s' days' [Heq|Hin]; [inversion Heq; subst; exact H1|apply I3; exact Hin].
Qed.

Lemma run_complete_still : forall final S, still S final = true -> run_complete S final = true ->
  forall d s days, In (Pull d s days) final -> days_cover days (needed_days (get d S) (get s S)) = true.
Proof.
  induction final as [|o final IH]; intros S H Hc d s days Hin; [inversion Hin|].
  destruct o as [p x t sg|p x t sg|p x t|d0 s0 days0]; cbn [still] in H; try discriminate.
  apply Bool.andb_true_iff in H. destruct H as [H1 H2].
  cbn [run_complete] in Hc. apply Bool.andb_true_iff in Hc. destruct Hc as [Hc0 Hc].
  assert (E : fst (fst (step S (Pull d0 s0 days0))) = S).
  { cbn [step]. rewrite (pull_still_fixed _ _ _ H1). cbn [fst]. apply set_get_same. }
  rewrite E in Hc. destruct Hin as [Heq|Hin]; [inversion Heq; subst; exact Hc0|apply (IH S H2 Hc); exact Hin].
Qed.

(* what one still day says *)
Lemma day_still_facts : forall dst src d, day_still dst src d = true ->
  let dst1 := fold_left apply_tomb (tombs_on_day d (tombs src)) dst in
  nodes dst1 = nodes dst /\ tombs dst1 = tombs dst /\
  filter (fun o => wanted (nodes dst1) o && negb (below_tomb (tombs dst1) o))%bool (on_day d (nodes src)) = [].
Proof.
  intros dst src d H. unfold day_still, sync_day in H.
  set (dst1 := fold_left apply_tomb (tombs_on_day d (tombs src)) dst) in *.
  set (fetch := filter (fun o => (wanted (nodes dst1) o && negb (below_tomb (tombs dst1) o))%bool) (on_day d (nodes src))) in *.
  apply Bool.andb_true_iff in H. destruct H as [Hc Hr]. apply N.eqb_eq in Hc. apply replica_eqb_eq in Hr.
  assert (Hf : fetch = []) by (destruct fetch; [reflexivity|cbn [length] in Hc; lia]).
  rewrite Hf in Hr. cbn [fold_left] in Hr.
  pose proof (f_equal nodes Hr) as E1. pose proof (f_equal tombs Hr) as E2. cbn [nodes tombs] in E1, E2.
  cbv zeta. repeat split; assumption.
Qed.

Lemma in_days : forall d days, existsb (Z.eqb d) days = true -> In d days.
Proof. intros d days H. apply existsb_exists in H. destruct H as [y [Hy E]]. apply Z.eqb_eq in E. subst. exact Hy. Qed.

(* a complete pull that moves nothing: the receiver holds every deletion record of the source ... *)
Lemma still_tombs : forall dst src days, keys_unique (tombs src) ->
  pull_still dst src days = true -> days_cover days (needed_days dst src) = true ->
  forall t, In t (tombs src) -> In t (tombs dst).
Proof.
  intros dst src days Hk Hs Hc t Ht.
  destruct (has_tomb (tombs dst) t) eqn:E; [apply has_tomb_in; exact E|].
  unfold days_cover, needed_days in Hc. rewrite forallb_app in Hc. apply Bool.andb_true_iff in Hc. destruct Hc as [_ Hc].
  rewrite forallb_forall in Hc.
  assert (Hd : In (day (t_ddate t)) days).
  { apply in_days. apply Hc. apply in_map_iff. exists t. split; [reflexivity|]. apply filter_In. split; [exact Ht|]. rewrite E. reflexivity. }
  unfold pull_still in Hs. rewrite forallb_forall in Hs.
  destruct (day_still_facts _ _ _ (Hs _ Hd)) as [_ [Ht2 _]].
  rewrite <- Ht2, tombs_fold_apply.
  apply (fold_put_has (tombs src)); try assumption.
  - intros u Hu. unfold tombs_on_day in Hu. apply filter_In in Hu. tauto.
  - left. unfold tombs_on_day. apply filter_In. split; [exact Ht|apply Z.eqb_refl].
Qed.

(* ... and every row of the source is either not newer than the receiver's version, or at or below a
   deletion record the receiver holds *)
Lemma still_rows : forall dst src days,
  pull_still dst src days = true -> days_cover days (needed_days dst src) = true ->
  forall n, In n (nodes src) -> wanted (nodes dst) n = false \/ below_tomb (tombs dst) n = true.
Proof.
  intros dst src days Hs Hc n Hn.
  destruct (wanted (nodes dst) n) eqn:W; [right|left; reflexivity].
  unfold days_cover, needed_days in Hc. rewrite forallb_app in Hc. apply Bool.andb_true_iff in Hc. destruct Hc as [Hc _].
  rewrite forallb_forall in Hc.
  assert (Hd : In (day (n_mdate n)) days).
  { apply in_days. apply Hc. apply in_map_iff. exists n. split; [reflexivity|]. apply filter_In. split; assumption. }
  unfold pull_still in Hs. rewrite forallb_forall in Hs.
  destruct (day_still_facts _ _ _ (Hs _ Hd)) as [Hn1 [Ht1 Hf]]. rewrite Hn1, Ht1 in Hf.
  destruct (below_tomb (tombs dst) n) eqn:B; [reflexivity|]. exfalso.
  assert (In n (filter (fun o => (wanted (nodes dst) o && negb (below_tomb (tombs dst) o))%bool) (on_day (day (n_mdate n)) (nodes src)))).
  { apply filter_In. split; [unfold on_day; apply filter_In; split; [exact Hn|apply Z.eqb_refl]|]. rewrite W, B. reflexivity. }
  rewrite Hf in H. inversion H.
Qed.

Lemma row_eqb_refl : forall n, row_eqb n n = true.
Proof. intros n. apply row_eqb_eq. reflexivity. Qed.

Lemma same_view_rows : forall a b, nodup_ids (nodes a) -> nodup_ids (nodes b) ->
  (forall x, find_node x (nodes a) = find_node x (nodes b)) -> same_rows a b = true.
Proof.
  intros a b Ha Hb Hv. unfold same_rows. apply Bool.andb_true_iff. split; unfold rows_subset; apply forallb_forall; intros n Hin.
  - pose proof (find_node_in _ n Ha Hin) as F. rewrite Hv in F. apply find_node_some in F. apply has_row_in. apply F.
  - pose proof (find_node_in _ n Hb Hin) as F. rewrite <- Hv in F. apply find_node_some in F. apply has_row_in. apply F.
Qed.

(* two replicas that pull from each other completely without moving anything agree *)
Lemma mutual_still_agree : forall a b da db, good a -> good b ->
  pull_still a b da = true -> days_cover da (needed_days a b) = true ->
  pull_still b a db = true -> days_cover db (needed_days b a) = true ->
  agree a b = true.
Proof.
  intros a b da db Ga Gb Sa Ca Sb Cb.
  pose proof (still_tombs a b da (g_keys _ Gb) Sa Ca) as Tba.   (* tombs b ⊆ tombs a *)
  pose proof (still_tombs b a db (g_keys _ Ga) Sb Cb) as Tab.   (* tombs a ⊆ tombs b *)
  assert (Lab : views_le (nodes a) (nodes b)).
  { intros n Hn. destruct (still_rows a b da Sa Ca n Hn) as [W|B]; [exact W|]. exfalso.
    destruct (below_tomb_true _ _ B) as [t [Ht [Hid Hle]]].
    pose proof (g_inv _ Gb n t Hn (Tab t Ht) Hid). lia. }
  assert (Lba : views_le (nodes b) (nodes a)).
  { intros n Hn. destruct (still_rows b a db Sb Cb n Hn) as [W|B]; [exact W|]. exfalso.
    destruct (below_tomb_true _ _ B) as [t [Ht [Hid Hle]]].
    pose proof (g_inv _ Ga n t Hn (Tba t Ht) Hid). lia. }
  unfold agree. apply Bool.andb_true_iff. split.
  - apply same_view_rows; [apply Ga|apply Gb|]. apply views_le_antisym; [apply Ga|apply Gb|exact Lab|exact Lba].
  - unfold same_tombs, tombs_subset. apply Bool.andb_true_iff. split; apply forallb_forall; intros t Ht; apply has_tomb_in; auto.
Qed.

Lemma agree_refl : forall a, agree a a = true.
Proof.
  intros a. unfold agree, same_rows, same_tombs, rows_subset, tombs_subset.
  assert (R : forallb (has_row (nodes a)) (nodes a) = true) by (apply forallb_forall; intros n Hn; apply has_row_in; exact Hn).
  assert (T : forallb (has_tomb (tombs a)) (tombs a) = true) by (apply forallb_forall; intros n Hn; apply has_tomb_in; exact Hn).
  rewrite R, T. reflexivity.
Qed.

Lemma all_agree_pairwise : forall L : sys,
  (forall i j, (i < length L)%nat -> (j < length L)%nat -> agree (nth i L empty_replica) (nth j L empty_replica) = true) ->
  all_agree L = true.
Proof.
  induction L as [|a L IH]; intros H; [reflexivity|].
  destruct L as [|b L]; [reflexivity|].
  cbn [all_agree]. apply Bool.andb_true_iff. split.
  - apply (H 0%nat 1%nat); cbn [length]; lia.
  - apply IH. intros i j Hi Hj. apply (H (S i) (S j)); cbn [length] in *; lia.
Qed.

Lemma in_peers : forall n i, (i < N.to_nat n)%nat -> In (N.of_nat i) (peers n).
Proof. intros n i H. unfold peers. apply in_map. apply in_seq. lia. Qed.

Lemma full_round_pull : forall n final d s, full_round n final = true ->
  In d (peers n) -> In s (peers n) -> d <> s -> exists days, In (Pull d s days) final.
Proof.
  intros n final d s H Hd Hs Hne. unfold full_round in H.
  rewrite forallb_forall in H. specialize (H d Hd). rewrite forallb_forall in H. specialize (H s Hs).
  apply Bool.orb_true_iff in H. destruct H as [H|H].
  - apply N.eqb_eq in H. contradiction.
  - apply existsb_exists in H. destruct H as [o [Hin Hp]].
    destruct o as [p x t sg|p x t sg|p x t|d' s' days]; try discriminate. cbn [is_pull] in Hp.
    apply Bool.andb_true_iff in Hp. destruct Hp as [H1 H2]. apply N.eqb_eq in H1. apply N.eqb_eq in H2. subst.
    exists days. exact Hin.
Qed.

Lemma known_nil_complete : forall c, known_C03 c = [] -> run_complete (init_sys (c03_n c)) (c03_ops c) = true.
Proof.
  intros c H. unfold known_C03 in H. destruct (run_complete (init_sys (c03_n c)) (c03_ops c)); [reflexivity|discriminate].
Qed.

(* C03 outside the one class that is still open: any number of peers, any history of creations,
   updates (any clocks inside the envelope, same-millisecond ties included), DELETIONS and pulls in any
   order, every pull having selected the days a complete comparison selects (known_C03 = []), ending
   with rounds in which every ordered pair pulls and nothing moves: every member holds the same rows
   and the same deletion records *)
Theorem outside_known : forall n hist final,
  let c := C03Case n hist final in
  known_C03 c = [] -> c03_envelope c = true ->
  full_round n final = true -> c03_quiet c = true ->
  all_agree (run_sys (init_sys n) (hist ++ final)) = true.
Proof.
  intros n hist final c Hk He Hfr Hq.
  pose proof (known_nil_complete c Hk) as Hc. cbn [c c03_n c03_ops] in Hc.
  rewrite run_complete_app in Hc. apply Bool.andb_true_iff in Hc. destruct Hc as [_ Hc].
  unfold c03_envelope in He. apply Bool.negb_true_iff in He. cbn [c c03_n c03_ops] in He.
  rewrite run_guard_app in He. apply Bool.orb_false_iff in He. destruct He as [He _].
  pose proof (run_good hist (init_sys n) (init_good n) He) as G.
  unfold c03_quiet in Hq. cbn [c c03_n c03_hist c03_final] in Hq.
  set (S1 := run_sys (init_sys n) hist) in *.
  destruct (still_fixed final S1 Hq) as [Hfix [_ Hst]].
  pose proof (run_complete_still final S1 Hq Hc) as Hcov.
  rewrite run_sys_app. fold S1. rewrite Hfix.
  assert (L1 : length S1 = N.to_nat n).
  { unfold S1. rewrite length_run. apply repeat_length. }
  apply all_agree_pairwise. intros i j Hi Hj. rewrite L1 in Hi, Hj.
  assert (Gi : nth i S1 empty_replica = get (N.of_nat i) S1) by (unfold get; rewrite Nat2N.id; reflexivity).
  assert (Gj : nth j S1 empty_replica = get (N.of_nat j) S1) by (unfold get; rewrite Nat2N.id; reflexivity).
  rewrite Gi, Gj.
  destruct (Nat.eq_dec i j) as [->|Hne]; [apply agree_refl|].
  assert (Hne' : N.of_nat i <> N.of_nat j) by (intros E; apply Hne; apply Nat2N.inj; exact E).
  destruct (full_round_pull n final (N.of_nat i) (N.of_nat j) Hfr (in_peers n i Hi) (in_peers n j Hj) Hne') as [d1 H1].
  assert (Hne'' : N.of_nat j <> N.of_nat i) by congruence.
  destruct (full_round_pull n final (N.of_nat j) (N.of_nat i) Hfr (in_peers n j Hj) (in_peers n i Hi) Hne'') as [d2 H2].
  apply (mutual_still_agree _ _ d1 d2); try apply G.
  - apply (Hst _ _ _ H1).
  - apply (Hcov _ _ _ H1).
  - apply (Hst _ _ _ H2).
  - apply (Hcov _ _ _ H2).
Qed.

(* inside the envelope the content of every member is coherent at every point, hence also when converged *)
Theorem converged_coherent : forall n hist final,
  let c := C03Case n hist final in
  c03_envelope c = true -> forallb coherent (run_sys (init_sys n) (hist ++ final)) = true.
Proof.
  intros n hist final c He. unfold c03_envelope in He. apply Bool.negb_true_iff in He. cbn [c c03_n c03_ops] in He.
  pose proof (run_good (hist ++ final) (init_sys n) (init_good n) He) as G.
  apply forallb_forall. intros r Hin. destruct (In_nth _ r empty_replica Hin) as [k [Hk Hn]].
  specialize (G (N.of_nat k)). unfold get in G. rewrite Nat2N.id, Hn in G.
  unfold coherent, stays_deleted. apply forallb_forall. intros m Hm. apply Bool.negb_true_iff.
  destruct (below_tomb (tombs r) m) eqn:E; [|reflexivity]. exfalso.
  destruct (below_tomb_true _ _ E) as [t [Ht [Hid Hle]]]. pose proof (g_inv _ G m t Hm Ht Hid). lia.
Qed.

(* ---------- closed witnesses / regression examples ---------- *)
(* class 4 (open): if the log comparison skips a day on which the source holds a row the receiver lacks
   (history-hash shortcut), that row is never delivered by this pair *)
Definition witness_skipped_day : c03case :=
  C03Case 2%N [Create 0%N 1%N 1000 1%N] [Pull 1%N 0%N []; Pull 0%N 1%N []; Pull 1%N 0%N []; Pull 0%N 1%N []].
Lemma refuted_skipped_day : spec_C03 witness_skipped_day (run_C03 witness_skipped_day) = false /\ known_C03 witness_skipped_day = [4].
Proof. vm_compute. split; reflexivity. Qed.

(* formerly class 3 (fixed by bb1bffb): both peers delete one row on the same day; both now hold both records *)
Definition witness_two_records : c03case :=
  C03Case 2%N
    [Create 0%N 1%N 1000 1%N; Pull 1%N 0%N [0]; Delete 0%N 1%N 2000; Delete 1%N 1%N 3000; Pull 0%N 1%N [0]; Pull 1%N 0%N [0]]
    [Pull 0%N 1%N []; Pull 1%N 0%N []; Pull 0%N 1%N []; Pull 1%N 0%N []].
Lemma two_records_hold : spec_C03 witness_two_records (run_C03 witness_two_records) = true /\ known_C03 witness_two_records = [].
Proof. vm_compute. split; reflexivity. Qed.

(* formerly class 2 (fixed by ad91329): records of the old version on two days meet the newer version:
   the newer version survives everywhere *)
Definition witness_other_version : c03case :=
  C03Case 3%N
    [Create 0%N 1%N 3000 1%N; Pull 1%N 0%N [0]; Pull 2%N 0%N [0]; Update 1%N 1%N 63000 2%N;
     Delete 0%N 1%N 123000; Delete 2%N 1%N 86403000; Pull 0%N 2%N [0; 86400000]; Pull 0%N 1%N [0];
     Pull 1%N 0%N [0; 86400000]; Pull 2%N 0%N [0; 86400000]; Pull 2%N 1%N []]
    [Pull 0%N 1%N []; Pull 0%N 2%N []; Pull 1%N 0%N []; Pull 1%N 2%N []; Pull 2%N 0%N []; Pull 2%N 1%N []].
Lemma other_version_holds :
  spec_C03 witness_other_version (run_C03 witness_other_version) = true /\ known_C03 witness_other_version = [] /\
  map (fun r => (map n_mdate (nodes r), length (tombs r))) (run_sys (init_sys 3%N) (c03_ops witness_other_version)) =
  [([63000], 2%nat); ([63000], 2%nat); ([63000], 2%nat)].
Proof. vm_compute. repeat split; reflexivity. Qed.

(* the hypotheses of [outside_known] are satisfiable: rows moving, a same-millisecond tie, a deletion
   racing an update *)
Definition example_ok : c03case :=
  C03Case 3%N
    [Create 0%N 1%N 1000 2%N; Pull 1%N 0%N [0]; Update 1%N 1%N 86401000 5%N; Update 0%N 1%N 86401000 4%N;
     Create 2%N 2%N 500 1%N; Pull 2%N 1%N [86400000]; Pull 0%N 2%N [0; 86400000]; Delete 0%N 2%N 90000000;
     Pull 1%N 2%N [0]; Pull 1%N 0%N [86400000]; Pull 2%N 0%N [86400000]]
    [Pull 0%N 1%N []; Pull 0%N 2%N []; Pull 1%N 0%N []; Pull 1%N 2%N []; Pull 2%N 0%N []; Pull 2%N 1%N []].
Lemma nonvacuous :
  known_C03 example_ok = [] /\ c03_envelope example_ok = true /\
  full_round 3%N (c03_final example_ok) = true /\ c03_quiet example_ok = true /\
  spec_C03 example_ok (run_C03 example_ok) = true /\
  map (fun r => (map n_sig (nodes r), length (tombs r))) (run_sys (init_sys 3%N) (c03_ops example_ok)) =
  [([5%N], 1%nat); ([5%N], 1%nat); ([5%N], 1%nat)].
Proof. vm_compute. repeat split; reflexivity. Qed.
