(* C03P.v — proofs for C03 (synchronisation converges) over the model Sync.v (code after the fixes
   ca69f52 / bb1bffb / ad91329). *)
From DV Require Import Sync SyncObs SyncP Run_C03.
From Coq Require Import Lia.
Open Scope Z_scope.

Definition wf (S : sys) : Prop := forall p, nodup_ids (nodes (get p S)).
Definition no_tombs (S : sys) : Prop := forall p, tombs (get p S) = [].

(* ====================================================================================== *)
(* part 1: replicas without deletion records — a pull is the join                          *)
(* ====================================================================================== *)
Lemma sync_day_notombs : forall src dst cnt d0, tombs src = [] -> tombs dst = [] ->
  nodes (fst (sync_day src (dst, cnt) d0)) = merge (nodes dst) (on_day d0 (nodes src)) /\
  tombs (fst (sync_day src (dst, cnt) d0)) = [] /\
  snd (sync_day src (dst, cnt) d0) = (cnt + N.of_nat (length (filter (wanted (nodes dst)) (on_day d0 (nodes src)))))%N.
Proof.
  intros src dst cnt d0 Hs Hd. unfold sync_day. rewrite Hs. cbn [tombs_on_day filter fold_left fst snd nodes tombs].
  destruct (fold_apply_etomb_fields (etombs_on_day d0 (etombs src)) dst) as [N0 T0]. rewrite N0, T0, Hd.
  match goal with |- context [filter ?f (on_day d0 (nodes src))] =>
    assert (Hf : filter f (on_day d0 (nodes src)) = filter (wanted (nodes dst)) (on_day d0 (nodes src)))
  end.
  { apply filter_ext. intros o. cbn [below_tomb existsb negb]. apply Bool.andb_true_r. }
  rewrite Hf. repeat split; reflexivity.
Qed.

Lemma pull_fold : forall days src dst cnt, tombs src = [] -> tombs dst = [] ->
  let r := fold_left (sync_day src) days (dst, cnt) in
  nodes (fst r) = pull_nodes days (nodes dst) (nodes src) /\ tombs (fst r) = [] /\
  snd r = (cnt + N.of_nat (pull_count days (nodes dst) (nodes src)))%N.
Proof.
  induction days as [|d0 rest IH]; intros src dst cnt Hs Hd; cbn [fold_left pull_nodes pull_count].
  - cbn. repeat split; try assumption. lia.
  - destruct (sync_day_notombs src dst cnt d0 Hs Hd) as [A [B C]].
    destruct (sync_day src (dst, cnt) d0) as [r1 c1] eqn:E. cbn [fst snd] in A, B, C.
    specialize (IH src r1 c1 Hs B). cbv zeta in IH. destruct IH as [I1 [I2 I3]].
    rewrite A in I1, I3. repeat split; try assumption. rewrite I3, C. lia.
Qed.

Lemma pull_replica_notombs : forall dst src days, tombs src = [] -> tombs dst = [] ->
  nodes (fst (pull_replica dst src days)) = pull_nodes days (nodes dst) (nodes src) /\
  tombs (fst (pull_replica dst src days)) = [] /\
  snd (pull_replica dst src days) = N.of_nat (pull_count days (nodes dst) (nodes src)).
Proof.
  intros dst src days Hs Hd. unfold pull_replica.
  destruct (pull_fold days src dst 0%N Hs Hd) as [A [B C]]. repeat split; assumption.
Qed.

Lemma days_cover_complete : forall dst src days,
  days_cover days (needed_days dst src) = true -> complete (nodes dst) (nodes src) days.
Proof.
  intros dst src days H n Hin W. unfold days_cover, needed_days in H.
  rewrite forallb_app in H. apply Bool.andb_true_iff in H. destruct H as [H _].
  rewrite forallb_forall in H. apply (H (day (n_mdate n))).
  apply in_map_iff. exists n. split; [reflexivity|]. apply filter_In. split; assumption.
Qed.

(* filter_existing + write implement the join "greatest (mdate, signature) per row id" *)
Theorem pull_is_join : forall dst src days x,
  tombs src = [] -> tombs dst = [] -> nodup_ids (nodes src) ->
  days_cover days (needed_days dst src) = true ->
  find_node x (nodes (fst (pull_replica dst src days))) =
  vjoin (find_node x (nodes dst)) (find_node x (nodes src)).
Proof.
  intros dst src days x Ht Hd Hs Hc.
  destruct (pull_replica_notombs dst src days Ht Hd) as [A _]. rewrite A.
  apply lww_join; [exact Hs|]. apply days_cover_complete. exact Hc.
Qed.

(* between peers that show the same rows a further pull requests nothing *)
Theorem converged_stays_quiet : forall dst src days,
  tombs src = [] -> tombs dst = [] -> nodup_ids (nodes src) ->
  (forall x, find_node x (nodes dst) = find_node x (nodes src)) ->
  snd (pull_replica dst src days) = 0%N /\ nodes (fst (pull_replica dst src days)) = nodes dst.
Proof.
  intros dst src days Ht Hd Hs Hv.
  destruct (pull_replica_notombs dst src days Ht Hd) as [A [_ C]].
  pose proof (views_le_count days _ _ (same_view_le _ _ Hs Hv)) as H0.
  rewrite C, A, H0. split; [reflexivity|]. apply (proj1 (pull_count_zero days _ _ H0)).
Qed.

Lemma wf_set : forall S p r, wf S -> nodup_ids (nodes r) -> wf (set p r S).
Proof.
  intros S p r H Hr q. rewrite get_set. destruct (N.eqb q p && Nat.ltb (N.to_nat p) (length S))%bool; [exact Hr|apply H].
Qed.
Lemma no_tombs_set : forall S p r, no_tombs S -> tombs r = [] -> no_tombs (set p r S).
Proof.
  intros S p r H Hr q. rewrite get_set. destruct (N.eqb q p && Nat.ltb (N.to_nat p) (length S))%bool; [exact Hr|apply H].
Qed.

Definition is_delete (o : sop) : bool := match o with Delete _ _ _ => true | _ => false end.

Lemma step_inv : forall S o, wf S -> no_tombs S -> is_delete o = false ->
  wf (fst (fst (step S o))) /\ no_tombs (fst (fst (step S o))) /\ length (fst (fst (step S o))) = length S.
Proof.
  intros S o Hw Ht Hd.
  assert (K : forall p r, nodup_ids (nodes r) -> tombs r = [] ->
              wf (set p r S) /\ no_tombs (set p r S) /\ length (set p r S) = length S).
  { intros p r H1 H2. repeat split; [apply wf_set|apply no_tombs_set|apply length_set]; assumption. }
  destruct o as [p x t sg|p x0 t sgs|p x t sg|p x t|p x y t sg|p x y t sg|d s days]; cbn [step is_delete] in *.
  - cbn [fst]. apply K; unfold with_nodes; cbn [nodes tombs]; [apply nodup_ids_put; apply Hw|apply Ht].
  - destruct (create_rows_fields sgs (get p S) x0 t) as [CT [_ [_ CN]]].
    destruct (create_rows (get p S) x0 t sgs) as [r g]. cbn [fst] in *. apply K; [apply CN; apply Hw|rewrite CT; apply Ht].
  - destruct (find_node x (nodes (get p S))); cbn [fst]; [|auto].
    apply K; unfold with_nodes; cbn [nodes tombs]; [apply nodup_ids_put; apply Hw|apply Ht].
  - discriminate.
  - destruct (find_node x (nodes (get p S))); [|cbn [fst]; auto]. destruct (find_node y (nodes (get p S))); [|cbn [fst]; auto].
    destruct (find_edge x y (edges (get p S))); cbn [fst]; [auto|].
    apply K; cbn [nodes tombs]; [apply nodup_ids_put; apply Hw|apply Ht].
  - destruct (find_node x (nodes (get p S))); [|cbn [fst]; auto].
    destruct (find_edge x y (edges (get p S))); cbn [fst]; apply K; unfold with_nodes; cbn [nodes tombs];
      try (apply nodup_ids_put; apply Hw); apply Ht.
  - destruct (pull_replica_notombs (get d S) (get s S) days (Ht s) (Ht d)) as [A [B _]].
    destruct (pull_replica (get d S) (get s S) days) as [r cnt]. cbn [fst snd] in *.
    apply K; [rewrite A; apply nodup_ids_pull_nodes; apply Hw|exact B].
Qed.

Lemma init_wf : forall n, wf (init_sys n) /\ no_tombs (init_sys n) /\ length (init_sys n) = N.to_nat n.
Proof.
  intros n. repeat split.
  - intros p. apply (g_ids _ (init_good n p)).
  - intros p. unfold get, init_sys.
    destruct (nth_in_or_default (N.to_nat p) (repeat empty_replica (N.to_nat n)) empty_replica) as [H|H];
      [apply repeat_spec in H|]; rewrite H; reflexivity.
  - apply repeat_length.
Qed.

(* ====================================================================================== *)
(* part 2: with deletions — quiescence forces agreement                                    *)
(* ====================================================================================== *)
Lemma length_step : forall S o, length (fst (fst (step S o))) = length S.
Proof.
  intros S o. destruct o as [p x t sg|p x0 t sgs|p x t sg|p x t|p x y t sg|p x y t sg|d s days]; cbn [step].
  - apply length_set.
  - destruct (create_rows (get p S) x0 t sgs). cbn [fst]. apply length_set.
  - destruct (find_node x (nodes (get p S))); cbn [fst]; [apply length_set|reflexivity].
  - destruct (find_node x (nodes (get p S))); cbn [fst]; [apply length_set|reflexivity].
  - destruct (find_node x (nodes (get p S))); [|reflexivity]. destruct (find_node y (nodes (get p S))); [|reflexivity].
    destruct (find_edge x y (edges (get p S))); cbn [fst]; [reflexivity|apply length_set].
  - destruct (find_node x (nodes (get p S))); [|reflexivity].
    destruct (find_edge x y (edges (get p S))); cbn [fst]; apply length_set.
  - destruct (pull_replica (get d S) (get s S) days). cbn [fst]. apply length_set.
Qed.
Lemma length_run : forall ops S, length (run_sys S ops) = length S.
Proof. induction ops as [|o ops IH]; intros S; cbn [run_sys]; [reflexivity|]. rewrite IH. apply length_step. Qed.

(* a pull whose selected days each move nothing moves nothing *)
Lemma pull_still_fixed : forall days dst src, pull_still dst src days = true -> pull_replica dst src days = (dst, 0%N).
Proof.
  intros days dst src H. unfold pull_replica. unfold pull_still in H. rewrite forallb_forall in H.
  induction days as [|d days IH]; [reflexivity|]. cbn [fold_left].
  pose proof (H d (or_introl eq_refl)) as Hd. unfold day_still in Hd.
  destruct (sync_day src (dst, 0%N) d) as [r c]. apply Bool.andb_true_iff in Hd. destruct Hd as [Hc Hr].
  apply N.eqb_eq in Hc. apply replica_eqb_eq in Hr. subst. apply IH. intros y Hy. apply H. right. exact Hy.
Qed.

Lemma still_fixed : forall final S, still S final = true ->
  run_sys S final = S /\ only_pulls final = true /\
  (forall d s days, In (Pull d s days) final -> pull_still (get d S) (get s S) days = true).
Proof.
  induction final as [|o final IH]; intros S H; [repeat split; intros d s days []|].
  destruct o as [p x t sg|p x0 t sgs|p x t sg|p x t|p x y t sg|p x y t sg|d s days]; cbn [still] in H; try discriminate.
  apply Bool.andb_true_iff in H. destruct H as [H1 H2]. destruct (IH S H2) as [I1 [I2 I3]].
  assert (E : fst (fst (step S (Pull d s days))) = S).
  { cbn [step]. rewrite (pull_still_fixed _ _ _ H1). cbn [fst]. apply set_get_same. }
  repeat split.
  - cbn [run_sys]. rewrite E. exact I1.
  - cbn [only_pulls forallb]. exact I2.
  - intros d' s' days' [Heq|Hin]; [inversion Heq; subst; exact H1|apply I3; exact Hin].
Qed.

Lemma run_complete_still : forall final S, still S final = true -> run_complete S final = true ->
  forall d s days, In (Pull d s days) final -> days_cover days (needed_days (get d S) (get s S)) = true.
Proof.
  induction final as [|o final IH]; intros S H Hc d s days Hin; [inversion Hin|].
  destruct o as [p x t sg|p x0 t sgs|p x t sg|p x t|p x y t sg|p x y t sg|d0 s0 days0]; cbn [still] in H; try discriminate.
  apply Bool.andb_true_iff in H. destruct H as [H1 H2].
  cbn [run_complete] in Hc. apply Bool.andb_true_iff in Hc. destruct Hc as [Hc0 Hc].
  assert (E : fst (fst (step S (Pull d0 s0 days0))) = S).
  { cbn [step]. rewrite (pull_still_fixed _ _ _ H1). cbn [fst]. apply set_get_same. }
  rewrite E in Hc. destruct Hin as [Heq|Hin]; [inversion Heq; subst; exact Hc0|apply (IH S H2 Hc); exact Hin].
Qed.

(* what one still day says *)
Lemma day_still_facts : forall dst src d, day_still dst src d = true ->
  let dst0 := fold_left apply_etomb (etombs_on_day d (etombs src)) dst in
  let dst1 := fold_left apply_tomb (tombs_on_day d (tombs src)) dst0 in
  nodes dst1 = nodes dst /\ tombs dst1 = tombs dst /\ etombs dst0 = etombs dst /\
  filter (fun o => wanted (nodes dst1) o && negb (below_tomb (tombs dst1) o))%bool (on_day d (nodes src)) = [] /\
  fst (sync_day src (dst, 0%N) d) = dst.
Proof.
  intros dst src d H. unfold day_still in H. destruct (sync_day src (dst, 0%N) d) as [r c] eqn:E.
  apply Bool.andb_true_iff in H. destruct H as [Hc Hr]. apply N.eqb_eq in Hc. apply replica_eqb_eq in Hr.
  rewrite Hr, Hc in E. unfold sync_day in E.
  set (dst0 := fold_left apply_etomb (etombs_on_day d (etombs src)) dst) in *.
  set (dst1 := fold_left apply_tomb (tombs_on_day d (tombs src)) dst0) in *.
  set (fetch := filter (fun o => (wanted (nodes dst1) o && negb (below_tomb (tombs dst1) o))%bool) (on_day d (nodes src))) in *.
  injection E as E1 E2.
  assert (Hf : fetch = []) by (destruct fetch; [reflexivity|cbn [length] in E2; lia]).
  rewrite Hf in E1. cbn [fold_left] in E1.
  pose proof (f_equal nodes E1) as A1. pose proof (f_equal tombs E1) as A2. pose proof (f_equal etombs E1) as A4.
  cbn [nodes tombs etombs] in A1, A2, A4.
  assert (A3 : etombs dst0 = etombs dst).
  { rewrite <- A4. unfold dst1. symmetry. apply (proj2 (fold_apply_tomb_fields _ dst0)). }
  cbv zeta. cbn [fst]. repeat split; try assumption.

Qed.

Lemma in_days : forall d days, existsb (Z.eqb d) days = true -> In d days.
Proof. intros d days H. apply existsb_exists in H. destruct H as [y [Hy E]]. apply Z.eqb_eq in E. subst. exact Hy. Qed.

Lemma days_cover_parts : forall days dst src, days_cover days (needed_days dst src) = true ->
  (forall n, In n (nodes src) -> wanted (nodes dst) n = true -> In (day (n_mdate n)) days) /\
  (forall t, In t (tombs src) -> has_tomb (tombs dst) t = false -> In (day (t_ddate t)) days) /\
  (forall t, In t (etombs src) -> has_etomb (etombs dst) t = false -> In (day (et_ddate t)) days).
Proof.
  intros days dst src Hc. unfold days_cover, needed_days in Hc. rewrite !forallb_app in Hc.
  apply Bool.andb_true_iff in Hc. destruct Hc as [H1 Hc]. apply Bool.andb_true_iff in Hc. destruct Hc as [H2 H3].
  rewrite forallb_forall in H1, H2, H3. repeat split.
  - intros n Hn W. apply in_days. apply H1. apply in_map_iff. exists n. split; [reflexivity|]. apply filter_In. split; assumption.
  - intros t Ht E. apply in_days. apply H2. apply in_map_iff. exists t. split; [reflexivity|]. apply filter_In. split; [exact Ht|]. rewrite E. reflexivity.
  - intros t Ht E. apply in_days. apply H3. apply in_map_iff. exists t. split; [reflexivity|]. apply filter_In. split; [exact Ht|]. rewrite E. reflexivity.
Qed.

(* a complete pull that moves nothing: the receiver holds every deletion record of the source ... *)
Lemma still_tombs : forall dst src days, keys_unique (tombs src) ->
  pull_still dst src days = true -> days_cover days (needed_days dst src) = true ->
  forall t, In t (tombs src) -> In t (tombs dst).
Proof.
  intros dst src days Hk Hs Hc t Ht.
  destruct (has_tomb (tombs dst) t) eqn:E; [apply has_tomb_in; exact E|].
  destruct (days_cover_parts _ _ _ Hc) as [_ [P2 _]]. pose proof (P2 t Ht E) as Hd.
  unfold pull_still in Hs. rewrite forallb_forall in Hs.
  destruct (day_still_facts _ _ _ (Hs _ Hd)) as [_ [Ht2 _]].
  rewrite <- Ht2, tombs_fold_apply, (proj2 (fold_apply_etomb_fields _ dst)).
  apply (fold_put_has (tombs src)); try assumption.
  - intros u Hu. unfold tombs_on_day in Hu. apply filter_In in Hu. tauto.
  - left. unfold tombs_on_day. apply filter_In. split; [exact Ht|apply Z.eqb_refl].
Qed.

(* ... every reference deletion record of the source ... *)
Lemma still_etombs : forall dst src days, ekeys_unique (etombs src) ->
  pull_still dst src days = true -> days_cover days (needed_days dst src) = true ->
  forall t, In t (etombs src) -> In t (etombs dst).
Proof.
  intros dst src days Hk Hs Hc t Ht.
  destruct (has_etomb (etombs dst) t) eqn:E; [apply has_etomb_in; exact E|].
  destruct (days_cover_parts _ _ _ Hc) as [_ [_ P3]]. pose proof (P3 t Ht E) as Hd.
  unfold pull_still in Hs. rewrite forallb_forall in Hs.
  destruct (day_still_facts _ _ _ (Hs _ Hd)) as [_ [_ [Ht3 _]]].
  rewrite <- Ht3, etombs_fold_apply.
  apply (fold_eput_has (etombs src)); try assumption.
  - intros u Hu. unfold etombs_on_day in Hu. apply filter_In in Hu. tauto.
  - left. unfold etombs_on_day. apply filter_In. split; [exact Ht|apply Z.eqb_refl].
Qed.

(* ... and every row of the source is either not newer than the receiver's version, or at or below a
   deletion record the receiver holds *)
Lemma still_rows : forall dst src days,
  pull_still dst src days = true -> days_cover days (needed_days dst src) = true ->
  forall n, In n (nodes src) -> wanted (nodes dst) n = false \/ below_tomb (tombs dst) n = true.
Proof.
  intros dst src days Hs Hc n Hn.
  destruct (wanted (nodes dst) n) eqn:W; [right|left; reflexivity].
  destruct (days_cover_parts _ _ _ Hc) as [P1 _]. pose proof (P1 n Hn W) as Hd.
  unfold pull_still in Hs. rewrite forallb_forall in Hs.
  destruct (day_still_facts _ _ _ (Hs _ Hd)) as [Hn1 [Ht1 [_ [Hf _]]]]. rewrite Hn1, Ht1 in Hf.
  destruct (below_tomb (tombs dst) n) eqn:B; [reflexivity|]. exfalso.
  assert (In n (filter (fun o => (wanted (nodes dst) o && negb (below_tomb (tombs dst) o))%bool) (on_day (day (n_mdate n)) (nodes src)))).
  { apply filter_In. split; [unfold on_day; apply filter_In; split; [exact Hn|apply Z.eqb_refl]|]. rewrite W, B. reflexivity. }
  rewrite Hf in H. inversion H.
Qed.

Lemma row_eqb_refl : forall n, row_eqb n n = true.
Proof. intros n. apply row_eqb_eq. reflexivity. Qed.

Lemma same_view_rows : forall a b, nodup_ids (nodes a) -> nodup_ids (nodes b) ->
  (forall x, find_node x (nodes a) = find_node x (nodes b)) -> same_rows a b = true.
Proof.
  intros a b Ha Hb Hv. unfold same_rows. apply Bool.andb_true_iff. split; unfold rows_subset; apply forallb_forall; intros n Hin.
  - pose proof (find_node_in _ n Ha Hin) as F. rewrite Hv in F. apply find_node_some in F. apply has_row_in. apply F.
  - pose proof (find_node_in _ n Hb Hin) as F. rewrite <- Hv in F. apply find_node_some in F. apply has_row_in. apply F.
Qed.

Lemma visible_ext : forall a b e, (forall x, find_node x (nodes a) = find_node x (nodes b)) -> visible a e = visible b e.
Proof. intros a b e H. unfold visible. rewrite !H. reflexivity. Qed.

Lemma ecovered_mono : forall l1 l2 e, (forall t, In t l1 -> In t l2) -> ecovered l1 e = true -> ecovered l2 e = true.
Proof.
  intros l1 l2 e H E. unfold ecovered in *. apply existsb_exists in E. destruct E as [t [Hin Ht]].
  apply existsb_exists. exists t. split; [apply H; exact Hin|exact Ht].
Qed.

Lemma refs_side : forall a b, (forall x, find_node x (nodes a) = find_node x (nodes b)) ->
  (forall t, In t (etombs b) -> In t (etombs a)) ->
  refs_delivered a b = true -> refs_coherent a = true -> forallb (ref_held b) (shown_refs a) = true.
Proof.
  intros a b Hv Ht Hd Hc. apply forallb_forall. intros e He.
  unfold refs_delivered in Hd. apply Bool.andb_true_iff in Hd. destruct Hd as [Hd _].
  rewrite forallb_forall in Hd. specialize (Hd e He).
  pose proof He as He'. unfold shown_refs in He'. apply filter_In in He'. destruct He' as [Hin Hvis].
  rewrite <- (visible_ext a b e Hv), Hvis in Hd. cbn [negb] in Hd. rewrite Bool.orb_false_r in Hd.
  apply Bool.orb_true_iff in Hd. destruct Hd as [Hd|Hd]; [exact Hd|]. exfalso.
  pose proof (ecovered_mono _ _ e Ht Hd) as Hca.
  unfold refs_coherent, refs_stay_deleted in Hc. rewrite forallb_forall in Hc. specialize (Hc e Hin).
  rewrite Hca in Hc. discriminate.
Qed.

(* two replicas that pull from each other completely without moving anything, with no reference left
   undelivered and none below a reference deletion record, agree *)
Lemma mutual_still_agree : forall a b da db, good a -> good b ->
  pull_still a b da = true -> days_cover da (needed_days a b) = true ->
  pull_still b a db = true -> days_cover db (needed_days b a) = true ->
  refs_delivered b a = true -> refs_delivered a b = true -> refs_coherent a = true -> refs_coherent b = true ->
  agree a b = true.
Proof.
  intros a b da db Ga Gb Sa Ca Sb Cb Rba Rab Ka Kb.
  pose proof (still_tombs a b da (g_keys _ Gb) Sa Ca) as Tba.   (* tombs b in tombs a *)
  pose proof (still_tombs b a db (g_keys _ Ga) Sb Cb) as Tab.   (* tombs a in tombs b *)
  pose proof (still_etombs a b da (g_ekeys _ Gb) Sa Ca) as Eba.
  pose proof (still_etombs b a db (g_ekeys _ Ga) Sb Cb) as Eab.
  assert (Lab : views_le (nodes a) (nodes b)).
  { intros n Hn. destruct (still_rows a b da Sa Ca n Hn) as [W|B]; [exact W|]. exfalso.
    destruct (below_tomb_true _ _ B) as [t [Ht [Hid Hle]]].
    pose proof (g_inv _ Gb n t Hn (Tab t Ht) Hid). lia. }
  assert (Lba : views_le (nodes b) (nodes a)).
  { intros n Hn. destruct (still_rows b a db Sb Cb n Hn) as [W|B]; [exact W|]. exfalso.
    destruct (below_tomb_true _ _ B) as [t [Ht [Hid Hle]]].
    pose proof (g_inv _ Ga n t Hn (Tba t Ht) Hid). lia. }
  pose proof (views_le_antisym _ _ (g_ids _ Ga) (g_ids _ Gb) Lab Lba) as Hv.
  unfold agree. apply Bool.andb_true_iff; split; [apply Bool.andb_true_iff; split; [apply Bool.andb_true_iff; split|]|].
  - apply same_view_rows; [apply Ga|apply Gb|exact Hv].
  - unfold same_tombs, tombs_subset. apply Bool.andb_true_iff. split; apply forallb_forall; intros t Ht; apply has_tomb_in; auto.
  - unfold same_refs. apply Bool.andb_true_iff. split.
    + apply (refs_side a b Hv Eba Rab Ka).
    + apply (refs_side b a (fun x => eq_sym (Hv x)) Eab Rba Kb).
  - unfold same_etombs. apply Bool.andb_true_iff. split; apply forallb_forall; intros t Ht; apply has_etomb_in; auto.
Qed.

Lemma find_edge_in : forall l e, In e l -> find_edge (e_src e) (e_dest e) l <> None.
Proof.
  intros l e H E. unfold find_edge in E. apply (find_none _ _ E) in H. rewrite !N.eqb_refl in H. discriminate.
Qed.

Lemma agree_refl : forall a, agree a a = true.
Proof.
  intros a. unfold agree, same_rows, same_tombs, same_refs, same_etombs, rows_subset, tombs_subset.
  assert (R : forallb (has_row (nodes a)) (nodes a) = true) by (apply forallb_forall; intros n Hn; apply has_row_in; exact Hn).
  assert (T : forallb (has_tomb (tombs a)) (tombs a) = true) by (apply forallb_forall; intros n Hn; apply has_tomb_in; exact Hn).
  assert (X : forallb (has_etomb (etombs a)) (etombs a) = true) by (apply forallb_forall; intros n Hn; apply has_etomb_in; exact Hn).
  assert (E : forallb (ref_held a) (shown_refs a) = true).
  { apply forallb_forall. intros e He. unfold shown_refs in He. apply filter_In in He. destruct He as [He _].
    unfold ref_held. destruct (find_edge (e_src e) (e_dest e) (edges a)) eqn:F; [reflexivity|]. exfalso. apply (find_edge_in _ _ He F). }
  rewrite R, T, X, E. reflexivity.
Qed.

Lemma all_agree_pairwise : forall L : sys,
  (forall i j, (i < length L)%nat -> (j < length L)%nat -> agree (nth i L empty_replica) (nth j L empty_replica) = true) ->
  all_agree L = true.
Proof.
  induction L as [|a L IH]; intros H; [reflexivity|].
  destruct L as [|b L]; [reflexivity|].
  cbn [all_agree]. apply Bool.andb_true_iff. split.
  - apply (H 0%nat 1%nat); cbn [length]; lia.
  - apply IH. intros i j Hi Hj. apply (H (S i) (S j)); cbn [length] in *; lia.
Qed.

Lemma in_peers : forall n i, (i < N.to_nat n)%nat -> In (N.of_nat i) (peers n).
Proof. intros n i H. unfold peers. apply in_map. apply in_seq. lia. Qed.

Lemma full_round_pull : forall n final d s, full_round n final = true ->
  In d (peers n) -> In s (peers n) -> d <> s -> exists days, In (Pull d s days) final.
Proof.
  intros n final d s H Hd Hs Hne. unfold full_round in H.
  rewrite forallb_forall in H. specialize (H d Hd). rewrite forallb_forall in H. specialize (H s Hs).
  apply Bool.orb_true_iff in H. destruct H as [H|H].
  - apply N.eqb_eq in H. contradiction.
  - apply existsb_exists in H. destruct H as [o [Hin Hp]].
    destruct o as [p x t sg|p x0 t sgs|p x t sg|p x t|p x y t sg|p x y t sg|d' s' days]; try discriminate. cbn [is_pull] in Hp.
    apply Bool.andb_true_iff in Hp. destruct Hp as [H1 H2]. apply N.eqb_eq in H1. apply N.eqb_eq in H2. subst.
    exists days. exact Hin.
Qed.

Lemma known_nil_parts : forall c, known_C03 c = [] ->
  run_complete (init_sys (c03_n c)) (c03_ops c) = true /\
  run_refs_ok (init_sys (c03_n c)) (c03_ops c) = true /\
  run_refs_coherent (init_sys (c03_n c)) (c03_ops c) = true.
Proof.
  intros c H. unfold known_C03 in H.
  destruct (run_complete (init_sys (c03_n c)) (c03_ops c)); [|discriminate].
  destruct (run_refs_ok (init_sys (c03_n c)) (c03_ops c)); [|discriminate].
  destruct (run_refs_coherent (init_sys (c03_n c)) (c03_ops c)); [|discriminate]. auto.
Qed.

Lemma run_refs_ok_app : forall a b S, run_refs_ok S (a ++ b) = (run_refs_ok S a && run_refs_ok (run_sys S a) b)%bool.
Proof.
  induction a as [|o a IH]; intros b S; cbn [app run_refs_ok run_sys]; [reflexivity|].
  rewrite IH, Bool.andb_assoc. reflexivity.
Qed.
Lemma run_refs_coherent_app : forall a b S,
  run_refs_coherent S (a ++ b) = (run_refs_coherent S a && run_refs_coherent (run_sys S a) b)%bool.
Proof.
  induction a as [|o a IH]; intros b S; cbn [app run_refs_coherent run_sys]; [reflexivity|].
  rewrite IH, Bool.andb_assoc. reflexivity.
Qed.

Lemma step_still : forall S d s days, pull_still (get d S) (get s S) days = true -> fst (fst (step S (Pull d s days))) = S.
Proof. intros. cbn [step]. rewrite (pull_still_fixed _ _ _ H). cbn [fst]. apply set_get_same. Qed.

Lemma run_refs_still : forall final S, still S final = true -> run_refs_ok S final = true ->
  forall d s days, In (Pull d s days) final -> refs_delivered (get s S) (get d S) = true.
Proof.
  induction final as [|o final IH]; intros S H Hc d s days Hin; [inversion Hin|].
  destruct o as [p x t sg|p x0 t sgs|p x t sg|p x t|p x y t sg|p x y t sg|d0 s0 days0]; cbn [still] in H; try discriminate.
  apply Bool.andb_true_iff in H. destruct H as [H1 H2].
  cbn [run_refs_ok] in Hc. rewrite (step_still S d0 s0 days0 H1) in Hc.
  apply Bool.andb_true_iff in Hc. destruct Hc as [Hc0 Hc].
  destruct Hin as [Heq|Hin]; [inversion Heq; subst; exact Hc0|apply (IH S H2 Hc d s days); exact Hin].
Qed.

Lemma run_coherent_still : forall final S d s days, still S final = true -> run_refs_coherent S final = true ->
  In (Pull d s days) final -> forallb refs_coherent S = true.
Proof.
  intros final S d s days H Hc Hin. destruct final as [|o final]; [inversion Hin|].
  destruct o as [p x t sg|p x0 t sgs|p x t sg|p x t|p x y t sg|p x y t sg|d0 s0 days0]; cbn [still] in H; try discriminate.
  apply Bool.andb_true_iff in H. destruct H as [H1 _].
  cbn [run_refs_coherent] in Hc. rewrite (step_still S d0 s0 days0 H1) in Hc.
  apply Bool.andb_true_iff in Hc. apply Hc.
Qed.

Lemma coherent_get : forall S p, forallb refs_coherent S = true -> refs_coherent (get p S) = true.
Proof.
  intros S p H. unfold get. destruct (nth_in_or_default (N.to_nat p) S empty_replica) as [Hin|Hd].
  - rewrite forallb_forall in H. apply H. exact Hin.
  - rewrite Hd. reflexivity.
Qed.

(* C03 outside the classes that are still open: any number of peers, any history of creations, updates
   (any clocks inside the envelope, same-millisecond ties included), deletions, REFERENCE additions and
   removals, and pulls in any order — every pull having selected the days a complete comparison selects,
   having left no reference undelivered, and no reference ever lying below a reference deletion record
   (known_C03 = []) —, ending with rounds in which every ordered pair pulls and nothing moves: every
   member holds the same rows, the same deletion records, shows the same references and holds the same
   reference deletion records *)
Theorem outside_known : forall n hist final,
  let c := C03Case n hist final in
  known_C03 c = [] -> c03_envelope c = true ->
  full_round n final = true -> c03_quiet c = true ->
  all_agree (run_sys (init_sys n) (hist ++ final)) = true.
Proof.
  intros n hist final c Hk He Hfr Hq.
  destruct (known_nil_parts c Hk) as [Hc [Hro Hrc]]. cbn [c c03_n c03_ops] in Hc, Hro, Hrc.
  rewrite run_complete_app in Hc. apply Bool.andb_true_iff in Hc. destruct Hc as [_ Hc].
  rewrite run_refs_ok_app in Hro. apply Bool.andb_true_iff in Hro. destruct Hro as [_ Hro].
  rewrite run_refs_coherent_app in Hrc. apply Bool.andb_true_iff in Hrc. destruct Hrc as [_ Hrc].
  unfold c03_envelope in He. apply Bool.negb_true_iff in He. cbn [c c03_n c03_ops] in He.
  rewrite run_guard_app in He. apply Bool.orb_false_iff in He. destruct He as [He _].
  pose proof (run_good hist (init_sys n) (init_good n) He) as G.
  unfold c03_quiet in Hq. cbn [c c03_n c03_hist c03_final] in Hq.
  set (S1 := run_sys (init_sys n) hist) in *.
  destruct (still_fixed final S1 Hq) as [Hfix [_ Hst]].
  pose proof (run_complete_still final S1 Hq Hc) as Hcov.
  pose proof (run_refs_still final S1 Hq Hro) as Hdel.
  rewrite run_sys_app. fold S1. rewrite Hfix.
  assert (L1 : length S1 = N.to_nat n).
  { unfold S1. rewrite length_run. apply repeat_length. }
  apply all_agree_pairwise. intros i j Hi Hj. rewrite L1 in Hi, Hj.
  assert (Gi : nth i S1 empty_replica = get (N.of_nat i) S1) by (unfold get; rewrite Nat2N.id; reflexivity).
  assert (Gj : nth j S1 empty_replica = get (N.of_nat j) S1) by (unfold get; rewrite Nat2N.id; reflexivity).
  rewrite Gi, Gj.
  destruct (Nat.eq_dec i j) as [->|Hne]; [apply agree_refl|].
  assert (Hne' : N.of_nat i <> N.of_nat j) by (intros E; apply Hne; apply Nat2N.inj; exact E).
  destruct (full_round_pull n final (N.of_nat i) (N.of_nat j) Hfr (in_peers n i Hi) (in_peers n j Hj) Hne') as [d1 H1].
  assert (Hne'' : N.of_nat j <> N.of_nat i) by congruence.
  destruct (full_round_pull n final (N.of_nat j) (N.of_nat i) Hfr (in_peers n j Hj) (in_peers n i Hi) Hne'') as [d2 H2].
  pose proof (run_coherent_still final S1 _ _ _ Hq Hrc H1) as Hco.
  apply (mutual_still_agree _ _ d1 d2); try apply G.
  - apply (Hst _ _ _ H1).
  - apply (Hcov _ _ _ H1).
  - apply (Hst _ _ _ H2).
  - apply (Hcov _ _ _ H2).
  - apply (Hdel _ _ _ H1).
  - apply (Hdel _ _ _ H2).
  - apply coherent_get. exact Hco.
  - apply coherent_get. exact Hco.
Qed.

(* inside the envelope the content of every member is coherent at every point, hence also when converged *)
Theorem converged_coherent : forall n hist final,
  let c := C03Case n hist final in
  c03_envelope c = true -> forallb coherent (run_sys (init_sys n) (hist ++ final)) = true.
Proof.
  intros n hist final c He. unfold c03_envelope in He. apply Bool.negb_true_iff in He. cbn [c c03_n c03_ops] in He.
  pose proof (run_good (hist ++ final) (init_sys n) (init_good n) He) as G.
  apply forallb_forall. intros r Hin. destruct (In_nth _ r empty_replica Hin) as [k [Hk Hn]].
  specialize (G (N.of_nat k)). unfold get in G. rewrite Nat2N.id, Hn in G.
  unfold coherent, stays_deleted. apply forallb_forall. intros m Hm. apply Bool.negb_true_iff.
  destruct (below_tomb (tombs r) m) eqn:E; [|reflexivity]. exfalso.
  destruct (below_tomb_true _ _ E) as [t [Ht [Hid Hle]]]. pose proof (g_inv _ G m t Hm Ht Hid). lia.
Qed.

(* ---------- closed witnesses / regression examples ---------- *)
(* class 4 (open): if the log comparison skips a day on which the source holds a row the receiver lacks
   (history-hash shortcut), that row is never delivered by this pair *)
Definition witness_skipped_day : c03case :=
  C03Case 2%N [Create 0%N 1%N 1000 1%N] [Pull 1%N 0%N []; Pull 0%N 1%N []; Pull 1%N 0%N []; Pull 0%N 1%N []].
Lemma refuted_skipped_day : spec_C03 witness_skipped_day (run_C03 witness_skipped_day) = false /\ known_C03 witness_skipped_day = [4].
Proof. vm_compute. split; reflexivity. Qed.

(* class 5 (open): two peers concurrently add DIFFERENT references to the same row; the references of
   the losing version never reach the other peer (references travel only with a row version that passes
   filter_existing): peer 0 shows 1->3 and 1->2, peer 1 shows 1->3 only, and nothing moves any more *)
Definition witness_ref_lost : c03case :=
  C03Case 2%N [Create 0%N 1%N 1001 1%N; Create 0%N 2%N 1002 2%N; Create 0%N 3%N 1003 3%N; Pull 1%N 0%N [0];
               AddRef 0%N 1%N 2%N 11000 4%N; AddRef 1%N 1%N 3%N 21000 5%N; Pull 0%N 1%N [0]; Pull 1%N 0%N []]
              [Pull 0%N 1%N []; Pull 1%N 0%N []; Pull 0%N 1%N []; Pull 1%N 0%N []].
Lemma refuted_ref_lost :
  spec_C03 witness_ref_lost (run_C03 witness_ref_lost) = false /\ known_C03 witness_ref_lost = [5] /\
  c03_quiet witness_ref_lost = true /\
  map (fun r => map (fun e => (e_src e, e_dest e)) (shown_refs r)) (run_sys (init_sys 2%N) (c03_ops witness_ref_lost)) =
  [[(1%N, 3%N); (1%N, 2%N)]; [(1%N, 3%N)]].
Proof. vm_compute. repeat split; reflexivity. Qed.

(* class 6 (open): the same reference added on two peers (two creation dates), the later one removed: the
   deletion record removes only the exactly named version, the older version stays on peer 0, below the
   record it holds; peer 1 never shows the reference again *)
Definition witness_ref_below : c03case :=
  C03Case 2%N [Create 0%N 1%N 1000 1%N; Create 0%N 2%N 1001 3%N; Pull 1%N 0%N [0];
               AddRef 0%N 1%N 2%N 11000 5%N; AddRef 1%N 1%N 2%N 21000 2%N; DelRef 1%N 1%N 2%N 31000 4%N; Pull 0%N 1%N [0]; Pull 1%N 0%N []]
              [Pull 0%N 1%N []; Pull 1%N 0%N []; Pull 0%N 1%N []; Pull 1%N 0%N []].
Lemma refuted_ref_below :
  spec_C03 witness_ref_below (run_C03 witness_ref_below) = false /\ known_C03 witness_ref_below = [6] /\
  map (fun r => (length (shown_refs r), length (etombs r))) (run_sys (init_sys 2%N) (c03_ops witness_ref_below)) = [(1, 1); (0, 1)]%nat.
Proof. vm_compute. repeat split; reflexivity. Qed.

(* the hypotheses of [outside_known] are satisfiable with references: add, pull, remove, add again *)
Definition example_refs_ok : c03case :=
  C03Case 2%N [Create 0%N 1%N 1001 1%N; Create 0%N 2%N 1002 2%N; Pull 1%N 0%N [0];
               AddRef 0%N 1%N 2%N 11000 4%N; Pull 1%N 0%N [0]; DelRef 1%N 1%N 2%N 21000 5%N; AddRef 1%N 1%N 2%N 31000 6%N; Pull 0%N 1%N [0]]
              [Pull 0%N 1%N []; Pull 1%N 0%N []; Pull 0%N 1%N []; Pull 1%N 0%N []].
Lemma refs_nonvacuous :
  spec_C03 example_refs_ok (run_C03 example_refs_ok) = true /\ known_C03 example_refs_ok = [] /\
  c03_quiet example_refs_ok = true /\ c03_envelope example_refs_ok = true /\
  full_round 2%N (c03_final example_refs_ok) = true /\
  map (fun r => (map e_cdate (shown_refs r), length (etombs r))) (run_sys (init_sys 2%N) (c03_ops example_refs_ok)) =
  [([31000], 1%nat); ([31000], 1%nat)].
Proof. vm_compute. repeat split; reflexivity. Qed.

(* formerly class 3 (fixed by bb1bffb): both peers delete one row on the same day; both now hold both records *)
Definition witness_two_records : c03case :=
  C03Case 2%N
    [Create 0%N 1%N 1000 1%N; Pull 1%N 0%N [0]; Delete 0%N 1%N 2000; Delete 1%N 1%N 3000; Pull 0%N 1%N [0]; Pull 1%N 0%N [0]]
    [Pull 0%N 1%N []; Pull 1%N 0%N []; Pull 0%N 1%N []; Pull 1%N 0%N []].
Lemma two_records_hold : spec_C03 witness_two_records (run_C03 witness_two_records) = true /\ known_C03 witness_two_records = [].
Proof. vm_compute. split; reflexivity. Qed.

(* formerly class 2 (fixed by ad91329): records of the old version on two days meet the newer version:
   the newer version survives everywhere *)
Definition witness_other_version : c03case :=
  C03Case 3%N
    [Create 0%N 1%N 3000 1%N; Pull 1%N 0%N [0]; Pull 2%N 0%N [0]; Update 1%N 1%N 63000 2%N;
     Delete 0%N 1%N 123000; Delete 2%N 1%N 86403000; Pull 0%N 2%N [0; 86400000]; Pull 0%N 1%N [0];
     Pull 1%N 0%N [0; 86400000]; Pull 2%N 0%N [0; 86400000]; Pull 2%N 1%N []]
    [Pull 0%N 1%N []; Pull 0%N 2%N []; Pull 1%N 0%N []; Pull 1%N 2%N []; Pull 2%N 0%N []; Pull 2%N 1%N []].
Lemma other_version_holds :
  spec_C03 witness_other_version (run_C03 witness_other_version) = true /\ known_C03 witness_other_version = [] /\
  map (fun r => (map n_mdate (nodes r), length (tombs r))) (run_sys (init_sys 3%N) (c03_ops witness_other_version)) =
  [([63000], 2%nat); ([63000], 2%nat); ([63000], 2%nat)].
Proof. vm_compute. repeat split; reflexivity. Qed.

(* the hypotheses of [outside_known] are satisfiable: rows moving, a same-millisecond tie, a deletion
   racing an update *)
Definition example_ok : c03case :=
  C03Case 3%N
    [Create 0%N 1%N 1000 2%N; Pull 1%N 0%N [0]; Update 1%N 1%N 86401000 5%N; Update 0%N 1%N 86401000 4%N;
     Create 2%N 2%N 500 1%N; Pull 2%N 1%N [86400000]; Pull 0%N 2%N [0; 86400000]; Delete 0%N 2%N 90000000;
     Pull 1%N 2%N [0]; Pull 1%N 0%N [86400000]; Pull 2%N 0%N [86400000]]
    [Pull 0%N 1%N []; Pull 0%N 2%N []; Pull 1%N 0%N []; Pull 1%N 2%N []; Pull 2%N 0%N []; Pull 2%N 1%N []].
Lemma nonvacuous :
  known_C03 example_ok = [] /\ c03_envelope example_ok = true /\
  full_round 3%N (c03_final example_ok) = true /\ c03_quiet example_ok = true /\
  spec_C03 example_ok (run_C03 example_ok) = true /\
  map (fun r => (map n_sig (nodes r), length (tombs r))) (run_sys (init_sys 3%N) (c03_ops example_ok)) =
  [([5%N], 1%nat); ([5%N], 1%nat); ([5%N], 1%nat)].
Proof. vm_compute. repeat split; reflexivity. Qed.
