(* C03P.v — proofs for C03 (synchronisation converges) over the model Sync.v. *)
From DV Require Import Sync SyncObs SyncP Run_C03.
From Coq Require Import Lia.
Open Scope Z_scope.

Definition wf (S : sys) : Prop := forall p, nodup_ids (nodes (get p S)).
Definition no_tombs (S : sys) : Prop := forall p, tombs (get p S) = [].

(* ---------- one pull from a source without deletion records ---------- *)
Lemma sync_day_notombs : forall src dst cnt ev d0, tombs src = [] -> exists ev',
  sync_day false src (dst, cnt, ev) d0 =
  ({| nodes := merge (nodes dst) (on_day d0 (nodes src)); tombs := tombs dst |},
   (cnt + N.of_nat (length (filter (wanted (nodes dst)) (on_day d0 (nodes src)))))%N, ev').
Proof.
  intros src dst cnt ev d0 H. unfold sync_day. rewrite H.
  cbn [tombs_on_day filter dedup_tombs fold_left existsb length Nat.eqb negb].
  match goal with |- context [filter ?f (on_day d0 (nodes src))] =>
    assert (Hf : filter f (on_day d0 (nodes src)) = filter (wanted (nodes dst)) (on_day d0 (nodes src)))
  end.
  { apply filter_ext. intros o. cbn [negb orb]. destruct (wanted (nodes dst) o); reflexivity. }
  rewrite Hf. unfold merge. eexists. reflexivity.
Qed.

Lemma pull_fold : forall days src dst cnt ev, tombs src = [] ->
  let r := fold_left (sync_day false src) days (dst, cnt, ev) in
  nodes (fst (fst r)) = pull_nodes days (nodes dst) (nodes src) /\
  tombs (fst (fst r)) = tombs dst /\
  snd (fst r) = (cnt + N.of_nat (pull_count days (nodes dst) (nodes src)))%N.
Proof.
  induction days as [|d0 rest IH]; intros src dst cnt ev H; cbn [fold_left pull_nodes pull_count].
  - cbn. repeat split; try reflexivity. lia.
  - destruct (sync_day_notombs src dst cnt ev d0 H) as [ev' E]. rewrite E.
    specialize (IH src {| nodes := merge (nodes dst) (on_day d0 (nodes src)); tombs := tombs dst |}
                   (cnt + N.of_nat (length (filter (wanted (nodes dst)) (on_day d0 (nodes src)))))%N ev' H).
    cbn [nodes tombs] in IH. destruct IH as [I1 [I2 I3]]. repeat split; try assumption.
    rewrite I3. lia.
Qed.

Lemma pull_replica_notombs : forall dst src days, tombs src = [] ->
  nodes (fst (fst (pull_replica false dst src days))) = pull_nodes days (nodes dst) (nodes src) /\
  tombs (fst (fst (pull_replica false dst src days))) = tombs dst /\
  snd (fst (pull_replica false dst src days)) = N.of_nat (pull_count days (nodes dst) (nodes src)).
Proof.
  intros dst src days H. unfold pull_replica.
  destruct (pull_fold days src dst 0%N no_events H) as [A [B C]]. repeat split; try assumption.
Qed.

Lemma days_cover_complete : forall dst src days,
  days_cover days (needed_days dst src) = true -> complete (nodes dst) (nodes src) days.
Proof.
  intros dst src days H n Hin W. unfold days_cover, needed_days in H.
  rewrite forallb_app in H. apply Bool.andb_true_iff in H. destruct H as [H _].
  rewrite forallb_forall in H. apply (H (day (n_mdate n))).
  apply in_map_iff. exists n. split; [reflexivity|]. apply filter_In. split; assumption.
Qed.

(* filter_existing + write implement the join "greatest (mdate, signature) per row id" *)
Theorem pull_is_join : forall dst src days x,
  tombs src = [] -> nodup_ids (nodes src) ->
  days_cover days (needed_days dst src) = true ->
  find_node x (nodes (fst (fst (pull_replica false dst src days)))) =
  vjoin (find_node x (nodes dst)) (find_node x (nodes src)).
Proof.
  intros dst src days x Ht Hs Hc.
  destruct (pull_replica_notombs dst src days Ht) as [A _]. rewrite A.
  apply lww_join; [exact Hs|]. apply days_cover_complete. exact Hc.
Qed.

(* between peers that show the same rows a further pull requests nothing *)
Theorem converged_stays_quiet : forall dst src days,
  tombs src = [] -> nodup_ids (nodes src) ->
  (forall x, find_node x (nodes dst) = find_node x (nodes src)) ->
  snd (fst (pull_replica false dst src days)) = 0%N /\
  nodes (fst (fst (pull_replica false dst src days))) = nodes dst.
Proof.
  intros dst src days Ht Hs Hv.
  destruct (pull_replica_notombs dst src days Ht) as [A [_ C]].
  pose proof (views_le_count days _ _ (same_view_le _ _ Hs Hv)) as H0.
  rewrite C, A, H0. split; [reflexivity|]. apply (proj1 (pull_count_zero days _ _ H0)).
Qed.

(* ---------- steps preserve the invariants (histories without deletions) ---------- *)
Lemma wf_set : forall S p r, wf S -> nodup_ids (nodes r) -> wf (set p r S).
Proof.
  intros S p r H Hr q. rewrite get_set. destruct (N.eqb q p && Nat.ltb (N.to_nat p) (length S))%bool; [exact Hr|apply H].
Qed.
Lemma no_tombs_set : forall S p r, no_tombs S -> tombs r = [] -> no_tombs (set p r S).
Proof.
  intros S p r H Hr q. rewrite get_set. destruct (N.eqb q p && Nat.ltb (N.to_nat p) (length S))%bool; [exact Hr|apply H].
Qed.

Definition is_delete (o : sop) : bool := match o with Delete _ _ _ => true | _ => false end.

Lemma step_inv : forall S o, wf S -> no_tombs S -> is_delete o = false ->
  wf (fst (fst (step false S o))) /\ no_tombs (fst (fst (step false S o))) /\
  length (fst (fst (step false S o))) = length S.
Proof.
  intros S o Hw Ht Hd. destruct o as [p x t sg|p x t sg|p x t|d s days]; cbn [step is_delete] in *.
  - cbn [fst]. repeat split.
    + apply wf_set; [exact Hw|]. cbn [nodes]. apply nodup_ids_put. apply Hw.
    + apply no_tombs_set; [exact Ht|]. cbn [tombs]. apply Ht.
    + apply length_set.
  - destruct (find_node x (nodes (get p S))); cbn [fst]; repeat split; auto.
    + apply wf_set; [exact Hw|]. cbn [nodes]. apply nodup_ids_put. apply Hw.
    + apply no_tombs_set; [exact Ht|]. cbn [tombs]. apply Ht.
    + apply length_set.
  - discriminate.
  - destruct (pull_replica_notombs (get d S) (get s S) days (Ht s)) as [A [B _]].
    destruct (pull_replica false (get d S) (get s S) days) as [[r cnt] ev]. cbn [fst snd] in *.
    repeat split.
    + apply wf_set; [exact Hw|]. rewrite A. apply nodup_ids_pull_nodes. apply Hw.
    + apply no_tombs_set; [exact Ht|]. rewrite B. apply Ht.
    + apply length_set.
Qed.

Lemma forallb_app_true : forall {A} (f : A -> bool) l1 l2, forallb f (l1 ++ l2) = true -> forallb f l1 = true /\ forallb f l2 = true.
Proof. intros. rewrite forallb_app in H. apply Bool.andb_true_iff in H. exact H. Qed.

Lemma run_inv : forall ops S, wf S -> no_tombs S -> no_deletes ops = true ->
  wf (run_sys false S ops) /\ no_tombs (run_sys false S ops) /\ length (run_sys false S ops) = length S.
Proof.
  induction ops as [|o ops IH]; intros S Hw Ht Hd; cbn [run_sys]; [auto|].
  unfold no_deletes in Hd. cbn [forallb] in Hd. apply Bool.andb_true_iff in Hd. destruct Hd as [Ho Hd].
  assert (Hnd : is_delete o = false) by (destruct o; cbn in *; congruence).
  destruct (step_inv S o Hw Ht Hnd) as [W [T L]].
  destruct (IH _ W T Hd) as [W' [T' L']]. repeat split; try assumption. congruence.
Qed.

Lemma run_sys_app : forall a b S, run_sys false S (a ++ b) = run_sys false (run_sys false S a) b.
Proof. induction a as [|o a IH]; intros b S; cbn [app run_sys]; [reflexivity|apply IH]. Qed.

Lemma run_complete_app : forall a b S,
  run_complete false S (a ++ b) = (run_complete false S a && run_complete false (run_sys false S a) b)%bool.
Proof.
  induction a as [|o a IH]; intros b S; cbn [app run_complete run_sys]; [reflexivity|].
  rewrite IH. rewrite Bool.andb_assoc. reflexivity.
Qed.

Lemma init_wf : forall n, wf (init_sys n) /\ no_tombs (init_sys n) /\ length (init_sys n) = N.to_nat n.
Proof.
  intros n. unfold init_sys. repeat split.
  - intros p. unfold get. destruct (nth_in_or_default (N.to_nat p) (repeat empty_replica (N.to_nat n)) empty_replica) as [H|H].
    + apply repeat_spec in H. rewrite H. constructor.
    + rewrite H. constructor.
  - intros p. unfold get. destruct (nth_in_or_default (N.to_nat p) (repeat empty_replica (N.to_nat n)) empty_replica) as [H|H].
    + apply repeat_spec in H. rewrite H. reflexivity.
    + rewrite H. reflexivity.
  - apply repeat_length.
Qed.

(* ---------- the quiet final rounds ---------- *)
Lemma quiet_pull_fixed : forall S d s days, no_tombs S ->
  snd (fst (step false S (Pull d s days))) = 0 ->
  fst (fst (step false S (Pull d s days))) = S /\
  pull_count days (nodes (get d S)) (nodes (get s S)) = O.
Proof.
  intros S d s days Ht H. cbn [step] in *.
  destruct (pull_replica_notombs (get d S) (get s S) days (Ht s)) as [A [B C]].
  destruct (pull_replica false (get d S) (get s S) days) as [[r cnt] ev]. cbn [fst snd] in *.
  assert (Hc : pull_count days (nodes (get d S)) (nodes (get s S)) = O) by lia.
  split; [|exact Hc].
  assert (Hr : r = get d S).
  { destruct r as [rn rt]. cbn [nodes tombs] in A, B.
    rewrite (proj1 (pull_count_zero days _ _ Hc)) in A. subst rn rt. destruct (get d S); reflexivity. }
  rewrite Hr. apply set_get_same.
Qed.

Lemma final_fixed : forall final S, no_tombs S -> only_pulls final = true ->
  forallb (Z.eqb 0) (run_flags false S final) = true ->
  run_complete false S final = true ->
  run_sys false S final = S /\
  (forall d s days, In (Pull d s days) final ->
     pull_count days (nodes (get d S)) (nodes (get s S)) = O /\
     days_cover days (needed_days (get d S) (get s S)) = true).
Proof.
  induction final as [|o final IH]; intros S Ht Hp Hq Hc.
  - split; [reflexivity|]. intros d s days [].
  - cbn [only_pulls forallb] in Hp. apply Bool.andb_true_iff in Hp. destruct Hp as [Ho Hp].
    destruct o as [p x t sg|p x t sg|p x t|d s days]; try discriminate.
    cbn [run_flags run_sys run_complete] in *.
    apply Bool.andb_true_iff in Hc. destruct Hc as [Hc0 Hc].
    assert (Hflag : snd (fst (step false S (Pull d s days))) = 0).
    { destruct (step false S (Pull d s days)) as [[S' flag] ev]. cbn [forallb] in Hq.
      apply Bool.andb_true_iff in Hq. destruct Hq as [Hf _]. apply Z.eqb_eq in Hf. cbn [fst snd]. congruence. }
    destruct (quiet_pull_fixed S d s days Ht Hflag) as [Hs Hcnt].
    rewrite Hs in Hc.
    assert (Hq' : forallb (Z.eqb 0) (run_flags false S final) = true).
    { destruct (step false S (Pull d s days)) as [[S' flag] ev]. cbn [fst] in Hs. subst S'. cbn [forallb] in Hq.
      apply Bool.andb_true_iff in Hq. tauto. }
    rewrite Hs. clear Hq. rename Hq' into Hq.
    destruct (IH S Ht Hp Hq Hc) as [IH1 IH2]. split; [exact IH1|].
    intros d' s' days' [Heq|Hin].
    + inversion Heq; subst. split; assumption.
    + apply IH2. exact Hin.
Qed.

(* ---------- from pairwise quiescence to agreement ---------- *)
Lemma row_eqb_refl : forall n, row_eqb n n = true.
Proof. intros n. unfold row_eqb. rewrite N.eqb_refl, Z.eqb_refl, N.eqb_refl. reflexivity. Qed.

Lemma same_view_agree : forall a b, nodup_ids (nodes a) -> nodup_ids (nodes b) -> tombs a = [] -> tombs b = [] ->
  (forall x, find_node x (nodes a) = find_node x (nodes b)) -> agree a b = true.
Proof.
  intros a b Ha Hb Ta Tb Hv. unfold agree, same_rows, same_tombs. rewrite Ta, Tb. cbn [tombs_subset forallb andb].
  rewrite Bool.andb_true_r. apply Bool.andb_true_iff. split; unfold rows_subset; apply forallb_forall; intros n Hin.
  - pose proof (find_node_in _ n Ha Hin) as F. rewrite Hv in F. apply find_node_some in F. destruct F as [F _].
    unfold has_row. apply existsb_exists. exists n. split; [exact F|apply row_eqb_refl].
  - pose proof (find_node_in _ n Hb Hin) as F. rewrite <- Hv in F. apply find_node_some in F. destruct F as [F _].
    unfold has_row. apply existsb_exists. exists n. split; [exact F|apply row_eqb_refl].
Qed.

Lemma all_agree_pairwise : forall L : sys,
  (forall i j, (i < length L)%nat -> (j < length L)%nat -> agree (nth i L empty_replica) (nth j L empty_replica) = true) ->
  all_agree L = true.
Proof.
  induction L as [|a L IH]; intros H; [reflexivity|].
  destruct L as [|b L]; [reflexivity|].
  cbn [all_agree]. apply Bool.andb_true_iff. split.
  - apply (H 0%nat 1%nat); cbn [length]; lia.
  - apply IH. intros i j Hi Hj. apply (H (S i) (S j)); cbn [length] in *; lia.
Qed.

Lemma in_peers : forall n i, (i < N.to_nat n)%nat -> In (N.of_nat i) (peers n).
Proof. intros n i H. unfold peers. apply in_map. apply in_seq. lia. Qed.

Lemma full_round_pull : forall n final d s, full_round n final = true ->
  In d (peers n) -> In s (peers n) -> d <> s -> exists days, In (Pull d s days) final.
Proof.
  intros n final d s H Hd Hs Hne. unfold full_round in H.
  rewrite forallb_forall in H. specialize (H d Hd). rewrite forallb_forall in H. specialize (H s Hs).
  apply Bool.orb_true_iff in H. destruct H as [H|H].
  - apply N.eqb_eq in H. contradiction.
  - apply existsb_exists in H. destruct H as [o [Hin Hp]].
    destruct o as [p x t sg|p x t sg|p x t|d' s' days]; try discriminate. cbn [is_pull] in Hp.
    apply Bool.andb_true_iff in Hp. destruct Hp as [H1 H2]. apply N.eqb_eq in H1. apply N.eqb_eq in H2. subst.
    exists days. exact Hin.
Qed.

Lemma known_nil_complete : forall c, known_C03 c = [] -> run_complete false (init_sys (c03_n c)) (c03_ops c) = true.
Proof.
  intros c H. unfold known_C03 in H.
  destruct (run_complete false (init_sys (c03_n c)) (c03_ops c)); [reflexivity|].
  apply app_eq_nil in H. destruct H as [_ H]. apply app_eq_nil in H. destruct H as [_ H].
  apply app_eq_nil in H. destruct H as [_ H]. discriminate.
Qed.

(* C03 outside the known classes: a history without deletions whose pulls all selected the days a
   complete log comparison selects, and whose last rounds (every ordered pair pulled) request
   nothing, leaves every member with the same rows and the same (empty) deletion records *)
Theorem outside_known : forall n hist final,
  let c := C03Case n hist final in
  known_C03 c = [] -> no_deletes (hist ++ final) = true ->
  only_pulls final = true -> full_round n final = true -> c03_quiet c = true ->
  all_agree (run_sys false (init_sys n) (hist ++ final)) = true.
Proof.
  intros n hist final c Hk Hnd Hp Hfr Hq.
  pose proof (known_nil_complete c Hk) as Hc. cbn [c c03_n c03_ops] in Hc.
  rewrite run_complete_app in Hc. apply Bool.andb_true_iff in Hc. destruct Hc as [_ Hc].
  unfold no_deletes in Hnd. destruct (forallb_app_true _ _ _ Hnd) as [Hnd1 Hnd2].
  destruct (init_wf n) as [W0 [T0 L0]].
  destruct (run_inv hist (init_sys n) W0 T0 Hnd1) as [W1 [T1 L1]].
  set (S1 := run_sys false (init_sys n) hist) in *.
  unfold c03_quiet in Hq. cbn [c c03_n c03_hist c03_final] in Hq. fold S1 in Hq.
  destruct (final_fixed final S1 T1 Hp Hq Hc) as [Hfix Hpulls].
  rewrite run_sys_app. fold S1. rewrite Hfix.
  apply all_agree_pairwise. intros i j Hi Hj.
  rewrite L1, L0 in Hi, Hj.
  assert (Gi : nth i S1 empty_replica = get (N.of_nat i) S1) by (unfold get; rewrite Nat2N.id; reflexivity).
  assert (Gj : nth j S1 empty_replica = get (N.of_nat j) S1) by (unfold get; rewrite Nat2N.id; reflexivity).
  rewrite Gi, Gj.
  apply same_view_agree; try apply W1; try apply T1.
  destruct (Nat.eq_dec i j) as [->|Hne]; [reflexivity|].
  assert (Hne' : N.of_nat i <> N.of_nat j) by (intros E; apply Hne; apply Nat2N.inj; exact E).
  destruct (full_round_pull n final (N.of_nat i) (N.of_nat j) Hfr (in_peers n i Hi) (in_peers n j Hj) Hne') as [d1 H1].
  assert (Hne'' : N.of_nat j <> N.of_nat i) by congruence.
  destruct (full_round_pull n final (N.of_nat j) (N.of_nat i) Hfr (in_peers n j Hj) (in_peers n i Hi) Hne'') as [d2 H2].
  destruct (Hpulls _ _ _ H1) as [C1 K1]. destruct (Hpulls _ _ _ H2) as [C2 K2].
  apply views_le_antisym; try apply W1.
  - apply (quiet_complete_le d1); [exact C1|apply days_cover_complete; exact K1].
  - apply (quiet_complete_le d2); [exact C2|apply days_cover_complete; exact K2].
Qed.

(* ---------- closed witnesses ---------- *)
(* class 3: both peers delete one row on the same day; the second peer never stores the first
   peer's deletion record, the day is exchanged for ever and the deletion logs differ *)
Definition witness_collapse : c03case :=
  C03Case 2%N
    [Create 0%N 1%N 1000 1%N; Pull 1%N 0%N [0]; Delete 0%N 1%N 2000; Delete 1%N 1%N 3000; Pull 0%N 1%N [0]]
    [Pull 1%N 0%N [0]; Pull 0%N 1%N []; Pull 1%N 0%N [0]; Pull 0%N 1%N []].
Lemma refuted_collapse : spec_C03 witness_collapse (run_C03 witness_collapse) = false /\ known_C03 witness_collapse = [3].
Proof. vm_compute. split; reflexivity. Qed.

(* class 2: a deletion record removes another version than the one it names — here the version the
   same pull has just fetched (records of the row on two days): the pull 1<-0 ends without the row
   although peer 0 shows it *)
Definition witness_other_version : c03case :=
  C03Case 3%N
    [Create 0%N 1%N 3000 1%N; Pull 1%N 0%N [0]; Pull 2%N 0%N [0]; Update 1%N 1%N 63000 2%N;
     Delete 0%N 1%N 123000; Delete 2%N 1%N 86403000; Pull 0%N 2%N [0; 86400000]; Pull 0%N 1%N [0];
     Pull 1%N 0%N [0; 86400000];
     Pull 1%N 0%N [0]; Pull 2%N 0%N [0; 86400000]; Pull 2%N 0%N [0]]
    [Pull 0%N 1%N []; Pull 0%N 2%N []; Pull 1%N 0%N []; Pull 1%N 2%N []; Pull 2%N 0%N []; Pull 2%N 1%N []].
Lemma refuted_other_version :
  spec_C03 witness_other_version (run_C03 witness_other_version) = false /\ known_C03 witness_other_version = [2].
Proof. vm_compute. split; reflexivity. Qed.

(* class 4: if the log comparison skips a day on which the source holds a row the receiver lacks
   (history-hash shortcut, stale daily hash), that row is never delivered by this pair *)
Definition witness_skipped_day : c03case :=
  C03Case 2%N [Create 0%N 1%N 1000 1%N] [Pull 1%N 0%N []; Pull 0%N 1%N []; Pull 1%N 0%N []; Pull 0%N 1%N []].
Lemma refuted_skipped_day : spec_C03 witness_skipped_day (run_C03 witness_skipped_day) = false /\ known_C03 witness_skipped_day = [4].
Proof. vm_compute. split; reflexivity. Qed.

(* the hypotheses of [outside_known] are satisfiable, with rows really moving and a same-millisecond tie *)
Definition example_ok : c03case :=
  C03Case 3%N
    [Create 0%N 1%N 1000 2%N; Pull 1%N 0%N [0]; Update 1%N 1%N 86401000 5%N; Update 0%N 1%N 86401000 4%N;
     Create 2%N 2%N 500 1%N; Pull 2%N 1%N [86400000]; Pull 0%N 2%N [0; 86400000]; Pull 1%N 2%N [0]; Pull 1%N 0%N []; Pull 2%N 0%N []]
    [Pull 0%N 1%N []; Pull 0%N 2%N []; Pull 1%N 0%N []; Pull 1%N 2%N []; Pull 2%N 0%N []; Pull 2%N 1%N []].
Lemma nonvacuous :
  known_C03 example_ok = [] /\ no_deletes (c03_ops example_ok) = true /\ only_pulls (c03_final example_ok) = true /\
  full_round 3%N (c03_final example_ok) = true /\ c03_quiet example_ok = true /\
  spec_C03 example_ok (run_C03 example_ok) = true /\
  map (fun r => map n_sig (nodes r)) (run_sys false (init_sys 3%N) (c03_ops example_ok)) <> [[]; []; []].
Proof. vm_compute. repeat split; try reflexivity. discriminate. Qed.
