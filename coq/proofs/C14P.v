From DV Require Import Run_C14.
Lemma placeholder_c14 : run_C14 (CObs 0%N) = [0; 1].
Proof. reflexivity. Qed.
