(* C14P.v — proofs for C14 (model: model/Inputs.v, entry points: run/Run_C14.v) *)
From DV Require Import Run_C14.
From Coq Require Import Lia.

Local Open Scope bool_scope.

(* ------------------------------------------------------------------------------------------ *)
(** * association lists *)

Lemma lookup_remove_neq : forall A (x y : N) (l : list (N * A)),
  x <> y -> lookup x (remove y l) = lookup x l.
Proof.
  intros A x y l Hxy. unfold remove. induction l as [|[z a] l IH]; cbn [filter lookup fst]; [reflexivity|].
  destruct (N.eqb y z) eqn:Eyz; cbn [negb].
  - apply N.eqb_eq in Eyz. subst z. rewrite IH.
    destruct (N.eqb x y) eqn:Exy; [apply N.eqb_eq in Exy; contradiction|reflexivity].
  - cbn [lookup]. destruct (N.eqb x z); [reflexivity|exact IH].
Qed.

Lemma lookup_cons_eq : forall A (x : N) (a : A) l, lookup x ((x, a) :: l) = Some a.
Proof. intros. cbn [lookup]. rewrite N.eqb_refl. reflexivity. Qed.

Lemma lookup_cons_neq : forall A (x y : N) (a : A) l, x <> y -> lookup x ((y, a) :: l) = lookup x l.
Proof.
  intros A x y a l H. cbn [lookup]. destruct (N.eqb x y) eqn:E; [apply N.eqb_eq in E; contradiction|reflexivity].
Qed.

Lemma lookup_in : forall A (x : N) (a : A) l, lookup x l = Some a -> In x (map fst l).
Proof.
  intros A x a l. induction l as [|[y b] l IH]; cbn [lookup map fst]; [discriminate|].
  destruct (N.eqb x y) eqn:E; intro H.
  - left. apply N.eqb_eq in E. auto.
  - right. auto.
Qed.

Lemma lookup_none_notin : forall A (x : N) (l : list (N * A)), lookup x l = None -> ~ In x (map fst l).
Proof.
  intros A x l. induction l as [|[y b] l IH]; cbn [lookup map fst]; [intros _ []|].
  destruct (N.eqb x y) eqn:E; [discriminate|]. intros H [H1|H1].
  - subst y. rewrite N.eqb_refl in E. discriminate.
  - exact (IH H H1).
Qed.

Lemma lookup_app_left : forall A (x : N) (l1 l2 : list (N * A)) a,
  lookup x l1 = Some a -> lookup x (l1 ++ l2) = Some a.
Proof.
  intros A x l1 l2 a. induction l1 as [|[y b] l1 IH]; cbn [lookup app]; [discriminate|].
  destruct (N.eqb x y); auto.
Qed.

Lemma lookup_app_none : forall A (x : N) (l1 l2 : list (N * A)),
  lookup x l1 = None -> lookup x (l1 ++ l2) = lookup x l2.
Proof.
  intros A x l1 l2. induction l1 as [|[y b] l1 IH]; cbn [lookup app]; [reflexivity|].
  destruct (N.eqb x y); [discriminate|auto].
Qed.

(* ------------------------------------------------------------------------------------------ *)
(** * Variables::validate_params: after an accepted validation every declared variable is
      bound, to the value validate_one made of the value the caller supplied *)

Lemma validate_params_frame : forall vs ps ps' x,
  validate_params vs ps = Some ps' -> ~ In x (map fst vs) -> lookup x ps' = lookup x ps.
Proof.
  induction vs as [|[y vt] vs IH]; intros ps ps' x H Hn; cbn [validate_params] in H.
  - inversion H. reflexivity.
  - destruct (lookup y ps) as [p|] eqn:Ely; [|discriminate].
    destruct (validate_one vt p) as [p'|] eqn:Ev; [|discriminate].
    cbn [map fst] in Hn.
    assert (Hxy : x <> y) by (intro; subst; apply Hn; left; reflexivity).
    rewrite (IH _ _ x H) by (intro; apply Hn; right; assumption).
    rewrite lookup_cons_neq by exact Hxy. apply lookup_remove_neq. exact Hxy.
Qed.

Theorem validate_params_binds : forall vs ps ps',
  NoDup (map fst vs) ->
  validate_params vs ps = Some ps' ->
  forall x vt, In (x, vt) vs ->
    exists p0 p', lookup x ps = Some p0 /\ validate_one vt p0 = Some p' /\ lookup x ps' = Some p'.
Proof.
  induction vs as [|[y vt0] vs IH]; intros ps ps' Hnd H x vt Hin; [destruct Hin|].
  cbn [validate_params] in H. cbn [map fst] in Hnd. inversion Hnd as [|? ? Hny Hnd']; subst.
  destruct (lookup y ps) as [p|] eqn:Ely; [|discriminate].
  destruct (validate_one vt0 p) as [p'|] eqn:Ev; [|discriminate].
  destruct Hin as [Heq|Hin].
  - inversion Heq; subst. exists p, p'. repeat split; auto.
    rewrite (validate_params_frame _ _ _ x H Hny). apply lookup_cons_eq.
  - assert (Hxy : x <> y).
    { intro; subst. apply Hny. change y with (fst (y, vt)). apply in_map. exact Hin. }
    destruct (IH _ _ Hnd' H x vt Hin) as (p0 & p1 & H0 & H1 & H2).
    exists p0, p1. repeat split; auto.
    rewrite lookup_cons_neq in H0 by exact Hxy. rewrite lookup_remove_neq in H0 by exact Hxy. exact H0.
Qed.

(* ------------------------------------------------------------------------------------------ *)
(** * parsing of a mutation: what the entries and the variable table look like *)

Lemma lookup_in_pair : forall A (x : N) (a : A) l, lookup x l = Some a -> In (x, a) l.
Proof.
  intros A x a l. induction l as [|[y b] l IH]; cbn [lookup]; [discriminate|].
  destruct (N.eqb x y) eqn:E; intro H.
  - apply N.eqb_eq in E. inversion H. subst. left. reflexivity.
  - right. auto.
Qed.

Lemma vtype_eqb_eq : forall a b, vtype_eqb a b = true -> a = b.
Proof.
  intros a b; destruct a, b; cbn [vtype_eqb]; try discriminate; try reflexivity;
    intro H; apply Bool.eqb_prop in H; subst; reflexivity.
Qed.

Lemma NoDup_app_one : forall A (l : list A) a, NoDup l -> ~ In a l -> NoDup (l ++ [a]).
Proof.
  intros A l a Hnd Hn. induction Hnd as [|b l Hb Hnd IH]; cbn [app].
  - constructor; [intros []|constructor].
  - constructor.
    + intro Hin. apply in_app_or in Hin. destruct Hin as [Hin|[Hin|[]]]; [contradiction|].
      subst. apply Hn. left. reflexivity.
    + apply IH. intro. apply Hn. right. assumption.
Qed.

Lemma vars_add_spec : forall vs x vt vs',
  vars_add vs x vt = Some vs' -> NoDup (map fst vs) ->
  NoDup (map fst vs') /\ In (x, vt) vs' /\ incl vs vs'.
Proof.
  intros vs x vt vs' H Hnd. unfold vars_add in H.
  destruct (lookup x vs) as [vt'|] eqn:El.
  - destruct (vtype_eqb vt' vt) eqn:Ee; [|discriminate]. inversion H; subst.
    apply vtype_eqb_eq in Ee. subst. split; [exact Hnd|]. split; [apply lookup_in_pair; exact El|apply incl_refl].
  - inversion H; subst. split.
    + rewrite map_app. cbn [map fst]. apply NoDup_app_one; [exact Hnd|]. apply lookup_none_notin. exact El.
    + split; [apply in_or_app; right; left; reflexivity|apply incl_appl, incl_refl].
Qed.

Lemma parse_value_spec : forall k v vs fv vs',
  parse_value k v vs = Some (fv, vs') -> NoDup (map fst vs) ->
  NoDup (map fst vs') /\ incl vs vs' /\ (forall x, fv = FVar x -> v = MVar x /\ In (x, variable_type k) vs').
Proof.
  intros k v vs fv vs' H Hnd. destruct v; cbn [parse_value] in H.
  - destruct (vars_add vs x (variable_type k)) as [vs1|] eqn:Ea; [|discriminate]. inversion H; subst.
    destruct (vars_add_spec _ _ _ _ Ea Hnd) as (H1 & H2 & H3). split; [exact H1|]. split; [exact H3|].
    intros y Hy. inversion Hy; subst. split; [reflexivity|exact H2].
  - destruct (field_nullable k); [|discriminate]. inversion H; subst. repeat split; auto using incl_refl; intros; discriminate.
  - destruct (field_type k); try discriminate; inversion H; subst; repeat split; auto using incl_refl; intros; discriminate.
  - destruct (field_type k); try discriminate; [inversion H; subst; repeat split; auto using incl_refl; intros; discriminate|].
    destruct fits_i64; [|discriminate]. inversion H; subst; repeat split; auto using incl_refl; intros; discriminate.
  - destruct (field_type k); try discriminate; inversion H; subst; repeat split; auto using incl_refl; intros; discriminate.
  - destruct (field_type k); try discriminate.
    + destruct (s_b64 s); [|discriminate]. inversion H; subst; repeat split; auto using incl_refl; intros; discriminate.
    + inversion H; subst; repeat split; auto using incl_refl; intros; discriminate.
    + destruct (s_json s); [|discriminate]. inversion H; subst; repeat split; auto using incl_refl; intros; discriminate.
Qed.

(* an entry of the parsed mutation that comes from the text of the request [all] *)
Definition from_text (decl : list (ftype * nullab)) (all : list (fref * mvalue)) (vs : vars)
           (e : fref * fkind * mfv) : Prop :=
  let '(r, k, fv) := e in
  fkind_of decl r = Some k
  /\ (exists v vs0 vs1, In (r, v) all /\ parse_value k v vs0 = Some (fv, vs1))
  /\ (forall x, fv = FVar x -> In (x, variable_type k) vs).

Lemma from_text_mono : forall decl all vs vs' e, incl vs vs' -> from_text decl all vs e -> from_text decl all vs' e.
Proof.
  intros decl all vs vs' [[r k] fv] Hi (H1 & H2 & H3). repeat split; auto.
Qed.

Lemma parse_fields_inv : forall decl all fs acc vs l vs',
  parse_fields decl fs acc vs = Some (l, vs') ->
  incl fs all -> NoDup (map fst vs) -> Forall (from_text decl all vs) acc ->
  NoDup (map fst vs') /\ Forall (from_text decl all vs') l.
Proof.
  intros decl all. induction fs as [|[r v] fs IH]; intros acc vs l vs' H Hincl Hnd Hacc; cbn [parse_fields] in H.
  - inversion H; subst. split; assumption.
  - destruct (fkind_of decl r) as [k|] eqn:Ek; [|discriminate].
    destruct (parse_value k v vs) as [[fv vs1]|] eqn:Ep; [|discriminate].
    destruct (existsb (fun e => fref_eqb (fst (fst e)) r) acc); [discriminate|].
    destruct (parse_value_spec _ _ _ _ _ Ep Hnd) as (Hnd1 & Hi1 & Hv).
    apply (IH _ _ _ _ H); [intros x Hx; apply Hincl; right; exact Hx|exact Hnd1|].
    apply Forall_app. split.
    + eapply Forall_impl; [|exact Hacc]. intros e He. eapply from_text_mono; eauto.
    + constructor; [|constructor]. repeat split; auto.
      * exists v, vs, vs1. split; [apply Hincl; left; reflexivity|exact Ep].
      * intros x Hx. apply (Hv x Hx).
Qed.

Definition default_entry (e : fref * fkind * mfv) : Prop :=
  exists i t n, e = (RField i, FUser t n, FVal (default_value t)).

Lemma fill_defaults_inv : forall (P : fref * fkind * mfv -> Prop) decl i l l',
  fill_defaults decl i l = Some l' -> Forall (fun e => P e \/ default_entry e) l ->
  Forall (fun e => P e \/ default_entry e) l'.
Proof.
  intros P. induction decl as [|[t n] decl IH]; intros i l l' H Hl; cbn [fill_defaults] in H.
  - inversion H; subst. exact Hl.
  - destruct (has_ref (RField i) l); [eapply IH; eauto|].
    destruct n; [discriminate|eapply IH; eauto|].
    eapply IH; [exact H|]. apply Forall_app. split; [exact Hl|]. constructor; [|constructor].
    right. exists i, t, HasDefault. reflexivity.
Qed.

Lemma parse_mutation_inv : forall m l vs,
  parse_mutation m = Some (l, vs) ->
  NoDup (map fst vs) /\ Forall (fun e => from_text (m_decl m) (m_vals m) vs e \/ default_entry e) l.
Proof.
  intros m l vs H. unfold parse_mutation in H.
  destruct (parse_fields (m_decl m) (m_vals m) [] []) as [[l0 vs0]|] eqn:Ep; [|discriminate].
  destruct (parse_fields_inv _ (m_vals m) _ _ _ _ _ Ep (incl_refl _) (NoDup_nil _) (Forall_nil _)) as (Hnd & Hl).
  assert (Hl0 : Forall (fun e => from_text (m_decl m) (m_vals m) vs0 e \/ default_entry e) l0).
  { eapply Forall_impl; [|exact Hl]. intros; left; assumption. }
  destruct (has_ref RId l0).
  - inversion H; subst. split; assumption.
  - destruct (fill_defaults (m_decl m) 0 l0) as [l1|] eqn:Ef; [|discriminate]. inversion H; subst.
    split; [exact Hnd|]. eapply fill_defaults_inv; eauto.
Qed.
