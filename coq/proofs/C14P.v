(* C14P.v — proofs for C14 (model: model/Inputs.v, entry points: run/Run_C14.v) *)
From DV Require Import Run_C14.
From Coq Require Import Lia.

Local Open Scope bool_scope.

(* ------------------------------------------------------------------------------------------ *)
(** * association lists *)

Lemma lookup_remove_neq : forall A (x y : N) (l : list (N * A)),
  x <> y -> lookup x (remove y l) = lookup x l.
Proof.
  intros A x y l Hxy. unfold remove. induction l as [|[z a] l IH]; cbn [filter lookup fst]; [reflexivity|].
  destruct (N.eqb y z) eqn:Eyz; cbn [negb].
  - apply N.eqb_eq in Eyz. subst z. rewrite IH.
    destruct (N.eqb x y) eqn:Exy; [apply N.eqb_eq in Exy; contradiction|reflexivity].
  - cbn [lookup]. destruct (N.eqb x z); [reflexivity|exact IH].
Qed.

Lemma lookup_cons_eq : forall A (x : N) (a : A) l, lookup x ((x, a) :: l) = Some a.
Proof. intros. cbn [lookup]. rewrite N.eqb_refl. reflexivity. Qed.

Lemma lookup_cons_neq : forall A (x y : N) (a : A) l, x <> y -> lookup x ((y, a) :: l) = lookup x l.
Proof.
  intros A x y a l H. cbn [lookup]. destruct (N.eqb x y) eqn:E; [apply N.eqb_eq in E; contradiction|reflexivity].
Qed.

Lemma lookup_in : forall A (x : N) (a : A) l, lookup x l = Some a -> In x (map fst l).
Proof.
  intros A x a l. induction l as [|[y b] l IH]; cbn [lookup map fst]; [discriminate|].
  destruct (N.eqb x y) eqn:E; intro H.
  - left. apply N.eqb_eq in E. auto.
  - right. auto.
Qed.

Lemma lookup_none_notin : forall A (x : N) (l : list (N * A)), lookup x l = None -> ~ In x (map fst l).
Proof.
  intros A x l. induction l as [|[y b] l IH]; cbn [lookup map fst]; [intros _ []|].
  destruct (N.eqb x y) eqn:E; [discriminate|]. intros H [H1|H1].
  - subst y. rewrite N.eqb_refl in E. discriminate.
  - exact (IH H H1).
Qed.

Lemma lookup_app_left : forall A (x : N) (l1 l2 : list (N * A)) a,
  lookup x l1 = Some a -> lookup x (l1 ++ l2) = Some a.
Proof.
  intros A x l1 l2 a. induction l1 as [|[y b] l1 IH]; cbn [lookup app]; [discriminate|].
  destruct (N.eqb x y); auto.
Qed.

Lemma lookup_app_none : forall A (x : N) (l1 l2 : list (N * A)),
  lookup x l1 = None -> lookup x (l1 ++ l2) = lookup x l2.
Proof.
  intros A x l1 l2. induction l1 as [|[y b] l1 IH]; cbn [lookup app]; [reflexivity|].
  destruct (N.eqb x y); [discriminate|auto].
Qed.

(* ------------------------------------------------------------------------------------------ *)
(** * Variables::validate_params: after an accepted validation every declared variable is
      bound, to the value validate_one made of the value the caller supplied *)

Lemma validate_params_frame : forall vs ps ps' x,
  validate_params vs ps = Some ps' -> ~ In x (map fst vs) -> lookup x ps' = lookup x ps.
Proof.
  induction vs as [|[y vt] vs IH]; intros ps ps' x H Hn; cbn [validate_params] in H.
  - inversion H. reflexivity.
  - destruct (lookup y ps) as [p|] eqn:Ely; [|discriminate].
    destruct (validate_one vt p) as [p'|] eqn:Ev; [|discriminate].
    cbn [map fst] in Hn.
    assert (Hxy : x <> y) by (intro; subst; apply Hn; left; reflexivity).
    rewrite (IH _ _ x H) by (intro; apply Hn; right; assumption).
    rewrite lookup_cons_neq by exact Hxy. apply lookup_remove_neq. exact Hxy.
Qed.

Theorem validate_params_binds : forall vs ps ps',
  NoDup (map fst vs) ->
  validate_params vs ps = Some ps' ->
  forall x vt, In (x, vt) vs ->
    exists p0 p', lookup x ps = Some p0 /\ validate_one vt p0 = Some p' /\ lookup x ps' = Some p'.
Proof.
  induction vs as [|[y vt0] vs IH]; intros ps ps' Hnd H x vt Hin; [destruct Hin|].
  cbn [validate_params] in H. cbn [map fst] in Hnd. inversion Hnd as [|? ? Hny Hnd']; subst.
  destruct (lookup y ps) as [p|] eqn:Ely; [|discriminate].
  destruct (validate_one vt0 p) as [p'|] eqn:Ev; [|discriminate].
  destruct Hin as [Heq|Hin].
  - inversion Heq; subst. exists p, p'. repeat split; auto.
    rewrite (validate_params_frame _ _ _ x H Hny). apply lookup_cons_eq.
  - assert (Hxy : x <> y).
    { intro; subst. apply Hny. change y with (fst (y, vt)). apply in_map. exact Hin. }
    destruct (IH _ _ Hnd' H x vt Hin) as (p0 & p1 & H0 & H1 & H2).
    exists p0, p1. repeat split; auto.
    rewrite lookup_cons_neq in H0 by exact Hxy. rewrite lookup_remove_neq in H0 by exact Hxy. exact H0.
Qed.

(* ------------------------------------------------------------------------------------------ *)
(** * parsing of a mutation: what the entries and the variable table look like *)

Lemma lookup_in_pair : forall A (x : N) (a : A) l, lookup x l = Some a -> In (x, a) l.
Proof.
  intros A x a l. induction l as [|[y b] l IH]; cbn [lookup]; [discriminate|].
  destruct (N.eqb x y) eqn:E; intro H.
  - apply N.eqb_eq in E. inversion H. subst. left. reflexivity.
  - right. auto.
Qed.

Lemma vtype_eqb_eq : forall a b, vtype_eqb a b = true -> a = b.
Proof.
  intros a b; destruct a, b; cbn [vtype_eqb]; try discriminate; try reflexivity;
    intro H; apply Bool.eqb_prop in H; subst; reflexivity.
Qed.

Lemma NoDup_app_one : forall A (l : list A) a, NoDup l -> ~ In a l -> NoDup (l ++ [a]).
Proof.
  intros A l a Hnd Hn. induction Hnd as [|b l Hb Hnd IH]; cbn [app].
  - constructor; [intros []|constructor].
  - constructor.
    + intro Hin. apply in_app_or in Hin. destruct Hin as [Hin|[Hin|[]]]; [contradiction|].
      subst. apply Hn. left. reflexivity.
    + apply IH. intro. apply Hn. right. assumption.
Qed.

Lemma vars_add_spec : forall vs x vt vs',
  vars_add vs x vt = Some vs' -> NoDup (map fst vs) ->
  NoDup (map fst vs') /\ In (x, vt) vs' /\ incl vs vs'.
Proof.
  intros vs x vt vs' H Hnd. unfold vars_add in H.
  destruct (lookup x vs) as [vt'|] eqn:El.
  - destruct (vtype_eqb vt' vt) eqn:Ee; [|discriminate]. inversion H; subst.
    apply vtype_eqb_eq in Ee. subst. split; [exact Hnd|]. split; [apply lookup_in_pair; exact El|apply incl_refl].
  - inversion H; subst. split.
    + rewrite map_app. cbn [map fst]. apply NoDup_app_one; [exact Hnd|]. apply lookup_none_notin. exact El.
    + split; [apply in_or_app; right; left; reflexivity|apply incl_appl, incl_refl].
Qed.

Lemma parse_value_spec : forall k v vs fv vs',
  parse_value k v vs = Some (fv, vs') -> NoDup (map fst vs) ->
  NoDup (map fst vs') /\ incl vs vs' /\ (forall x, fv = FVar x -> v = MVar x /\ In (x, variable_type k) vs').
Proof.
  intros k v vs fv vs' H Hnd. destruct v; cbn [parse_value] in H.
  - destruct (vars_add vs x (variable_type k)) as [vs1|] eqn:Ea; [|discriminate]. inversion H; subst.
    destruct (vars_add_spec _ _ _ _ Ea Hnd) as (H1 & H2 & H3). split; [exact H1|]. split; [exact H3|].
    intros y Hy. inversion Hy; subst. split; [reflexivity|exact H2].
  - destruct (field_nullable k); [|discriminate]. inversion H; subst. repeat split; auto using incl_refl; intros; discriminate.
  - destruct (field_type k); try discriminate; inversion H; subst; repeat split; auto using incl_refl; intros; discriminate.
  - destruct (field_type k); try discriminate; [inversion H; subst; repeat split; auto using incl_refl; intros; discriminate|].
    destruct fits_i64; [|discriminate]. inversion H; subst; repeat split; auto using incl_refl; intros; discriminate.
  - destruct (field_type k); try discriminate; inversion H; subst; repeat split; auto using incl_refl; intros; discriminate.
  - destruct (field_type k); try discriminate.
    + destruct (s_b64 s); [|discriminate]. inversion H; subst; repeat split; auto using incl_refl; intros; discriminate.
    + inversion H; subst; repeat split; auto using incl_refl; intros; discriminate.
    + destruct (s_json s); [|discriminate]. inversion H; subst; repeat split; auto using incl_refl; intros; discriminate.
Qed.

(* an entry of the parsed mutation that comes from the text of the request [all] *)
Definition from_text (decl : list (ftype * nullab)) (all : list (fref * mvalue)) (vs : vars)
           (e : fref * fkind * mfv) : Prop :=
  let '(r, k, fv) := e in
  fkind_of decl r = Some k
  /\ (exists v vs0 vs1, In (r, v) all /\ parse_value k v vs0 = Some (fv, vs1))
  /\ (forall x, fv = FVar x -> In (x, variable_type k) vs).

Lemma from_text_mono : forall decl all vs vs' e, incl vs vs' -> from_text decl all vs e -> from_text decl all vs' e.
Proof.
  intros decl all vs vs' [[r k] fv] Hi (H1 & H2 & H3). repeat split; auto.
Qed.

Lemma parse_fields_inv : forall decl all fs acc vs l vs',
  parse_fields decl fs acc vs = Some (l, vs') ->
  incl fs all -> NoDup (map fst vs) -> Forall (from_text decl all vs) acc ->
  NoDup (map fst vs') /\ Forall (from_text decl all vs') l.
Proof.
  intros decl all. induction fs as [|[r v] fs IH]; intros acc vs l vs' H Hincl Hnd Hacc; cbn [parse_fields] in H.
  - inversion H; subst. split; assumption.
  - destruct (fkind_of decl r) as [k|] eqn:Ek; [|discriminate].
    destruct (parse_value k v vs) as [[fv vs1]|] eqn:Ep; [|discriminate].
    destruct (existsb (fun e => fref_eqb (fst (fst e)) r) acc); [discriminate|].
    destruct (parse_value_spec _ _ _ _ _ Ep Hnd) as (Hnd1 & Hi1 & Hv).
    apply (IH _ _ _ _ H); [intros x Hx; apply Hincl; right; exact Hx|exact Hnd1|].
    apply Forall_app. split.
    + eapply Forall_impl; [|exact Hacc]. intros e He. eapply from_text_mono; eauto.
    + constructor; [|constructor]. repeat split; auto.
      * exists v, vs, vs1. split; [apply Hincl; left; reflexivity|exact Ep].
      * intros x Hx. apply (Hv x Hx).
Qed.

Definition default_entry (e : fref * fkind * mfv) : Prop :=
  exists i t n, e = (RField i, FUser t n, FVal (default_value t)).

Lemma fill_defaults_inv : forall (P : fref * fkind * mfv -> Prop) decl i l l',
  fill_defaults decl i l = Some l' -> Forall (fun e => P e \/ default_entry e) l ->
  Forall (fun e => P e \/ default_entry e) l'.
Proof.
  intros P. induction decl as [|[t n] decl IH]; intros i l l' H Hl; cbn [fill_defaults] in H.
  - inversion H; subst. exact Hl.
  - destruct (has_ref (RField i) l); [eapply IH; eauto|].
    destruct n; [discriminate|eapply IH; eauto|].
    eapply IH; [exact H|]. apply Forall_app. split; [exact Hl|]. constructor; [|constructor].
    right. exists i, t, HasDefault. reflexivity.
Qed.

Lemma parse_mutation_inv : forall m l vs,
  parse_mutation m = Some (l, vs) ->
  NoDup (map fst vs) /\ Forall (fun e => from_text (m_decl m) (m_vals m) vs e \/ default_entry e) l.
Proof.
  intros m l vs H. unfold parse_mutation in H.
  destruct (parse_fields (m_decl m) (m_vals m) [] []) as [[l0 vs0]|] eqn:Ep; [|discriminate].
  destruct (parse_fields_inv _ (m_vals m) _ _ _ _ _ Ep (incl_refl _) (NoDup_nil _) (Forall_nil _)) as (Hnd & Hl).
  assert (Hl0 : Forall (fun e => from_text (m_decl m) (m_vals m) vs0 e \/ default_entry e) l0).
  { eapply Forall_impl; [|exact Hl]. intros; left; assumption. }
  destruct (has_ref RId l0).
  - inversion H; subst. split; assumption.
  - destruct (fill_defaults (m_decl m) 0 l0) as [l1|] eqn:Ef; [|discriminate]. inversion H; subst.
    split; [exact Hnd|]. eapply fill_defaults_inv; eauto.
Qed.

(* ------------------------------------------------------------------------------------------ *)
(** * params_total: the unwraps of mutation_query.rs are unreachable *)

Lemma first_bad_panic : forall l, first_bad l = OPanic -> In OPanic l.
Proof.
  induction l as [|o l IH]; cbn [first_bad]; [discriminate|].
  destruct o; intro H; [right; auto|discriminate|left; reflexivity].
Qed.

(* a bound value that came through validate_one *)
Lemma bound_value : forall vs ps ps' x vt,
  NoDup (map fst vs) -> validate_params vs ps = Some ps' -> In (x, vt) vs ->
  exists p0 p', lookup x ps = Some p0 /\ validate_one vt p0 = Some p' /\ value_of (FVar x) ps' = Some p'.
Proof.
  intros vs ps ps' x vt Hnd Hv Hin.
  destruct (validate_params_binds _ _ _ Hnd Hv x vt Hin) as (p0 & p' & H0 & H1 & H2).
  exists p0, p'. auto.
Qed.

Theorem mutate_never_panics : forall m, mutate_outcome m <> OPanic.
Proof.
  intros m H. unfold mutate_outcome in H.
  destruct (parse_mutation m) as [[l vs]|] eqn:Ep; [|discriminate].
  destruct (parse_mutation_inv _ _ _ Ep) as (Hnd & Hl).
  unfold execute_mutation in H.
  destruct (validate_params vs (m_params m)) as [ps'|] eqn:Ev; [|discriminate].
  rewrite Forall_forall in Hl.
  (* no entry's value is absent: parameters.params.get(v).unwrap() cannot fail *)
  assert (Hval : forall r k fv, In (r, k, fv) l -> value_of fv ps' <> None).
  { intros r k fv Hin. destruct fv as [x|p]; [|cbn [value_of]; discriminate].
    destruct (Hl _ Hin) as [(_ & _ & Hx)|(i & t & n & He)]; [|inversion He].
    destruct (bound_value _ _ _ x _ Hnd Ev (Hx x eq_refl)) as (p0 & p' & _ & _ & Hb). rewrite Hb. discriminate. }
  match type of H with match first_bad ?sys with _ => _ end = _ => destruct (first_bad sys) eqn:Esys end.
  - apply first_bad_panic in H. apply in_map_iff in H. destruct H as ([[r k] fv] & Hpan & Hin).
    apply filter_In in Hin. destruct Hin as [Hin _]. cbn [fst snd] in Hpan.
    unfold assemble_field in Hpan.
    destruct (value_of fv ps') as [p|] eqn:Evo; [|exact (Hval _ _ _ Hin Evo)].
    destruct (field_type k); try (destruct p as [| |[|]| | |]; discriminate).
    destruct (as_string p) as [s|]; [destruct (s_json s); discriminate|discriminate].
  - discriminate.
  - clear H. apply first_bad_panic in Esys. apply in_map_iff in Esys. destruct Esys as ([[r k] fv] & Hpan & Hin).
    assert (Hin' : In (r, k, fv) l).
    { apply in_app_or in Hin. destruct Hin as [Hin|Hin]; apply filter_In in Hin; tauto. }
    cbn [snd] in Hpan. unfold uid_field in Hpan.
    destruct (value_of fv ps') as [p|] eqn:Evo; [|exact (Hval _ _ _ Hin' Evo)].
    destruct (as_string p) as [s|]; [|discriminate].
    destruct (negb (s_b64 s)); [discriminate|]. destruct (s_uid s); discriminate.
Qed.

(* ------------------------------------------------------------------------------------------ *)
(** * a valid mutation executes *)

Lemma fref_eqb_eq : forall a b, fref_eqb a b = true <-> a = b.
Proof.
  intros a b; destruct a, b; cbn [fref_eqb]; split; intro H; try discriminate; try reflexivity.
  - apply Nat.eqb_eq in H. subst. reflexivity.
  - inversion H. apply Nat.eqb_refl.
Qed.

Lemma vtype_eqb_refl : forall a, vtype_eqb a a = true.
Proof. destruct a; cbn [vtype_eqb]; try reflexivity; apply Bool.eqb_reflx. Qed.

Definition refs_of (l : list (fref * fkind * mfv)) : list fref := map (fun e => fst (fst e)) l.

Lemma has_ref_refs : forall r l, has_ref r l = existsb (fref_eqb r) (refs_of l).
Proof.
  intros r l. unfold has_ref, refs_of. induction l as [|e l IH]; cbn [existsb map]; [reflexivity|].
  rewrite IH. f_equal. destruct (fref_eqb (fst (fst e)) r) eqn:E1, (fref_eqb r (fst (fst e))) eqn:E2; try reflexivity.
  - apply fref_eqb_eq in E1. subst. destruct (fst (fst e)); cbn in E2; try discriminate. rewrite Nat.eqb_refl in E2. discriminate.
  - apply fref_eqb_eq in E2. subst. destruct (fst (fst e)); cbn in E1; try discriminate. rewrite Nat.eqb_refl in E1. discriminate.
Qed.

Lemma value_fits_parses : forall k v ps vs,
  value_fits k v ps = true ->
  (forall x vt', v = MVar x -> lookup x vs = Some vt' -> vtype_eqb vt' (variable_type k) = true) ->
  exists fv vs', parse_value k v vs = Some (fv, vs').
Proof.
  intros k v ps vs Hf Hc. destruct v; cbn [parse_value value_fits] in *.
  - unfold vars_add. destruct (lookup x vs) as [vt'|] eqn:El.
    + rewrite (Hc x vt' eq_refl El). eauto.
    + eauto.
  - apply andb_prop in Hf. destruct Hf as [Hn _]. rewrite Hn. eauto.
  - destruct k as [[| | | | |] n| |]; try discriminate; cbn [field_type]; eauto.
  - destruct k as [[| | | | |] n| |]; try discriminate; cbn [field_type]; [eauto|]. rewrite Hf. eauto.
  - destruct k as [[| | | | |] n| |]; try discriminate; cbn [field_type]; eauto.
  - destruct k as [[| | | | |] n| |]; try discriminate; cbn [field_type]; try rewrite Hf; eauto.
    + apply andb_prop in Hf. destruct Hf as [Hb _]. rewrite Hb. eauto.
    + apply andb_prop in Hf. destruct Hf as [Hb _]. rewrite Hb. eauto.
Qed.

(* where the variable table of a parsed prefix comes from *)
Definition var_from (decl : list (ftype * nullab)) (all : list (fref * mvalue)) (xv : N * vtype) : Prop :=
  exists r k, In (r, MVar (fst xv)) all /\ fkind_of decl r = Some k /\ snd xv = variable_type k.

Lemma var_from_uses : forall m xv, var_from (m_decl m) (m_vals m) xv -> In xv (var_uses m).
Proof.
  intros m [x vt] (r & k & Hin & Hk & Hvt). cbn [fst snd] in *. unfold var_uses.
  apply in_flat_map. exists (r, MVar x). split; [exact Hin|]. cbn [fst snd]. rewrite Hk. left. subst. reflexivity.
Qed.

Lemma vars_consistent_spec : forall l a b,
  vars_consistent l = true -> In a l -> In b l -> fst a = fst b -> vtype_eqb (snd a) (snd b) = true.
Proof.
  intros l a b H Ha Hb Hab. unfold vars_consistent in H. rewrite forallb_forall in H.
  specialize (H a Ha). rewrite forallb_forall in H. specialize (H b Hb).
  rewrite Hab, N.eqb_refl in H. exact H.
Qed.

Lemma parse_fields_succeeds : forall m fs acc vs,
  vars_consistent (var_uses m) = true ->
  incl fs (m_vals m) ->
  Forall (fun rv => match fkind_of (m_decl m) (fst rv) with
                    | Some k => value_fits k (snd rv) (m_params m) = true
                    | None => False end) fs ->
  nodup_refs (map fst fs) = true ->
  (forall r, In r (refs_of acc) -> existsb (fref_eqb r) (map fst fs) = false) ->
  Forall (var_from (m_decl m) (m_vals m)) vs ->
  exists l vs', parse_fields (m_decl m) fs acc vs = Some (l, vs')
                /\ refs_of l = refs_of acc ++ map fst fs
                /\ Forall (var_from (m_decl m) (m_vals m)) vs'.
Proof.
  intros m. induction fs as [|[r v] fs IH]; intros acc vs Hc Hincl Hfit Hnd Hacc Hvs; cbn [parse_fields].
  - exists acc, vs. rewrite app_nil_r. auto.
  - inversion Hfit as [|? ? Hrv Hfit']; subst. cbn [fst snd] in Hrv.
    destruct (fkind_of (m_decl m) r) as [k|] eqn:Ek; [|contradiction].
    assert (Hin : In (r, v) (m_vals m)) by (apply Hincl; left; reflexivity).
    destruct (value_fits_parses k v (m_params m) vs Hrv) as (fv & vs1 & Hp).
    { intros x vt' -> Hl. apply lookup_in_pair in Hl.
      rewrite Forall_forall in Hvs. pose proof (var_from_uses m _ (Hvs _ Hl)) as Hu1.
      assert (Hu2 : In (x, variable_type k) (var_uses m)).
      { apply var_from_uses. exists r, k. auto. }
      exact (vars_consistent_spec _ _ _ Hc Hu1 Hu2 eq_refl). }
    rewrite Hp.
    assert (Hnot : existsb (fun e => fref_eqb (fst (fst e)) r) acc = false).
    { destruct (existsb (fun e => fref_eqb (fst (fst e)) r) acc) eqn:E; [|reflexivity].
      apply existsb_exists in E. destruct E as (e & He & Heq). apply fref_eqb_eq in Heq.
      assert (Hr : In r (refs_of acc)) by (unfold refs_of; rewrite <- Heq; apply (in_map (fun e0 : fref * fkind * mfv => fst (fst e0))); exact He).
      specialize (Hacc r Hr). cbn [map fst existsb] in Hacc.
      assert (fref_eqb r r = true) by (apply fref_eqb_eq; reflexivity). rewrite H in Hacc. discriminate. }
    rewrite Hnot.
    cbn [map fst nodup_refs] in Hnd. apply andb_prop in Hnd. destruct Hnd as [Hnr Hnd].
    destruct (IH (acc ++ [(r, k, fv)]) vs1 Hc) as (l & vs' & Hl & Hrefs & Hvs').
    + intros x Hx. apply Hincl. right. exact Hx.
    + exact Hfit'.
    + exact Hnd.
    + intros r0 Hr0. unfold refs_of in Hr0. rewrite map_app in Hr0. apply in_app_or in Hr0.
      destruct Hr0 as [Hr0|[Hr0|[]]].
      * specialize (Hacc r0 Hr0). cbn [map fst existsb] in Hacc. apply Bool.orb_false_elim in Hacc. tauto.
      * cbn [fst] in Hr0. subst r0. apply Bool.negb_true_iff in Hnr. exact Hnr.
    + (* the variable table *)
      destruct v; cbn [parse_value] in Hp;
        try (assert (vs1 = vs) by (repeat match type of Hp with
                                            | context [match ?c with _ => _ end] => destruct c; try discriminate
                                            end; inversion Hp; reflexivity); subst vs1; exact Hvs).
      unfold vars_add in Hp. destruct (lookup x vs) as [vt'|].
      * destruct (vtype_eqb vt' (variable_type k)); inversion Hp; subst. exact Hvs.
      * inversion Hp; subst. apply Forall_app. split; [exact Hvs|]. constructor; [|constructor].
        exists r, k. cbn [fst snd]. auto.
    + exists l, vs'. split; [exact Hl|]. split; [|exact Hvs'].
      rewrite Hrefs. unfold refs_of. rewrite map_app. cbn [map fst]. rewrite <- app_assoc. reflexivity.
Qed.

Lemma has_ref_app : forall r l x, has_ref r l = true -> has_ref r (l ++ x) = true.
Proof. intros r l x H. unfold has_ref in *. rewrite existsb_app, H. reflexivity. Qed.

Lemma fill_defaults_succeeds : forall decl i l,
  (forall j t, nth_error decl j = Some (t, NotNull) -> has_ref (RField (i + j)) l = true) ->
  exists l', fill_defaults decl i l = Some l'.
Proof.
  induction decl as [|[t n] decl IH]; intros i l H; cbn [fill_defaults]; [eauto|].
  assert (Hrest : forall l2, (forall r, has_ref r l = true -> has_ref r l2 = true) ->
                  forall j t0, nth_error decl j = Some (t0, NotNull) -> has_ref (RField (S i + j)) l2 = true).
  { intros l2 Hm j t0 Hj. apply Hm. replace (S i + j)%nat with (i + S j)%nat by lia. apply (H (S j) t0). exact Hj. }
  destruct (has_ref (RField i) l) eqn:Eh.
  - apply IH. apply Hrest. auto.
  - destruct n.
    + specialize (H 0%nat t eq_refl). rewrite Nat.add_0_r, Eh in H. discriminate.
    + apply IH. apply Hrest. auto.
    + apply IH. apply Hrest. intros r Hr. apply has_ref_app. exact Hr.
Qed.

Lemma validate_params_succeeds : forall vs ps,
  NoDup (map fst vs) ->
  (forall x vt, In (x, vt) vs -> exists p, lookup x ps = Some p /\ validate_one vt p <> None) ->
  exists ps', validate_params vs ps = Some ps'.
Proof.
  induction vs as [|[x vt] vs IH]; intros ps Hnd H; cbn [validate_params]; [eauto|].
  cbn [map fst] in Hnd. inversion Hnd as [|? ? Hn Hnd']; subst.
  destruct (H x vt (or_introl eq_refl)) as (p & Hl & Hv). rewrite Hl.
  destruct (validate_one vt p) as [p'|]; [|contradiction]. apply IH; [exact Hnd'|].
  intros y vt' Hin. assert (Hyx : y <> x).
  { intro; subst. apply Hn. change x with (fst (x, vt')). apply in_map. exact Hin. }
  destruct (H y vt' (or_intror Hin)) as (q & Hq & Hvq). exists q. split; [|exact Hvq].
  rewrite lookup_cons_neq by exact Hyx. rewrite lookup_remove_neq by exact Hyx. exact Hq.
Qed.

Lemma param_fits_validates : forall k p, param_fits k p = true -> validate_one (variable_type k) p <> None.
Proof.
  intros k p H. destruct k as [[| | | | |] [| |]| |], p as [| |[|]|s|s|];
    cbn [param_fits field_nullable] in H; try discriminate;
    cbn [variable_type field_type field_is_system field_nullable validate_one];
    try discriminate; try (rewrite H; discriminate);
    try (apply andb_prop in H; destruct H as [Hb _]; rewrite Hb; discriminate).
Qed.

Lemma first_bad_ok : forall l, Forall (fun o => o = OOk) l -> first_bad l = OOk.
Proof. induction 1 as [|o l Ho Hl IH]; cbn [first_bad]; [reflexivity|]. subst. exact IH. Qed.

(* the outcome of one entry of a valid mutation *)
Lemma entry_outcome : forall m vs ps' r k fv v vs0 vs1,
  NoDup (map fst vs) -> validate_params vs (m_params m) = Some ps' ->
  In (r, v) (m_vals m) -> fkind_of (m_decl m) r = Some k ->
  value_fits k v (m_params m) = true ->
  parse_value k v vs0 = Some (fv, vs1) ->
  (forall x, fv = FVar x -> In (x, variable_type k) vs) ->
  (field_is_system k = true -> uid_field fv ps' = OOk) /\
  (field_is_system k = false -> assemble_field k fv ps' = OOk).
Proof.
  intros m vs ps' r k fv v vs0 vs1 Hnd Hv Hin Hk Hfit Hp Hx.
  destruct v; cbn [parse_value value_fits] in Hp, Hfit.
  - (* variable *)
    destruct (vars_add vs0 x (variable_type k)); [|discriminate]. inversion Hp; subst fv vs1.
    destruct (bound_value _ _ _ x _ Hnd Hv (Hx x eq_refl)) as (p0 & p' & Hl0 & Hone & Hb).
    rewrite Hl0 in Hfit. unfold uid_field, assemble_field. rewrite Hb.
    destruct k as [[| | | | |] [| |]| |], p0 as [| |[|]|s|s|];
      cbn [param_fits field_nullable] in Hfit; try discriminate;
      cbn [variable_type field_type field_is_system field_nullable validate_one] in Hone;
      try discriminate;
      try (apply andb_prop in Hfit; destruct Hfit as [Hb64 Hu]);
      try rewrite Hfit in Hone; try rewrite Hb64 in Hone;
      inversion Hone; subst p'; cbn [field_is_system field_type as_string];
      (split; intro Hs; try discriminate; try reflexivity);
      try (rewrite Hfit; reflexivity);
      try (rewrite Hb64; cbn [negb]; destruct (s_uid s); try discriminate; reflexivity).
  - (* null *)
    apply andb_prop in Hfit. destruct Hfit as [Hn Hs]. rewrite Hn in Hp. inversion Hp; subst fv vs1.
    destruct k as [[| | | | |] [| |]| |]; cbn [field_nullable field_is_system negb] in Hn, Hs; try discriminate;
      unfold assemble_field; cbn [value_of field_type field_is_system];
      (split; intro Hsys; try discriminate; try reflexivity).
  - destruct k as [[| | | | |] n| |]; try discriminate. cbn [field_type] in Hp. inversion Hp; subst.
    split; intro; [discriminate|reflexivity].
  - destruct k as [[| | | | |] n| |]; try discriminate; cbn [field_type] in Hp.
    + inversion Hp; subst. split; intro; [discriminate|reflexivity].
    + rewrite Hfit in Hp. inversion Hp; subst. split; intro; [discriminate|reflexivity].
  - destruct k as [[| | | | |] n| |]; try discriminate. cbn [field_type] in Hp. inversion Hp; subst. try rewrite Hfit.
    split; intro; [discriminate|reflexivity].
  - destruct k as [[| | | | |] n| |]; try discriminate; cbn [field_type] in Hp;
      try (apply andb_prop in Hfit; destruct Hfit as [Hb64 Hu]);
      try rewrite Hfit in Hp; try rewrite Hb64 in Hp; inversion Hp; subst;
      unfold uid_field, assemble_field; cbn [value_of field_type field_is_system as_string];
      (split; intro Hs; try discriminate; try reflexivity);
      try (rewrite Hfit; reflexivity);
      try (rewrite Hb64; cbn [negb]; destruct (s_uid s); try discriminate; reflexivity).
Qed.

Lemma fkind_sys : forall decl r k, fkind_of decl r = Some k -> field_is_system k = is_sys_ref r.
Proof.
  intros decl r k H. destruct r; cbn [fkind_of] in H.
  - destruct (nth_error decl i) as [[t n]|]; inversion H. reflexivity.
  - inversion H. reflexivity.
  - inversion H. reflexivity.
Qed.

Theorem valid_mutation_executes : forall m,
  mutation_valid m = true -> mutate_outcome m = OOk.
Proof.
  intros m Hvalid. unfold mutation_valid in Hvalid.
  apply andb_prop in Hvalid. destruct Hvalid as [Hvalid Hreq].
  apply andb_prop in Hvalid. destruct Hvalid as [Hvalid Hcons].
  apply andb_prop in Hvalid. destruct Hvalid as [Hnodup Hfits].
  rewrite forallb_forall in Hfits.
  assert (Hfit' : Forall (fun rv => match fkind_of (m_decl m) (fst rv) with
                                    | Some k => value_fits k (snd rv) (m_params m) = true
                                    | None => False end) (m_vals m)).
  { apply Forall_forall. intros rv Hin. specialize (Hfits rv Hin).
    destruct (fkind_of (m_decl m) (fst rv)); [exact Hfits|discriminate]. }
  destruct (parse_fields_succeeds m (m_vals m) [] [] Hcons (incl_refl _) Hfit' Hnodup)
    as (l0 & vs & Hpf & Hrefs & Hvars); [intros r []|constructor|].
  cbn [refs_of map app] in Hrefs.
  (* parse_mutation succeeds *)
  assert (Hpm : exists l, parse_mutation m = Some (l, vs)).
  { unfold parse_mutation. rewrite Hpf. destruct (has_ref RId l0) eqn:Eid; [eauto|].
    destruct (fill_defaults_succeeds (m_decl m) 0 l0) as (l1 & Hl1); [|rewrite Hl1; eauto].
    intros j t Hj. cbn [Nat.add]. rewrite has_ref_refs, Hrefs.
    rewrite has_ref_refs, Hrefs in Eid.
    apply Bool.orb_prop in Hreq. destruct Hreq as [Hreq|Hreq]; [rewrite Hreq in Eid; discriminate|].
    rewrite forallb_forall in Hreq. specialize (Hreq j).
    rewrite Hj in Hreq. apply Hreq. apply in_seq. split; [lia|].
    cbn [Nat.add]. apply nth_error_Some. rewrite Hj. discriminate. }
  destruct Hpm as (l & Hpm).
  destruct (parse_mutation_inv _ _ _ Hpm) as (Hnd & Hl).
  unfold mutate_outcome. rewrite Hpm. unfold execute_mutation.
  (* the parameters validate *)
  destruct (validate_params_succeeds vs (m_params m) Hnd) as (ps' & Hps).
  { intros x vt Hin. rewrite Forall_forall in Hvars. destruct (Hvars _ Hin) as (r & k & Hinr & Hk & Hvt).
    cbn [fst snd] in *. specialize (Hfits _ Hinr). cbn [fst snd] in Hfits. rewrite Hk in Hfits.
    cbn [value_fits] in Hfits. destruct (lookup x (m_params m)) as [p|]; [|discriminate].
    exists p. split; [reflexivity|]. subst vt. apply param_fits_validates. exact Hfits. }
  rewrite Hps.
  (* every entry is Ok *)
  assert (Hent : forall r k fv, In (r, k, fv) l ->
            (is_sys_ref r = true -> uid_field fv ps' = OOk) /\
            (is_sys_ref r = false -> assemble_field k fv ps' = OOk)).
  { intros r k fv Hin. rewrite Forall_forall in Hl. destruct (Hl _ Hin) as [(Hk & (v & vs0 & vs1 & Hinv & Hpv) & Hx)|(i & t & n & He)].
    - rewrite <- (fkind_sys _ _ _ Hk).
      pose proof (Hfits _ Hinv) as Hf. cbn [fst snd] in Hf. rewrite Hk in Hf.
      exact (entry_outcome m vs ps' r k fv v vs0 vs1 Hnd Hps Hinv Hk Hf Hpv Hx).
    - inversion He; subst. cbn [is_sys_ref]. split; intro; [discriminate|].
      unfold assemble_field. cbn [value_of field_type]. destruct t; reflexivity. }
  rewrite first_bad_ok.
  - apply first_bad_ok. apply Forall_forall. intros o Ho. apply in_map_iff in Ho.
    destruct Ho as ([[r k] fv] & Ho & Hin). apply filter_In in Hin. destruct Hin as [Hin Hs].
    cbn [fst snd] in *. apply Bool.negb_true_iff in Hs. rewrite <- Ho. apply (Hent r k fv Hin). exact Hs.
  - apply Forall_forall. intros o Ho. apply in_map_iff in Ho.
    destruct Ho as ([[r k] fv] & Ho & Hin). cbn [snd] in Ho. rewrite <- Ho.
    apply in_app_or in Hin. destruct Hin as [Hin|Hin]; apply filter_In in Hin; destruct Hin as [Hin Hs];
      cbn [fst] in Hs; apply (Hent r k fv Hin); destruct r; try discriminate; reflexivity.
Qed.

(* ------------------------------------------------------------------------------------------ *)
(** * thread pools: requests that do not panic leave the pool as it is; every probe is answered *)

Lemma pool_run_ok : forall valid os live,
  live <> 0%N ->
  Forall2 (fun (v : bool) o => o <> OPanic /\ (v = true -> o = OOk)) valid os ->
  steps_ok valid (pool_run live os) = true /\ pool_live live os = live.
Proof.
  intros valid os live Hlive H. induction H as [|v o valid os [Hnp Hv] H IH]; cbn [pool_run pool_live steps_ok]; [auto|].
  unfold pool_step. destruct (N.eqb live 0) eqn:E; [apply N.eqb_eq in E; contradiction|].
  destruct o; [| |contradiction]; cbn [outcome_code app fst steps_ok]; destruct IH as [IH1 IH2]; rewrite IH1, IH2.
  - auto.
  - destruct v; [specialize (Hv eq_refl); discriminate|auto].
Qed.

Theorem import_key_never_panics : forall k pok, import_key k pok <> OPanic.
Proof.
  intros k pok. unfold import_key. destruct (negb (Nat.eqb (List.length k) 33)) eqn:E; [discriminate|].
  destruct k as [|b k]; [cbn in E; discriminate|].
  destruct (negb (N.eqb b key_type_ed25519)); [discriminate|]. destruct pok; discriminate.
Qed.

Lemma key_then_sig_never_panics : forall k pok sl sok, key_then_sig k pok sl sok <> OPanic.
Proof.
  intros k pok sl sok H. unfold key_then_sig in H. destruct (import_key k pok) eqn:E.
  - unfold verify_sig in H. destruct (negb (N.eqb sl 64)); [discriminate|]. destruct sok; discriminate.
  - discriminate.
  - exact (import_key_never_panics _ _ E).
Qed.

Theorem verify_row_never_panics : forall r, verify_row r <> OPanic.
Proof.
  intros r H. destruct r as [ee js k pok sl sok|el ll k pok sl sok|k pok sl sok]; cbn [verify_row] in H.
  - destruct ee; [discriminate|]. destruct js; try discriminate; exact (key_then_sig_never_panics _ _ _ _ H).
  - destruct (N.ltb max_edge_length (16 + el + ll + 16 + 8 + nlen k + sl)); [discriminate|].
    destruct (N.eqb el 0); [discriminate|]. destruct (N.eqb ll 0); [discriminate|].
    exact (key_then_sig_never_panics _ _ _ _ H).
  - exact (key_then_sig_never_panics _ _ _ _ H).
Qed.

Lemma key_wellformed_imports : forall k pok, key_wellformed k pok = true -> import_key k pok = OOk.
Proof.
  intros k pok H. unfold key_wellformed in H. apply andb_prop in H. destruct H as [H Hp].
  apply andb_prop in H. destruct H as [Hlen Hb]. destruct k as [|b k]; [discriminate|].
  unfold import_key. rewrite Hlen. cbn [negb]. unfold key_type_ed25519. rewrite Hb, Hp. reflexivity.
Qed.

Lemma existsb_false_forall : forall A (f : A -> bool) l, existsb f l = false -> forall x, In x l -> f x = false.
Proof.
  intros A f l H x Hin. destruct (f x) eqn:E; [|reflexivity].
  assert (existsb f l = true) by (apply existsb_exists; eauto). congruence.
Qed.

Lemma flag_nil : forall k b, flag k b = [] -> b = false.
Proof. intros k [|]; cbn [flag]; [discriminate|reflexivity]. Qed.

(* ------------------------------------------------------------------------------------------ *)
(** * queries: the emitted statement skeleton is well formed *)

Section cfield_induction.
  Variable P : cfield -> Prop.
  Hypothesis HScalar : forall s b d, P (CScalar s b d).
  Hypothesis HJson : forall d, P (CJsonSel d).
  Hypothesis HSub : forall key arr nl subs, Forall P subs -> P (CSub key arr nl subs).
  Fixpoint cfield_ind' (c : cfield) : P c :=
    match c with
    | CScalar s b d => HScalar s b d
    | CJsonSel d => HJson d
    | CSub key arr nl subs =>
        HSub key arr nl subs
             ((fix go (l : list cfield) : Forall P l :=
                 match l with
                 | [] => Forall_nil P
                 | x :: r => Forall_cons x (cfield_ind' x) (go r)
                 end) subs)
    end.
End cfield_induction.

Lemma balance_app : forall a b d,
  balance d (a ++ b) = match balance d a with Some d' => balance d' b | None => None end.
Proof.
  induction a as [|t a IH]; intros b d; cbn [app balance]; [reflexivity|].
  destruct t; try apply IH. destruct (Z.leb d 0); [reflexivity|apply IH].
Qed.

Definition good (ts : list tok) : Prop := forall d, 0 <= d -> balance d ts = Some d.

Lemma good_nil : good [].
Proof. intros d _. reflexivity. Qed.
Lemma good_app : forall a b, good a -> good b -> good (a ++ b).
Proof. intros a b Ha Hb d Hd. rewrite balance_app, (Ha d Hd). apply Hb. exact Hd. Qed.
Lemma good_concat : forall ls, Forall good ls -> good (List.concat ls).
Proof. induction 1 as [|a ls Ha Hls IH]; cbn [List.concat]; [apply good_nil|apply good_app; assumption]. Qed.
Lemma good_paren : forall a, good a -> good (TL :: a ++ [TR]).
Proof.
  intros a Ha d Hd. cbn [balance]. rewrite balance_app, (Ha (d + 1)) by lia. cbn [balance].
  replace (Z.leb (d + 1) 0) with false by (symmetry; apply Z.leb_gt; lia).
  f_equal. lia.
Qed.
Lemma good_sel : forall a, good a -> good (TSel :: a).
Proof. intros a Ha d Hd. cbn [balance]. apply Ha. exact Hd. Qed.
Lemma good_x : forall a, good a -> good (TX :: a).
Proof. intros a Ha d Hd. cbn [balance]. apply Ha. exact Hd. Qed.
Lemma good_al : forall x a, good a -> good (TAl x :: a).
Proof. intros x a Ha d Hd. cbn [balance]. apply Ha. exact Hd. Qed.

(* get_sub_entity_query *)
Definition sub_body (parent key : ident) (A B : list tok) : list tok :=
  [TSel; TX; TL] ++ A ++ [TR; TX; TAl key; TX; TAl key; TX; TAl key; TX; TAl parent; TX] ++ B ++ [TX].

Lemma good_sub_body : forall parent key A B, good A -> good B -> good (sub_body parent key A B).
Proof.
  intros parent key A B HA HB. unfold sub_body. cbn [app].
  apply good_sel, good_x.
  replace (TL :: A ++ TR :: TX :: TAl key :: TX :: TAl key :: TX :: TAl key :: TX :: TAl parent :: TX :: B ++ [TX])
    with ((TL :: A ++ [TR]) ++ (TX :: TAl key :: TX :: TAl key :: TX :: TAl key :: TX :: TAl parent :: TX :: B ++ [TX])).
  2:{ cbn [app]. rewrite <- app_assoc. reflexivity. }
  apply good_app; [apply good_paren; exact HA|].
  repeat first [apply good_x | apply good_al]. apply good_app; [exact HB|]. apply good_x, good_nil.
Qed.

Lemma emit_sub_eq : forall parent key arr nl subs,
  emit parent (CSub key arr nl subs) =
  let body := sub_body parent key (List.concat (map fst (map (emit key) subs))) (List.concat (map snd (map (emit key) subs))) in
  ((if arr then [TX; TL; TSel; TX; TL; TX; TR; TX; TL] ++ body ++ [TR; TR] else [TX; TL] ++ body ++ [TR; TX]),
   (if nl then [] else [TX; TL] ++ body ++ [TR])).
Proof. reflexivity. Qed.

Theorem emit_balanced : forall c parent, good (fst (emit parent c)) /\ good (snd (emit parent c)).
Proof.
  induction c as [s b d|d|key arr nl subs IH] using cfield_ind'; intros parent.
  - destruct s, b, d; cbn [emit fst snd]; split; try apply good_nil;
      repeat first [apply good_x | apply good_al | apply good_nil
                   | apply (good_paren [TX] (good_x _ good_nil))
                   | apply (good_paren (TX :: TL :: [TX] ++ [TR]) (good_x _ (good_paren [TX] (good_x _ good_nil))))
                   | apply (good_paren [TAl parent; TX] (good_al _ _ (good_x _ good_nil)))].
  - destruct d; cbn [emit fst snd]; split;
      repeat first [apply good_nil | apply good_x | apply (good_paren [TX] (good_x _ good_nil))].
  - rewrite emit_sub_eq. cbv zeta.
    assert (HA : good (List.concat (map fst (map (emit key) subs))) /\ good (List.concat (map snd (map (emit key) subs)))).
    { split; apply good_concat; rewrite map_map; apply Forall_map;
        rewrite Forall_forall in IH |- *; intros x Hx;
        apply (IH x Hx key). }
    destruct HA as [HA HB]. pose proof (good_sub_body parent key _ _ HA HB) as Hbody.
    cbn [fst snd]. split.
    + destruct arr.
      * cbn [app]. apply good_x.
        match goal with |- good (TL :: ?rest) =>
          replace rest with ((TSel :: TX :: TL :: [TX] ++ [TR]) ++ TX :: (TL :: sub_body parent key
             (List.concat (map fst (map (emit key) subs))) (List.concat (map snd (map (emit key) subs))) ++ [TR]) ++ [TR]) end.
        2:{ cbn [app]. rewrite <- !app_assoc. reflexivity. }
        replace (TL :: ((TSel :: TX :: TL :: [TX] ++ [TR]) ++ TX :: (TL :: sub_body parent key
             (List.concat (map fst (map (emit key) subs))) (List.concat (map snd (map (emit key) subs))) ++ [TR]) ++ [TR]))
          with (TL :: ((TSel :: TX :: TL :: [TX] ++ [TR]) ++ TX :: (TL :: sub_body parent key
             (List.concat (map fst (map (emit key) subs))) (List.concat (map snd (map (emit key) subs))) ++ [TR])) ++ [TR]).
        2:{ cbn [app]. rewrite <- !app_assoc. reflexivity. }
        apply good_paren. apply good_app.
        -- apply good_sel, good_x, good_paren, good_x, good_nil.
        -- apply good_x, good_paren. exact Hbody.
      * cbn [app].  apply good_x.
        replace (TL :: sub_body parent key (List.concat (map fst (map (emit key) subs))) (List.concat (map snd (map (emit key) subs))) ++ [TR; TX])
          with ((TL :: sub_body parent key (List.concat (map fst (map (emit key) subs))) (List.concat (map snd (map (emit key) subs))) ++ [TR]) ++ [TX]).
        2:{ cbn [app]. rewrite <- app_assoc. reflexivity. }
        apply good_app; [apply good_paren; exact Hbody|apply good_x, good_nil].
    + destruct nl; [apply good_nil|]. cbn [app]. apply good_x, good_paren. exact Hbody.
Qed.

Theorem entity_wf : forall c, wf_sql (emit_entity c) = true.
Proof.
  intros c.
  assert (HA : good (List.concat (map fst (map (emit (ce_alias c)) (ce_fields c))))).
  { apply good_concat; rewrite map_map; apply Forall_map; apply Forall_forall; intros x Hx; apply (emit_balanced x (ce_alias c)). }
  assert (HB : good (List.concat (map snd (map (emit (ce_alias c)) (ce_fields c))))).
  { apply good_concat; rewrite map_map; apply Forall_map; apply Forall_forall; intros x Hx; apply (emit_balanced x (ce_alias c)). }
  unfold wf_sql, balanced, emit_entity. cbv zeta.
  set (A := List.concat (map fst (map (emit (ce_alias c)) (ce_fields c)))) in *.
  set (B := List.concat (map snd (map (emit (ce_alias c)) (ce_fields c)))) in *.
    assert (Hg : good ([TSel; TX; TL; TX; TR; TX; TL] ++ [TSel; TX; TL] ++ A ++ [TR; TX; TAl (ce_alias c)]
                       ++ match ce_search c with Some _ => [TX; TAl (ce_alias c); TX] | None => [] end
                       ++ [TX; TAl (ce_alias c); TX] ++ B
                       ++ match ce_search c with Some _ => [TX] | None => [] end ++ [TR])).
    { cbn [app]. apply good_sel, good_x.
      replace (TL :: TX :: TR :: TX :: TL :: TSel :: TX :: TL :: A ++ TR :: TX :: TAl (ce_alias c) ::
                 match ce_search c with Some _ => [TX; TAl (ce_alias c); TX] | None => [] end ++
                 TX :: TAl (ce_alias c) :: TX :: B ++ match ce_search c with Some _ => [TX] | None => [] end ++ [TR])
        with ((TL :: [TX] ++ [TR]) ++ TX :: (TL :: (TSel :: TX :: (TL :: A ++ [TR]) ++ TX :: TAl (ce_alias c) ::
                 match ce_search c with Some _ => [TX; TAl (ce_alias c); TX] | None => [] end ++
                 TX :: TAl (ce_alias c) :: TX :: B ++ match ce_search c with Some _ => [TX] | None => [] end) ++ [TR])).
      2:{ cbn [app]. rewrite <- !app_assoc. cbn [app]. destruct (ce_search c); cbn [app]; rewrite <- ?app_assoc; reflexivity. }
      apply good_app; [apply good_paren, good_x, good_nil|]. apply good_x, good_paren, good_sel, good_x.
      apply good_app; [apply good_paren; exact HA|]. apply good_x, good_al.
      apply good_app; [destruct (ce_search c); [apply good_x, good_al, good_x, good_nil|apply good_nil]|].
      apply good_x, good_al, good_x. apply good_app; [exact HB|]. destruct (ce_search c); [apply good_x|]; apply good_nil. }
    rewrite (Hg 0) by lia. reflexivity.
Qed.

(* ------------------------------------------------------------------------------------------ *)
(** * queries: a valid request resolves *)

Section rfield_induction.
  Variable P : rfield -> Prop.
  Hypothesis HNamed : forall a n, P (RNamed a n).
  Hypothesis HJson : forall a n, P (RJson a n).
  Hypothesis HSub : forall a n subs, Forall P subs -> P (RSub a n subs).
  Fixpoint rfield_ind' (f : rfield) : P f :=
    match f with
    | RNamed a n => HNamed a n
    | RJson a n => HJson a n
    | RSub a n subs =>
        HSub a n subs
             ((fix go (l : list rfield) : Forall P l :=
                 match l with
                 | [] => Forall_nil P
                 | x :: r => Forall_cons x (rfield_ind' x) (go r)
                 end) subs)
    end.
End rfield_induction.

Lemma list_eqb_eq : forall (l1 l2 : list N), list_eqb N.eqb l1 l2 = true <-> l1 = l2.
Proof.
  induction l1 as [|a l1 IH]; destruct l2 as [|b l2]; cbn [list_eqb]; split; intro H; try discriminate; try reflexivity.
  - apply andb_prop in H. destruct H as [H1 H2]. apply N.eqb_eq in H1. apply IH in H2. subst. reflexivity.
  - inversion H; subst. rewrite N.eqb_refl. cbn [andb]. apply IH. reflexivity.
Qed.
Lemma ident_eqb_eq : forall a b, ident_eqb a b = true <-> a = b.
Proof. apply list_eqb_eq. Qed.
Lemma ident_eqb_refl : forall a, ident_eqb a a = true.
Proof. intro a. apply ident_eqb_eq. reflexivity. Qed.

Lemma existsb_ident_false : forall k l, existsb (ident_eqb k) l = false -> ~ In k l.
Proof.
  intros k l H Hin. pose proof (existsb_false_forall _ _ _ H k Hin) as E. rewrite ident_eqb_refl in E. discriminate.
Qed.
Lemma notin_existsb_ident : forall k l, ~ In k l -> existsb (ident_eqb k) l = false.
Proof.
  intros k l H. destruct (existsb (ident_eqb k) l) eqn:E; [|reflexivity].
  apply existsb_exists in E. destruct E as (x & Hx & Heq). apply ident_eqb_eq in Heq. subst. contradiction.
Qed.

Lemma resolve_go_eq : forall dm te subs keys,
  (fix go (l : list rfield) (keys : list ident) {struct l} : option (list cfield) :=
     match l with
     | [] => Some []
     | x :: r =>
         match resolve_field dm te x with
         | None => None
         | Some (key, c) =>
             if existsb (ident_eqb key) keys then None
             else match go r (key :: keys) with
                  | Some cs => Some (c :: cs)
                  | None => None
                  end
         end
     end) subs keys = resolve_list dm te subs keys.
Proof.
  intros dm te. induction subs as [|x r IH]; intros keys; cbn [resolve_list]; [reflexivity|].
  destruct (resolve_field dm te x) as [[key c]|]; [|reflexivity].
  destruct (existsb (ident_eqb key) keys); [reflexivity|]. rewrite IH. reflexivity.
Qed.

Lemma resolve_sub_eq : forall dm e alias name subs,
  resolve_field dm e (RSub alias name subs) =
  if negb (alias_admissible e alias) then None
  else match get_field e name with
       | Some (FUserF (KRef arr t nl)) =>
           match nth_error dm t with
           | None => None
           | Some te => match resolve_list dm te subs [] with
                        | Some cs => Some (field_key alias name, CSub (field_key alias name) arr nl cs)
                        | None => None end
           end
       | _ => None
       end.
Proof.
  intros. cbn [resolve_field]. destruct (negb (alias_admissible e alias)); [reflexivity|].
  destruct (get_field e name) as [[[js d|arr t nl]| |]|]; try reflexivity.
  destruct (nth_error dm t); [|reflexivity]. rewrite resolve_go_eq. reflexivity.
Qed.

Definition resolves (dm : dmodel) (f : rfield) : Prop :=
  forall e, field_valid dm e f = true -> exists c, resolve_field dm e f = Some (rkey f, c).

Lemma list_resolves : forall dm l, Forall (resolves dm) l ->
  forall e keys, forallb (field_valid dm e) l = true -> nodup_idents (map rkey l) = true ->
  (forall k, In k keys -> ~ In k (map rkey l)) ->
  exists cs, resolve_list dm e l keys = Some cs.
Proof.
  intros dm l H. induction H as [|f l Hf Hl IH]; intros e keys Hv Hnd Hk; cbn [resolve_list]; [eauto|].
  cbn [forallb] in Hv. apply andb_prop in Hv. destruct Hv as [Hvf Hvl].
  cbn [map nodup_idents] in Hnd. apply andb_prop in Hnd. destruct Hnd as [Hn Hnd].
  destruct (Hf e Hvf) as (c & Hc). rewrite Hc.
  rewrite notin_existsb_ident.
  2:{ intro Hin. apply (Hk _ Hin). left. reflexivity. }
  destruct (IH e (rkey f :: keys) Hvl Hnd) as (cs & Hcs).
  { intros k [Hk1|Hk1].
    - subst k. apply existsb_ident_false. apply Bool.negb_true_iff in Hn. exact Hn.
    - intro Hin. apply (Hk _ Hk1). right. exact Hin. }
  rewrite Hcs. eauto.
Qed.

Theorem field_valid_resolves : forall dm f, resolves dm f.
Proof.
  intros dm f. induction f as [a n|a n|a n subs IH] using rfield_ind'; intros e Hv.
  - cbn [field_valid] in Hv. apply andb_prop in Hv. destruct Hv as [Ha Hg].
    cbn [resolve_field rkey]. rewrite Ha. cbn [negb].
    destruct (get_field e n) as [[[js d|arr t nl]|b|]|]; try discriminate; eauto.
  - cbn [field_valid] in Hv. cbn [resolve_field rkey].
    destruct (get_field e n) as [[[[|] d|arr t nl]|b|]|]; try discriminate; eauto.
  - cbn [field_valid] in Hv. apply andb_prop in Hv. destruct Hv as [Ha Hg].
    rewrite resolve_sub_eq. rewrite Ha. cbn [negb rkey].
    destruct (get_field e n) as [[[js d|arr t nl]|b|]|]; try discriminate.
    destruct (nth_error dm t) as [te|]; [|discriminate].
    apply andb_prop in Hg. destruct Hg as [Hsubs Hnd].
    destruct (list_resolves dm subs IH te [] Hsubs Hnd) as (cs & Hcs); [intros k []|].
    rewrite Hcs. eauto.
Qed.

Theorem entity_valid_resolves : forall dm q, entity_valid dm q = true -> exists c, resolve_entity dm q = Some c.
Proof.
  intros dm q H. unfold entity_valid in H. apply andb_prop in H. destruct H as [H Hconf].
  apply andb_prop in H. destruct H as [Hal Hent]. unfold resolve_entity.
  apply Bool.negb_true_iff in Hal. rewrite Hal.
  destruct (find_entity dm (re_ns q) (re_name q)) as [e|]; [|discriminate].
  apply andb_prop in Hent. destruct Hent as [Hf Hnd].
  destruct (list_resolves dm (re_fields q)) with (e := e) (keys := @nil ident) as (cs & Hcs); auto.
  { apply Forall_forall. intros f _. apply field_valid_resolves. }
  rewrite Hcs. apply Bool.negb_true_iff in Hconf. rewrite Hconf. eauto.
Qed.

Theorem query_valid_resolves : forall dm qs names,
  forallb (entity_valid dm) qs = true -> nodup_idents (map aliased_name qs) = true ->
  (forall k, In k names -> ~ In k (map aliased_name qs)) ->
  exists cs, resolve_query dm qs names = Some cs.
Proof.
  intros dm. induction qs as [|q qs IH]; intros names Hv Hnd Hk; cbn [resolve_query]; [eauto|].
  cbn [forallb] in Hv. apply andb_prop in Hv. destruct Hv as [Hq Hqs].
  cbn [map nodup_idents] in Hnd. apply andb_prop in Hnd. destruct Hnd as [Hn Hnd].
  destruct (entity_valid_resolves dm q Hq) as (c & Hc). rewrite Hc.
  rewrite notin_existsb_ident.
  2:{ intro Hin. apply (Hk _ Hin). left. reflexivity. }
  destruct (IH (aliased_name q :: names) Hqs Hnd) as (cs & Hcs).
  { intros k [Hk1|Hk1].
    - subst k. apply existsb_ident_false. apply Bool.negb_true_iff in Hn. exact Hn.
    - intro Hin. apply (Hk _ Hk1). right. exact Hin. }
  rewrite Hcs. eauto.
Qed.

(* valid_executes (partial: the engine's verdict is the modelled skeleton check) *)
Theorem valid_query_executes : forall dm qs,
  query_valid dm qs = true -> known_C14 (CQuery dm qs) = [] -> query_outcome dm qs = OOk.
Proof.
  intros dm qs Hv Hk. unfold query_valid in Hv. apply andb_prop in Hv. destruct Hv as [Hv Hnd].
  destruct (query_valid_resolves dm qs [] Hv Hnd) as (cs & Hcs); [intros k []|].
  unfold query_outcome. cbn [known_C14] in Hk. rewrite Hcs in *.
  apply app_eq_nil in Hk. destruct Hk as [H5 H6].
  apply flag_nil in H5, H6.
  replace (forallb entity_executes cs) with true; [reflexivity|]. symmetry. apply forallb_forall. intros c Hc.
  unfold entity_executes. rewrite (entity_wf c).
  pose proof (existsb_false_forall _ _ _ H5 c Hc) as E5. pose proof (existsb_false_forall _ _ _ H6 c Hc) as E6.
  unfold k5_entity in E5. unfold k6_entity in E6. apply Bool.negb_false_iff in E5, E6. rewrite E5, E6. reflexivity.
Qed.

(* ------------------------------------------------------------------------------------------ *)
(** * statement size: parentheses pair up, SELECTs are linear in the request (outside class 7) *)

Definition sel3 (x : c3) : N := fst (fst x).
Definition lp3 (x : c3) : N := snd (fst x).
Definition rp3 (x : c3) : N := snd x.
Definition sumN (l : list N) : N := fold_right N.add 0%N l.

Lemma c3_add_proj : forall a b,
  sel3 (c3_add a b) = (sel3 a + sel3 b)%N /\ lp3 (c3_add a b) = (lp3 a + lp3 b)%N /\ rp3 (c3_add a b) = (rp3 a + rp3 b)%N.
Proof. intros [[a1 a2] a3] [[b1 b2] b3]. cbn. auto. Qed.

Lemma c3_sum_proj : forall l,
  sel3 (c3_sum l) = sumN (map sel3 l) /\ lp3 (c3_sum l) = sumN (map lp3 l) /\ rp3 (c3_sum l) = sumN (map rp3 l).
Proof.
  induction l as [|a l IH]; cbn [c3_sum fold_right map sumN]; [cbn; auto|].
  fold (c3_sum l). destruct (c3_add_proj a (c3_sum l)) as (H1 & H2 & H3). destruct IH as (I1 & I2 & I3).
  rewrite H1, H2, H3, I1, I2, I3. auto.
Qed.

Lemma sumN_ext : forall A (f g : A -> N) l, (forall x, In x l -> f x = g x) -> sumN (map f l) = sumN (map g l).
Proof.
  induction l as [|a l IH]; intros H; cbn [map sumN fold_right]; [reflexivity|].
  fold (sumN (map f l)). fold (sumN (map g l)). rewrite (H a (or_introl eq_refl)), IH; [reflexivity|].
  intros x Hx. apply H. right. exact Hx.
Qed.

Lemma sumN_le : forall A (f g : A -> N) l, (forall x, In x l -> (f x <= g x)%N) -> (sumN (map f l) <= sumN (map g l))%N.
Proof.
  induction l as [|a l IH]; intros H; cbn [map sumN fold_right]; [lia|].
  fold (sumN (map f l)). fold (sumN (map g l)).
  pose proof (H a (or_introl eq_refl)). assert (sumN (map f l) <= sumN (map g l))%N by (apply IH; intros; apply H; right; assumption). lia.
Qed.

Lemma sumN_zero : forall A (f : A -> N) l, (forall x, In x l -> f x = 0%N) -> sumN (map f l) = 0%N.
Proof.
  induction l as [|a l IH]; intros H; cbn [map sumN fold_right]; [reflexivity|].
  fold (sumN (map f l)). rewrite (H a (or_introl eq_refl)), IH; [reflexivity|]. intros; apply H; right; assumption.
Qed.

Lemma sumN_scale : forall A (f : A -> N) k l, sumN (map (fun x => k * f x)%N l) = (k * sumN (map f l))%N.
Proof.
  induction l as [|a l IH]; cbn [map sumN fold_right]; [lia|].
  fold (sumN (map f l)). fold (sumN (map (fun x => (k * f x)%N) l)). rewrite IH. lia.
Qed.

Lemma counts_sub_eq : forall key arr nl subs,
  counts (CSub key arr nl subs) =
  let body := c3_add (1, 1, 1)%N (c3_add (c3_sum (map fst (map counts subs))) (c3_sum (map snd (map counts subs)))) in
  ((if arr then c3_add (1, 3, 3)%N body else c3_add (0, 1, 1)%N body), (if nl then (0, 0, 0)%N else c3_add (0, 1, 1)%N body)).
Proof. reflexivity. Qed.

Theorem counts_parens : forall c,
  lp3 (fst (counts c)) = rp3 (fst (counts c)) /\ lp3 (snd (counts c)) = rp3 (snd (counts c)).
Proof.
  induction c as [s b d|d|key arr nl subs IH] using cfield_ind'.
  - destruct s, b, d; cbn; auto.
  - destruct d; cbn; auto.
  - rewrite counts_sub_eq. cbv zeta.
    set (A := c3_sum (map fst (map counts subs))). set (B := c3_sum (map snd (map counts subs))).
    assert (HA : lp3 A = rp3 A).
    { unfold A. destruct (c3_sum_proj (map fst (map counts subs))) as (_ & H2 & H3). rewrite H2, H3, !map_map.
      apply sumN_ext. intros x Hx. rewrite Forall_forall in IH. apply (IH x Hx). }
    assert (HB : lp3 B = rp3 B).
    { unfold B. destruct (c3_sum_proj (map snd (map counts subs))) as (_ & H2 & H3). rewrite H2, H3, !map_map.
      apply sumN_ext. intros x Hx. rewrite Forall_forall in IH. apply (IH x Hx). }
    assert (Hbody : lp3 (c3_add (1, 1, 1)%N (c3_add A B)) = rp3 (c3_add (1, 1, 1)%N (c3_add A B))).
    { destruct (c3_add_proj (1, 1, 1)%N (c3_add A B)) as (_ & H2 & H3). destruct (c3_add_proj A B) as (_ & H4 & H5).
      rewrite H2, H3, H4, H5, HA, HB. reflexivity. }
    cbn [fst snd]. split.
    + destruct arr; match goal with |- lp3 (c3_add ?k ?b) = _ => destruct (c3_add_proj k b) as (_ & H2 & H3) end;
        rewrite H2, H3, Hbody; reflexivity.
    + destruct nl; [reflexivity|]. match goal with |- lp3 (c3_add ?k ?b) = _ => destruct (c3_add_proj k b) as (_ & H2 & H3) end.
      rewrite H2, H3, Hbody. reflexivity.
Qed.

Fixpoint csubs (c : cfield) : N :=
  match c with CSub _ _ _ subs => (1 + sumN (map csubs subs))%N | _ => 0%N end.
Definition tot (c : cfield) : N := (sel3 (fst (counts c)) + sel3 (snd (counts c)))%N.

Lemma counts_sel_sub : forall key arr nl subs,
  sel3 (fst (counts (CSub key arr nl subs))) = ((if arr then 1 else 0) + (1 + sumN (map tot subs)))%N /\
  sel3 (snd (counts (CSub key arr nl subs))) = (if nl then 0 else 1 + sumN (map tot subs))%N.
Proof.
  intros. rewrite counts_sub_eq. cbv zeta.
  set (A := c3_sum (map fst (map counts subs))). set (B := c3_sum (map snd (map counts subs))).
  assert (Hbody : sel3 (c3_add (1, 1, 1)%N (c3_add A B)) = (1 + sumN (map tot subs))%N).
  { destruct (c3_add_proj (1, 1, 1)%N (c3_add A B)) as (H1 & _). destruct (c3_add_proj A B) as (H2 & _).
    rewrite H1, H2. unfold A, B.
    destruct (c3_sum_proj (map fst (map counts subs))) as (H3 & _). destruct (c3_sum_proj (map snd (map counts subs))) as (H4 & _).
    rewrite H3, H4, !map_map. cbn [sel3 fst]. f_equal. unfold tot.
    clear. induction subs as [|x r IH]; cbn [map sumN fold_right]; [reflexivity|].
    fold (sumN (map (fun x0 => sel3 (fst (counts x0))) r)). fold (sumN (map (fun x0 => sel3 (snd (counts x0))) r)).
    fold (sumN (map (fun c => (sel3 (fst (counts c)) + sel3 (snd (counts c)))%N) r)). lia. }
  cbn [fst snd]. split.
  - destruct arr; match goal with |- sel3 (c3_add ?k ?b) = _ => destruct (c3_add_proj k b) as (H1 & _) end; rewrite H1, Hbody; cbn [sel3 fst]; lia.
  - destruct nl; [reflexivity|]. match goal with |- sel3 (c3_add ?k ?b) = _ => destruct (c3_add_proj k b) as (H1 & _) end.
    rewrite H1, Hbody. cbn [sel3 fst]. lia.
Qed.

Lemma tot_nn_free : forall c, has_nn c = false -> sel3 (snd (counts c)) = 0%N /\ (tot c <= 2 * csubs c)%N.
Proof.
  induction c as [s b d|d|key arr nl subs IH] using cfield_ind'; intros Hn.
  - destruct s, b, d; cbn; split; lia.
  - destruct d; cbn; split; lia.
  - cbn [has_nn] in Hn. apply Bool.orb_false_elim in Hn. destruct Hn as [Hnl Hsubs].
    apply Bool.negb_false_iff in Hnl. subst nl.
    destruct (counts_sel_sub key arr true subs) as (H1 & H2). unfold tot. rewrite H1, H2. cbn [csubs].
    split; [reflexivity|].
    assert (sumN (map tot subs) <= sumN (map (fun x => 2 * csubs x)%N subs))%N.
    { apply sumN_le. intros x Hx. rewrite Forall_forall in IH. apply (IH x Hx (existsb_false_forall _ _ _ Hsubs x Hx)). }
    rewrite sumN_scale in H. destruct arr; lia.
Qed.

Theorem tot_linear : forall c, nn_nested c = false -> (tot c <= 4 * csubs c)%N.
Proof.
  induction c as [s b d|d|key arr nl subs IH] using cfield_ind'; intros Hn.
  - destruct s, b, d; cbn; lia.
  - destruct d; cbn; lia.
  - cbn [nn_nested] in Hn. apply Bool.orb_false_elim in Hn. destruct Hn as [Hhere Hsubs].
    destruct (counts_sel_sub key arr nl subs) as (H1 & H2). unfold tot. rewrite H1, H2. cbn [csubs].
    destruct nl; cbn [negb andb] in Hhere.
    + assert (sumN (map tot subs) <= sumN (map (fun x => 4 * csubs x)%N subs))%N.
      { apply sumN_le. intros x Hx. rewrite Forall_forall in IH. apply (IH x Hx (existsb_false_forall _ _ _ Hsubs x Hx)). }
      rewrite sumN_scale in H. destruct arr; lia.
    + assert (sumN (map tot subs) <= sumN (map (fun x => 2 * csubs x)%N subs))%N.
      { apply sumN_le. intros x Hx. apply tot_nn_free. apply (existsb_false_forall _ _ _ Hhere x Hx). }
      rewrite sumN_scale in H. destruct arr; lia.
Qed.

Definition keeps_subs (dm : dmodel) (f : rfield) : Prop :=
  forall e k c, resolve_field dm e f = Some (k, c) -> csubs c = count_subs f.

Lemma resolve_list_csubs : forall dm l, Forall (keeps_subs dm) l ->
  forall e keys cs, resolve_list dm e l keys = Some cs -> sumN (map csubs cs) = sumN (map count_subs l).
Proof.
  intros dm l H. induction H as [|f l Hf Hl IH]; intros e keys cs Hr; cbn [resolve_list] in Hr.
  - inversion Hr. reflexivity.
  - destruct (resolve_field dm e f) as [[key c]|] eqn:Ef; [|discriminate].
    destruct (existsb (ident_eqb key) keys); [discriminate|].
    destruct (resolve_list dm e l (key :: keys)) as [cs'|] eqn:El; [|discriminate]. inversion Hr; subst.
    cbn [map sumN fold_right]. fold (sumN (map csubs cs')). fold (sumN (map count_subs l)).
    rewrite (Hf e key c Ef), (IH e _ _ El). reflexivity.
Qed.

Lemma resolve_field_csubs : forall dm f, keeps_subs dm f.
Proof.
  intros dm f. induction f as [a n|a n|a n subs IH] using rfield_ind'; intros e k c Hr.
  - cbn [resolve_field] in Hr. destruct (negb (alias_admissible e a)); [discriminate|].
    destruct (get_field e n) as [[[js d|arr t nl]|b|]|]; inversion Hr; reflexivity.
  - cbn [resolve_field] in Hr. destruct (get_field e n) as [[[[|] d|arr t nl]|b|]|]; inversion Hr; reflexivity.
  - rewrite resolve_sub_eq in Hr. destruct (negb (alias_admissible e a)); [discriminate|].
    destruct (get_field e n) as [[[js d|arr t nl]|b|]|]; try discriminate.
    destruct (nth_error dm t) as [te|]; [|discriminate].
    destruct (resolve_list dm te subs []) as [cs|] eqn:El; [|discriminate]. inversion Hr; subst.
    cbn [csubs count_subs]. rewrite (resolve_list_csubs dm subs IH te [] cs El). reflexivity.
Qed.

Lemma sum_tot_split : forall l,
  (sumN (map (fun x => sel3 (fst (counts x))) l) + sumN (map (fun x => sel3 (snd (counts x))) l) = sumN (map tot l))%N.
Proof.
  unfold tot. induction l as [|x r IH]; cbn [map sumN fold_right]; [reflexivity|].
  fold (sumN (map (fun x0 => sel3 (fst (counts x0))) r)). fold (sumN (map (fun x0 => sel3 (snd (counts x0))) r)).
  fold (sumN (map (fun c => (sel3 (fst (counts c)) + sel3 (snd (counts c)))%N) r)). lia.
Qed.

Theorem size_spec : forall dm q ce,
  resolve_entity dm q = Some ce ->
  lp3 (counts_entity ce) = rp3 (counts_entity ce) /\
  (k7_entity ce = false -> (sel3 (counts_entity ce) <= select_bound q)%N).
Proof.
  intros dm q ce Hr. unfold counts_entity.
  set (A := c3_sum (map fst (map counts (ce_fields ce)))). set (B := c3_sum (map snd (map counts (ce_fields ce)))).
  destruct (c3_add_proj (2, 3, 3)%N (c3_add A B)) as (H1 & H2 & H3). destruct (c3_add_proj A B) as (H4 & H5 & H6).
  destruct (c3_sum_proj (map fst (map counts (ce_fields ce)))) as (S1 & S2 & S3).
  destruct (c3_sum_proj (map snd (map counts (ce_fields ce)))) as (T1 & T2 & T3).
  split.
  - rewrite H2, H3, H5, H6. unfold A, B. rewrite S2, S3, T2, T3, !map_map.
    rewrite (sumN_ext _ (fun x => lp3 (fst (counts x))) (fun x => rp3 (fst (counts x)))).
    2:{ intros x Hx. apply (counts_parens x). }
    rewrite (sumN_ext _ (fun x => lp3 (snd (counts x))) (fun x => rp3 (snd (counts x)))).
    2:{ intros x Hx. apply (counts_parens x). }
    reflexivity.
  - intro Hk. unfold k7_entity in Hk. rewrite H1, H4. unfold A, B. rewrite S1, T1, !map_map. cbn [sel3 fst].
    assert (Hsum : (sumN (map (fun x => sel3 (fst (counts x))) (ce_fields ce)) + sumN (map (fun x => sel3 (snd (counts x))) (ce_fields ce))
                    = sumN (map tot (ce_fields ce)))%N).
    { apply sum_tot_split. }
    rewrite Hsum.
    assert (Hle : (sumN (map tot (ce_fields ce)) <= sumN (map (fun x => 4 * csubs x)%N (ce_fields ce)))%N).
    { apply sumN_le. intros x Hx. apply tot_linear. apply (existsb_false_forall _ _ _ Hk x Hx). }
    rewrite sumN_scale in Hle.
    (* the resolved fields have as many sub-selections as the request *)
    unfold resolve_entity in Hr.
    destruct (match re_alias q with Some a => starts_underscore a | None => false end); [discriminate|].
    destruct (find_entity dm (re_ns q) (re_name q)) as [e|]; [|discriminate].
    destruct (resolve_list dm e (re_fields q) []) as [cs|] eqn:El; [|discriminate].
    destruct (match re_alias q with Some a => match find_entity dm [] a with Some _ => true | None => false end | None => false end); [discriminate|].
    inversion Hr; subst ce. cbn [ce_fields] in *.
    assert (Hsubs : sumN (map csubs cs) = sumN (map count_subs (re_fields q))).
    { apply (resolve_list_csubs dm (re_fields q)) with (e := e) (keys := @nil ident); [|exact El].
      apply Forall_forall. intros f _. apply resolve_field_csubs. }
    unfold select_bound. fold (sumN (map count_subs (re_fields q))). lia.
Qed.

(* ------------------------------------------------------------------------------------------ *)
(** * the clause language on one entity: a valid request executes; the clause skeleton is grammatical *)

Lemma vars_add_nodup : forall vs x vt vs', vars_add vs x vt = Some vs' -> NoDup (map fst vs) -> NoDup (map fst vs').
Proof. intros vs x vt vs' H Hnd. exact (proj1 (vars_add_spec _ _ _ _ H Hnd)). Qed.

Lemma lim_var_nodup : forall l vs vs', lim_var l vs = Some vs' -> NoDup (map fst vs) -> NoDup (map fst vs').
Proof.
  intros [[|x]|] vs vs' H Hnd; cbn [lim_var] in H; try (inversion H; subst; exact Hnd).
  eapply vars_add_nodup; eauto.
Qed.

Lemma filter_check_nodup : forall q f vs vs', filter_check q f vs = Some vs' -> NoDup (map fst vs) -> NoDup (map fst vs').
Proof.
  intros q [[k eqop] v] vs vs' H Hnd. cbn [filter_check] in H.
  destruct (key_info q k) as [i|]; [|discriminate].
  destruct (ki_ref i && negb eqop); [discriminate|].
  destruct v; try (destruct (ki_ref i); [discriminate|]).
  - eapply vars_add_nodup; eauto.
  - destruct (ki_nullable i || ki_ref i); inversion H; subst; exact Hnd.
  - destruct (ki_type i); inversion H; subst; exact Hnd.
  - destruct (ki_type i); inversion H; subst; exact Hnd.
  - destruct (ki_type i); inversion H; subst; exact Hnd.
  - destruct (ki_type i); try discriminate; [destruct (s_b64 s); inversion H; subst; exact Hnd|inversion H; subst; exact Hnd].
Qed.

Lemma filters_check_nodup : forall q fs vs vs', filters_check q fs vs = Some vs' -> NoDup (map fst vs) -> NoDup (map fst vs').
Proof.
  intros q. induction fs as [|f fs IH]; intros vs vs' H Hnd; cbn [filters_check] in H; [inversion H; subst; exact Hnd|].
  destruct (filter_check q f vs) as [v1|] eqn:E; [|discriminate]. eapply IH; [exact H|]. eapply filter_check_nodup; eauto.
Qed.

Lemma paging_check_nodup : forall q kv vs vs', paging_check q kv vs = Some vs' -> NoDup (map fst vs) -> NoDup (map fst vs').
Proof.
  intros q [k v] vs vs' H Hnd. cbn [paging_check] in H.
  destruct (key_info q k) as [i|]; [|discriminate].
  destruct v; try discriminate.
  - eapply vars_add_nodup; eauto.
  - destruct (ki_type i); inversion H; subst; exact Hnd.
  - destruct (ki_type i); inversion H; subst; exact Hnd.
  - destruct (ki_type i); inversion H; subst; exact Hnd.
  - destruct (ki_type i); try discriminate; [destruct (s_b64 s); inversion H; subst; exact Hnd|inversion H; subst; exact Hnd].
Qed.

Lemma pagings_check_nodup : forall q kvs vs vs', pagings_check q kvs vs = Some vs' -> NoDup (map fst vs) -> NoDup (map fst vs').
Proof.
  intros q. induction kvs as [|kv kvs IH]; intros vs vs' H Hnd; cbn [pagings_check] in H; [inversion H; subst; exact Hnd|].
  destruct (paging_check q kv vs) as [v1|] eqn:E; [|discriminate]. eapply IH; [exact H|]. eapply paging_check_nodup; eauto.
Qed.

Lemma aquery_check_nodup : forall q vs, aquery_check q = Some vs -> NoDup (map fst vs).
Proof.
  intros q vs H. unfold aquery_check in H.
  destruct (lim_var (aq_first q) []) as [v1|] eqn:E1; [|discriminate].
  destruct (lim_var (aq_skip q) v1) as [v2|] eqn:E2; [|discriminate].
  match type of H with match ?m with _ => _ end = _ => destruct m as [v3|] eqn:E3; [|discriminate] end.
  destruct (negb (forallb sel_ok (aq_sel q))); [discriminate|].
  destruct (filters_check q (aq_filters q) v3) as [v4|] eqn:E4; [|discriminate].
  repeat match type of H with (if ?c then None else _) = _ => destruct c; [discriminate|] end.
  destruct (pagings_check q (combine (aq_order q) (paging_of q)) v4) as [v5|] eqn:E5; [|discriminate].
  destruct (existsb is_sub_sel (aq_sel q) && is_aggregate q); [discriminate|]. inversion H; subst.
  eapply pagings_check_nodup; [exact E5|]. eapply filters_check_nodup; [exact E4|].
  assert (Hn2 : NoDup (map fst v2)).
  { eapply lim_var_nodup; [exact E2|]. eapply lim_var_nodup; [exact E1|constructor]. }
  destruct (aq_search q) as [[b|x b]|]; try (inversion E3; subst; exact Hn2).
  eapply vars_add_nodup; eauto.
Qed.

Theorem valid_aquery_executes : forall q,
  aquery_valid q = true -> search_blank q = false -> value_filter_on_aggregate q = false -> aquery_outcome q = OOk.
Proof.
  intros q Hv Hb Hr. unfold aquery_valid in Hv. unfold aquery_outcome.
  destruct (aquery_check q) as [vs|] eqn:Ec; [|discriminate].
  destruct (validate_params_succeeds vs (aq_params q) (aquery_check_nodup _ _ Ec)) as (ps' & Hps).
  { intros x vt Hin. rewrite forallb_forall in Hv. specialize (Hv _ Hin). cbn [fst snd] in Hv.
    destruct (lookup x (aq_params q)) as [p|]; [|discriminate]. exists p. split; [reflexivity|].
    destruct (validate_one vt p); [discriminate|discriminate]. }
  rewrite Hps, Hb, Hr. reflexivity.
Qed.

Lemma aquery_never_panics : forall q, aquery_outcome q <> OPanic.
Proof.
  intros q. unfold aquery_outcome. destruct (aquery_check q); [|discriminate].
  destruct (validate_params v (aq_params q)); [|discriminate].
  destruct (search_blank q); [discriminate|]. destruct (value_filter_on_aggregate q); discriminate.
Qed.

Theorem delete_never_panics : forall p, delete_outcome p <> OPanic.
Proof.
  intros [p0|]; cbn [delete_outcome]; [|discriminate].
  destruct p0 as [| |f|s|s|]; cbn [validate_one]; try discriminate.
  destruct (s_b64 s); [|discriminate]. cbn [as_string]. destruct (s_uid s); discriminate.
Qed.

Lemma valid_delete_executes : forall p, delete_valid p = true -> delete_outcome p = OOk.
Proof.
  intros [[| |f|s|s|]|] H; cbn [delete_valid] in H; try discriminate.
  apply andb_prop in H. destruct H as [Hb Hu]. cbn [delete_outcome validate_one]. rewrite Hb. cbn [as_string].
  destruct (s_uid s); [discriminate|reflexivity|reflexivity].
Qed.

(* the automaton over concatenations *)
Fixpoint cfold (st : cstate) (having : bool) (ts : list ctok) : option (cstate * bool) :=
  match ts with
  | [] => Some (st, having)
  | t :: r => match cstep st having t with Some (st', h') => cfold st' h' r | None => None end
  end.
Lemma crun_cfold : forall ts st h,
  crun st h ts = match cfold st h ts with Some (SCond, _) => false | Some _ => true | None => false end.
Proof.
  induction ts as [|t ts IH]; intros st h; cbn [crun cfold]; [destruct st; reflexivity|].
  destruct (cstep st h t) as [[st' h']|]; [apply IH|reflexivity].
Qed.
Lemma cfold_app : forall a b st h,
  cfold st h (a ++ b) = match cfold st h a with Some (st', h') => cfold st' h' b | None => None end.
Proof.
  induction a as [|t a IH]; intros b st h; cbn [app cfold]; [reflexivity|].
  destruct (cstep st h t) as [[st' h']|]; [apply IH|reflexivity].
Qed.
Lemma cfold_joined : forall n h, cfold SCond h (joined (S n)) = Some (SAfterCond, h).
Proof.
  induction n as [|n IH]; intros h; [reflexivity|].
  change (joined (S (S n))) with (CCond :: CAnd :: joined (S n)). cbn [cfold cstep]. apply IH.
Qed.
Lemma cfold_exists : forall sel nl i h, cfold SAfterCond h (exists_conds sel nl i) = Some (SAfterCond, h).
Proof.
  induction sel as [|s sel IH]; intros nl i h; cbn [exists_conds]; [reflexivity|].
  destruct s as [t n| |fn t| |[|]]; try apply IH.
  rewrite cfold_app. destruct (existsb (Nat.eqb i) nl); cbn [cfold cstep]; apply IH.
Qed.

Lemma agg_filter_needs_aggregate : forall q,
  filter (fun f => key_is_agg q (fst (fst f))) (aq_filters q) <> [] -> is_aggregate q = true.
Proof.
  intros q H. destruct (filter (fun f => key_is_agg q (fst (fst f))) (aq_filters q)) as [|f l] eqn:E; [contradiction|].
  assert (Hin : In f (filter (fun f => key_is_agg q (fst (fst f))) (aq_filters q))) by (rewrite E; left; reflexivity).
  apply filter_In in Hin. destruct Hin as [_ Hk]. unfold key_is_agg in Hk.
  destruct (fst (fst f)) as [t n| | |i|]; cbn [key_info] in Hk; try discriminate.
  destruct (nth_error (aq_sel q) i) as [s|] eqn:En; [|discriminate]. cbn [option_map] in Hk.
  unfold is_aggregate. apply existsb_exists. exists s. split; [eapply nth_error_In; eauto|].
  destruct s; cbn in Hk; try discriminate. reflexivity.
Qed.

Theorem clauses_grammatical : forall q, clauses_ok (emit_clauses q) = true.
Proof.
  intros q. unfold clauses_ok. rewrite crun_cfold. unfold emit_clauses. cbv zeta.
  pose proof (agg_filter_needs_aggregate q) as Hagg.
  set (nagg := List.length (filter (fun f => key_is_agg q (fst (fst f))) (aq_filters q))) in *.
  assert (Hagg' : nagg <> O -> is_aggregate q = true).
  { intros Hn. apply Hagg. intro E. apply Hn. unfold nagg. rewrite E. reflexivity. }
  clear Hagg.
  set (nplain := List.length (filter (fun f => negb (key_is_agg q (fst (fst f)))) (aq_filters q))).
  rewrite cfold_app. cbn [cfold cstep].
  rewrite cfold_app, cfold_exists.
  rewrite cfold_app.
  assert (Hs : cfold SAfterCond false (match aq_search q with Some _ => [CAnd; CCond] | None => [] end) = Some (SAfterCond, false))
    by (destruct (aq_search q); reflexivity).
  rewrite Hs. rewrite cfold_app.
  assert (Hp : cfold SAfterCond false (match nplain with O => [] | S _ => CAnd :: joined nplain end) = Some (SAfterCond, false)).
  { destruct nplain as [|n]; [reflexivity|]. cbn [cfold cstep]. apply cfold_joined. }
  rewrite Hp. clear Hs Hp.
  destruct (is_aggregate q) eqn:Eagg.
  - destruct nagg as [|n].
    + cbn [Nat.eqb negb orb andb joined app].
      destruct (existsb _ (aq_sel q)); destruct (match paging_of q with [] => true | _ => false end);
        destruct (negb (match aq_order q with [] => true | _ => false end) || match aq_search q with Some _ => true | None => false end);
        destruct (aq_first q), (aq_skip q); reflexivity.
    + cbn [Nat.eqb negb orb andb].
      rewrite cfold_app.
      destruct (existsb _ (aq_sel q)); cbn [app cfold cstep];
        rewrite cfold_app, cfold_joined;
        destruct (match paging_of q with [] => true | _ => false end);
        destruct (negb (match aq_order q with [] => true | _ => false end) || match aq_search q with Some _ => true | None => false end);
        destruct (aq_first q), (aq_skip q); reflexivity.
  - destruct nagg as [|n]; [|specialize (Hagg' (Nat.neq_succ_0 n)); discriminate].
    cbn [Nat.eqb negb orb andb joined app].
    destruct (match paging_of q with [] => true | _ => false end);
      destruct (negb (match aq_order q with [] => true | _ => false end) || match aq_search q with Some _ => true | None => false end);
      destruct (aq_first q), (aq_skip q); reflexivity.
Qed.

(* ------------------------------------------------------------------------------------------ *)
(** * frames from a peer: the channel readers never request more than their limit; rows with dates *)

Theorem read_channel_bounded : forall limit fs,
  (snd (read_channel limit fs) <= limit)%N /\ (fst (read_channel limit fs) <= N.of_nat (List.length fs))%N.
Proof.
  intros limit. induction fs as [|f fs IH]; cbn [read_channel fst snd List.length]; [split; lia|].
  destruct f as [len avail dec|]; [|cbn [fst snd]; split; lia].
  destruct (N.ltb limit len) eqn:El; [cbn [fst snd]; split; lia|]. apply N.ltb_ge in El.
  destruct (negb (N.leb len avail)); [cbn [fst snd]; split; lia|].
  destruct (negb dec); [cbn [fst snd]; split; lia|].
  destruct (read_channel limit fs) as [d a]. cbn [fst snd] in *. destruct IH as [IH1 IH2]. split; lia.
Qed.

Theorem conn_info_bounded : forall limit f, (snd (read_conn_info limit f) <= limit)%N.
Proof.
  intros limit [len avail dec|]; cbn [read_conn_info]; [|cbn [snd]; lia].
  destruct (N.ltb limit len) eqn:E; cbn [snd]; [lia|]. apply N.ltb_ge in E. exact E.
Qed.

Lemma connection_obs_shape : forall info ans qs evs,
  exists i a q e, connection_obs info ans qs evs = [i; zn a; zn q; zn e; 0]
    /\ (i = 0 \/ i = 1) /\ (a <= N.of_nat (List.length ans))%N /\ (q <= N.of_nat (List.length qs))%N /\ (e <= N.of_nat (List.length evs))%N.
Proof.
  intros info ans qs evs. unfold connection_obs.
  pose proof (conn_info_bounded max_buffer_size info) as Ha0.
  destruct (read_conn_info max_buffer_size info) as [ok a0]. cbn [snd] in Ha0.
  destruct ok.
  - destruct (read_channel_bounded max_buffer_size ans) as [A1 A2].
    destruct (read_channel_bounded max_buffer_size qs) as [Q1 Q2].
    destruct (read_channel_bounded max_buffer_size evs) as [E1 E2].
    destruct (read_channel max_buffer_size ans) as [da aa], (read_channel max_buffer_size qs) as [dq aq], (read_channel max_buffer_size evs) as [de ae].
    cbn [fst snd] in *. exists 1, da, dq, de. split; [|repeat split; auto].
    replace (N.leb alloc_bound (N.max (N.max a0 aa) (N.max aq ae))) with false; [reflexivity|].
    symmetry. apply N.leb_gt. unfold max_buffer_size, alloc_bound in *. lia.
  - exists 0, 0%N, 0%N, 0%N. split; [|repeat split; auto; lia].
    replace (N.leb alloc_bound a0) with false; [reflexivity|]. symmetry. apply N.leb_gt. unfold max_buffer_size, alloc_bound in *. lia.
Qed.

Theorem ingest_never_kills_the_writer : forall rf md, ingest_obs rf md = [0; 1].
Proof.
  intros rf md. unfold ingest_obs, ingest_fate_of.
  destruct (negb (is_valid_date md)); [reflexivity|]. destruct (Z.ltb md rf); reflexivity.
Qed.

(* what the check is for: a date that passed it has its day and its next day in the calendar *)
Lemma valid_date_has_next_day : forall ms, is_valid_date ms = true -> (day ms + ms_per_day <= last_day_start_ms)%Z.
Proof.
  intros ms H. unfold is_valid_date in H. apply andb_prop in H. destruct H as [_ H]. apply Z.ltb_lt in H.
  unfold day, ms_per_day, last_day_start_ms in *.
  assert (ms / 86400000 < 95026236)%Z by (apply Z.div_lt_upper_bound; lia). lia.
Qed.

(* ------------------------------------------------------------------------------------------ *)
(** * room definitions from a peer: the next start *)
Theorem room_def_restart_holds : forall m v, restart_succeeds m v = true.
Proof. intros m v. destruct m, v; try destruct b64; reflexivity. Qed.

(* every accepted row is one the loader reads *)
Theorem accepted_rows_load : forall m v, room_row_accepted m v = true -> loader_reads m v = true.
Proof. intros m v. destruct m, v; try destruct b64; cbn; intro H; try discriminate; reflexivity. Qed.

(* ------------------------------------------------------------------------------------------ *)
(** * the master statement: outside the listed classes the model satisfies the property's oracle *)

Lemma Forall2_map_same : forall A B C (f : A -> B) (g : A -> C) (R : B -> C -> Prop) l,
  (forall x, In x l -> R (f x) (g x)) -> Forall2 R (map f l) (map g l).
Proof.
  induction l as [|a l IH]; intros H; cbn [map]; constructor.
  - apply H. left. reflexivity.
  - apply IH. intros x Hx. apply H. right. exact Hx.
Qed.

Lemma default_parallelism_pos : default_parallelism <> 0%N.
Proof. discriminate. Qed.

Lemma mutation_step_ok : forall m,
  mutate_outcome m <> OPanic /\ (mutation_valid m = true -> mutate_outcome m = OOk).
Proof. intros m. split; [apply mutate_never_panics|apply valid_mutation_executes]. Qed.

Lemma row_step_ok : forall r, verify_row r <> OPanic /\ (false = true -> verify_row r = OOk).
Proof. intros r. split; [apply verify_row_never_panics|discriminate]. Qed.

Theorem run_spec_outside_known : forall c, known_C14 c = [] -> spec_C14 c (run_C14 c) = true.
Proof.
  intros c Hk. destruct c as [m|ms|k pok|r|rs|dm qs|dm q|aq|dp|info ans qs evs|rf md|rm rv|s]; cbn [known_C14 spec_C14 run_C14] in *.
  - apply (pool_run_ok [mutation_valid m] [mutate_outcome m] _ default_parallelism_pos).
    constructor; [apply mutation_step_ok|constructor].
  - apply (pool_run_ok (map mutation_valid ms) (map mutate_outcome ms) _ default_parallelism_pos).
    apply Forall2_map_same. intros m Hm. apply mutation_step_ok.
  - destruct (import_key k pok) eqn:E; cbn [outcome_code].
    + reflexivity.
    + destruct (key_wellformed k pok) eqn:Ew; [|reflexivity].
      rewrite (key_wellformed_imports _ _ Ew) in E. discriminate.
    + exfalso. exact (import_key_never_panics _ _ E).
  - destruct (verify_row r) eqn:E; cbn [outcome_code]; try reflexivity.
    exfalso. exact (verify_row_never_panics _ E).
  - apply (pool_run_ok (map (fun _ => false) rs) (map verify_row rs) _ default_parallelism_pos).
    apply Forall2_map_same. intros r Hr. apply row_step_ok.
  - destruct (query_valid dm qs) eqn:Ev.
    + rewrite (valid_query_executes dm qs Ev); [reflexivity|]. cbn [known_C14]. exact Hk.
    + unfold query_outcome. destruct (resolve_query dm qs []); [destruct (forallb entity_executes l)|]; reflexivity.
  - destruct (resolve_entity dm q) as [ce|] eqn:Er.
    + apply flag_nil in Hk.
      destruct (size_spec dm q ce Er) as (Hp & Hs). specialize (Hs Hk).
      destruct (counts_entity ce) as [[a b] d] eqn:Ec. cbn [c3_list]. cbn [sel3 lp3 rp3 fst snd] in Hp, Hs.
      cbn [Z.eqb]. subst d. unfold zn. rewrite Z.eqb_refl. cbn [andb]. apply Z.leb_le. lia.
    + cbn [Z.eqb]. destruct (entity_valid dm q) eqn:Ev; [|reflexivity].
      destruct (entity_valid_resolves dm q Ev) as (c & Hc). rewrite Hc in Er. discriminate.
  - apply app_eq_nil in Hk. destruct Hk as [H5 H8]. apply flag_nil in H5, H8.
    apply (pool_run_ok [aquery_valid aq] [aquery_outcome aq] _ default_parallelism_pos).
    constructor; [|constructor]. split; [apply aquery_never_panics|]. intro Hv. apply valid_aquery_executes; assumption.
  - apply (pool_run_ok [delete_valid dp] [delete_outcome dp] _ default_parallelism_pos).
    constructor; [|constructor]. split; [apply delete_never_panics|apply valid_delete_executes].
  - destruct (connection_obs_shape info ans qs evs) as (i & a & q & e & Ho & Hi & Ha & Hq & He).
    rewrite Ho. cbn [app]. unfold zn.
    replace (Z.eqb i 0 || Z.eqb i 1) with true by (destruct Hi; subst; reflexivity).
    cbn [Z.eqb andb].
    repeat (apply andb_true_intro; split); try reflexivity; apply Z.leb_le; lia.
  - rewrite (ingest_never_kills_the_writer rf md). reflexivity.
  - unfold room_def_obs. rewrite (room_def_restart_holds rm rv). destruct (room_row_accepted rm rv); reflexivity.
  - reflexivity.
Qed.

(* ------------------------------------------------------------------------------------------ *)
(** * witnesses: the inputs of the repaired classes 1-4 now satisfy the oracle; closed witnesses of
      what the current code still does for classes 5-7 *)

Definition str_json : strc := {| s_b64 := false; s_json := true; s_uid := UNot16 |}.
Definition k1_witness : mutation :=
  {| m_decl := [(FJson, Nullable)]; m_vals := [(RField 0, MVar 1%N)]; m_params := [(1%N, PNull)] |}.
Definition k1_literal_witness : mutation :=
  {| m_decl := [(FJson, Nullable)]; m_vals := [(RField 0, MNull)]; m_params := [] |}.
Definition ok_witness : mutation :=
  {| m_decl := [(FJson, Nullable)]; m_vals := [(RField 0, MVar 1%N)]; m_params := [(1%N, PStr str_json)] |}.

Import String.
Definition w_dm : dmodel :=
  [ {| de_ns := cp "d"; de_name := cp "Person";
       de_fields := [(cp "name", KScalar false false); (cp "pets", KRef true 1 true); (cp "order", KRef false 1 true);
                     (cp "jd", KScalar true true)] |};
    {| de_ns := cp "d"; de_name := cp "Pet"; de_fields := [(cp "name", KScalar false false)] |};
    {| de_ns := cp "d"; de_name := cp "Tree"; de_fields := [(cp "name", KScalar false false); (cp "kids", KRef true 2 true); (cp "nn", KRef true 2 false)] |} ]%string.
Definition w_q (alias : option ident) (search : option (list N)) (fs : list rfield) : rentity :=
  {| re_alias := alias; re_ns := cp "d"; re_name := cp "Person"; re_search := search; re_fields := fs |}%string.
Definition w_tree (fs : list rfield) : rentity :=
  {| re_alias := None; re_ns := cp "d"; re_name := cp "Tree"; re_search := None; re_fields := fs |}%string.
Fixpoint w_chain (field : ident) (d : nat) : rfield :=
  match d with O => RNamed None (cp "name") | S k => RSub None field [w_chain field k] end.

(* the former witnesses of classes 1-4, as cases of the harness: all outside the listed classes,
   all pass the oracle *)
Lemma repaired_witnesses_w :
  let name := RNamed None (cp "name") in
  run_C14 (CMut k1_witness) = [0; 1] /\ run_C14 (CMut k1_literal_witness) = [0; 1] /\
  run_C14 (CMutSeq [k1_witness; k1_witness; k1_witness; k1_witness; ok_witness]) = [0; 1; 0; 1; 0; 1; 0; 1; 0; 1] /\
  run_C14 (CKey [] false) = [1] /\ run_C14 (CRow (RowNode false JObject [] false 64 false)) = [1] /\
  run_C14 (CQuery w_dm [w_q (Some (cp "group")) None [name]]) = [0; 1] /\
  run_C14 (CQuery w_dm [w_q None None [RSub None (cp "order") [name]]]) = [0; 1] /\
  run_C14 (CQuery w_dm [w_q (Some (cp "1a")) None [name]]) = [0; 1] /\
  run_C14 (CQuery w_dm [w_q None None [RJson (cp "a") (cp "jd")]]) = [0; 1].
Proof. vm_compute. repeat split; reflexivity. Qed.

Lemma valid_executes_refuted_w :
  let name := RNamed None (cp "name") in
  (* blank search text *)
  (query_valid w_dm [w_q None (Some []) [name]] = true /\ query_outcome w_dm [w_q None (Some []) [name]] = OErr) /\
  (* five array levels *)
  (query_valid w_dm [w_tree [w_chain (cp "kids") 5]] = true /\ query_outcome w_dm [w_tree [w_chain (cp "kids") 5]] = OErr) /\
  (* and the same requests with a word to search / one level less execute *)
  query_outcome w_dm [w_q (Some (cp "grp")) (Some (cp "word")) [name; RSub (Some (cp "o")) (cp "order") [name]]] = OOk /\
  query_outcome w_dm [w_tree [w_chain (cp "kids") 4]] = OOk.
Proof. vm_compute. repeat split; reflexivity. Qed.

(* statement size: a chain of d non-nullable array references compiles to 3 * 2^d - 1 SELECTs *)
Fixpoint nn_chain (key : ident) (d : nat) : cfield :=
  match d with O => CScalar false false false | S k => CSub key true false [nn_chain key k] end.

Theorem blowup_exponential : forall key d, (tot (nn_chain key d) + 3 = 3 * 2 ^ N.of_nat d)%N.
Proof.
  intros key. induction d as [|d IH]; [reflexivity|].
  cbn [nn_chain]. destruct (counts_sel_sub key true false [nn_chain key d]) as (H1 & H2).
  unfold tot at 1. rewrite H1, H2. cbn [map sumN fold_right].
  rewrite Nat2N.inj_succ, N.pow_succ_r'. lia.
Qed.

Lemma size_refuted_w :
  run_C14 (CQSize w_dm (w_tree [w_chain (cp "nn") 10])) = [1; 3071; 6141; 6141]
  /\ spec_C14 (CQSize w_dm (w_tree [w_chain (cp "nn") 10])) [1; 3071; 6141; 6141] = false
  /\ entity_valid w_dm (w_tree [w_chain (cp "nn") 10]) = true.
Proof. vm_compute. auto. Qed.

(* the hypotheses of the theorems are satisfiable: cases outside every class, with every verdict *)
Lemma nonvacuous_w :
  known_C14 (CQuery w_dm [w_q (Some (cp "grp")) None [RNamed None (cp "name"); RSub None (cp "pets") [RNamed None (cp "name")]]]) = [] /\
  query_valid w_dm [w_q (Some (cp "grp")) None [RNamed None (cp "name"); RSub None (cp "pets") [RNamed None (cp "name")]]] = true /\
  run_C14 (CMut ok_witness) = [0; 1] /\ mutation_valid ok_witness = true /\ mutation_valid k1_witness = true /\
  run_C14 (CKey [1%N] true) = [1] /\
  known_C14 (CQSize w_dm (w_tree [w_chain (cp "nn") 1])) = [] /\
  run_C14 (CQSize w_dm (w_tree [w_chain (cp "nn") 1])) = [1; 5; 9; 9].
Proof. vm_compute. repeat split; reflexivity. Qed.

(* ------------------------------------------------------------------------------------------ *)
(** * sequences of requests against one instance *)

Theorem sequences_keep_the_pool : forall ms,
  steps_ok (map mutation_valid ms) (pool_run default_parallelism (map mutate_outcome ms)) = true /\
  pool_live default_parallelism (map mutate_outcome ms) = default_parallelism.
Proof.
  intros ms. apply (pool_run_ok (map mutation_valid ms) (map mutate_outcome ms) _ default_parallelism_pos).
  apply Forall2_map_same. intros m Hm. apply mutation_step_ok.
Qed.

Theorem verifier_pool_kept : forall rs,
  steps_ok (map (fun _ => false) rs) (pool_run default_parallelism (map verify_row rs)) = true /\
  pool_live default_parallelism (map verify_row rs) = default_parallelism.
Proof.
  intros rs. apply (pool_run_ok (map (fun _ => false) rs) (map verify_row rs) _ default_parallelism_pos).
  apply Forall2_map_same. intros r Hr. apply row_step_ok.
Qed.

(* what a panic would cost (the bookkeeping of the pool itself, kept as a statement about
   pool_step: n panicking requests on n threads leave none) *)
Theorem panics_exhaust_the_pool : forall os live,
  Forall (fun o => o = OPanic) os -> (live <= N.of_nat (List.length os))%N -> pool_live live os = 0%N.
Proof.
  induction os as [|o os IH]; intros live Ho Hl; cbn [pool_live].
  - cbn in Hl. lia.
  - inversion Ho as [|? ? Hp Ho']; subst. unfold pool_step. destruct (N.eqb live 0) eqn:E; cbn [fst].
    + clear - Ho'. induction os as [|o os IH]; cbn [pool_live]; [reflexivity|]. inversion Ho'; subst. cbn. apply IH. assumption.
    + apply IH; [exact Ho'|]. apply N.eqb_neq in E. cbn [List.length] in Hl. lia.
Qed.

(* ------------------------------------------------------------------------------------------ *)
(** * the arithmetic counters are the counters of the emitted token list *)

Local Arguments N.add : simpl never.

Definition cnt3 (ts : list tok) : c3 := (count_tok is_sel ts, count_tok is_l ts, count_tok is_r ts).

Lemma c3_ext : forall a b : c3, sel3 a = sel3 b -> lp3 a = lp3 b -> rp3 a = rp3 b -> a = b.
Proof. intros [[a1 a2] a3] [[b1 b2] b3]; cbn; intros; subst; reflexivity. Qed.

Lemma count_tok_app : forall p a b, count_tok p (a ++ b) = (count_tok p a + count_tok p b)%N.
Proof. intros. unfold count_tok, nlen. rewrite filter_app, app_length. lia. Qed.

Lemma cnt3_app : forall a b, cnt3 (a ++ b) = c3_add (cnt3 a) (cnt3 b).
Proof. intros. unfold cnt3. rewrite !count_tok_app. reflexivity. Qed.

Lemma cnt3_concat : forall ls, cnt3 (List.concat ls) = c3_sum (map cnt3 ls).
Proof.
  induction ls as [|a ls IH]; cbn [List.concat map c3_sum fold_right]; [reflexivity|].
  rewrite cnt3_app, IH. reflexivity.
Qed.

Lemma c3_sum_ext : forall A (f g : A -> c3) l, (forall x, In x l -> f x = g x) -> c3_sum (map f l) = c3_sum (map g l).
Proof.
  induction l as [|a l IH]; intros H; cbn [map c3_sum fold_right]; [reflexivity|].
  fold (c3_sum (map f l)). fold (c3_sum (map g l)). rewrite (H a (or_introl eq_refl)), IH; [reflexivity|].
  intros; apply H; right; assumption.
Qed.

Theorem counts_are_token_counts : forall c parent,
  cnt3 (fst (emit parent c)) = fst (counts c) /\ cnt3 (snd (emit parent c)) = snd (counts c).
Proof.
  induction c as [s b d|d|key arr nl subs IH] using cfield_ind'; intros parent.
  - destruct s, b, d; split; reflexivity.
  - destruct d; split; reflexivity.
  - rewrite emit_sub_eq, counts_sub_eq. cbv zeta.
    set (A := List.concat (map fst (map (emit key) subs))). set (B := List.concat (map snd (map (emit key) subs))).
    set (Ac := c3_sum (map fst (map counts subs))). set (Bc := c3_sum (map snd (map counts subs))).
    assert (HA : cnt3 A = Ac).
    { unfold A, Ac. rewrite cnt3_concat, !map_map. apply c3_sum_ext. intros x Hx. rewrite Forall_forall in IH. apply (IH x Hx key). }
    assert (HB : cnt3 B = Bc).
    { unfold B, Bc. rewrite cnt3_concat, !map_map. apply c3_sum_ext. intros x Hx. rewrite Forall_forall in IH. apply (IH x Hx key). }
    assert (Hbody : cnt3 (sub_body parent key A B) = c3_add (1, 1, 1)%N (c3_add Ac Bc)).
    { unfold sub_body. rewrite !cnt3_app, HA, HB.
      destruct Ac as [[a1 a2] a3], Bc as [[b1 b2] b3]. cbn. f_equal; [f_equal|]; lia. }
    cbn [fst snd]. split.
    + destruct arr; rewrite !cnt3_app, Hbody; destruct (c3_add (1, 1, 1)%N (c3_add Ac Bc)) as [[x1 x2] x3]; cbn; f_equal; [f_equal| |f_equal|]; lia.
    + destruct nl; [reflexivity|]. rewrite !cnt3_app, Hbody. destruct (c3_add (1, 1, 1)%N (c3_add Ac Bc)) as [[x1 x2] x3]. cbn. f_equal; [f_equal|]; lia.
Qed.

Theorem counts_entity_are_token_counts : forall c, cnt3 (emit_entity c) = counts_entity c.
Proof.
  intros c. unfold emit_entity, counts_entity. cbv zeta.
  set (A := List.concat (map fst (map (emit (ce_alias c)) (ce_fields c)))). set (B := List.concat (map snd (map (emit (ce_alias c)) (ce_fields c)))).
  set (Ac := c3_sum (map fst (map counts (ce_fields c)))). set (Bc := c3_sum (map snd (map counts (ce_fields c)))).
  assert (HA : cnt3 A = Ac).
  { unfold A, Ac. rewrite cnt3_concat, !map_map. apply c3_sum_ext. intros x Hx. apply (counts_are_token_counts x (ce_alias c)). }
  assert (HB : cnt3 B = Bc).
  { unfold B, Bc. rewrite cnt3_concat, !map_map. apply c3_sum_ext. intros x Hx. apply (counts_are_token_counts x (ce_alias c)). }
  rewrite !cnt3_app, HA, HB. destruct Ac as [[a1 a2] a3], Bc as [[b1 b2] b3].
  destruct (ce_search c); cbn; f_equal; [f_equal| |f_equal|]; lia.
Qed.

(* ------------------------------------------------------------------------------------------ *)
(** * witnesses for the clause language *)
Definition w_paged_agg : aquery :=      (* Person(order_by(nat asc), after("en")) { nat total: count() } *)
  {| aq_sel := [ASField FString false; ASAgg ACount FString]; aq_search := None; aq_order := [KEnt FString false];
     aq_first := None; aq_skip := None; aq_before := [];
     aq_after := [AStr {| s_b64 := false; s_json := false; s_uid := UNot16 |}];
     aq_filters := []; aq_nullable := []; aq_params := [] |}.
Definition w_ref_filter_agg : aquery :=  (* Person(pets = null) { total: count() } *)
  {| aq_sel := [ASAgg ACount FString]; aq_search := None; aq_order := []; aq_first := None; aq_skip := None;
     aq_before := []; aq_after := []; aq_filters := [(KEntRef, true, ANull)]; aq_nullable := []; aq_params := [] |}.

Definition w_alias_filter_agg : aquery :=  (* Person(order_by(a0 asc), a1 >= null) { a0: max(nat) a1: js->$.a ok } *)
  {| aq_sel := [ASAgg AMax FString; ASJson; ASField FBool true]; aq_search := None; aq_order := [KSel 0]; aq_first := None; aq_skip := None;
     aq_before := []; aq_after := []; aq_filters := [(KSel 1, false, ANull)]; aq_nullable := []; aq_params := [] |}.

Lemma room_def_witnesses_w :
  run_C14 (CRoomDef MUserEnabled JMissing) = [0; 1; 1] /\ known_C14 (CRoomDef MUserEnabled JMissing) = [] /\
  spec_C14 (CRoomDef MUserEnabled JMissing) [0; 1; 1] = true /\
  run_C14 (CRoomDef MUserEnabled JNull) = [1; 1; 1] /\ run_C14 (CRoomDef MUserEnabled JBoolean) = [0; 1; 1] /\
  run_C14 (CRoomDef MRightSelf JNumber) = [1; 1; 1] /\ run_C14 (CRoomDef MAuthName JNull) = [0; 1; 1].
Proof. vm_compute. repeat split; reflexivity. Qed.

Lemma frame_witnesses_w :
  run_C14 (CFrames (FFrame 4294967295 0 false) [] [] []) = [0; 0; 0; 0; 0; 1] /\
  spec_C14 (CFrames (FFrame 4294967295 0 false) [] [] []) [0; 0; 0; 0; 0; 1] = true /\
  run_C14 (CFrames (FFrame 90 90 true) [] [FFrame 45 45 true; FFrame 4294967295 45 false; FFrame 45 45 true] []) = [1; 0; 1; 0; 0; 1] /\
  run_C14 (CIngest 1000 9223372036854775807) = [0; 1] /\ run_C14 (CIngest 1000 8210266876800000) = [0; 1] /\
  run_C14 (CIngest 1000 8210266790400000) = [0; 1] /\ run_C14 (CIngest 1000 8210266790399999) = [0; 1] /\
  run_C14 (CIngest 1000 (-5)) = [0; 1] /\ known_C14 (CIngest 1000 9223372036854775807) = [].
Proof. vm_compute. repeat split; reflexivity. Qed.

Lemma clause_witnesses_w :
  aquery_valid w_paged_agg = true /\ known_C14 (CAgg w_paged_agg) = [] /\ run_C14 (CAgg w_paged_agg) = [0; 1] /\
  emit_clauses w_paged_agg = [CCond; CGroup; CHaving; CCond; COrder] /\
  aquery_valid w_ref_filter_agg = true /\ aquery_outcome w_ref_filter_agg = OErr /\ known_C14 (CAgg w_ref_filter_agg) = [8] /\
  aquery_valid w_alias_filter_agg = true /\ aquery_outcome w_alias_filter_agg = OErr /\ known_C14 (CAgg w_alias_filter_agg) = [8].
Proof. vm_compute. repeat split; reflexivity. Qed.
