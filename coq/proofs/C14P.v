(* C14P.v — proofs for C14 (model: model/Inputs.v, entry points: run/Run_C14.v) *)
From DV Require Import Run_C14.
From Coq Require Import Lia.

Local Open Scope bool_scope.

(* ------------------------------------------------------------------------------------------ *)
(** * association lists *)

Lemma lookup_remove_neq : forall A (x y : N) (l : list (N * A)),
  x <> y -> lookup x (remove y l) = lookup x l.
Proof.
  intros A x y l Hxy. unfold remove. induction l as [|[z a] l IH]; cbn [filter lookup fst]; [reflexivity|].
  destruct (N.eqb y z) eqn:Eyz; cbn [negb].
  - apply N.eqb_eq in Eyz. subst z. rewrite IH.
    destruct (N.eqb x y) eqn:Exy; [apply N.eqb_eq in Exy; contradiction|reflexivity].
  - cbn [lookup]. destruct (N.eqb x z); [reflexivity|exact IH].
Qed.

Lemma lookup_cons_eq : forall A (x : N) (a : A) l, lookup x ((x, a) :: l) = Some a.
Proof. intros. cbn [lookup]. rewrite N.eqb_refl. reflexivity. Qed.

Lemma lookup_cons_neq : forall A (x y : N) (a : A) l, x <> y -> lookup x ((y, a) :: l) = lookup x l.
Proof.
  intros A x y a l H. cbn [lookup]. destruct (N.eqb x y) eqn:E; [apply N.eqb_eq in E; contradiction|reflexivity].
Qed.

Lemma lookup_in : forall A (x : N) (a : A) l, lookup x l = Some a -> In x (map fst l).
Proof.
  intros A x a l. induction l as [|[y b] l IH]; cbn [lookup map fst]; [discriminate|].
  destruct (N.eqb x y) eqn:E; intro H.
  - left. apply N.eqb_eq in E. auto.
  - right. auto.
Qed.

Lemma lookup_none_notin : forall A (x : N) (l : list (N * A)), lookup x l = None -> ~ In x (map fst l).
Proof.
  intros A x l. induction l as [|[y b] l IH]; cbn [lookup map fst]; [intros _ []|].
  destruct (N.eqb x y) eqn:E; [discriminate|]. intros H [H1|H1].
  - subst y. rewrite N.eqb_refl in E. discriminate.
  - exact (IH H H1).
Qed.

Lemma lookup_app_left : forall A (x : N) (l1 l2 : list (N * A)) a,
  lookup x l1 = Some a -> lookup x (l1 ++ l2) = Some a.
Proof.
  intros A x l1 l2 a. induction l1 as [|[y b] l1 IH]; cbn [lookup app]; [discriminate|].
  destruct (N.eqb x y); auto.
Qed.

Lemma lookup_app_none : forall A (x : N) (l1 l2 : list (N * A)),
  lookup x l1 = None -> lookup x (l1 ++ l2) = lookup x l2.
Proof.
  intros A x l1 l2. induction l1 as [|[y b] l1 IH]; cbn [lookup app]; [reflexivity|].
  destruct (N.eqb x y); [discriminate|auto].
Qed.

(* ------------------------------------------------------------------------------------------ *)
(** * Variables::validate_params: after an accepted validation every declared variable is
      bound, to the value validate_one made of the value the caller supplied *)

Lemma validate_params_frame : forall vs ps ps' x,
  validate_params vs ps = Some ps' -> ~ In x (map fst vs) -> lookup x ps' = lookup x ps.
Proof.
  induction vs as [|[y vt] vs IH]; intros ps ps' x H Hn; cbn [validate_params] in H.
  - inversion H. reflexivity.
  - destruct (lookup y ps) as [p|] eqn:Ely; [|discriminate].
    destruct (validate_one vt p) as [p'|] eqn:Ev; [|discriminate].
    cbn [map fst] in Hn.
    assert (Hxy : x <> y) by (intro; subst; apply Hn; left; reflexivity).
    rewrite (IH _ _ x H) by (intro; apply Hn; right; assumption).
    rewrite lookup_cons_neq by exact Hxy. apply lookup_remove_neq. exact Hxy.
Qed.

Theorem validate_params_binds : forall vs ps ps',
  NoDup (map fst vs) ->
  validate_params vs ps = Some ps' ->
  forall x vt, In (x, vt) vs ->
    exists p0 p', lookup x ps = Some p0 /\ validate_one vt p0 = Some p' /\ lookup x ps' = Some p'.
Proof.
  induction vs as [|[y vt0] vs IH]; intros ps ps' Hnd H x vt Hin; [destruct Hin|].
  cbn [validate_params] in H. cbn [map fst] in Hnd. inversion Hnd as [|? ? Hny Hnd']; subst.
  destruct (lookup y ps) as [p|] eqn:Ely; [|discriminate].
  destruct (validate_one vt0 p) as [p'|] eqn:Ev; [|discriminate].
  destruct Hin as [Heq|Hin].
  - inversion Heq; subst. exists p, p'. repeat split; auto.
    rewrite (validate_params_frame _ _ _ x H Hny). apply lookup_cons_eq.
  - assert (Hxy : x <> y).
    { intro; subst. apply Hny. change y with (fst (y, vt)). apply in_map. exact Hin. }
    destruct (IH _ _ Hnd' H x vt Hin) as (p0 & p1 & H0 & H1 & H2).
    exists p0, p1. repeat split; auto.
    rewrite lookup_cons_neq in H0 by exact Hxy. rewrite lookup_remove_neq in H0 by exact Hxy. exact H0.
Qed.
