(* C14P.v — proofs for C14 (model: model/Inputs.v, entry points: run/Run_C14.v) *)
From DV Require Import Run_C14.
From Coq Require Import Lia.

Local Open Scope bool_scope.

(* ------------------------------------------------------------------------------------------ *)
(** * association lists *)

Lemma lookup_remove_neq : forall A (x y : N) (l : list (N * A)),
  x <> y -> lookup x (remove y l) = lookup x l.
Proof.
  intros A x y l Hxy. unfold remove. induction l as [|[z a] l IH]; cbn [filter lookup fst]; [reflexivity|].
  destruct (N.eqb y z) eqn:Eyz; cbn [negb].
  - apply N.eqb_eq in Eyz. subst z. rewrite IH.
    destruct (N.eqb x y) eqn:Exy; [apply N.eqb_eq in Exy; contradiction|reflexivity].
  - cbn [lookup]. destruct (N.eqb x z); [reflexivity|exact IH].
Qed.

Lemma lookup_cons_eq : forall A (x : N) (a : A) l, lookup x ((x, a) :: l) = Some a.
Proof. intros. cbn [lookup]. rewrite N.eqb_refl. reflexivity. Qed.

Lemma lookup_cons_neq : forall A (x y : N) (a : A) l, x <> y -> lookup x ((y, a) :: l) = lookup x l.
Proof.
  intros A x y a l H. cbn [lookup]. destruct (N.eqb x y) eqn:E; [apply N.eqb_eq in E; contradiction|reflexivity].
Qed.

Lemma lookup_in : forall A (x : N) (a : A) l, lookup x l = Some a -> In x (map fst l).
Proof.
  intros A x a l. induction l as [|[y b] l IH]; cbn [lookup map fst]; [discriminate|].
  destruct (N.eqb x y) eqn:E; intro H.
  - left. apply N.eqb_eq in E. auto.
  - right. auto.
Qed.

Lemma lookup_none_notin : forall A (x : N) (l : list (N * A)), lookup x l = None -> ~ In x (map fst l).
Proof.
  intros A x l. induction l as [|[y b] l IH]; cbn [lookup map fst]; [intros _ []|].
  destruct (N.eqb x y) eqn:E; [discriminate|]. intros H [H1|H1].
  - subst y. rewrite N.eqb_refl in E. discriminate.
  - exact (IH H H1).
Qed.

Lemma lookup_app_left : forall A (x : N) (l1 l2 : list (N * A)) a,
  lookup x l1 = Some a -> lookup x (l1 ++ l2) = Some a.
Proof.
  intros A x l1 l2 a. induction l1 as [|[y b] l1 IH]; cbn [lookup app]; [discriminate|].
  destruct (N.eqb x y); auto.
Qed.

Lemma lookup_app_none : forall A (x : N) (l1 l2 : list (N * A)),
  lookup x l1 = None -> lookup x (l1 ++ l2) = lookup x l2.
Proof.
  intros A x l1 l2. induction l1 as [|[y b] l1 IH]; cbn [lookup app]; [reflexivity|].
  destruct (N.eqb x y); [discriminate|auto].
Qed.

(* ------------------------------------------------------------------------------------------ *)
(** * Variables::validate_params: after an accepted validation every declared variable is
      bound, to the value validate_one made of the value the caller supplied *)

Lemma validate_params_frame : forall vs ps ps' x,
  validate_params vs ps = Some ps' -> ~ In x (map fst vs) -> lookup x ps' = lookup x ps.
Proof.
  induction vs as [|[y vt] vs IH]; intros ps ps' x H Hn; cbn [validate_params] in H.
  - inversion H. reflexivity.
  - destruct (lookup y ps) as [p|] eqn:Ely; [|discriminate].
    destruct (validate_one vt p) as [p'|] eqn:Ev; [|discriminate].
    cbn [map fst] in Hn.
    assert (Hxy : x <> y) by (intro; subst; apply Hn; left; reflexivity).
    rewrite (IH _ _ x H) by (intro; apply Hn; right; assumption).
    rewrite lookup_cons_neq by exact Hxy. apply lookup_remove_neq. exact Hxy.
Qed.

Theorem validate_params_binds : forall vs ps ps',
  NoDup (map fst vs) ->
  validate_params vs ps = Some ps' ->
  forall x vt, In (x, vt) vs ->
    exists p0 p', lookup x ps = Some p0 /\ validate_one vt p0 = Some p' /\ lookup x ps' = Some p'.
Proof.
  induction vs as [|[y vt0] vs IH]; intros ps ps' Hnd H x vt Hin; [destruct Hin|].
  cbn [validate_params] in H. cbn [map fst] in Hnd. inversion Hnd as [|? ? Hny Hnd']; subst.
  destruct (lookup y ps) as [p|] eqn:Ely; [|discriminate].
  destruct (validate_one vt0 p) as [p'|] eqn:Ev; [|discriminate].
  destruct Hin as [Heq|Hin].
  - inversion Heq; subst. exists p, p'. repeat split; auto.
    rewrite (validate_params_frame _ _ _ x H Hny). apply lookup_cons_eq.
  - assert (Hxy : x <> y).
    { intro; subst. apply Hny. change y with (fst (y, vt)). apply in_map. exact Hin. }
    destruct (IH _ _ Hnd' H x vt Hin) as (p0 & p1 & H0 & H1 & H2).
    exists p0, p1. repeat split; auto.
    rewrite lookup_cons_neq in H0 by exact Hxy. rewrite lookup_remove_neq in H0 by exact Hxy. exact H0.
Qed.

(* ------------------------------------------------------------------------------------------ *)
(** * parsing of a mutation: what the entries and the variable table look like *)

Lemma lookup_in_pair : forall A (x : N) (a : A) l, lookup x l = Some a -> In (x, a) l.
Proof.
  intros A x a l. induction l as [|[y b] l IH]; cbn [lookup]; [discriminate|].
  destruct (N.eqb x y) eqn:E; intro H.
  - apply N.eqb_eq in E. inversion H. subst. left. reflexivity.
  - right. auto.
Qed.

Lemma vtype_eqb_eq : forall a b, vtype_eqb a b = true -> a = b.
Proof.
  intros a b; destruct a, b; cbn [vtype_eqb]; try discriminate; try reflexivity;
    intro H; apply Bool.eqb_prop in H; subst; reflexivity.
Qed.

Lemma NoDup_app_one : forall A (l : list A) a, NoDup l -> ~ In a l -> NoDup (l ++ [a]).
Proof.
  intros A l a Hnd Hn. induction Hnd as [|b l Hb Hnd IH]; cbn [app].
  - constructor; [intros []|constructor].
  - constructor.
    + intro Hin. apply in_app_or in Hin. destruct Hin as [Hin|[Hin|[]]]; [contradiction|].
      subst. apply Hn. left. reflexivity.
    + apply IH. intro. apply Hn. right. assumption.
Qed.

Lemma vars_add_spec : forall vs x vt vs',
  vars_add vs x vt = Some vs' -> NoDup (map fst vs) ->
  NoDup (map fst vs') /\ In (x, vt) vs' /\ incl vs vs'.
Proof.
  intros vs x vt vs' H Hnd. unfold vars_add in H.
  destruct (lookup x vs) as [vt'|] eqn:El.
  - destruct (vtype_eqb vt' vt) eqn:Ee; [|discriminate]. inversion H; subst.
    apply vtype_eqb_eq in Ee. subst. split; [exact Hnd|]. split; [apply lookup_in_pair; exact El|apply incl_refl].
  - inversion H; subst. split.
    + rewrite map_app. cbn [map fst]. apply NoDup_app_one; [exact Hnd|]. apply lookup_none_notin. exact El.
    + split; [apply in_or_app; right; left; reflexivity|apply incl_appl, incl_refl].
Qed.

Lemma parse_value_spec : forall k v vs fv vs',
  parse_value k v vs = Some (fv, vs') -> NoDup (map fst vs) ->
  NoDup (map fst vs') /\ incl vs vs' /\ (forall x, fv = FVar x -> v = MVar x /\ In (x, variable_type k) vs').
Proof.
  intros k v vs fv vs' H Hnd. destruct v; cbn [parse_value] in H.
  - destruct (vars_add vs x (variable_type k)) as [vs1|] eqn:Ea; [|discriminate]. inversion H; subst.
    destruct (vars_add_spec _ _ _ _ Ea Hnd) as (H1 & H2 & H3). split; [exact H1|]. split; [exact H3|].
    intros y Hy. inversion Hy; subst. split; [reflexivity|exact H2].
  - destruct (field_nullable k); [|discriminate]. inversion H; subst. repeat split; auto using incl_refl; intros; discriminate.
  - destruct (field_type k); try discriminate; inversion H; subst; repeat split; auto using incl_refl; intros; discriminate.
  - destruct (field_type k); try discriminate; [inversion H; subst; repeat split; auto using incl_refl; intros; discriminate|].
    destruct fits_i64; [|discriminate]. inversion H; subst; repeat split; auto using incl_refl; intros; discriminate.
  - destruct (field_type k); try discriminate; inversion H; subst; repeat split; auto using incl_refl; intros; discriminate.
  - destruct (field_type k); try discriminate.
    + destruct (s_b64 s); [|discriminate]. inversion H; subst; repeat split; auto using incl_refl; intros; discriminate.
    + inversion H; subst; repeat split; auto using incl_refl; intros; discriminate.
    + destruct (s_json s); [|discriminate]. inversion H; subst; repeat split; auto using incl_refl; intros; discriminate.
Qed.

(* an entry of the parsed mutation that comes from the text of the request [all] *)
Definition from_text (decl : list (ftype * nullab)) (all : list (fref * mvalue)) (vs : vars)
           (e : fref * fkind * mfv) : Prop :=
  let '(r, k, fv) := e in
  fkind_of decl r = Some k
  /\ (exists v vs0 vs1, In (r, v) all /\ parse_value k v vs0 = Some (fv, vs1))
  /\ (forall x, fv = FVar x -> In (x, variable_type k) vs).

Lemma from_text_mono : forall decl all vs vs' e, incl vs vs' -> from_text decl all vs e -> from_text decl all vs' e.
Proof.
  intros decl all vs vs' [[r k] fv] Hi (H1 & H2 & H3). repeat split; auto.
Qed.

Lemma parse_fields_inv : forall decl all fs acc vs l vs',
  parse_fields decl fs acc vs = Some (l, vs') ->
  incl fs all -> NoDup (map fst vs) -> Forall (from_text decl all vs) acc ->
  NoDup (map fst vs') /\ Forall (from_text decl all vs') l.
Proof.
  intros decl all. induction fs as [|[r v] fs IH]; intros acc vs l vs' H Hincl Hnd Hacc; cbn [parse_fields] in H.
  - inversion H; subst. split; assumption.
  - destruct (fkind_of decl r) as [k|] eqn:Ek; [|discriminate].
    destruct (parse_value k v vs) as [[fv vs1]|] eqn:Ep; [|discriminate].
    destruct (existsb (fun e => fref_eqb (fst (fst e)) r) acc); [discriminate|].
    destruct (parse_value_spec _ _ _ _ _ Ep Hnd) as (Hnd1 & Hi1 & Hv).
    apply (IH _ _ _ _ H); [intros x Hx; apply Hincl; right; exact Hx|exact Hnd1|].
    apply Forall_app. split.
    + eapply Forall_impl; [|exact Hacc]. intros e He. eapply from_text_mono; eauto.
    + constructor; [|constructor]. repeat split; auto.
      * exists v, vs, vs1. split; [apply Hincl; left; reflexivity|exact Ep].
      * intros x Hx. apply (Hv x Hx).
Qed.

Definition default_entry (e : fref * fkind * mfv) : Prop :=
  exists i t n, e = (RField i, FUser t n, FVal (default_value t)).

Lemma fill_defaults_inv : forall (P : fref * fkind * mfv -> Prop) decl i l l',
  fill_defaults decl i l = Some l' -> Forall (fun e => P e \/ default_entry e) l ->
  Forall (fun e => P e \/ default_entry e) l'.
Proof.
  intros P. induction decl as [|[t n] decl IH]; intros i l l' H Hl; cbn [fill_defaults] in H.
  - inversion H; subst. exact Hl.
  - destruct (has_ref (RField i) l); [eapply IH; eauto|].
    destruct n; [discriminate|eapply IH; eauto|].
    eapply IH; [exact H|]. apply Forall_app. split; [exact Hl|]. constructor; [|constructor].
    right. exists i, t, HasDefault. reflexivity.
Qed.

Lemma parse_mutation_inv : forall m l vs,
  parse_mutation m = Some (l, vs) ->
  NoDup (map fst vs) /\ Forall (fun e => from_text (m_decl m) (m_vals m) vs e \/ default_entry e) l.
Proof.
  intros m l vs H. unfold parse_mutation in H.
  destruct (parse_fields (m_decl m) (m_vals m) [] []) as [[l0 vs0]|] eqn:Ep; [|discriminate].
  destruct (parse_fields_inv _ (m_vals m) _ _ _ _ _ Ep (incl_refl _) (NoDup_nil _) (Forall_nil _)) as (Hnd & Hl).
  assert (Hl0 : Forall (fun e => from_text (m_decl m) (m_vals m) vs0 e \/ default_entry e) l0).
  { eapply Forall_impl; [|exact Hl]. intros; left; assumption. }
  destruct (has_ref RId l0).
  - inversion H; subst. split; assumption.
  - destruct (fill_defaults (m_decl m) 0 l0) as [l1|] eqn:Ef; [|discriminate]. inversion H; subst.
    split; [exact Hnd|]. eapply fill_defaults_inv; eauto.
Qed.

(* ------------------------------------------------------------------------------------------ *)
(** * params_total: the unwraps of mutation_query.rs are unreachable, except for one class *)

Lemma first_bad_panic : forall l, first_bad l = OPanic -> In OPanic l.
Proof.
  induction l as [|o l IH]; cbn [first_bad]; [discriminate|].
  destruct o; intro H; [right; auto|discriminate|left; reflexivity].
Qed.

Lemma k1_intro : forall m r v,
  In (r, v) (m_vals m) -> fkind_of (m_decl m) r = Some (FUser FJson Nullable) ->
  (v = MNull \/ exists x, v = MVar x /\ lookup x (m_params m) = Some PNull) ->
  k1_mutation m = true.
Proof.
  intros m r v Hin Hk Hv. unfold k1_mutation. apply existsb_exists. exists (r, v). split; [exact Hin|].
  cbn [fst snd]. rewrite Hk. destruct Hv as [->|(x & -> & Hl)]; [reflexivity|]. rewrite Hl. reflexivity.
Qed.

(* a bound value that came through validate_one *)
Lemma bound_value : forall vs ps ps' x vt,
  NoDup (map fst vs) -> validate_params vs ps = Some ps' -> In (x, vt) vs ->
  exists p0 p', lookup x ps = Some p0 /\ validate_one vt p0 = Some p' /\ value_of (FVar x) ps' = Some p'.
Proof.
  intros vs ps ps' x vt Hnd Hv Hin.
  destruct (validate_params_binds _ _ _ Hnd Hv x vt Hin) as (p0 & p' & H0 & H1 & H2).
  exists p0, p'. auto.
Qed.

Theorem mutate_panics_only_in_k1 : forall m, mutate_outcome m = OPanic -> k1_mutation m = true.
Proof.
  intros m H. unfold mutate_outcome in H.
  destruct (parse_mutation m) as [[l vs]|] eqn:Ep; [|discriminate].
  destruct (parse_mutation_inv _ _ _ Ep) as (Hnd & Hl).
  unfold execute_mutation in H.
  destruct (validate_params vs (m_params m)) as [ps'|] eqn:Ev; [|discriminate].
  rewrite Forall_forall in Hl.
  (* no entry's value is absent *)
  assert (Hval : forall r k fv, In (r, k, fv) l -> value_of fv ps' <> None).
  { intros r k fv Hin. destruct fv as [x|p]; [|cbn [value_of]; discriminate].
    destruct (Hl _ Hin) as [(_ & _ & Hx)|(i & t & n & He)]; [|inversion He].
    destruct (bound_value _ _ _ x _ Hnd Ev (Hx x eq_refl)) as (p0 & p' & _ & _ & Hb). rewrite Hb. discriminate. }
  match type of H with match first_bad ?sys with _ => _ end = _ => destruct (first_bad sys) eqn:Esys end.
  - (* the scalar / Json fields *)
    apply first_bad_panic in H. apply in_map_iff in H. destruct H as ([[r k] fv] & Hpan & Hin).
    apply filter_In in Hin. destruct Hin as [Hin _]. cbn [fst snd] in Hpan.
    unfold assemble_field in Hpan.
    destruct (value_of fv ps') as [p|] eqn:Evo; [|exfalso; exact (Hval _ _ _ Hin Evo)].
    destruct (field_type k) eqn:Eft;
      try (destruct p as [| |[|]| | |]; discriminate).
    destruct (as_string p) as [s|] eqn:Eas; [destruct (s_json s); discriminate|].
    destruct (Hl _ Hin) as [(Hk & (v & vs0 & vs1 & Hinv & Hpv) & Hx)|(i & t & n & He)].
    + (* from the text: the field is a declared Json field *)
      assert (Hkind : exists n, k = FUser FJson n).
      { destruct k as [t n| |]; cbn [field_type] in Eft; [subst t; eauto|discriminate|discriminate]. }
      destruct Hkind as (n & ->).
      destruct fv as [x|p1].
      * (* a variable: validated as a String variable *)
        destruct (parse_value_spec _ _ _ _ _ Hpv (NoDup_nil _)) as (_ & _ & Hvar) || idtac.
        assert (Hv : v = MVar x).
        { destruct v; cbn [parse_value] in Hpv.
          - destruct (vars_add vs0 x0 (variable_type (FUser FJson n))); inversion Hpv; reflexivity.
          - destruct (field_nullable (FUser FJson n)); inversion Hpv.
          - cbn [field_type] in Hpv. discriminate.
          - cbn [field_type] in Hpv. discriminate.
          - cbn [field_type] in Hpv. discriminate.
          - cbn [field_type] in Hpv. destruct (s_json s); inversion Hpv. }
        subst v.
        destruct (bound_value _ _ _ x _ Hnd Ev (Hx x eq_refl)) as (p0 & p' & Hl0 & Hone & Hb).
        rewrite Hb in Evo. inversion Evo; subst p'.
        cbn [variable_type field_type field_is_system field_nullable] in Hone.
        destruct n; cbn [validate_one] in Hone;
          destruct p0; try discriminate; inversion Hone; subst p; cbn [as_string] in Eas; try discriminate.
        eapply k1_intro; [exact Hinv|exact Hk|]. right. exists x. split; [reflexivity|exact Hl0].
      * (* a literal *)
        cbn [value_of] in Evo. inversion Evo; subst p1.
        destruct v; cbn [parse_value field_type field_nullable] in Hpv.
        -- destruct (vars_add vs0 x (variable_type (FUser FJson n))); inversion Hpv.
        -- destruct n; inversion Hpv. eapply k1_intro; [exact Hinv|exact Hk|]. left. reflexivity.
        -- discriminate.
        -- discriminate.
        -- discriminate.
        -- destruct (s_json s); inversion Hpv; subst p; cbn [as_string] in Eas; discriminate.
    + (* a filled default is a string *)
      inversion He; subst. cbn [field_type] in Eft. subst t. cbn [value_of default_value] in Evo.
      inversion Evo; subst p. cbn [as_string] in Eas. discriminate.
  - discriminate.
  - (* id / room_id: only an absent value could panic *)
    clear H. apply first_bad_panic in Esys. apply in_map_iff in Esys. destruct Esys as ([[r k] fv] & Hpan & Hin).
    assert (Hin' : In (r, k, fv) l).
    { apply in_app_or in Hin. destruct Hin as [Hin|Hin]; apply filter_In in Hin; tauto. }
    cbn [snd] in Hpan. unfold uid_field in Hpan.
    destruct (value_of fv ps') as [p|] eqn:Evo; [|exfalso; exact (Hval _ _ _ Hin' Evo)].
    destruct (as_string p) as [s|]; [|discriminate].
    destruct (negb (s_b64 s)); [discriminate|]. destruct (s_uid s); discriminate.
Qed.

(* ------------------------------------------------------------------------------------------ *)
(** * a valid mutation executes (outside class 1) *)

Lemma fref_eqb_eq : forall a b, fref_eqb a b = true <-> a = b.
Proof.
  intros a b; destruct a, b; cbn [fref_eqb]; split; intro H; try discriminate; try reflexivity.
  - apply Nat.eqb_eq in H. subst. reflexivity.
  - inversion H. apply Nat.eqb_refl.
Qed.

Lemma vtype_eqb_refl : forall a, vtype_eqb a a = true.
Proof. destruct a; cbn [vtype_eqb]; try reflexivity; apply Bool.eqb_reflx. Qed.

Definition refs_of (l : list (fref * fkind * mfv)) : list fref := map (fun e => fst (fst e)) l.

Lemma has_ref_refs : forall r l, has_ref r l = existsb (fref_eqb r) (refs_of l).
Proof.
  intros r l. unfold has_ref, refs_of. induction l as [|e l IH]; cbn [existsb map]; [reflexivity|].
  rewrite IH. f_equal. destruct (fref_eqb (fst (fst e)) r) eqn:E1, (fref_eqb r (fst (fst e))) eqn:E2; try reflexivity.
  - apply fref_eqb_eq in E1. subst. destruct (fst (fst e)); cbn in E2; try discriminate. rewrite Nat.eqb_refl in E2. discriminate.
  - apply fref_eqb_eq in E2. subst. destruct (fst (fst e)); cbn in E1; try discriminate. rewrite Nat.eqb_refl in E1. discriminate.
Qed.

Lemma value_fits_parses : forall k v ps vs,
  value_fits k v ps = true ->
  (forall x vt', v = MVar x -> lookup x vs = Some vt' -> vtype_eqb vt' (variable_type k) = true) ->
  exists fv vs', parse_value k v vs = Some (fv, vs').
Proof.
  intros k v ps vs Hf Hc. destruct v; cbn [parse_value value_fits] in *.
  - unfold vars_add. destruct (lookup x vs) as [vt'|] eqn:El.
    + rewrite (Hc x vt' eq_refl El). eauto.
    + eauto.
  - apply andb_prop in Hf. destruct Hf as [Hn _]. rewrite Hn. eauto.
  - destruct k as [[| | | | |] n| |]; try discriminate; cbn [field_type]; eauto.
  - destruct k as [[| | | | |] n| |]; try discriminate; cbn [field_type]; [eauto|]. rewrite Hf. eauto.
  - destruct k as [[| | | | |] n| |]; try discriminate; cbn [field_type]; eauto.
  - destruct k as [[| | | | |] n| |]; try discriminate; cbn [field_type]; try rewrite Hf; eauto.
    + apply andb_prop in Hf. destruct Hf as [Hb _]. rewrite Hb. eauto.
    + apply andb_prop in Hf. destruct Hf as [Hb _]. rewrite Hb. eauto.
Qed.

(* where the variable table of a parsed prefix comes from *)
Definition var_from (decl : list (ftype * nullab)) (all : list (fref * mvalue)) (xv : N * vtype) : Prop :=
  exists r k, In (r, MVar (fst xv)) all /\ fkind_of decl r = Some k /\ snd xv = variable_type k.

Lemma var_from_uses : forall m xv, var_from (m_decl m) (m_vals m) xv -> In xv (var_uses m).
Proof.
  intros m [x vt] (r & k & Hin & Hk & Hvt). cbn [fst snd] in *. unfold var_uses.
  apply in_flat_map. exists (r, MVar x). split; [exact Hin|]. cbn [fst snd]. rewrite Hk. left. subst. reflexivity.
Qed.

Lemma vars_consistent_spec : forall l a b,
  vars_consistent l = true -> In a l -> In b l -> fst a = fst b -> vtype_eqb (snd a) (snd b) = true.
Proof.
  intros l a b H Ha Hb Hab. unfold vars_consistent in H. rewrite forallb_forall in H.
  specialize (H a Ha). rewrite forallb_forall in H. specialize (H b Hb).
  rewrite Hab, N.eqb_refl in H. exact H.
Qed.

Lemma parse_fields_succeeds : forall m fs acc vs,
  vars_consistent (var_uses m) = true ->
  incl fs (m_vals m) ->
  Forall (fun rv => match fkind_of (m_decl m) (fst rv) with
                    | Some k => value_fits k (snd rv) (m_params m) = true
                    | None => False end) fs ->
  nodup_refs (map fst fs) = true ->
  (forall r, In r (refs_of acc) -> existsb (fref_eqb r) (map fst fs) = false) ->
  Forall (var_from (m_decl m) (m_vals m)) vs ->
  exists l vs', parse_fields (m_decl m) fs acc vs = Some (l, vs')
                /\ refs_of l = refs_of acc ++ map fst fs
                /\ Forall (var_from (m_decl m) (m_vals m)) vs'.
Proof.
  intros m. induction fs as [|[r v] fs IH]; intros acc vs Hc Hincl Hfit Hnd Hacc Hvs; cbn [parse_fields].
  - exists acc, vs. rewrite app_nil_r. auto.
  - inversion Hfit as [|? ? Hrv Hfit']; subst. cbn [fst snd] in Hrv.
    destruct (fkind_of (m_decl m) r) as [k|] eqn:Ek; [|contradiction].
    assert (Hin : In (r, v) (m_vals m)) by (apply Hincl; left; reflexivity).
    destruct (value_fits_parses k v (m_params m) vs Hrv) as (fv & vs1 & Hp).
    { intros x vt' -> Hl. apply lookup_in_pair in Hl.
      rewrite Forall_forall in Hvs. pose proof (var_from_uses m _ (Hvs _ Hl)) as Hu1.
      assert (Hu2 : In (x, variable_type k) (var_uses m)).
      { apply var_from_uses. exists r, k. auto. }
      exact (vars_consistent_spec _ _ _ Hc Hu1 Hu2 eq_refl). }
    rewrite Hp.
    assert (Hnot : existsb (fun e => fref_eqb (fst (fst e)) r) acc = false).
    { destruct (existsb (fun e => fref_eqb (fst (fst e)) r) acc) eqn:E; [|reflexivity].
      apply existsb_exists in E. destruct E as (e & He & Heq). apply fref_eqb_eq in Heq.
      assert (Hr : In r (refs_of acc)) by (unfold refs_of; rewrite <- Heq; apply (in_map (fun e0 : fref * fkind * mfv => fst (fst e0))); exact He).
      specialize (Hacc r Hr). cbn [map fst existsb] in Hacc.
      assert (fref_eqb r r = true) by (apply fref_eqb_eq; reflexivity). rewrite H in Hacc. discriminate. }
    rewrite Hnot.
    cbn [map fst nodup_refs] in Hnd. apply andb_prop in Hnd. destruct Hnd as [Hnr Hnd].
    destruct (IH (acc ++ [(r, k, fv)]) vs1 Hc) as (l & vs' & Hl & Hrefs & Hvs').
    + intros x Hx. apply Hincl. right. exact Hx.
    + exact Hfit'.
    + exact Hnd.
    + intros r0 Hr0. unfold refs_of in Hr0. rewrite map_app in Hr0. apply in_app_or in Hr0.
      destruct Hr0 as [Hr0|[Hr0|[]]].
      * specialize (Hacc r0 Hr0). cbn [map fst existsb] in Hacc. apply Bool.orb_false_elim in Hacc. tauto.
      * cbn [fst] in Hr0. subst r0. apply Bool.negb_true_iff in Hnr. exact Hnr.
    + (* the variable table *)
      destruct v; cbn [parse_value] in Hp;
        try (assert (vs1 = vs) by (repeat match type of Hp with
                                            | context [match ?c with _ => _ end] => destruct c; try discriminate
                                            end; inversion Hp; reflexivity); subst vs1; exact Hvs).
      unfold vars_add in Hp. destruct (lookup x vs) as [vt'|].
      * destruct (vtype_eqb vt' (variable_type k)); inversion Hp; subst. exact Hvs.
      * inversion Hp; subst. apply Forall_app. split; [exact Hvs|]. constructor; [|constructor].
        exists r, k. cbn [fst snd]. auto.
    + exists l, vs'. split; [exact Hl|]. split; [|exact Hvs'].
      rewrite Hrefs. unfold refs_of. rewrite map_app. cbn [map fst]. rewrite <- app_assoc. reflexivity.
Qed.
