(* C05Top.v — the property theorems of C05 in their final form (stated about run_C05 / spec_C05 / known_C05,
   the functions the harness evaluates). *)
From DV Require Import Eval Sql Nested Run_C05 C05Sort C05Order C05Sql C05P C05Pages C05Codec C05Wit C05Nested.
Open Scope list_scope.

(* the disjunction written by get_paging is the strict lexicographic "beyond the cursor" relation
   (three-valued logic, NULLs included) *)
Theorem paging_lex : forall before todo vo vo' ds,
  compile_disjs before vo [] todo = (vo', ds) ->
  forall vf ps binds, pfx vo' vf -> bind vf ps = Some binds ->
    forall r out kval ct,
      (forall k, scanon (sx_eval binds r out (ref_sx (ok_ref k))) = vcanon (kval k)) ->
      Forall2 (fun (ko : okey * operand) c => operand_value ps (snd ko) = Some c) todo ct ->
      is_true (fold_right (fun d acc => tv_or (disj_eval binds r out d) acc) (Some false) ds) =
      vlex before (trip kval todo ct).
Proof.
  intros before todo vo vo' ds H vf ps binds Hp Hb r out kval ct Hk Hct.
  destruct (compile_disjs_sem _ _ _ _ _ _ H) as [_ Hs].
  rewrite (Hs vf ps binds Hp Hb r out kval [] ct Hk (Forall2_nil _) Hct). reflexivity.
Qed.

(* ... which is the reference order's "strictly after / before the cursor" when no key and no cursor value is null *)
Theorem paging_lex_order : forall before ds ks cs,
  (forall d k c, In (d, k, c) (combine (combine ds ks) cs) -> k <> VNull /\ c <> VNull) ->
  vlex before (combine (combine ds ks) cs) = match lex_cmp ds ks cs with Gt => negb before | Lt => before | Eq => false end.
Proof. intros before ds ks cs H. rewrite vlex_lexz by exact H. rewrite <- lex_cmp_zip. reflexivity. Qed.

(* T1: outside the listed classes the answer of the compiled statement is the direct evaluation *)
Theorem T1_spec : forall m rows q ps,
  wf_query m q = true -> params_ok q ps = true -> known_C05 (CQuery m rows q ps) = [] ->
  spec_C05 (CQuery m rows q ps) (run_C05 (CQuery m rows q ps)) = true.
Proof.
  intros m rows q ps Hwf Hpo Hk. rewrite spec_run_query.
  rewrite (T1_outside_known m rows q ps Hwf Hpo Hk). apply answer_ok_refl.
Qed.

(* paging: outside the listed classes (unique, non-null key tuple on the matching rows) the pages are the
   whole ordered result, every row exactly once *)
Theorem paging_spec : forall m rows q ps n fuel,
  wf_pages m q ps = true -> 0 < n -> (List.length rows < fuel)%nat ->
  known_C05 (CPages m rows q ps n fuel) = [] ->
  spec_C05 (CPages m rows q ps n fuel) (run_C05 (CPages m rows q ps n fuel)) = true.
Proof.
  intros m rows q ps n fuel Hwf Hn Hf Hk. rewrite spec_run_pages.
  unfold known_C05 in Hk.
  apply cls_nil in Hk. destruct Hk as [K1 Hk]. apply cls_nil in Hk. destruct Hk as [K2 Hk].
  apply cls_nil in Hk. destruct Hk as [K3 K6]. apply cls_nil1 in K6.
  apply orb_false_elim in K1. destruct K1 as [K1a K1b].
  destruct (pages_complete m rows q ps n Hwf Hn K1a K1b K2 K3 K6 fuel Hf) as (pgs & full & Hp & He & Hc).
  rewrite Hp, He. cbn [fst snd]. rewrite Hc. apply answer_ok_refl.
Qed.

Theorem paging_exactly_once : forall m rows q ps n fuel,
  wf_pages m q ps = true -> 0 < n -> (List.length rows < fuel)%nat ->
  known_C05 (CPages m rows q ps n fuel) = [] ->
  exists pgs full, pages (run_query m rows) q ps n fuel None = (0, pgs) /\ eval m rows q ps = Some full /\ List.concat pgs = full.
Proof.
  intros m rows q ps n fuel Hwf Hn Hf Hk. unfold known_C05 in Hk.
  apply cls_nil in Hk. destruct Hk as [K1 Hk]. apply cls_nil in Hk. destruct Hk as [K2 Hk].
  apply cls_nil in Hk. destruct Hk as [K3 K6]. apply cls_nil1 in K6.
  apply orb_false_elim in K1. destruct K1 as [K1a K1b].
  exact (pages_complete m rows q ps n Hwf Hn K1a K1b K2 K3 K6 fuel Hf).
Qed.

(* the property as stated (no side conditions) is refuted on the faithful model; one closed witness per class *)
Definition C05_full : Prop :=
  forall c, match c with CQuery m _ q ps => wf_query m q = true /\ params_ok q ps = true
                    | CPages m rows q ps n fuel => wf_pages m q ps = true /\ 0 < n /\ (List.length rows < fuel)%nat
                    | CNested Q _ ps => q2_ok Q ps = true
                    | CAgg _ _ | CJsel _ _ _ => True end ->
            spec_C05 c (run_C05 c) = true.

Theorem full_refuted : ~ C05_full.
Proof.
  intros H. specialize (H w_K1_ties). destruct w_K1_ties_refuted as [Hr _]. rewrite H in Hr. discriminate.
  unfold w_K1_ties. split. vm_compute. reflexivity. split. reflexivity. cbn [List.length]. lia.
Qed.

(* ---------- the classes repaired in /repo, at full strength ---------- *)
(* e64e320: the slot written for a variable always carries the variable's value, whatever literals were given
   slots before it *)
Theorem variable_slot_holds : forall vo n vo' i, add_param vo n false = (vo', i) ->
  forall vf ps binds v, pfx vo' vf -> bind vf ps = Some binds -> lookup n ps = Some v ->
  nth (pred i) binds SNull = to_sql v.
Proof. intros vo n vo' i H. apply (add_param_var vo n vo' i H). Qed.

(* 43340e7: OFFSET is never written without LIMIT *)
Theorem offset_needs_limit_holds : forall vo q vo' lim off, compile_limit vo q = (vo', lim, off) -> off <> None -> lim <> None.
Proof.
  intros vo q vo' lim off H Ho. unfold compile_limit in H.
  destruct (limit_sx vo (q_first q)) as [vo1 lim1]. destruct (q_skip q) as [so|].
  - destruct (limit_sx vo1 so) as [vo2 off1]. injection H as _ <- _. destruct lim1; discriminate.
  - injection H as _ _ <-. congruence.
Qed.

(* 936f709: the default compared in the WHEN of a filter is the field's default, whatever its text *)
Theorem filter_default_bound_holds : forall vo d vo' dx, default_sx vo d = (vo', dx) ->
  forall vf ps binds r out, pfx vo' vf -> bind vf ps = Some binds -> scanon (sx_eval binds r out dx) = vcanon d.
Proof. intros vo d vo' dx H. apply (default_sx_sem vo d vo' dx H). Qed.

(* ---------- tier T2, first slice (nested entity / array references) ---------- *)
(* outside the open classes (taken level by level) the compiled statement gives the reference evaluation;
   EXISTS for a reference that is not nullable <=> its nested result, under the nested query's own
   filters / order / first / skip, is not empty (that is how Nested.eval_nodes defines it) *)
Definition C05_T2_full : Prop :=
  forall Q nodes ps, q2_ok Q ps = true -> known_nested Q nodes ps = [] ->
  run_query2 Q nodes ps = Some (eval2 Q ps nodes).

Theorem T2_full_holds : C05_T2_full.
Proof. exact T2_outside_known. Qed.

Lemma zlist_eqb_refl5 : forall l, zlist_eqb l l = true.
Proof. induction l as [|x l IH]. reflexivity. unfold zlist_eqb in *. cbn [list_eqb]. rewrite Z.eqb_refl, IH. reflexivity. Qed.

Theorem T2_spec : forall Q nodes ps,
  q2_ok Q ps = true -> known_C05 (CNested Q nodes ps) = [] ->
  spec_C05 (CNested Q nodes ps) (run_C05 (CNested Q nodes ps)) = true.
Proof.
  intros Q nodes ps Hok Hk. cbn [known_C05] in Hk. cbn [spec_C05 run_C05].
  destruct (compile2 Q) as [vo c] eqn:Ec. cbn [hash_text app]. rewrite skip_enc_vo.
  rewrite (T2_outside_known Q nodes ps Hok Hk). apply zlist_eqb_refl5.
Qed.
