(* C05Codec.v — the integer encoding of observations used by Run_C05 can be decoded again. *)
From DV Require Import Eval Sql Run_C05.
Open Scope list_scope.

Lemma take_app : forall A (a b : list A), take (List.length a) (a ++ b) = Some (a, b).
Proof.
  intros A a b. unfold take. rewrite app_length.
  assert (H : Nat.ltb (List.length a + List.length b) (List.length a) = false) by (apply Nat.ltb_ge; lia).
  rewrite H. rewrite firstn_app, Nat.sub_diag, firstn_all, skipn_app, Nat.sub_diag, skipn_all. simpl. rewrite app_nil_r. reflexivity.
Qed.

Lemma map_to_of_N : forall s : str, map Z.to_N (map Z.of_N s) = s.
Proof. induction s as [|x s IH]; simpl. reflexivity. rewrite N2Z.id, IH. reflexivity. Qed.

Lemma count_ok : forall (n : nat) (t : list Z), (n <= List.length t)%nat -> count (Z.of_nat n) t = Some n.
Proof.
  intros n t H. unfold count.
  assert (H1 : Z.ltb (Z.of_nat n) 0 = false) by (apply Z.ltb_ge; lia).
  assert (H2 : Z.ltb (Z.of_nat (List.length t)) (Z.of_nat n) = false) by (apply Z.ltb_ge; lia).
  rewrite H1, H2, Nat2Z.id. reflexivity.
Qed.

Lemma dec_enc_str : forall s rest, dec_str (enc_str s ++ rest) = Some (s, rest).
Proof.
  intros s rest. unfold dec_str, enc_str. cbn [app].
  rewrite count_ok by (rewrite app_length, map_length; lia).
  rewrite <- (map_length Z.of_N s). rewrite take_app. rewrite map_to_of_N. reflexivity.
Qed.

Lemma flat_map_length_ge : forall A (enc : A -> list Z) l, (forall x, enc x <> []) -> (List.length l <= List.length (flat_map enc l))%nat.
Proof.
  intros A enc l H. induction l as [|x t IH]; simpl. lia. rewrite app_length.
  specialize (H x). destruct (enc x). congruence. simpl. lia.
Qed.

Lemma dec_counted_enc : forall A B (f : A -> B) (enc : A -> list Z) (dec : list Z -> option (B * list Z)),
  (forall x rest, dec (enc x ++ rest) = Some (f x, rest)) -> (forall x, enc x <> []) ->
  forall l rest, dec_counted dec ((Z.of_nat (List.length l) :: flat_map enc l) ++ rest) = Some (map f l, rest).
Proof.
  intros A B f enc dec H Hne l rest. unfold dec_counted. cbn [app].
  rewrite count_ok. 2: { rewrite app_length. pose proof (flat_map_length_ge A enc l Hne). lia. }
  revert rest. induction l as [|x t IH]; intros rest. reflexivity.
  cbn [List.length flat_map dec_many map]. rewrite <- app_assoc, H, IH. reflexivity.
Qed.

Lemma dec_enc_val : forall v rest, dec_val (enc_val v ++ rest) = Some (v, rest).
Proof.
  intros v rest. destruct v as [|b|z|x|s]; cbn [enc_val app dec_val]; try reflexivity.
  - destruct b; reflexivity.
  - change (Z.of_nat (List.length s) :: map Z.of_N s ++ rest) with (enc_str s ++ rest). rewrite dec_enc_str. reflexivity.
Qed.

Lemma dec_many_enc : forall A (enc : A -> list Z) (dec : list Z -> option (A * list Z)),
  (forall x rest, dec (enc x ++ rest) = Some (x, rest)) ->
  forall l rest, dec_many dec (List.length l) (flat_map enc l ++ rest) = Some (l, rest).
Proof.
  intros A enc dec H l. induction l as [|x t IH]; intros rest. reflexivity.
  cbn [List.length flat_map dec_many]. rewrite <- app_assoc, H, IH. reflexivity.
Qed.

Lemma enc_val_ne : forall v, enc_val v <> [].
Proof. intros [| | | |]; discriminate. Qed.

Lemma dec_enc_row : forall r rest, dec_row (enc_row r ++ rest) = Some (r, rest).
Proof.
  intros r rest. unfold dec_row, enc_row.
  rewrite (dec_counted_enc val val (fun x => x) enc_val dec_val dec_enc_val enc_val_ne). rewrite map_id. reflexivity.
Qed.

Lemma dec_enc_result : forall rs rest, dec_result (enc_result rs ++ rest) = Some (rs, rest).
Proof.
  intros rs rest. unfold dec_result, enc_result.
  rewrite (dec_counted_enc (list val) (list val) (fun x => x) enc_row dec_row dec_enc_row). rewrite map_id. reflexivity.
  intros x. discriminate.
Qed.

Lemma dec_enc_answer : forall a, dec_answer (enc_answer a) = Some a.
Proof.
  intros [rs|]; cbn [enc_answer dec_answer]. 2: reflexivity.
  rewrite <- (app_nil_r (enc_result rs)), dec_enc_result. reflexivity.
Qed.

Lemma skip_enc_str : forall s rest, skip_str (enc_str s ++ rest) = Some rest.
Proof. intros. unfold skip_str. rewrite dec_enc_str. reflexivity. Qed.

Lemma dec_many_enc' : forall A B (f : A -> B) (enc : A -> list Z) (dec : list Z -> option (B * list Z)),
  (forall x rest, dec (enc x ++ rest) = Some (f x, rest)) ->
  forall l rest, dec_many dec (List.length l) (flat_map enc l ++ rest) = Some (map f l, rest).
Proof.
  intros A B f enc dec H l. induction l as [|x t IH]; intros rest. reflexivity.
  cbn [List.length flat_map dec_many map]. rewrite <- app_assoc, H, IH. reflexivity.
Qed.

Lemma skip_enc_vo : forall vo rest, skip_vo (enc_vo vo ++ rest) = Some rest.
Proof.
  intros vo rest. unfold skip_vo, enc_vo.
  rewrite (dec_counted_enc pentry str snd (fun p : pentry => zb (fst p) :: enc_str (snd p))).
  reflexivity. intros x r. cbn [app]. apply dec_enc_str. intros x. discriminate.
Qed.

Lemma val_eqb_refl : forall v, val_eqb v v = true.
Proof.
  intros v. destruct v as [|b| | |s]; simpl; try reflexivity. destruct b; reflexivity. apply Z.eqb_refl. apply Z.eqb_refl.
  induction s as [|x s IH]; simpl. reflexivity. rewrite N.eqb_refl. exact IH.
Qed.
Lemma list_eqb_refl : forall A (e : A -> A -> bool), (forall x, e x x = true) -> forall l, list_eqb e l l = true.
Proof. intros A e H l. induction l as [|x t IH]; simpl. reflexivity. rewrite H, IH. reflexivity. Qed.
Lemma answer_ok_refl : forall a, answer_ok a a = true.
Proof.
  intros [rs|]; simpl. 2: reflexivity. unfold result_eqb. apply list_eqb_refl. apply list_eqb_refl. apply val_eqb_refl.
Qed.

(* what the oracle reads back from the model's own observation of a query *)
Lemma spec_run_query : forall m rows q ps,
  spec_C05 (CQuery m rows q ps) (run_C05 (CQuery m rows q ps)) = answer_ok (eval m rows q ps) (run_query m rows q ps).
Proof.
  intros m rows q ps. cbn [spec_C05 run_C05]. destruct (compile m q) as [vo s] eqn:Ec.
  cbn [hash_text app]. rewrite skip_enc_vo. rewrite skipn_app, Nat.sub_diag, skipn_all. cbn [skipn app].
  rewrite dec_enc_answer. reflexivity.
Qed.

Lemma dec_enc_pages : forall pgs, dec_counted dec_result (Z.of_nat (List.length pgs) :: flat_map enc_result pgs) = Some (pgs, []).
Proof.
  intros pgs. rewrite <- (app_nil_r (Z.of_nat (List.length pgs) :: flat_map enc_result pgs)).
  rewrite (dec_counted_enc _ _ (fun x => x) enc_result dec_result dec_enc_result). rewrite map_id. reflexivity.
  intros x. discriminate.
Qed.

Lemma spec_run_pages : forall m rows q ps n fuel,
  spec_C05 (CPages m rows q ps n fuel) (run_C05 (CPages m rows q ps n fuel)) =
  let r := pages (run_query m rows) q ps n fuel None in
  Z.eqb (fst r) 0 && answer_ok (eval m rows q ps) (Some (List.concat (snd r))).
Proof.
  intros m rows q ps n fuel. cbn [spec_C05 run_C05]. unfold enc_pages.
  destruct (pages (run_query m rows) q ps n fuel None) as [st pgs]. cbn [fst snd].
  rewrite dec_enc_pages. reflexivity.
Qed.
