(* C05Codec.v — the integer encoding of observations used by Run_C05 can be decoded again. *)
From DV Require Import Eval Sql Run_C05.
Open Scope list_scope.

Lemma take_app : forall A (a b : list A), take (List.length a) (a ++ b) = Some (a, b).
Proof.
  intros A a b. unfold take. rewrite app_length.
  assert (H : Nat.ltb (List.length a + List.length b) (List.length a) = false) by (apply Nat.ltb_ge; lia).
  rewrite H. rewrite firstn_app, Nat.sub_diag, firstn_all, skipn_app, Nat.sub_diag, skipn_all. simpl. rewrite app_nil_r. reflexivity.
Qed.

Lemma map_to_of_N : forall s : str, map Z.to_N (map Z.of_N s) = s.
Proof. induction s as [|x s IH]; simpl. reflexivity. rewrite N2Z.id, IH. reflexivity. Qed.

Lemma dec_enc_str : forall s rest, dec_str (enc_str s ++ rest) = Some (s, rest).
Proof.
  intros s rest. unfold dec_str, enc_str. cbn [app]. rewrite Nat2Z.id.
  rewrite <- (map_length Z.of_N s). rewrite take_app. rewrite map_to_of_N. reflexivity.
Qed.

Lemma dec_enc_val : forall v rest, dec_val (enc_val v ++ rest) = Some (v, rest).
Proof.
  intros v rest. destruct v as [|b|z|x|s]; cbn [enc_val app dec_val]; try reflexivity.
  - destruct b; reflexivity.
  - change (Z.of_nat (List.length s) :: map Z.of_N s ++ rest) with (enc_str s ++ rest). rewrite dec_enc_str. reflexivity.
Qed.

Lemma dec_many_enc : forall A (enc : A -> list Z) (dec : list Z -> option (A * list Z)),
  (forall x rest, dec (enc x ++ rest) = Some (x, rest)) ->
  forall l rest, dec_many dec (List.length l) (flat_map enc l ++ rest) = Some (l, rest).
Proof.
  intros A enc dec H l. induction l as [|x t IH]; intros rest. reflexivity.
  cbn [List.length flat_map dec_many]. rewrite <- app_assoc, H, IH. reflexivity.
Qed.

Lemma dec_enc_row : forall r rest, dec_row (enc_row r ++ rest) = Some (r, rest).
Proof.
  intros r rest. unfold dec_row, enc_row. cbn [app]. rewrite Nat2Z.id. apply dec_many_enc. apply dec_enc_val.
Qed.

Lemma dec_enc_result : forall rs rest, dec_result (enc_result rs ++ rest) = Some (rs, rest).
Proof.
  intros rs rest. unfold dec_result, enc_result. cbn [app]. rewrite Nat2Z.id. apply dec_many_enc. apply dec_enc_row.
Qed.

Lemma dec_enc_answer : forall a, dec_answer (enc_answer a) = Some a.
Proof.
  intros [rs|]; cbn [enc_answer dec_answer]. 2: reflexivity.
  rewrite <- (app_nil_r (enc_result rs)), dec_enc_result. reflexivity.
Qed.

Lemma skip_enc_str : forall s rest, skip_str (enc_str s ++ rest) = Some rest.
Proof. intros. unfold skip_str. rewrite dec_enc_str. reflexivity. Qed.

Lemma skip_enc_vo : forall vo rest, skip_vo (enc_vo vo ++ rest) = Some rest.
Proof.
  intros vo rest. unfold skip_vo, enc_vo. cbn [app]. rewrite Nat2Z.id.
  rewrite (dec_many_enc pentry (fun p => zb (fst p) :: enc_str (snd p))
             (fun l' => match l' with _ :: t' => option_map (fun x => ((false, fst x), snd x)) (dec_str t') | [] => None end)).
Abort.
