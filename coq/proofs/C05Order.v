(* C05Order.v — the order on the language's values (QLang.vcmp), on key tuples (Eval.lex_cmp) and
   its agreement with SQLite's comparison (Sql.scmp). *)
From DV Require Import Eval Sql C05Sort.
Open Scope list_scope.

(* ---------- text ---------- *)
Lemma str_eqb_eq : forall a b, str_eqb a b = true <-> a = b.
Proof.
  induction a as [|x a IH]; destruct b as [|y b]; simpl; split; intros H; try congruence; try reflexivity.
  - apply andb_prop in H. destruct H as [H1 H2]. apply N.eqb_eq in H1. apply IH in H2. congruence.
  - injection H as -> ->. rewrite N.eqb_refl. simpl. apply IH. reflexivity.
Qed.
Lemma str_eqb_refl : forall a, str_eqb a a = true.
Proof. intros a. apply str_eqb_eq. reflexivity. Qed.

Lemma str_cmp_antisym : forall a b, str_cmp b a = CompOpp (str_cmp a b).
Proof.
  induction a as [|x a IH]; destruct b as [|y b]; simpl; try reflexivity.
  rewrite (N.compare_antisym x y). destruct (N.compare x y); simpl; try reflexivity. apply IH.
Qed.
Lemma str_cmp_eq : forall a b, str_cmp a b = Eq -> a = b.
Proof.
  induction a as [|x a IH]; destruct b as [|y b]; simpl; intros H; try congruence.
  destruct (N.compare x y) eqn:E; try congruence. apply N.compare_eq in E. f_equal. exact E. apply IH. exact H.
Qed.
Lemma str_cmp_refl : forall a, str_cmp a a = Eq.
Proof. induction a as [|x a IH]; simpl. reflexivity. rewrite N.compare_refl. exact IH. Qed.
Lemma str_cmp_lt_trans : forall a b c, str_cmp a b = Lt -> str_cmp b c = Lt -> str_cmp a c = Lt.
Proof.
  induction a as [|x a IH]; destruct b as [|y b]; destruct c as [|z c]; simpl; intros H1 H2; try congruence.
  destruct (N.compare x y) eqn:E1; try congruence.
  - apply N.compare_eq in E1. subst y. destruct (N.compare x z); try congruence. eapply IH; eauto.
  - destruct (N.compare y z) eqn:E2; try congruence.
    + apply N.compare_eq in E2. subst z. rewrite E1. reflexivity.
    + rewrite N.compare_lt_iff in *. assert (Hxz : (x < z)%N) by lia. apply N.compare_lt_iff in Hxz. rewrite Hxz. reflexivity.
Qed.

(* ---------- canonical form shared by both comparisons ---------- *)
Inductive canon := CNull | CNum (z : Z) | CText (s : str).
Definition ccmp (a b : canon) : comparison :=
  match a, b with
  | CNull, CNull => Eq
  | CNull, _ => Lt
  | _, CNull => Gt
  | CNum x, CNum y => Z.compare x y
  | CNum _, CText _ => Lt
  | CText _, CNum _ => Gt
  | CText s, CText t => str_cmp s t
  end.
Definition vcanon (v : val) : canon :=
  match v with
  | VNull => CNull | VBool b => CNum (if b then 4 else 0) | VInt z => CNum (4 * z) | VFlt q => CNum q | VStr s => CText s
  end.
Definition scanon (v : sval) : canon :=
  match v with SNull => CNull | SInt z => CNum (4 * z) | SReal q => CNum q | SText s => CText s end.

Lemma vcmp_canon : forall a b, vcmp a b = ccmp (vcanon a) (vcanon b).
Proof. intros a b. destruct a, b; reflexivity. Qed.
Lemma scmp_canon : forall a b, scmp a b = ccmp (scanon a) (scanon b).
Proof. intros a b. destruct a, b; reflexivity. Qed.
Lemma scanon_to_sql : forall v, scanon (to_sql v) = vcanon v.
Proof. intros v. destruct v as [|b| | |]; try reflexivity. destruct b; reflexivity. Qed.
Lemma scmp_to_sql : forall a b, scmp (to_sql a) (to_sql b) = vcmp a b.
Proof. intros a b. rewrite scmp_canon, vcmp_canon, !scanon_to_sql. reflexivity. Qed.

Lemma ccmp_antisym : forall a b, ccmp b a = CompOpp (ccmp a b).
Proof.
  intros a b. destruct a, b; simpl; try reflexivity. apply Z.compare_antisym. apply str_cmp_antisym.
Qed.
Lemma ccmp_eq : forall a b, ccmp a b = Eq -> a = b.
Proof.
  intros a b H. destruct a, b; simpl in H; try congruence.
  apply Z.compare_eq in H. congruence. apply str_cmp_eq in H. congruence.
Qed.
Lemma ccmp_lt_trans : forall a b c, ccmp a b = Lt -> ccmp b c = Lt -> ccmp a c = Lt.
Proof.
  intros a b c H1 H2. destruct a, b, c; simpl in *; try congruence.
  - rewrite Z.compare_lt_iff in *. lia.
  - eapply str_cmp_lt_trans; eauto.
Qed.

Lemma vcmp_antisym : forall a b, vcmp b a = CompOpp (vcmp a b).
Proof. intros. rewrite !vcmp_canon. apply ccmp_antisym. Qed.
Lemma vcmp_eq_congr : forall a b x, vcmp a b = Eq -> vcmp a x = vcmp b x.
Proof. intros a b x H. rewrite !vcmp_canon in *. apply ccmp_eq in H. rewrite H. reflexivity. Qed.
Lemma vcmp_lt_trans : forall a b x, vcmp a b = Lt -> vcmp b x = Lt -> vcmp a x = Lt.
Proof. intros a b x. rewrite !vcmp_canon. apply ccmp_lt_trans. Qed.
Lemma vcmp_eq_canon : forall a b, vcmp a b = Eq <-> vcanon a = vcanon b.
Proof.
  intros a b. rewrite vcmp_canon. split. apply ccmp_eq. intros ->.
  destruct (vcanon b); simpl. reflexivity. apply Z.compare_refl. apply str_cmp_refl.
Qed.

(* ---------- keys under a direction ---------- *)
Lemma kcmp_antisym : forall d a b, kcmp d b a = CompOpp (kcmp d a b).
Proof. intros d a b. destruct d; simpl; apply vcmp_antisym. Qed.
Lemma kcmp_eq_congr : forall d a b x, kcmp d a b = Eq -> kcmp d a x = kcmp d b x.
Proof.
  intros d a b x H. destruct d; simpl in *. apply vcmp_eq_congr; assumption.
  rewrite (vcmp_antisym a x), (vcmp_antisym b x). f_equal. apply vcmp_eq_congr.
  rewrite vcmp_antisym, H. reflexivity.
Qed.
Lemma kcmp_lt_trans : forall d a b x, kcmp d a b = Lt -> kcmp d b x = Lt -> kcmp d a x = Lt.
Proof.
  intros d a b x H1 H2. destruct d; simpl in *. eapply vcmp_lt_trans; eauto.
  (* Desc: x > b > a *)
  rewrite vcmp_antisym in H1, H2 |- *.
  destruct (vcmp a b) eqn:E1; simpl in H1; try congruence.
  destruct (vcmp b x) eqn:E2; simpl in H2; try congruence.
  assert (Hbx : vcmp x b = Lt) by (rewrite vcmp_antisym, E2; reflexivity).
  assert (Hba : vcmp b a = Lt) by (rewrite vcmp_antisym, E1; reflexivity).
  pose proof (vcmp_lt_trans _ _ _ Hbx Hba) as Hxa.
  rewrite (vcmp_antisym x a), Hxa. reflexivity.
Qed.
Lemma kcmp_refl : forall d a, kcmp d a a = Eq.
Proof. intros d a. destruct d; simpl; apply vcmp_eq_canon; reflexivity. Qed.

(* ---------- key tuples of the same length as the direction list ---------- *)
Lemma lex_antisym : forall ds a b, lex_cmp ds b a = CompOpp (lex_cmp ds a b).
Proof.
  induction ds as [|d ds IH]; intros a b; simpl. reflexivity.
  destruct a as [|x a], b as [|y b]; simpl; try reflexivity.
  rewrite (kcmp_antisym d x y). destruct (kcmp d x y); simpl; try reflexivity. apply IH.
Qed.
Lemma lex_eq_congr : forall ds a b x,
  List.length a = List.length ds -> List.length b = List.length ds -> List.length x = List.length ds ->
  lex_cmp ds a b = Eq -> lex_cmp ds a x = lex_cmp ds b x.
Proof.
  induction ds as [|d ds IH]; intros a b x La Lb Lx H; simpl in *. reflexivity.
  destruct a as [|u a], b as [|v b], x as [|w x]; simpl in *; try discriminate.
  destruct (kcmp d u v) eqn:E; try congruence.
  rewrite (kcmp_eq_congr d u v w E). destruct (kcmp d v w); try reflexivity.
  apply IH; try lia. exact H.
Qed.
Lemma lex_lt_trans : forall ds a b x,
  List.length a = List.length ds -> List.length b = List.length ds -> List.length x = List.length ds ->
  lex_cmp ds a b = Lt -> lex_cmp ds b x = Lt -> lex_cmp ds a x = Lt.
Proof.
  induction ds as [|d ds IH]; intros a b x La Lb Lx H1 H2; simpl in *. congruence.
  destruct a as [|u a], b as [|v b], x as [|w x]; simpl in *; try discriminate.
  destruct (kcmp d u v) eqn:E1; try congruence.
  - rewrite (kcmp_eq_congr d u v w E1). destruct (kcmp d v w); try congruence. apply (IH a b x); try lia; assumption.
  - destruct (kcmp d v w) eqn:E2; try congruence.
    + assert (E3 : kcmp d u w = Lt).
      { assert (Hwv : kcmp d w v = Eq) by (rewrite kcmp_antisym, E2; reflexivity).
        pose proof (kcmp_eq_congr d w v u Hwv) as Hc.
        rewrite (kcmp_antisym d w u), Hc, (kcmp_antisym d u v), E1. reflexivity. }
      rewrite E3. reflexivity.
    + rewrite (kcmp_lt_trans d u v w E1 E2). reflexivity.
Qed.

(* the comparison of two rows by their key tuples is a total preorder *)
Section RowOrder.
  Variable m : emodel.
  Variable q : query.
  Definition rcmp (a b : row) : comparison := lex_cmp (dirs q) (row_keys m q a) (row_keys m q b).
  Lemma row_keys_length : forall r, List.length (row_keys m q r) = List.length (dirs q).
  Proof. intros r. unfold row_keys, dirs. rewrite !map_length. reflexivity. Qed.
  Lemma rcmp_antisym : c_antisym rcmp.
  Proof. intros a b. apply lex_antisym. Qed.
  Lemma rcmp_eq_congr : c_eq_congr rcmp.
  Proof. intros a b x H. apply lex_eq_congr; try apply row_keys_length. exact H. Qed.
  Lemma rcmp_lt_trans : c_lt_trans rcmp.
  Proof. intros a b x H1 H2. eapply lex_lt_trans; try apply row_keys_length; eauto. Qed.
End RowOrder.
