(* C20P.v — invariants of the lock service model (model/Lock.v) over arbitrary message histories,
   and the oracle of run/Run_C20.v on the model's own behaviour. *)
From Coq Require Import Permutation.
From DV Require Import Run_C20 C20Scan C20ConnFacts.
Open Scope N_scope.
Open Scope nat_scope.

(* ------------------------------------------------------------------ acquire_lock *)
Lemma acquire_lock_spec : forall s s' g, acquire_lock s = (s', g) ->
  exists q' og, scan_q (queue s) [] (locked s) (dead s) = (q', og) /\ queue s' = q' /\ dead s' = dead s /\
    ((og = None /\ g = [] /\ locked s' = locked s /\ avail s' = avail s) \/
     (exists c k r, og = Some (c, k, r) /\ g = [(c, k, r)] /\ locked s' = r :: locked s /\ avail s' = pred (avail s))).
Proof.
  intros s s' g H. unfold acquire_lock in H.
  rewrite acquire_scan in H.
  destruct (scan_q (queue s) [] (locked s) (dead s)) as [q' og] eqn:E.
  exists q', og. split; [reflexivity|].
  destruct og as [[[c k] r]|]; inversion H; subst; cbn [queue dead locked avail].
  - repeat split. right. exists c, k, r. repeat split.
  - repeat split. left. repeat split.
Qed.

Definition inv1 (max : nat) (s : st) : Prop := NoDup (locked s) /\ length (locked s) + avail s = max.
Definition all_blocked (s : st) : Prop := forall p, In p (queue s) -> blocked (locked s) (dead s) p.
(* no lost wake-up: a request waiting on a live channel is blocked only by a locked room or by the limit *)
Definition wake (s : st) : Prop :=
  forall p, In p (queue s) -> alive (dead s) p = true -> forall r, In r (p_rooms p) -> memN r (locked s) = true \/ avail s = 0.

Lemma blocked_wake : forall s, all_blocked s -> wake s.
Proof. intros s H p Hp Ha r Hr. left. exact (H p Hp Ha r Hr). Qed.

Lemma acquire_lock_none_blocked : forall s s', acquire_lock s = (s', []) -> all_blocked s'.
Proof.
  intros s s' H. apply acquire_lock_spec in H. destruct H as (q' & og & Hs & Hq & Hd & [(Ho & _ & Hl & _)|(c & k & r & _ & Hg & _)]); [|discriminate].
  apply scan_q_spec in Hs. destruct Hs as (Q1 & _). intros p Hp. rewrite Hl, Hd. rewrite Hq in Hp.
  apply (Q1 Ho); [intros x []| exact Hp].
Qed.
Lemma acquire_lock_blocked : forall s s' g, all_blocked s -> acquire_lock s = (s', g) -> g = [] /\ all_blocked s'.
Proof.
  intros s s' g Hb H. assert (Hg : g = []).
  { pose proof H as H0. apply acquire_lock_spec in H0. destruct H0 as (q' & og & Hs & _ & _ & [(_ & Hg & _)|(c & k & r & Ho & _)]); [exact Hg|].
    apply scan_q_spec in Hs. destruct Hs as (_ & _ & _ & _ & _ & Q6). rewrite (Q6 Hb) in Ho. discriminate. }
  split; [exact Hg|]. subst g. apply acquire_lock_none_blocked with (s := s). exact H.
Qed.
Lemma acquire_n_blocked : forall n s s' g, all_blocked s -> acquire_n n s = (s', g) -> g = [] /\ all_blocked s'.
Proof.
  induction n as [|n IH]; intros s s' g Hb H; cbn [acquire_n] in H.
  - inversion H; subst. split; [reflexivity | exact Hb].
  - destruct (acquire_lock s) as [s1 g1] eqn:E1. destruct (acquire_n n s1) as [s2 g2] eqn:E2. inversion H; subst.
    destruct (acquire_lock_blocked _ _ _ Hb E1) as [Hg1 Hb1]. destruct (IH _ _ _ Hb1 E2) as [Hg2 Hb2].
    subst. split; [reflexivity | exact Hb2].
Qed.
Lemma acquire_lock_avail : forall s s' g, acquire_lock s = (s', g) -> avail s' <= avail s /\ (g = [] -> avail s' = avail s) /\ (g <> [] -> avail s' = pred (avail s)).
Proof.
  intros s s' g H. apply acquire_lock_spec in H.
  destruct H as (q' & og & _ & _ & _ & [(_ & Hg & _ & Ha)|(c & k & r & _ & Hg & _ & Ha)]); subst g; rewrite Ha.
  - repeat split; auto. intros Hn. exfalso. apply Hn. reflexivity.
  - repeat split; try lia. discriminate.
Qed.
Lemma acquire_n_wake : forall n s s' g, avail s <= n -> acquire_n n s = (s', g) -> wake s'.
Proof.
  induction n as [|n IH]; intros s s' g Hle H; cbn [acquire_n] in H.
  - inversion H; subst. intros p _ _ r _. right. lia.
  - destruct (acquire_lock s) as [s1 g1] eqn:E1. destruct (acquire_n n s1) as [s2 g2] eqn:E2. inversion H; subst.
    destruct g1 as [|x g1].
    + apply blocked_wake. apply (acquire_n_blocked n s1 s' g2); [|exact E2]. apply acquire_lock_none_blocked with (s := s). exact E1.
    + apply (IH s1 s' g2); [|exact E2]. destruct (acquire_lock_avail _ _ _ E1) as (_ & _ & Hp). rewrite Hp; [lia | discriminate].
Qed.

Lemma alive_mono : forall dd x p, alive (x :: dd) p = true -> alive dd p = true.
Proof.
  intros dd x p H. unfold alive in *. cbn [mem_pair existsb] in H. apply negb_true_iff in H.
  apply orb_false_iff in H. destruct H as [_ H]. apply negb_true_iff. exact H.
Qed.

Lemma unlock_wake : forall s r s' g, wake s -> memN r (locked s) = true ->
  acquire_lock {| queue := queue s; locked := removeN r (locked s); avail := S (avail s); dead := dead s |} = (s', g) ->
  wake s'.
Proof.
  intros s r s' g Hw Hr H. destruct g as [|x g].
  - apply blocked_wake. apply acquire_lock_none_blocked in H. exact H.
  - apply acquire_lock_spec in H. cbn [queue locked avail dead] in H.
    destruct H as (q' & og & Hs & Hq & Hd & [(_ & Hg & _)|(c & k & r' & Ho & Hg & Hl & Ha)]); [discriminate|].
    apply scan_q_spec in Hs. destruct Hs as (_ & Q2 & Q3 & _). cbn [pred] in Ha.
    destruct (Q2 c k r' Ho) as (Hfree & p0 & Hp0 & Hc0 & Hk0 & Hal0 & Hr0).
    intros p Hp Halp y Hy. destruct (avail s) as [|a] eqn:Ea; [right; rewrite Ha; reflexivity|]. left.
    rewrite Hq in Hp. apply Q3 in Hp. destruct Hp as (p1 & Hp1 & Hsame & Hincl). rewrite app_nil_r in Hp1.
    rewrite Hd in Halp. rewrite (alive_same _ _ _ Hsame) in Halp.
    assert (Hy1 : memN y (locked s) = true).
    { destruct (Hw p1 Hp1 Halp y (Hincl y Hy)) as [H1|H1]; [exact H1 | rewrite Ea in H1; discriminate]. }
    assert (Hr1 : memN r' (locked s) = true).
    { destruct (Hw p0 Hp0 Hal0 r' Hr0) as [H1|H1]; [exact H1 | rewrite Ea in H1; discriminate]. }
    assert (Hrr : r' = r).
    { apply memN_In in Hr1. apply memN_false in Hfree. destruct (N.eq_dec r' r) as [E|E]; [exact E|].
      exfalso. apply Hfree. apply removeN_In. split; assumption. }
    subst r'. rewrite Hl. apply memN_In. apply memN_In in Hy1. destruct (N.eq_dec y r) as [E|E].
    + left. auto.
    + right. apply removeN_In. split; assumption.
Qed.

(* ------------------------------------------------------------------ the oracle's bookkeeping *)
Lemma take_one_spec : forall x l l', take_one x l = Some l' -> forall y, cntP l y = ind (pair_eqb x y) + cntP l' y.
Proof.
  intros x. induction l as [|z t IH]; intros l' H y; cbn [take_one] in H; [discriminate|].
  destruct (pair_eqb x z) eqn:E.
  - inversion H; subst. apply pair_eqb_eq in E. subst z. apply cntP_cons.
  - destruct (take_one x t) as [t'|]; [|discriminate]. inversion H; subst. rewrite !cntP_cons, (IH t' eq_refl y). lia.
Qed.
Lemma take_one_some : forall x l, cntP l x > 0 -> exists l', take_one x l = Some l'.
Proof.
  intros x. induction l as [|z t IH]; intros H; [cbn in H; lia|]. cbn [take_one].
  destruct (pair_eqb x z) eqn:E; [eexists; reflexivity|].
  rewrite cntP_cons in H. assert (E' : pair_eqb z x = false).
  { apply pair_eqb_neq. apply pair_eqb_neq in E. congruence. }
  rewrite E' in H. cbn [ind] in H. destruct (IH H) as [t' Ht]. rewrite Ht. eexists; reflexivity.
Qed.
Lemma remove_all_In : forall x y l, In y (remove_all x l) <-> In y l /\ y <> x.
Proof.
  intros x y l. unfold remove_all. rewrite filter_In, negb_true_iff, pair_eqb_neq. intuition congruence.
Qed.
Lemma remove_one_notin : forall x l, ~ In x l -> remove_one x l = l.
Proof.
  intros x. induction l as [|z t IH]; intros H; [reflexivity|]. cbn [remove_one].
  destruct (pair_eqb x z) eqn:E.
  - apply pair_eqb_eq in E. subst. exfalso. apply H. left. reflexivity.
  - f_equal. apply IH. intros Hx. apply H. right. exact Hx.
Qed.
Lemma remove_one_perm_cons : forall x l, In x l -> Permutation l (x :: remove_one x l).
Proof.
  intros x. induction l as [|z t IH]; intros H; [destruct H|]. cbn [remove_one].
  destruct (pair_eqb x z) eqn:E.
  - apply pair_eqb_eq in E. subst. apply Permutation_refl.
  - destruct H as [H|H]; [subst; rewrite pair_eqb_refl in E; discriminate|].
    eapply perm_trans; [apply perm_skip; apply IH; exact H | apply perm_swap].
Qed.
Lemma remove_one_Permutation : forall x l l', Permutation l l' -> Permutation (remove_one x l) (remove_one x l').
Proof.
  intros x l l' HP. destruct (in_dec pdec x l) as [Hin|Hnin].
  - assert (Hin' : In x l') by (eapply Permutation_in; eauto).
    apply Permutation_cons_inv with (a := x).
    eapply perm_trans; [apply Permutation_sym; apply remove_one_perm_cons; exact Hin|].
    eapply perm_trans; [exact HP | apply remove_one_perm_cons; exact Hin'].
  - assert (Hnin' : ~ In x l') by (intros H; apply Hnin; eapply Permutation_in; [apply Permutation_sym; exact HP | exact H]).
    rewrite !remove_one_notin by assumption. exact HP.
Qed.
Lemma remove_one_In : forall x y l, In y (remove_one x l) -> In y l.
Proof.
  intros x y. induction l as [|z t IH]; intros H; [destruct H|]. cbn [remove_one] in H.
  destruct (pair_eqb x z); [right; exact H|]. destruct H as [H|H]; [left; exact H | right; apply IH; exact H].
Qed.
(* removing one holder entry for room r keeps every other room *)
Lemma remove_one_keeps_other : forall who r y l, In y (map snd l) -> y <> r -> In y (map snd (remove_one (who, r) l)).
Proof.
  intros who r y. induction l as [|z t IH]; intros H Hne; [destruct H|]. cbn [remove_one].
  destruct (pair_eqb (who, r) z) eqn:E.
  - apply pair_eqb_eq in E. subst z. cbn [map snd] in H. destruct H as [H|H]; [congruence | exact H].
  - cbn [map] in *. destruct H as [H|H]; [left; exact H | right; apply IH; assumption].
Qed.

Lemma gh_grants_app : forall h g1 g2, gh_grants h (g1 ++ g2) = gh_grants (gh_grants h g1) g2.
Proof. intros. unfold gh_grants. apply fold_left_app. Qed.
Lemma sp_grants_app : forall g1 g2 s s1, sp_grants s g1 = Some s1 -> sp_grants s (g1 ++ g2) = sp_grants s1 g2.
Proof.
  induction g1 as [|x g1 IH]; intros g2 s s1 H; cbn [sp_grants app] in *.
  - inversion H; subst. reflexivity.
  - destruct (sp_grant s x) as [s'|]; [|discriminate]. apply IH. exact H.
Qed.

(* ------------------------------------------------------------------ joint invariant: service state / oracle state *)
Record J0 (max : nat) (s : st) (o : sp) (h : list (N * N)) : Prop := {
  j_inv1 : inv1 max s;
  j_incl : incl (locked s) (map snd (holders o));
  j_cred : forall x, cntP (pendq (queue s)) x <= cntP (credits o) x;
  j_wait : forall c r, In (c, r) (waiting o) ->
           exists p, In p (queue s) /\ p_c p = c /\ In r (p_rooms p) /\ alive (dead s) p = true;
  j_dead : forall x, In x (dead s) -> In x (deadch o);
  j_h : Permutation h (holders o) }.

Lemma acquire_lock_J0 : forall max s o h s' g, J0 max s o h -> acquire_lock s = (s', g) -> (g <> [] -> avail s >= 1) ->
  exists o', sp_grants o g = Some o' /\ J0 max s' o' (gh_grants h g).
Proof.
  intros max s o h s' g HJ H Hav. apply acquire_lock_spec in H.
  destruct H as (q' & og & Hs & Hq & Hd & Hcase). apply scan_q_spec in Hs.
  destruct Hs as (_ & Q2 & _ & Q4 & Q5 & _). rewrite app_nil_r in Q4, Q5.
  destruct HJ as [[Hnd Hlen] Hincl Hcred Hwait Hdead Hh].
  destruct Hcase as [(Ho & Hg & Hl & Ha)|(c & k & r & Ho & Hg & Hl & Ha)]; subst g og.
  - exists o. split; [reflexivity|]. cbn [gh_grants fold_left]. constructor.
    + split; [rewrite Hl; exact Hnd | rewrite Hl, Ha; exact Hlen].
    + rewrite Hl. exact Hincl.
    + intros x. specialize (Q5 x). cbn [g_is ind] in Q5. rewrite Hq. specialize (Hcred x). lia.
    + intros c r Hin. destruct (Hwait c r Hin) as (p & Hp & Hc & Hr & Hal).
      destruct (Q4 p Hp Hal r Hr) as [Hx|(p' & Hp' & Hsame & Hr')]; [discriminate|].
      exists p'. rewrite Hq, Hd. split; [exact Hp'|]. split; [destruct Hsame; congruence|]. split; [exact Hr'|].
      rewrite (alive_same _ _ _ Hsame). exact Hal.
    + rewrite Hd. exact Hdead.
    + exact Hh.
  - destruct (Q2 c k r eq_refl) as (Hfree & p0 & Hp0 & Hc0 & Hk0 & Hal0 & Hr0).
    assert (Hpos : cntP (credits o) (c, r) > 0).
    { specialize (Q5 (c, r)). cbn [g_is] in Q5. rewrite pair_eqb_refl in Q5. cbn [ind] in Q5. specialize (Hcred (c, r)). lia. }
    destruct (take_one_some _ _ Hpos) as [cr' Hcr'].
    cbn [sp_grants sp_grant]. rewrite Hcr'. eexists. split; [reflexivity|].
    pose proof (take_one_spec _ _ _ Hcr') as Hcnt.
    specialize (Hav ltac:(discriminate)).
    cbn [gh_grants fold_left cr fst snd]. constructor; cbn [holders credits waiting deadch].
    + split; rewrite Hl.
      * constructor; [apply memN_false; exact Hfree | exact Hnd].
      * rewrite Ha. cbn [length]. lia.
    + rewrite Hl. cbn [map snd]. intros y [Hy|Hy]; [left; exact Hy | right; apply Hincl; exact Hy].
    + intros x. specialize (Q5 x). cbn [g_is] in Q5. rewrite Hq. specialize (Hcred x). specialize (Hcnt x). lia.
    + intros c1 r1 Hin. apply remove_all_In in Hin. destruct Hin as [Hin Hne].
      destruct (Hwait c1 r1 Hin) as (p & Hp & Hc & Hr & Hal).
      destruct (Q4 p Hp Hal r1 Hr) as [Hx|(p' & Hp' & Hsame & Hr')].
      * inversion Hx. exfalso. apply Hne. congruence.
      * exists p'. rewrite Hq, Hd. split; [exact Hp'|]. split; [destruct Hsame; congruence|]. split; [exact Hr'|].
        rewrite (alive_same _ _ _ Hsame). exact Hal.
    + rewrite Hd. exact Hdead.
    + apply perm_skip. exact Hh.
Qed.

Lemma acquire_n_J0 : forall max n s o h s' g, J0 max s o h -> n <= avail s -> acquire_n n s = (s', g) ->
  exists o', sp_grants o g = Some o' /\ J0 max s' o' (gh_grants h g).
Proof.
  induction n as [|n IH]; intros s o h s' g HJ Hle H; cbn [acquire_n] in H.
  - inversion H; subst. exists o. split; [reflexivity | exact HJ].
  - destruct (acquire_lock s) as [s1 g1] eqn:E1. destruct (acquire_n n s1) as [s2 g2] eqn:E2. inversion H; subst.
    destruct (acquire_lock_J0 max s o h s1 g1 HJ E1 ltac:(intros; lia)) as (o1 & Ho1 & HJ1).
    assert (Hle1 : n <= avail s1).
    { destruct (acquire_lock_avail _ _ _ E1) as (_ & Hn & Hp). destruct g1; [rewrite Hn by reflexivity; lia | rewrite Hp by discriminate; lia]. }
    destruct (IH s1 o1 _ s' g2 HJ1 Hle1 E2) as (o2 & Ho2 & HJ2).
    exists o2. split.
    + rewrite (sp_grants_app _ _ _ _ Ho1). exact Ho2.
    + rewrite gh_grants_app. exact HJ2.
Qed.

(* ---- requests *)
Lemma add_rooms_cnt : forall rooms stored r, cntN (add_rooms stored rooms) r <= cntN stored r + cntN rooms r.
Proof.
  induction rooms as [|x rooms IH]; intros stored r; unfold add_rooms in *; cbn [fold_left].
  - change (cntN [] r) with 0. lia.
  - specialize (IH (if memN x stored then stored else x :: stored) r). rewrite cntN_cons.
    destruct (memN x stored); [lia | rewrite cntN_cons in IH; lia].
Qed.
Lemma add_rooms_In : forall rooms stored r, In r stored \/ In r rooms -> In r (add_rooms stored rooms).
Proof.
  induction rooms as [|x rooms IH]; intros stored r H; unfold add_rooms in *; cbn [fold_left].
  - destruct H as [H|[]]. exact H.
  - apply IH. destruct H as [H|[H|H]].
    + left. destruct (memN x stored); [exact H | right; exact H].
    + subst x. left. destruct (memN r stored) eqn:E; [apply memN_In; exact E | left; reflexivity].
    + right. exact H.
Qed.

Lemma merge_req_cred : forall q c rooms k x,
  cntP (pendq (merge_req q c rooms k)) x <= cntP (pendq q) x + cntP (map (pair c) rooms) x.
Proof.
  induction q as [|p q IH]; intros c rooms k x; cbn [merge_req]; [lia|].
  destruct (N.eqb (p_c p) c) eqn:E.
  - apply N.eqb_eq in E.
    change (pendq ({| p_c := c; p_rooms := add_rooms (p_rooms p) rooms; p_gen := k |} :: q))
      with (map (pair c) (add_rooms (p_rooms p) rooms) ++ pendq q).
    change (pendq (p :: q)) with (map (pair (p_c p)) (p_rooms p) ++ pendq q).
    rewrite !cntP_app. destruct x as [c0 r0]. rewrite !cntP_map_pair. rewrite E.
    pose proof (add_rooms_cnt rooms (p_rooms p) r0). destruct (N.eqb c c0); lia.
  - change (pendq (p :: merge_req q c rooms k)) with (map (pair (p_c p)) (p_rooms p) ++ pendq (merge_req q c rooms k)).
    change (pendq (p :: q)) with (map (pair (p_c p)) (p_rooms p) ++ pendq q).
    rewrite !cntP_app. specialize (IH c rooms k x). lia.
Qed.
Lemma enqueue_cred : forall q c rooms k x,
  cntP (pendq (enqueue q c rooms k)) x <= cntP (pendq q) x + cntP (map (pair c) rooms) x.
Proof.
  intros. unfold enqueue. destruct (existsb (fun p => N.eqb (p_c p) c) q); [apply merge_req_cred|].
  rewrite pendq_app, cntP_app. unfold pendq at 2. cbn [flat_map p_c p_rooms]. rewrite app_nil_r.
  destruct x as [c0 r0]. rewrite !cntP_map_pair, cntN_rev. lia.
Qed.
Lemma merge_req_has : forall q c rooms k r, existsb (fun p => N.eqb (p_c p) c) q = true -> In r rooms ->
  exists p, In p (merge_req q c rooms k) /\ p_c p = c /\ In r (p_rooms p).
Proof.
  induction q as [|p q IH]; intros c rooms k r He Hr; cbn [existsb merge_req] in *; [discriminate|].
  destruct (N.eqb (p_c p) c) eqn:E.
  - eexists. split; [left; reflexivity|]. cbn [p_c p_rooms]. split; [reflexivity | apply add_rooms_In; right; exact Hr].
  - cbn [orb] in He. destruct (IH c rooms k r He Hr) as (p' & Hp' & Hrest). exists p'. split; [right; exact Hp' | exact Hrest].
Qed.
Lemma merge_req_keeps : forall q c rooms k p r, In p q -> In r (p_rooms p) ->
  exists p', In p' (merge_req q c rooms k) /\ p_c p' = p_c p /\ In r (p_rooms p').
Proof.
  induction q as [|p0 q IH]; intros c rooms k p r Hp Hr; [destruct Hp|]. cbn [merge_req].
  destruct (N.eqb (p_c p0) c) eqn:E.
  - destruct Hp as [Hp|Hp].
    + subst p0. apply N.eqb_eq in E. eexists. split; [left; reflexivity|]. cbn [p_c p_rooms].
      split; [symmetry; exact E | apply add_rooms_In; left; exact Hr].
    + exists p. split; [right; exact Hp | split; [reflexivity | exact Hr]].
  - destruct Hp as [Hp|Hp].
    + subst p0. exists p. split; [left; reflexivity | split; [reflexivity | exact Hr]].
    + destruct (IH c rooms k p r Hp Hr) as (p' & Hp' & Hrest). exists p'. split; [right; exact Hp' | exact Hrest].
Qed.
Lemma enqueue_has : forall q c rooms k r, In r rooms ->
  exists p, In p (enqueue q c rooms k) /\ p_c p = c /\ In r (p_rooms p).
Proof.
  intros q c rooms k r Hr. unfold enqueue. destruct (existsb (fun p => N.eqb (p_c p) c) q) eqn:E.
  - apply merge_req_has; assumption.
  - eexists. split; [apply in_or_app; right; left; reflexivity|]. cbn [p_c p_rooms].
    split; [reflexivity | apply in_rev in Hr; exact Hr].
Qed.
Lemma enqueue_keeps : forall q c rooms k p r, In p q -> In r (p_rooms p) ->
  exists p', In p' (enqueue q c rooms k) /\ p_c p' = p_c p /\ In r (p_rooms p').
Proof.
  intros q c rooms k p r Hp Hr. unfold enqueue. destruct (existsb (fun p => N.eqb (p_c p) c) q).
  - apply merge_req_keeps; assumption.
  - exists p. split; [apply in_or_app; left; exact Hp | split; [reflexivity | exact Hr]].
Qed.

(* entries of other circuits are untouched by a request *)
Lemma merge_req_other : forall q c rooms k p, In p q -> p_c p <> c -> In p (merge_req q c rooms k).
Proof.
  induction q as [|x q IH]; intros c rooms k p Hp Hne; [destruct Hp|]. cbn [merge_req].
  destruct (N.eqb (p_c x) c) eqn:E.
  - destruct Hp as [Hp|Hp]; [subst x; apply N.eqb_eq in E; contradiction | right; exact Hp].
  - destruct Hp as [Hp|Hp]; [left; exact Hp | right; apply IH; assumption].
Qed.
Lemma enqueue_other : forall q c rooms k p, In p q -> p_c p <> c -> In p (enqueue q c rooms k).
Proof.
  intros. unfold enqueue. destruct (existsb _ q); [apply merge_req_other; assumption | apply in_or_app; left; assumption].
Qed.
Lemma merge_req_has_gen : forall q c rooms k r, existsb (fun p => N.eqb (p_c p) c) q = true -> In r rooms ->
  exists p, In p (merge_req q c rooms k) /\ p_c p = c /\ In r (p_rooms p) /\ p_gen p = k.
Proof.
  induction q as [|p q IH]; intros c rooms k r He Hr; cbn [existsb merge_req] in *; [discriminate|].
  destruct (N.eqb (p_c p) c) eqn:E.
  - eexists. split; [left; reflexivity|]. cbn [p_c p_rooms p_gen]. repeat split. apply add_rooms_In. right. exact Hr.
  - cbn [orb] in He. destruct (IH c rooms k r He Hr) as (p' & Hp' & Hrest). exists p'. split; [right; exact Hp' | exact Hrest].
Qed.
Lemma enqueue_has_gen : forall q c rooms k r, In r rooms ->
  exists p, In p (enqueue q c rooms k) /\ p_c p = c /\ In r (p_rooms p) /\ p_gen p = k.
Proof.
  intros q c rooms k r Hr. unfold enqueue. destruct (existsb (fun p => N.eqb (p_c p) c) q) eqn:E.
  - apply merge_req_has_gen; assumption.
  - eexists. split; [apply in_or_app; right; left; reflexivity|]. cbn [p_c p_rooms p_gen]. repeat split. apply in_rev in Hr. exact Hr.
Qed.
Lemma merge_req_keeps_gen : forall q c rooms k p r, In p q -> In r (p_rooms p) ->
  exists p', In p' (merge_req q c rooms k) /\ p_c p' = p_c p /\ In r (p_rooms p') /\ (p' = p \/ (p_c p = c /\ p_gen p' = k)).
Proof.
  induction q as [|p0 q IH]; intros c rooms k p r Hp Hr; [destruct Hp|]. cbn [merge_req].
  destruct (N.eqb (p_c p0) c) eqn:E.
  - destruct Hp as [Hp|Hp].
    + subst p0. apply N.eqb_eq in E. eexists. split; [left; reflexivity|]. cbn [p_c p_rooms p_gen].
      split; [symmetry; exact E|]. split; [apply add_rooms_In; left; exact Hr | right; auto].
    + exists p. split; [right; exact Hp|]. auto.
  - destruct Hp as [Hp|Hp].
    + subst p0. exists p. split; [left; reflexivity|]. auto.
    + destruct (IH c rooms k p r Hp Hr) as (p' & Hp' & Hrest). exists p'. split; [right; exact Hp' | exact Hrest].
Qed.
Lemma enqueue_keeps_gen : forall q c rooms k p r, In p q -> In r (p_rooms p) ->
  exists p', In p' (enqueue q c rooms k) /\ p_c p' = p_c p /\ In r (p_rooms p') /\ (p' = p \/ (p_c p = c /\ p_gen p' = k)).
Proof.
  intros q c rooms k p r Hp Hr. unfold enqueue. destruct (existsb (fun p => N.eqb (p_c p) c) q).
  - apply merge_req_keeps_gen; assumption.
  - exists p. split; [apply in_or_app; left; exact Hp|]. auto.
Qed.

(* ---- one message *)
Lemma step_J0 : forall max s o h m s' g, J0 max s o h -> wake s -> step s m = (s', g) ->
  exists o', sp_grants (sp_msg o m) g = Some o' /\ J0 max s' o' (gh_grants (gh_msg h m) g) /\ wake s'.
Proof.
  intros max s o h m s' g HJ Hw H. destruct m as [c rooms k|who r|c k]; cbn [step] in H.
  - (* Request *)
    set (s1 := {| queue := enqueue (queue s) c rooms k; locked := locked s; avail := avail s; dead := dead s |}) in *.
    assert (HJ1 : J0 max s1 (sp_msg o (Request c rooms k)) (gh_msg h (Request c rooms k))).
    { destruct HJ as [Hi Hincl Hcred Hwait Hdead Hh]. unfold s1; constructor; cbn [sp_msg gh_msg holders credits waiting deadch queue locked avail dead]; auto.
      - intros x. rewrite cntP_app. pose proof (enqueue_cred (queue s) c rooms k x). specialize (Hcred x). lia.
      - intros c0 r0 Hin. destruct (mem_pair (c, k) (deadch o)) eqn:Edk.
        + (* asked on a dropped channel: nothing is owed to c any more *)
          apply filter_In in Hin. destruct Hin as [Hin Hne]. apply negb_true_iff in Hne. apply N.eqb_neq in Hne. cbn [fst] in Hne.
          destruct (Hwait c0 r0 Hin) as (p & Hp & Hc & Hr & Hal).
          exists p. split; [apply enqueue_other; [exact Hp | congruence]|]. auto.
        + assert (Hlive : mem_pair (c, k) (dead s) = false).
          { apply mem_pair_false. intros Hx. apply mem_pair_false in Edk. apply Edk. exact (Hdead _ Hx). }
          apply in_app_or in Hin. destruct Hin as [Hin|Hin].
          * apply in_map_iff in Hin. destruct Hin as (r1 & He & Hr1). inversion He; subst.
            destruct (enqueue_has_gen (queue s) c0 rooms k r0 Hr1) as (p & Hp & Hc & Hr & Hg).
            exists p. split; [exact Hp|]. split; [exact Hc|]. split; [exact Hr|]. unfold alive. rewrite Hc, Hg, Hlive. reflexivity.
          * destruct (Hwait c0 r0 Hin) as (p & Hp & Hc & Hr & Hal).
            destruct (enqueue_keeps_gen (queue s) c rooms k p r0 Hp Hr) as (p' & Hp' & Hc' & Hr' & [E|[Ec Eg]]).
            -- subst p'. exists p. auto.
            -- exists p'. split; [exact Hp'|]. split; [congruence|]. split; [exact Hr'|]. unfold alive. rewrite Hc', Ec, Eg, Hlive. reflexivity. }
    destruct (acquire_n_J0 max (avail s) s1 _ _ s' g HJ1 (le_n _) H) as (o' & Ho' & HJ').
    exists o'. split; [exact Ho'|]. split; [exact HJ'|].
    apply (acquire_n_wake (avail s) s1 s' g); [apply le_n | exact H].
  - (* Unlock *)
    destruct (memN r (locked s)) eqn:Er.
    + set (s1 := {| queue := queue s; locked := removeN r (locked s); avail := S (avail s); dead := dead s |}) in *.
      assert (HJ1 : J0 max s1 (sp_msg o (Unlock who r)) (gh_msg h (Unlock who r))).
      { destruct HJ as [[Hnd Hlen] Hincl Hcred Hwait Hdead Hh]. unfold s1; constructor; cbn [sp_msg gh_msg holders credits waiting deadch queue locked avail dead]; auto.
        - split; [apply removeN_NoDup; exact Hnd|]. cbn [locked avail]. pose proof (removeN_length r (locked s) Hnd (proj1 (memN_In _ _) Er)). lia.
        - intros y Hy. apply removeN_In in Hy. destruct Hy as [Hy Hne]. apply remove_one_keeps_other; [apply Hincl; exact Hy | exact Hne].
        - apply remove_one_Permutation. exact Hh. }
      destruct (acquire_lock_J0 max s1 _ _ s' g HJ1 H ltac:(intros; cbn; lia)) as (o' & Ho' & HJ').
      exists o'. split; [exact Ho'|]. split; [exact HJ'|]. apply (unlock_wake s r s' g Hw Er H).
    + inversion H; subst. exists (sp_msg o (Unlock who r)). split; [reflexivity|]. split; [|exact Hw].
      destruct HJ as [Hi Hincl Hcred Hwait Hdead Hh]. constructor; cbn [sp_msg gh_msg gh_grants fold_left holders credits waiting deadch]; auto.
      * intros y Hy. apply remove_one_keeps_other; [apply Hincl; exact Hy|]. intros E. subst y. apply memN_false in Er. contradiction.
      * apply remove_one_Permutation. exact Hh.
  - (* DropChan *)
    inversion H; subst. exists (sp_msg o (DropChan c k)). split; [reflexivity|]. split.
    + destruct HJ as [Hi Hincl Hcred Hwait Hdead Hh]. constructor; cbn [sp_msg gh_msg gh_grants fold_left holders credits waiting deadch queue locked avail dead]; auto.
      * intros c0 r0 Hin. apply filter_In in Hin. destruct Hin as [Hin Hne]. apply negb_true_iff in Hne. apply N.eqb_neq in Hne. cbn [fst] in Hne.
        destruct (Hwait c0 r0 Hin) as (p & Hp & Hc & Hr & Hal). exists p. split; [exact Hp|]. split; [exact Hc|]. split; [exact Hr|].
        unfold alive in *. cbn [mem_pair existsb]. unfold pair_eqb at 1. cbn [fst snd].
        assert (E : N.eqb (p_c p) c = false) by (apply N.eqb_neq; congruence). rewrite E. cbn [andb orb]. exact Hal.
      * intros x [Hx|Hx]; [left; exact Hx | right; exact (Hdead _ Hx)].
    + intros p Hp Hal r Hr. cbn [queue dead locked avail] in *. apply alive_mono in Hal. exact (Hw p Hp Hal r Hr).
Qed.

(* ---- exclusive / bounded: holds as long as no release by a non-holder frees a locked room *)
Definition J8 (s : st) (h : list (N * N)) : Prop := Permutation (map snd h) (locked s).

Lemma acquire_lock_J8 : forall s h s' g, J8 s h -> acquire_lock s = (s', g) -> J8 s' (gh_grants h g).
Proof.
  intros s h s' g H8 H. apply acquire_lock_spec in H.
  destruct H as (q' & og & _ & _ & _ & [(_ & Hg & Hl & _)|(c & k & r & _ & Hg & Hl & _)]); subst g; unfold J8; rewrite Hl.
  - exact H8.
  - cbn [gh_grants fold_left cr fst snd map]. apply perm_skip. exact H8.
Qed.
Lemma acquire_n_J8 : forall n s h s' g, J8 s h -> acquire_n n s = (s', g) -> J8 s' (gh_grants h g).
Proof.
  induction n as [|n IH]; intros s h s' g H8 H; cbn [acquire_n] in H.
  - inversion H; subst. exact H8.
  - destruct (acquire_lock s) as [s1 g1] eqn:E1. destruct (acquire_n n s1) as [s2 g2] eqn:E2. inversion H; subst.
    rewrite gh_grants_app. apply (IH s1 _ s' g2); [|exact E2]. apply (acquire_lock_J8 s h s1 g1 H8 E1).
Qed.

Definition bad_unlock (s : st) (h : list (N * N)) (m : msg) : bool :=
  match m with Unlock who r => negb (mem_pair (who, r) h) && memN r (locked s) | _ => false end.

Lemma step_J8 : forall s h m s' g, NoDup (locked s) -> J8 s h -> bad_unlock s h m = false -> step s m = (s', g) ->
  J8 s' (gh_grants (gh_msg h m) g).
Proof.
  intros s h m s' g Hnd H8 Hbad H. destruct m as [c rooms k|who r|c k]; cbn [step gh_msg] in *.
  - eapply acquire_n_J8; [|exact H]. exact H8.
  - destruct (memN r (locked s)) eqn:Er.
    + unfold bad_unlock in Hbad. rewrite Er, andb_true_r in Hbad. apply negb_false_iff in Hbad. apply mem_pair_In in Hbad.
      eapply acquire_lock_J8; [|exact H]. unfold J8 in *. cbn [locked].
      pose proof (remove_one_perm_cons _ _ Hbad) as Hp. apply (Permutation_map snd) in Hp. cbn [map snd] in Hp.
      assert (Hp2 : Permutation (r :: map snd (remove_one (who, r) h)) (locked s)).
      { eapply perm_trans; [apply Permutation_sym; exact Hp | exact H8]. }
      assert (Hnd2 : NoDup (r :: map snd (remove_one (who, r) h))).
      { eapply Permutation_NoDup; [apply Permutation_sym; exact Hp2 | exact Hnd]. }
      inversion Hnd2 as [|? ? Hnr Hndr]; subst.
      apply NoDup_Permutation; [exact Hndr | apply removeN_NoDup; exact Hnd|].
      intros y. rewrite removeN_In. split.
      * intros Hy. split; [eapply Permutation_in; [exact Hp2 | right; exact Hy] | intros E; subst; contradiction].
      * intros [Hy Hne]. apply (Permutation_in _ (Permutation_sym Hp2)) in Hy. destruct Hy as [Hy|Hy]; [congruence | exact Hy].
    + inversion H; subst. cbn [gh_grants fold_left]. unfold J8 in *.
      assert (Hn : ~ In (who, r) h).
      { intros Hin. apply memN_false in Er. apply Er. eapply Permutation_in; [exact H8|]. apply in_map_iff. exists (who, r). split; [reflexivity | exact Hin]. }
      rewrite (remove_one_notin _ _ Hn). exact H8.
  - inversion H; subst. cbn [gh_grants fold_left]. exact H8.
Qed.

(* ------------------------------------------------------------------ the oracle's checks follow from the invariant *)
Lemma nodupN_NoDup : forall l, NoDup l -> nodupN l = true.
Proof.
  induction l as [|x t IH]; intros H; [reflexivity|]. inversion H; subst. cbn [nodupN].
  rewrite IH by assumption. rewrite andb_true_r. apply negb_true_iff. apply memN_false. assumption.
Qed.

Lemma J_live : forall max s o h, J0 max s o h -> wake s -> sp_live max o = true.
Proof.
  intros max s o h HJ Hw. unfold sp_live. apply forallb_forall. intros [c r] Hin. cbn [fst snd].
  destruct (j_wait _ _ _ _ HJ c r Hin) as (p & Hp & Hc & Hr & Hal).
  destruct (Hw p Hp Hal r Hr) as [Hl|Ha].
  - apply memN_In in Hl. apply (j_incl _ _ _ _ HJ) in Hl. apply memN_In in Hl. rewrite Hl. reflexivity.
  - destruct (j_inv1 _ _ _ _ HJ) as [Hnd Hlen]. pose proof (NoDup_incl_length Hnd (j_incl _ _ _ _ HJ)) as Hle.
    rewrite map_length in Hle. apply orb_true_iff. right. apply Nat.leb_le. lia.
Qed.
Lemma J_safe : forall max s o h, J0 max s o h -> J8 s h -> sp_safe max o = true.
Proof.
  intros max s o h HJ H8. unfold sp_safe. destruct (j_inv1 _ _ _ _ HJ) as [Hnd Hlen].
  assert (Hp : Permutation (map snd (holders o)) (locked s)).
  { eapply perm_trans; [apply Permutation_map; apply Permutation_sym; exact (j_h _ _ _ _ HJ) | exact H8]. }
  apply andb_true_iff. split.
  - apply nodupN_NoDup. eapply Permutation_NoDup; [apply Permutation_sym; exact Hp | exact Hnd].
  - apply Nat.leb_le. apply Permutation_length in Hp. rewrite map_length in Hp. lia.
Qed.

(* ------------------------------------------------------------------ the order of the grants of one message does not matter *)
Definition sp_equiv (a b : sp) : Prop :=
  Permutation (holders a) (holders b) /\ (forall x, cntP (credits a) x = cntP (credits b) x) /\
  (forall x, In x (waiting a) <-> In x (waiting b)) /\ deadch a = deadch b.

Lemma sp_grants_char : forall g s s', sp_grants s g = Some s' ->
  Permutation (holders s') (map cr g ++ holders s) /\
  (forall x, cntP (credits s) x = cntP (map cr g) x + cntP (credits s') x) /\
  (forall x, In x (waiting s') <-> In x (waiting s) /\ ~ In x (map cr g)) /\
  deadch s' = deadch s.
Proof.
  induction g as [|[[c k] r] g IH]; intros s s' H; cbn [sp_grants] in H.
  - inversion H; subst. cbn [map app]. repeat split; auto; try tauto.
  - unfold sp_grant in H. destruct (take_one (c, r) (credits s)) as [cr'|] eqn:E; [|discriminate].
    apply IH in H. cbn [holders credits waiting deadch] in H. destruct H as (H1 & H2 & H3 & H4).
    pose proof (take_one_spec _ _ _ E) as Hc. cbn [map]. change (cr (c, k, r)) with (c, r).
    repeat split.
    + eapply perm_trans; [exact H1|]. apply Permutation_sym. apply Permutation_middle.
    + intros x. rewrite cntP_cons, (Hc x), (H2 x). lia.
    + apply H3 in H. destruct H as [H _]. apply remove_all_In in H. tauto.
    + apply H3 in H. destruct H as [H Hn]. apply remove_all_In in H. intros [Hx|Hx]; [destruct H as [_ H]; congruence | contradiction].
    + intros [Hw Hn]. apply H3. split.
      * apply remove_all_In. split; [exact Hw|]. intros E'. apply Hn. left. congruence.
      * intros Hx. apply Hn. right. exact Hx.
    + exact H4.
Qed.
Lemma sp_grants_total : forall g s, (forall x, cntP (map cr g) x <= cntP (credits s) x) -> exists s', sp_grants s g = Some s'.
Proof.
  induction g as [|[[c k] r] g IH]; intros s H; [eexists; reflexivity|]. cbn [sp_grants sp_grant].
  assert (Hpos : cntP (credits s) (c, r) > 0).
  { specialize (H (c, r)). cbn [map] in H. change (cr (c, k, r)) with (c, r) in H. rewrite cntP_cons, pair_eqb_refl in H. cbn [ind] in H. lia. }
  destruct (take_one_some _ _ Hpos) as [cr' E]. rewrite E. apply IH. cbn [credits]. intros x.
  specialize (H x). cbn [map] in H. change (cr (c, k, r)) with (c, r) in H. rewrite cntP_cons in H. pose proof (take_one_spec _ _ _ E x). lia.
Qed.
Lemma cntP_perm : forall l l' x, Permutation l l' -> cntP l x = cntP l' x.
Proof. intros l l' x H. unfold cntP. apply Permutation_count_occ. exact H. Qed.

Lemma sp_grants_perm : forall g g' s s1, Permutation g g' -> sp_grants s g = Some s1 ->
  exists s2, sp_grants s g' = Some s2 /\ sp_equiv s1 s2.
Proof.
  intros g g' s s1 HP H. apply sp_grants_char in H. destruct H as (A1 & A2 & A3 & A4).
  assert (HPm : Permutation (map cr g) (map cr g')) by (apply Permutation_map; exact HP).
  destruct (sp_grants_total g' s) as [s2 H2].
  { intros x. rewrite <- (cntP_perm _ _ x HPm). specialize (A2 x). lia. }
  exists s2. split; [exact H2|]. apply sp_grants_char in H2. destruct H2 as (B1 & B2 & B3 & B4).
  repeat split.
  - eapply perm_trans; [exact A1|]. eapply perm_trans; [|apply Permutation_sym; exact B1]. apply Permutation_app_tail. exact HPm.
  - intros x. specialize (A2 x). specialize (B2 x). rewrite (cntP_perm _ _ x HPm) in A2. lia.
  - intros Hx. apply B3. apply A3 in Hx. destruct Hx as [Hx Hn]. split; [exact Hx|]. intros Hy. apply Hn. eapply Permutation_in; [apply Permutation_sym; exact HPm | exact Hy].
  - intros Hx. apply A3. apply B3 in Hx. destruct Hx as [Hx Hn]. split; [exact Hx|]. intros Hy. apply Hn. eapply Permutation_in; [exact HPm | exact Hy].
  - congruence.
Qed.

Lemma J0_equiv : forall max s o o' h, J0 max s o h -> sp_equiv o o' -> J0 max s o' h.
Proof.
  intros max s o o' h [Hi Hincl Hcred Hwait Hdead Hh] (E1 & E2 & E3 & E4). constructor; auto.
  - intros y Hy. apply Hincl in Hy. eapply Permutation_in; [apply Permutation_map; exact E1 | exact Hy].
  - intros x. rewrite <- E2. apply Hcred.
  - intros c r Hin. apply Hwait. apply E3. exact Hin.
  - intros x Hin. rewrite <- E4. exact (Hdead x Hin).
  - eapply perm_trans; [exact Hh | exact E1].
Qed.

(* ------------------------------------------------------------------ whole histories *)
Lemma foreign_from_cons : forall s h m tl, foreign_from s h (m :: tl) =
  bad_unlock s h m || foreign_from (fst (step s m)) (gh_grants (gh_msg h m) (snd (step s m))) tl.
Proof. intros. cbn [foreign_from]. destruct (step s m) as [s' g]. destruct m; reflexivity. Qed.

Theorem history_ok : forall tr max s o h gss,
  J0 max s o h -> wake s -> Forall2 (@Permutation grant) (run_from s tr) gss ->
  snd (spec_from max o tr gss) = true /\
  (J8 s h -> foreign_from s h tr = false -> fst (spec_from max o tr gss) = true).
Proof.
  induction tr as [|m tl IH]; intros max s o h gss HJ Hw HF; cbn [run_from] in HF.
  - inversion HF; subst. cbn. split; auto.
  - destruct (step s m) as [s' g] eqn:Es. inversion HF as [|g0 g' ? gtl HP HF']; subst. cbn [spec_from].
    destruct (step_J0 max s o h m s' g HJ Hw Es) as (om & Hom & HJm & Hw').
    destruct (sp_grants_perm g g' _ om HP Hom) as (o2 & Ho2 & Heq). rewrite Ho2.
    pose proof (J0_equiv _ _ _ _ _ HJm Heq) as HJ2.
    destruct (IH max s' o2 _ gtl HJ2 Hw' HF') as [IHl IHs].
    destruct (spec_from max o2 tl gtl) as [a b] eqn:Esp. cbn [fst snd] in *.
    split.
    + rewrite (J_live max s' o2 _ HJ2 Hw'), IHl. reflexivity.
    + intros H8 Hfor. rewrite foreign_from_cons, Es in Hfor. cbn [fst snd] in Hfor. apply orb_false_iff in Hfor. destruct Hfor as [Hbad Hfor].
      pose proof (step_J8 s h m s' g (proj1 (j_inv1 _ _ _ _ HJ)) H8 Hbad Es) as H8'.
      rewrite (J_safe max s' o2 _ HJ2 H8'), (IHs H8' Hfor). reflexivity.
Qed.

Lemma J0_init : forall max, J0 max (init max) sp0 [].
Proof.
  intros max. constructor; cbn.
  - split; [constructor | reflexivity].
  - intros x [].
  - intros x. lia.
  - intros c r [].
  - intros x [].
  - constructor.
Qed.
Lemma wake_init : forall max, wake (init max).
Proof. intros max p []. Qed.

(* ------------------------------------------------------------------ observation format *)
Lemma insert_g_perm : forall x l, Permutation (x :: l) (insert_g x l).
Proof.
  intros x. induction l as [|y t IH]; [apply Permutation_refl|]. cbn [insert_g].
  destruct (chan_leb x y); [apply Permutation_refl|].
  eapply perm_trans; [apply perm_swap | apply perm_skip; exact IH].
Qed.
Lemma sort_g_perm : forall l, Permutation l (sort_g l).
Proof.
  induction l as [|x t IH]; [constructor|]. cbn [sort_g].
  eapply perm_trans; [apply perm_skip; exact IH | apply insert_g_perm].
Qed.
Lemma Forall2_sort : forall gss, Forall2 (@Permutation grant) gss (map sort_g gss).
Proof. induction gss; constructor; [apply sort_g_perm | assumption]. Qed.

Lemma take_grants_enc : forall gs rest, take_grants (length gs) (flat_map enc_grant gs ++ rest) = Some (gs, rest).
Proof.
  induction gs as [|[[c k] r] gs IH]; intros rest; [reflexivity|].
  cbn [length flat_map enc_grant app take_grants]. rewrite IH.
  unfold zn. rewrite !N2Z.id. reflexivity.
Qed.
Lemma decode_encode : forall gss, decode (length gss) (encode gss) = Some gss.
Proof.
  induction gss as [|gs gss IH]; [reflexivity|].
  unfold encode in *. cbn [length flat_map enc_step decode app]. rewrite Nat2Z.id, take_grants_enc, IH. reflexivity.
Qed.
Lemma run_from_length : forall tr s, length (run_from s tr) = length tr.
Proof.
  induction tr as [|m tl IH]; intros s; [reflexivity|]. cbn [run_from]. destruct (step s m). cbn [length]. rewrite IH. reflexivity.
Qed.

Lemma spec_pair_run : forall max tr,
  spec_pair_lock max tr (run_lock max tr) = spec_from max sp0 tr (map sort_g (run_from (init max) tr)).
Proof.
  intros max tr. unfold spec_pair_lock, run_lock.
  rewrite <- (run_from_length tr (init max)), <- (map_length sort_g), decode_encode. reflexivity.
Qed.

(* once per request, never lost: for EVERY history *)
Theorem live_always : forall max tr, snd (spec_pair_lock max tr (run_lock max tr)) = true.
Proof.
  intros max tr. rewrite spec_pair_run.
  apply (history_ok tr max (init max) sp0 [] _ (J0_init max) (wake_init max) (Forall2_sort _)).
Qed.
(* exclusive and bounded: for every history without a release by a non-holder that frees a locked room *)
Theorem safe_unless_foreign : forall max tr, foreign_lock max tr = false -> fst (spec_pair_lock max tr (run_lock max tr)) = true.
Proof.
  intros max tr Hf. rewrite spec_pair_run. unfold foreign_lock in Hf.
  apply (history_ok tr max (init max) sp0 [] _ (J0_init max) (wake_init max) (Forall2_sort _)).
  - unfold J8. cbn. constructor.
  - exact Hf.
Qed.

Theorem outside_known : forall max tr,
  foreign_lock max tr = false -> spec_core_lock max tr (run_lock max tr) = true.
Proof.
  intros max tr Ef. unfold spec_core_lock.
  pose proof (live_always max tr) as Hl. pose proof (safe_unless_foreign max tr Ef) as Hs.
  destruct (spec_pair_lock max tr (run_lock max tr)) as [a b]. cbn [fst snd] in *. subst. reflexivity.
Qed.
(* in terms of the known classes: class 1 absent *)
Theorem outside_known_class1 : forall max tr,
  ~ In 1%Z (known_C20 (CLock max tr)) -> spec_core_lock max tr (run_lock max tr) = true.
Proof.
  intros max tr Hk. apply outside_known. cbn [known_C20] in Hk. unfold known_lock in Hk.
  rewrite (live_always max tr), andb_true_r in Hk. destruct (foreign_lock max tr); [|reflexivity].
  exfalso. apply Hk. left. reflexivity.
Qed.

(* ------------------------------------------------------------------ statements about the service state itself *)
Theorem state_invariants : forall tr max s o h, J0 max s o h -> wake s ->
  let s' := state_after s tr in
  NoDup (locked s') /\ length (locked s') + avail s' = max /\ wake s'.
Proof.
  induction tr as [|m tl IH]; intros max s o h HJ Hw; cbn [state_after].
  - destruct (j_inv1 _ _ _ _ HJ) as [A B]. repeat split; assumption.
  - destruct (step s m) as [s' g] eqn:Es. destruct (step_J0 max s o h m s' g HJ Hw Es) as (om & _ & HJm & Hw').
    cbn [fst]. exact (IH max s' om _ HJm Hw').
Qed.
Theorem counter_and_wakeup : forall max tr,
  let s := state_after (init max) tr in
  NoDup (locked s) /\ length (locked s) + avail s = max /\ wake s.
Proof. intros max tr. exact (state_invariants tr max (init max) sp0 [] (J0_init max) (wake_init max)). Qed.

(* progress: a room that is free and wanted on a live channel is granted by the next acquire_lock;
   in particular a released room somebody waits for is re-granted at once *)
Lemma acquire_progress : forall s s' g p r, acquire_lock s = (s', g) ->
  In p (queue s) -> alive (dead s) p = true -> In r (p_rooms p) -> memN r (locked s) = false -> g <> [].
Proof.
  intros s s' g p r H Hp Hal Hr Hfree Hg. subst g. apply acquire_lock_spec in H.
  destruct H as (q' & og & Hs & _ & _ & [(Ho & _)|(c & k & r' & _ & Hg & _)]); [|discriminate].
  apply scan_q_spec in Hs. destruct Hs as (Q1 & _ & _ & Q4 & _). rewrite app_nil_r in Q4.
  destruct (Q4 p Hp Hal r Hr) as [Hx|(p' & Hp' & Hsame & Hr')]; [rewrite Ho in Hx; discriminate|].
  assert (Hb : blocked (locked s) (dead s) p') by (apply (Q1 Ho); [intros x []| exact Hp']).
  unfold blocked in Hb. rewrite (alive_same _ _ _ Hsame) in Hb. rewrite (Hb Hal r Hr') in Hfree. discriminate.
Qed.
Theorem release_progress : forall s who r p,
  memN r (locked s) = true -> In p (queue s) -> alive (dead s) p = true -> In r (p_rooms p) ->
  snd (step s (Unlock who r)) <> [].
Proof.
  intros s who r p Hl Hp Hal Hr. cbn [step]. rewrite Hl.
  destruct (acquire_lock {| queue := queue s; locked := removeN r (locked s); avail := S (avail s); dead := dead s |}) as [s' g] eqn:E.
  cbn [snd]. apply (acquire_progress _ s' g p r E); cbn [queue dead locked]; auto.
  apply memN_false. intros Hin. apply removeN_In in Hin. destruct Hin as [_ Hne]. apply Hne. reflexivity.
Qed.

(* ------------------------------------------------------------------ connections on top of the service *)
Definition no12 (l : list Z) : Prop := existsb (Z.eqb 1) l = false /\ existsb (Z.eqb 2) l = false.
Lemma no12_app : forall a b, no12 (a ++ b) -> no12 a /\ no12 b.
Proof.
  intros a b [H1 H2]. rewrite existsb_app in H1, H2. apply orb_false_iff in H1, H2. unfold no12. tauto.
Qed.

(* what a connection holds: grants waiting in its channel and rooms of its running tasks *)
Definition items (cn : conn) : list (N * N) := map (pair (cn_c cn)) (cn_inbox cn ++ cn_tasks cn).
Definition flat (cs : list conn) : list (N * N) := flat_map items cs.
Definition other (c : N) (cs : list conn) : list conn := filter (fun y => negb (N.eqb (cn_c y) c)) cs.
Record CInv (cs : list conn) (h : list (N * N)) : Prop := {
  ci_nd : NoDup (map cn_c cs);
  ci_h : Permutation h (flat cs);
  ci_acq : forall cn, In cn cs -> incl (cn_acq cn) (cn_tasks cn) }.

Lemma find_conn_c : forall cs c, cn_c (find_conn cs c) = c.
Proof.
  intros cs c. unfold find_conn. destruct (find (fun x => N.eqb (cn_c x) c) cs) as [x|] eqn:E; [|reflexivity].
  apply find_some in E. destruct E as [_ E]. apply N.eqb_eq in E. exact E.
Qed.
Lemma other_absent : forall c cs, ~ In c (map cn_c cs) -> other c cs = cs.
Proof.
  intros c. induction cs as [|y t IH]; intros H; [reflexivity|]. cbn [other filter map] in *.
  destruct (N.eqb (cn_c y) c) eqn:E.
  - apply N.eqb_eq in E. exfalso. apply H. left. exact E.
  - cbn [negb]. f_equal. apply IH. intros Hin. apply H. right. exact Hin.
Qed.
Lemma flat_split : forall cs c, NoDup (map cn_c cs) ->
  Permutation (flat cs) (items (find_conn cs c) ++ flat (other c cs)).
Proof.
  induction cs as [|y t IH]; intros c Hnd; [unfold find_conn; cbn; constructor|].
  cbn [map] in Hnd. inversion Hnd as [|? ? Hny Hnt]; subst. unfold find_conn. cbn [find other filter].
  destruct (N.eqb (cn_c y) c) eqn:E; cbn [negb].
  - apply N.eqb_eq in E. subst c. fold (other (cn_c y) t). rewrite (other_absent _ _ Hny). apply Permutation_refl.
  - fold (other c t). specialize (IH c Hnt). unfold find_conn in IH. unfold flat in *. cbn [flat_map].
    eapply perm_trans; [apply Permutation_app_head; exact IH|].
    rewrite !app_assoc. apply Permutation_app_tail. apply Permutation_app_comm.
Qed.
Lemma flat_split' : forall cs c, NoDup (map cn_c cs) ->
  Permutation (flat cs) (map (pair c) (cn_inbox (find_conn cs c) ++ cn_tasks (find_conn cs c)) ++ flat (other c cs)).
Proof.
  intros cs c H. pose proof (flat_split cs c H) as Hs. unfold items at 1 in Hs. rewrite (find_conn_c cs c) in Hs. exact Hs.
Qed.
Lemma other_ids : forall c cs, ~ In c (map cn_c (other c cs)).
Proof.
  intros c cs H. apply in_map_iff in H. destruct H as (y & Hy & Hin). apply filter_In in Hin. destruct Hin as [_ Hin].
  apply negb_true_iff in Hin. apply N.eqb_neq in Hin. contradiction.
Qed.
Lemma other_nodup : forall c cs, NoDup (map cn_c cs) -> NoDup (map cn_c (other c cs)).
Proof.
  intros c. induction cs as [|y t IH]; intros H; [constructor|]. cbn [map] in H. inversion H as [|? ? Hny Hnt]; subst.
  cbn [other filter]. destruct (negb (N.eqb (cn_c y) c)); [|apply IH; exact Hnt]. cbn [map]. constructor; [|apply IH; exact Hnt].
  intros Hin. apply Hny. apply in_map_iff in Hin. destruct Hin as (z & Hz & Hin). apply filter_In in Hin. rewrite <- Hz. apply in_map. tauto.
Qed.
Lemma find_conn_in_or_default : forall cs c,
  In (find_conn cs c) cs \/ find_conn cs c = {| cn_c := c; cn_inbox := []; cn_acq := []; cn_tasks := []; cn_ended := false |}.
Proof.
  intros cs c. unfold find_conn. destruct (find (fun x => N.eqb (cn_c x) c) cs) as [x|] eqn:E; [|right; reflexivity].
  left. apply find_some in E. tauto.
Qed.

(* replacing the record of connection c *)
Lemma set_conn_inv : forall cs h x h',
  CInv cs h -> incl (cn_acq x) (cn_tasks x) ->
  Permutation h' (items x ++ flat (other (cn_c x) cs)) ->
  CInv (set_conn cs x) h'.
Proof.
  intros cs h x h' [Hnd Hh Hacq] Hx Hp. constructor.
  - unfold set_conn. cbn [map]. constructor; [apply other_ids | apply other_nodup; exact Hnd].
  - exact Hp.
  - intros cn [Hcn|Hcn]; [subst; exact Hx|]. apply filter_In in Hcn. apply Hacq. tauto.
Qed.

Lemma deliver_inv : forall g cs h, CInv cs h -> CInv (deliver cs g) (gh_grants h g).
Proof.
  induction g as [|[[c k] r] g IH]; intros cs h HI; [exact HI|].
  unfold deliver, gh_grants in *. cbn [fold_left]. apply IH. change (cr (c, k, r)) with (c, r). cbn [fst snd].
  set (old := find_conn cs c).
  apply (set_conn_inv cs h); [exact HI | |].
  - cbn [cn_acq cn_tasks]. destruct (find_conn_in_or_default cs c) as [Hin|Hd]; [exact (ci_acq _ _ HI _ Hin) | fold old in Hd; rewrite Hd; intros y []].
  - cbn [cn_c]. unfold items at 1. cbn [cn_c cn_inbox cn_tasks].
    pose proof (flat_split' cs c (ci_nd _ _ HI)) as Hs. fold old in Hs.
    eapply perm_trans; [apply perm_skip; eapply perm_trans; [exact (ci_h _ _ HI) | exact Hs]|].
    rewrite <- !app_assoc, !map_app. cbn [map app].
    rewrite <- !app_assoc. cbn [app].
    apply Permutation_cons_app. rewrite !app_assoc. apply Permutation_refl.
Qed.

Fixpoint ghost_after (s : st) (h : list (N * N)) (ms : list msg) : st * list (N * N) :=
  match ms with
  | [] => (s, h)
  | m :: tl => let '(s', g) := step s m in ghost_after s' (gh_grants (gh_msg h m) g) tl
  end.
Lemma foreign_from_app : forall ms1 ms2 s h,
  foreign_from s h (ms1 ++ ms2) =
  foreign_from s h ms1 || foreign_from (fst (ghost_after s h ms1)) (snd (ghost_after s h ms1)) ms2.
Proof.
  induction ms1 as [|m tl IH]; intros ms2 s h; [reflexivity|].
  cbn [app]. rewrite !foreign_from_cons. cbn [ghost_after]. destruct (step s m) as [s' g]. cbn [fst snd].
  rewrite IH, orb_assoc. reflexivity.
Qed.

Definition benign_here (x : cst) (e : cev) : Prop :=
  match e with
  | CEnd c => let cn := find_conn (c_conns x) c in cn_ended cn = true \/ cn_tasks cn = []
  | _ => True
  end.

Lemma remove_one_N_perm : forall r l, In r l -> Permutation l (r :: remove_one_N r l).
Proof.
  intros r. induction l as [|y t IH]; intros H; [destruct H|]. cbn [remove_one_N].
  destruct (N.eqb r y) eqn:E; [apply N.eqb_eq in E; subst; apply Permutation_refl|].
  destruct H as [H|H]; [subst; rewrite N.eqb_refl in E; discriminate|].
  eapply perm_trans; [apply perm_skip; apply IH; exact H | apply perm_swap].
Qed.
Lemma remove_one_N_incl : forall r l, incl (remove_one_N r l) l.
Proof.
  intros r. induction l as [|y t IH]; intros z Hz; [destruct Hz|]. cbn [remove_one_N] in Hz.
  destruct (N.eqb r y); [right; exact Hz|]. destruct Hz as [Hz|Hz]; [left; exact Hz | right; apply IH; exact Hz].
Qed.
Lemma insert_sorted_In : forall x l y, In y (insert_sorted x l) -> y = x \/ In y l.
Proof.
  intros x. induction l as [|z t IH]; intros y H; cbn [insert_sorted] in H.
  - destruct H as [H|[]]. left. auto.
  - destruct (N.eqb x z); [right; exact H|]. destruct (N.ltb x z).
    + destruct H as [H|H]; [left; auto | right; exact H].
    + destruct H as [H|H]; [right; left; exact H|]. apply IH in H. destruct H; [left; auto | right; right; auto].
Qed.

(* one benign connection event: the messages it causes contain no release by a non-holder *)
Lemma cstep_plain_benign : forall x h e x' ms gss,
  CInv (c_conns x) h -> (forall c, e <> CEnd c) -> cstep_plain x e = (x', ms, gss) ->
  foreign_from (c_svc x) h ms = false /\
  c_svc x' = fst (ghost_after (c_svc x) h ms) /\ CInv (c_conns x') (snd (ghost_after (c_svc x) h ms)).
Proof.
  intros x h e x' ms gss HI Hb H. unfold cstep_plain in H.
  destruct (cev_msgs (c_conns x) e) as [ms0 cs1] eqn:Em.
  destruct (steps (c_svc x) ms0) as [s' gss0] eqn:Es. inversion H; subst x' ms gss. clear H. cbn [c_svc c_conns].
  assert (Hsingle : forall m cs1', ms0 = [m] -> bad_unlock (c_svc x) h m = false -> CInv cs1' (gh_msg h m) -> cs1 = cs1' ->
            foreign_from (c_svc x) h ms0 = false /\ s' = fst (ghost_after (c_svc x) h ms0) /\
            CInv (deliver cs1 (concat gss0)) (snd (ghost_after (c_svc x) h ms0))).
  { intros m cs1' -> Hbad HI1 <-. cbn [steps] in Es. destruct (step (c_svc x) m) as [s1 g1] eqn:E1. inversion Es; subst.
    rewrite foreign_from_cons, Hbad, E1. cbn [fst snd foreign_from orb ghost_after]. rewrite E1. cbn [fst snd concat]. rewrite app_nil_r.
    split; [reflexivity|]. split; [reflexivity|]. apply deliver_inv. exact HI1. }
  assert (Hnone : forall cs1', ms0 = [] -> CInv cs1' h -> cs1 = cs1' ->
            foreign_from (c_svc x) h ms0 = false /\ s' = fst (ghost_after (c_svc x) h ms0) /\
            CInv (deliver cs1 (concat gss0)) (snd (ghost_after (c_svc x) h ms0))).
  { intros cs1' -> HI1 <-. cbn [steps] in Es. inversion Es; subst. cbn. split; [reflexivity|]. split; [reflexivity|]. exact HI1. }
  destruct e as [c rooms|c|c|c r|c]; cbn [cev_msgs] in Em.
  - destruct (cn_ended (find_conn (c_conns x) c)); inversion Em; subst.
    + apply (Hnone (c_conns x)); auto.
    + apply (Hsingle (Request c rooms 0) (c_conns x)); auto.
  - destruct (cn_ended (find_conn (c_conns x) c)) eqn:Ee; [inversion Em; subst; apply (Hnone (c_conns x)); auto|].
    destruct (cn_inbox (find_conn (c_conns x) c)) as [|r rest] eqn:Ei; inversion Em; subst; [apply (Hnone (c_conns x)); auto|].
    eapply Hnone; [reflexivity | | reflexivity].
    set (old := find_conn (c_conns x) c) in *.
    apply (set_conn_inv (c_conns x) h); [exact HI | |].
    + cbn [cn_acq cn_tasks]. intros y Hy. apply insert_sorted_In in Hy. destruct Hy as [Hy|Hy]; [left; auto|right].
      destruct (find_conn_in_or_default (c_conns x) c) as [Hin|Hd]; [exact (ci_acq _ _ HI _ Hin y Hy) | fold old in Hd; rewrite Hd in Hy; destruct Hy].
    + cbn [cn_c]. unfold items at 1. cbn [cn_c cn_inbox cn_tasks].
      pose proof (flat_split' (c_conns x) c (ci_nd _ _ HI)) as Hs. fold old in Hs. rewrite Ei in Hs.
      eapply perm_trans; [exact (ci_h _ _ HI)|]. eapply perm_trans; [exact Hs|]. apply Permutation_app_tail. apply Permutation_map.
      cbn [app]. apply Permutation_sym. eapply perm_trans; [apply Permutation_app_comm|]. cbn [app]. apply perm_skip. apply Permutation_app_comm.
  - (* CTakeFail: the oldest grant is released at once, by the connection that holds it *)
    destruct (cn_ended (find_conn (c_conns x) c)) eqn:Ee; [inversion Em; subst; apply (Hnone (c_conns x)); auto|].
    destruct (cn_inbox (find_conn (c_conns x) c)) as [|r rest] eqn:Ei; inversion Em; subst; [apply (Hnone (c_conns x)); auto|].
    pose proof (flat_split' (c_conns x) c (ci_nd _ _ HI)) as Hs. rewrite Ei in Hs.
    assert (Hin : In (c, r) h).
    { eapply Permutation_in; [apply Permutation_sym; eapply perm_trans; [exact (ci_h _ _ HI) | exact Hs]|]. left. reflexivity. }
    eapply Hsingle; [reflexivity | | | reflexivity].
    + cbn [bad_unlock]. apply mem_pair_In in Hin. rewrite Hin. reflexivity.
    + cbn [gh_msg]. apply (set_conn_inv (c_conns x) h); [exact HI | |].
      * cbn [cn_acq cn_tasks]. destruct (find_conn_in_or_default (c_conns x) c) as [Hi|Hd]; [exact (ci_acq _ _ HI _ Hi) | rewrite Hd; intros y []].
      * cbn [cn_c]. unfold items at 1. cbn [cn_c cn_inbox cn_tasks].
        apply Permutation_cons_inv with (a := (c, r)).
        eapply perm_trans; [apply Permutation_sym; apply remove_one_perm_cons; exact Hin|].
        eapply perm_trans; [exact (ci_h _ _ HI) | exact Hs].
  - set (old := find_conn (c_conns x) c) in *. destruct (memN r (cn_tasks old)) eqn:Er; inversion Em; subst; [|apply (Hnone (c_conns x)); auto].
    apply memN_In in Er.
    pose proof (flat_split' (c_conns x) c (ci_nd _ _ HI)) as Hs. fold old in Hs.
    assert (Hin : In (c, r) h).
    { eapply Permutation_in; [apply Permutation_sym; eapply perm_trans; [exact (ci_h _ _ HI) | exact Hs]|].
      apply in_or_app. left. apply in_map. apply in_or_app. right. exact Er. }
    eapply Hsingle; [reflexivity | | | reflexivity].
    + cbn [bad_unlock]. apply mem_pair_In in Hin. rewrite Hin. reflexivity.
    + cbn [gh_msg]. apply (set_conn_inv (c_conns x) h); [exact HI | |].
      * cbn [cn_acq cn_tasks]. intros y Hy. apply removeN_In in Hy. destruct Hy as [Hy Hne].
        assert (Hyt : In y (cn_tasks old)).
        { destruct (find_conn_in_or_default (c_conns x) c) as [Hi|Hd]; [exact (ci_acq _ _ HI _ Hi y Hy) | fold old in Hd; rewrite Hd in Hy; destruct Hy]. }
        pose proof (remove_one_N_perm r _ Er) as Hp. apply (Permutation_in _ Hp) in Hyt. destruct Hyt as [Hyt|Hyt]; [congruence | exact Hyt].
      * cbn [cn_c]. unfold items at 1. cbn [cn_c cn_inbox cn_tasks].
        apply Permutation_cons_inv with (a := (c, r)).
        eapply perm_trans; [apply Permutation_sym; apply remove_one_perm_cons; exact Hin|].
        eapply perm_trans; [exact (ci_h _ _ HI)|]. eapply perm_trans; [exact Hs|].
        change ((c, r) :: map (pair c) (cn_inbox old ++ remove_one_N r (cn_tasks old)) ++ flat (other c (c_conns x)))
          with (((c, r) :: map (pair c) (cn_inbox old ++ remove_one_N r (cn_tasks old))) ++ flat (other c (c_conns x))).
        apply Permutation_app_tail. change ((c, r) :: map (pair c) (cn_inbox old ++ remove_one_N r (cn_tasks old))) with (map (pair c) (r :: cn_inbox old ++ remove_one_N r (cn_tasks old))).
        apply Permutation_map. eapply perm_trans; [apply Permutation_app_head; apply (remove_one_N_perm r _ Er)|].
        apply Permutation_sym. apply Permutation_middle.
  - exfalso. apply (Hb c). reflexivity.
Qed.

(* closing and draining the lock channel: every room taken out of it is held by that connection *)
Lemma drain_benign : forall n c s cs h s' cs' ms gss,
  CInv cs h -> drain n c s cs = (s', cs', ms, gss) ->
  foreign_from s h ms = false /\ s' = fst (ghost_after s h ms) /\ CInv cs' (snd (ghost_after s h ms)).
Proof.
  induction n as [|n IH]; intros c s cs h s' cs' ms gss HI H; cbn [drain] in H.
  - inversion H; subst. cbn. split; [reflexivity|]. split; [reflexivity | exact HI].
  - destruct (cn_inbox (find_conn cs c)) as [|r rest] eqn:Ei.
    + inversion H; subst. cbn. split; [reflexivity|]. split; [reflexivity | exact HI].
    + destruct (step s (Unlock c r)) as [s1 g] eqn:E1.
      match type of H with context [drain n c s1 ?t1] => set (cs1 := t1) in H end.
      destruct (drain n c s1 cs1) as [[[s2 cs2] ms2] gss2] eqn:Ed. inversion H; subst s' cs' ms gss. clear H.
      pose proof (flat_split' cs c (ci_nd _ _ HI)) as Hs. rewrite Ei in Hs.
      assert (Hin : In (c, r) h).
      { eapply Permutation_in; [apply Permutation_sym; eapply perm_trans; [exact (ci_h _ _ HI) | exact Hs]|]. left. reflexivity. }
      assert (HI1 : CInv cs1 (gh_grants (gh_msg h (Unlock c r)) g)).
      { unfold cs1. apply deliver_inv. cbn [gh_msg]. apply (set_conn_inv cs h); [exact HI | |].
        - cbn [cn_acq cn_tasks]. destruct (find_conn_in_or_default cs c) as [Hi|Hd]; [exact (ci_acq _ _ HI _ Hi) | rewrite Hd; intros y []].
        - cbn [cn_c]. unfold items at 1. cbn [cn_c cn_inbox cn_tasks].
          apply Permutation_cons_inv with (a := (c, r)).
          eapply perm_trans; [apply Permutation_sym; apply remove_one_perm_cons; exact Hin|].
          eapply perm_trans; [exact (ci_h _ _ HI) | exact Hs]. }
      destruct (IH c s1 cs1 _ s2 cs2 ms2 gss2 HI1 Ed) as (F & S & I2).
      rewrite foreign_from_cons, E1. cbn [fst snd ghost_after]. rewrite E1.
      assert (Hbad : bad_unlock s h (Unlock c r) = false).
      { cbn [bad_unlock]. apply mem_pair_In in Hin. rewrite Hin. reflexivity. }
      rewrite Hbad. cbn [orb]. split; [exact F|]. split; [exact S | exact I2].
Qed.

Lemma cend_benign : forall x h c x' ms gss,
  CInv (c_conns x) h -> cn_tasks (find_conn (c_conns x) c) = [] -> cend x c = (x', ms, gss) ->
  foreign_from (c_svc x) h ms = false /\
  c_svc x' = fst (ghost_after (c_svc x) h ms) /\ CInv (c_conns x') (snd (ghost_after (c_svc x) h ms)).
Proof.
  intros x h c x' ms gss HI Ht H. unfold cend in H.
  assert (Ha : cn_acq (find_conn (c_conns x) c) = []).
  { destruct (cn_acq (find_conn (c_conns x) c)) as [|y t] eqn:Ea; [reflexivity|]. exfalso.
    destruct (find_conn_in_or_default (c_conns x) c) as [Hin|Hd].
    - pose proof (ci_acq _ _ HI _ Hin y) as Hy. rewrite Ea, Ht in Hy. apply Hy. left. reflexivity.
    - rewrite Hd in Ea. discriminate. }
  rewrite Ha in H. cbn [map steps concat deliver fold_left step app] in H.
  match type of H with context [drain ?t0 c ?t1 ?t2] => set (s2 := t1) in H; set (cs2 := t2) in H; set (n := t0) in H end.
  destruct (drain n c s2 cs2) as [[[s3 cs3] ms3] gss3] eqn:Ed. inversion H; subst x' ms gss. clear H. cbn [c_svc c_conns].
  assert (HI2 : CInv cs2 h).
  { unfold cs2. apply (set_conn_inv (c_conns x) h); [exact HI | |].
    - cbn [cn_acq cn_tasks]. rewrite Ha. intros y [].
    - cbn [cn_c]. unfold items at 1. cbn [cn_c cn_inbox cn_tasks].
      eapply perm_trans; [exact (ci_h _ _ HI) | exact (flat_split' (c_conns x) c (ci_nd _ _ HI))]. }
  destruct (drain_benign n c s2 cs2 h s3 cs3 ms3 gss3 HI2 Ed) as (F & S & I3).
  rewrite foreign_from_cons. cbn [bad_unlock step fst snd orb ghost_after gh_msg gh_grants fold_left].
  fold s2. split; [exact F|]. split; [exact S | exact I3].
Qed.

Lemma cstep_benign : forall x h e x' ms gss,
  CInv (c_conns x) h -> benign_here x e -> cstep x e = (x', ms, gss) ->
  foreign_from (c_svc x) h ms = false /\
  c_svc x' = fst (ghost_after (c_svc x) h ms) /\ CInv (c_conns x') (snd (ghost_after (c_svc x) h ms)).
Proof.
  intros x h e x' ms gss HI Hb H. destruct e as [c rooms|c|c|c r|c]; cbn [cstep] in H.
  1-4: (eapply cstep_plain_benign; [exact HI | | exact H]; intros c0 Hc; discriminate Hc).
  cbn [benign_here] in Hb. destruct (cn_ended (find_conn (c_conns x) c)) eqn:Ee.
  - inversion H; subst. cbn. split; [reflexivity|]. split; [reflexivity | exact HI].
  - destruct Hb as [Hb|Hb]; [discriminate|]. exact (cend_benign x h c x' ms gss HI Hb H).
Qed.

Fixpoint all_benign (x : cst) (es : list cev) : Prop :=
  match es with
  | [] => True
  | e :: tl => benign_here x e /\ all_benign (fst (fst (cstep x e))) tl
  end.
Definition msgs_of (x : cst) (es : list cev) : list msg :=
  flat_map (fun y : cst * list msg * list (list grant) => snd (fst y)) (crun x es).

Theorem conn_disciplined : forall es x h,
  CInv (c_conns x) h -> all_benign x es -> foreign_from (c_svc x) h (msgs_of x es) = false.
Proof.
  induction es as [|e tl IH]; intros x h HI Hb; [reflexivity|].
  unfold msgs_of. cbn [crun all_benign] in *. destruct (cstep x e) as [[x' ms] gss] eqn:Ec. cbn [fst snd flat_map] in *.
  destruct Hb as [Hb1 Hb2]. destruct (cstep_benign x h e x' ms gss HI Hb1 Ec) as (F & S & I').
  rewrite foreign_from_app, F. cbn [orb]. rewrite <- S. apply (IH x' _ I' Hb2).
Qed.

Lemma no12_benign : forall es x, no12 (known_conn_from x es) -> all_benign x es.
Proof.
  induction es as [|e tl IH]; intros x H; [exact I|]. cbn [known_conn_from all_benign] in *.
  apply no12_app in H. destruct H as [H1 H2]. split; [|apply IH; exact H2].
  destruct e as [c rooms|c|c|c r|c]; cbn [benign_here]; auto.
  destruct (cn_ended (find_conn (c_conns x) c)); [left; reflexivity | right].
  destruct (cn_tasks (find_conn (c_conns x) c)); [reflexivity|]. destruct H1 as [H1 _]. cbn in H1. discriminate.
Qed.

(* a connection-level history in which no connection ends while one of its room tasks runs (grants
   still waiting in its channel are released by the end of the connection itself) causes a service
   history without any release by a non-holder; hence
   (outside_known) the service history is exclusive, bounded, once, never lost *)
Theorem conn_benign_service_ok : forall max es,
  known_C20 (CConn max es) = [] ->
  foreign_lock max (conn_trace max es) = false /\
  spec_core_lock max (conn_trace max es) (run_lock max (conn_trace max es)) = true.
Proof.
  intros max es Hk. cbn [known_C20] in Hk.
  assert (Hn : no12 (known_conn_from (cinit max) es)).
  { unfold dedup12 in Hk. unfold no12. destruct (existsb (Z.eqb 1) _); [discriminate|]. destruct (existsb (Z.eqb 2) _); [discriminate|]. auto. }
  assert (Hf : foreign_lock max (conn_trace max es) = false).
  { unfold foreign_lock, conn_trace. apply (conn_disciplined es (cinit max) []); [|apply no12_benign; exact Hn].
    constructor; cbn; [constructor | constructor | intros cn []]. }
  split; [exact Hf|]. apply outside_known. exact Hf.
Qed.

(* ------------------------------------------------------------------ bounded overtaking (the liveness half) *)
(* how often room r is granted to others than c *)
Definition ov1 (c r : N) (g : grant) : bool := N.eqb (snd g) r && negb (N.eqb (fst (fst g)) c).
Definition overtaken (c r : N) (gss : list (list grant)) : nat := length (filter (ov1 c r) (concat gss)).
Definition notc (c : N) (l : list preq) : Prop := forall x, In x l -> p_c x <> c.
Definition untainted (c : N) (dd : list (N * N)) : Prop := forall k, ~ In (c, k) dd.
Definition to_c (c : N) (g : grant) : bool := N.eqb (fst (fst g)) c.

Lemma untainted_alive_p : forall c dd p, untainted c dd -> p_c p = c -> alive dd p = true.
Proof.
  intros c dd p Hu Hc. unfold alive. apply negb_true_iff. apply mem_pair_false. rewrite Hc. apply Hu.
Qed.

Lemma scan_prefix : forall t e lk dd q' og, scan_q t e lk dd = (q', og) -> exists tail, q' = e ++ tail.
Proof.
  induction t as [|p t IH]; intros e lk dd q' og H; cbn [scan_q] in H.
  - inversion H; subst. exists []. rewrite app_nil_r. reflexivity.
  - destruct (try_rooms (length (p_rooms p)) (p_rooms p) lk (alive dd p)) as [rooms' g]. destruct g.
    + inversion H; subst. eexists. reflexivity.
    + apply IH in H. destruct H as [tail Ht]. subst q'. unfold requeue. destruct rooms'; [exists tail; reflexivity|].
      eexists. rewrite <- app_assoc. reflexivity.
Qed.

Definition ovg (c r : N) (og : option grant) : nat := match og with Some g => if ov1 c r g then 1 else 0 | None => 0 end.

(* one scan of acquire_lock, seen from a live entry of c that waits for r and is not served by it:
   it is still there, still wants r, and the number of entries before it has decreased by at least
   the number of times r was given to somebody else *)
Lemma scan_epoch : forall pre e p post lk dd q' og c r,
  scan_q (pre ++ p :: post) e lk dd = (q', og) ->
  p_c p = c -> alive dd p = true -> In r (p_rooms p) -> notc c pre -> notc c e ->
  (forall g, og = Some g -> to_c c g = false) ->
  exists pre' p' post', q' = pre' ++ p' :: post' /\ same_peer p' p /\ In r (p_rooms p') /\ notc c pre' /\
    length pre' + ovg c r og <= length e + length pre.
Proof.
  induction pre as [|x pre IH]; intros e p post lk dd q' og c r H Hc Hal Hr Hnp Hne Hog; cbn [app scan_q] in H.
  - rewrite <- (app_nil_r (p_rooms p)) in H at 2. rewrite try_rooms_scan in H.
    destruct (scan_rooms (p_rooms p) [] lk (alive dd p)) as [rooms' g] eqn:Es.
    apply scan_rooms_spec in Es. destruct Es as (S1 & S2 & S3 & S4 & S5).
    destruct g as [r0|].
    + inversion H; subst. exfalso. specialize (Hog _ eq_refl). unfold to_c in Hog. cbn [fst] in Hog. rewrite N.eqb_refl in Hog. discriminate.
    + destruct (S4 Hal r (or_introl Hr)) as [Hx|Hin]; [discriminate|].
      assert (Hlk : memN r lk = true) by (destruct (S2 eq_refl r Hin) as [[]|Hm]; exact Hm).
      assert (Hq : requeue e p rooms' = e ++ [{| p_c := p_c p; p_rooms := rooms'; p_gen := p_gen p |}]).
      { unfold requeue. destruct rooms'; [destruct Hin | reflexivity]. }
      rewrite Hq in H. pose proof H as H0. apply scan_prefix in H0. destruct H0 as [tail Ht].
      exists e, {| p_c := p_c p; p_rooms := rooms'; p_gen := p_gen p |}, tail.
      split; [rewrite Ht, <- app_assoc; reflexivity|]. split; [split; reflexivity|]. split; [exact Hin|]. split; [exact Hne|].
      assert (Hov : ovg c r og = 0).
      { destruct og as [[[c' k'] r']|]; [|reflexivity]. apply scan_q_spec in H. destruct H as (_ & Q2 & _).
        destruct (Q2 c' k' r' eq_refl) as (Hfree & _). unfold ovg, ov1. cbn [snd fst].
        destruct (N.eqb r' r) eqn:E; [|reflexivity]. apply N.eqb_eq in E. subst. congruence. }
      rewrite Hov. cbn [length]. lia.
  - assert (Hx : p_c x <> c) by (apply Hnp; left; reflexivity).
    assert (Hnp' : notc c pre) by (intros y Hy; apply Hnp; right; exact Hy).
    destruct (try_rooms (length (p_rooms x)) (p_rooms x) lk (alive dd x)) as [rooms' g] eqn:Et. destruct g as [r0|].
    + inversion H; subst q' og. clear H.
      exists (e ++ pre), p, (requeue post x rooms').
      split; [rewrite requeue_app, <- app_assoc; f_equal; f_equal; unfold requeue; destruct rooms'; reflexivity|].
      split; [split; reflexivity|]. split; [exact Hr|]. split.
      * intros y Hy. apply in_app_or in Hy. destruct Hy; [apply Hne | apply Hnp']; assumption.
      * rewrite app_length. cbn [length ovg]. destruct (ov1 c r (p_c x, p_gen x, r0)); lia.
    + assert (Hne' : notc c (requeue e x rooms')).
      { intros y Hy. apply in_requeue in Hy. destruct Hy as [Hy|[_ Hy]]; [apply Hne; exact Hy | subst y; exact Hx]. }
      destruct (IH (requeue e x rooms') p post lk dd q' og c r H Hc Hal Hr Hnp' Hne' Hog) as (pre' & p' & post' & A & B & C & D & E).
      exists pre', p', post'. repeat split; try assumption; try apply B.
      assert (length (requeue e x rooms') <= S (length e)).
      { unfold requeue. destruct rooms'; [lia | rewrite app_length; cbn; lia]. }
      cbn [length]. lia.
Qed.

Definition ovl (c r : N) (g : list grant) : nat := length (filter (ov1 c r) g).
(* where c's entry stands *)
Definition stands (c r : N) (s : st) (n : nat) : Prop :=
  exists pre p post, queue s = pre ++ p :: post /\ p_c p = c /\ In r (p_rooms p) /\ notc c pre /\ length pre <= n.

Lemma acquire_lock_epoch : forall c r s n s' g,
  stands c r s n -> untainted c (dead s) -> acquire_lock s = (s', g) -> existsb (to_c c) g = false ->
  stands c r s' (n - ovl c r g) /\ ovl c r g <= n /\ untainted c (dead s').
Proof.
  intros c r s n s' g (pre & p & post & Hq & Hc & Hr & Hn & Hl) Hu H Hno.
  apply acquire_lock_spec in H. destruct H as (q' & og & Hs & Hq' & Hd & Hcase).
  rewrite Hq in Hs.
  assert (Hog : forall g0, og = Some g0 -> to_c c g0 = false).
  { intros g0 Hg0. destruct Hcase as [(Ho & _)|(c0 & k0 & r0 & Ho & Hg & _)]; [congruence|].
    subst g. rewrite Ho in Hg0. inversion Hg0; subst. cbn [existsb] in Hno. rewrite orb_false_r in Hno. exact Hno. }
  destruct (scan_epoch pre [] p post _ _ q' og c r Hs Hc (untainted_alive_p c _ p Hu Hc) Hr Hn ltac:(intros y []) Hog)
    as (pre' & p' & post' & A & [B1 B2] & C & D & E).
  cbn [length] in E.
  assert (Hov : ovl c r g = ovg c r og).
  { destruct Hcase as [(Ho & Hg & _)|(c0 & k0 & r0 & Ho & Hg & _)]; subst g og; unfold ovl, ovg; cbn [filter]; [reflexivity|].
    destruct (ov1 c r (c0, k0, r0)); reflexivity. }
  rewrite Hov. split; [|split; [lia | rewrite Hd; exact Hu]].
  exists pre', p', post'. rewrite Hq'. split; [exact A|]. split; [congruence|]. split; [exact C|]. split; [exact D | lia].
Qed.

Lemma acquire_n_epoch : forall c r k s n s' g,
  stands c r s n -> untainted c (dead s) -> acquire_n k s = (s', g) -> existsb (to_c c) g = false ->
  stands c r s' (n - ovl c r g) /\ ovl c r g <= n /\ untainted c (dead s').
Proof.
  induction k as [|k IH]; intros s n s' g Hst Hu H Hno; cbn [acquire_n] in H.
  - inversion H; subst. cbn [ovl filter length]. rewrite Nat.sub_0_r. auto with arith.
  - destruct (acquire_lock s) as [s1 g1] eqn:E1. destruct (acquire_n k s1) as [s2 g2] eqn:E2. inversion H; subst.
    rewrite existsb_app in Hno. apply orb_false_iff in Hno. destruct Hno as [N1 N2].
    destruct (acquire_lock_epoch c r s n s1 g1 Hst Hu E1 N1) as (St1 & L1 & U1).
    destruct (IH s1 _ s' g2 St1 U1 E2 N2) as (St2 & L2 & U2).
    unfold ovl in *. rewrite filter_app, app_length.
    split; [|split; [lia | exact U2]].
    destruct St2 as (pre & p & post & A & B & C & D & E). exists pre, p, post. repeat split; try assumption. lia.
Qed.

Lemma merge_req_stands : forall pre p post c r c' rooms k,
  p_c p = c -> In r (p_rooms p) -> notc c pre ->
  exists pre' p' post', merge_req (pre ++ p :: post) c' rooms k = pre' ++ p' :: post' /\
    p_c p' = c /\ In r (p_rooms p') /\ notc c pre' /\ length pre' = length pre.
Proof.
  induction pre as [|x pre IH]; intros p post c r c' rooms k Hc Hr Hn; cbn [app merge_req].
  - destruct (N.eqb (p_c p) c') eqn:E.
    + apply N.eqb_eq in E. eexists [], _, post. split; [reflexivity|]. cbn [p_c p_rooms].
      split; [congruence|]. split; [apply add_rooms_In; left; exact Hr|]. split; [intros y []| reflexivity].
    + exists [], p, (merge_req post c' rooms k). repeat split; auto; intros y [].
  - assert (Hx : p_c x <> c) by (apply Hn; left; reflexivity).
    assert (Hn' : notc c pre) by (intros y Hy; apply Hn; right; exact Hy).
    destruct (N.eqb (p_c x) c') eqn:E.
    + apply N.eqb_eq in E. eexists (_ :: pre), p, post. split; [reflexivity|]. repeat split; auto.
      intros y [Hy|Hy]; [subst y; cbn [p_c]; congruence | apply Hn'; exact Hy].
    + destruct (IH p post c r c' rooms k Hc Hr Hn') as (pre' & p' & post' & A & B & C & D & El).
      exists (x :: pre'), p', post'. rewrite A. split; [reflexivity|]. repeat split; auto.
      * intros y [Hy|Hy]; [subst y; exact Hx | apply D; exact Hy].
      * cbn [length]. rewrite El. reflexivity.
Qed.
Lemma enqueue_stands : forall c r q n c' rooms k,
  (exists pre p post, q = pre ++ p :: post /\ p_c p = c /\ In r (p_rooms p) /\ notc c pre /\ length pre <= n) ->
  exists pre p post, enqueue q c' rooms k = pre ++ p :: post /\ p_c p = c /\ In r (p_rooms p) /\ notc c pre /\ length pre <= n.
Proof.
  intros c r q n c' rooms k (pre & p & post & Hq & Hc & Hr & Hn & Hl). subst q. unfold enqueue.
  destruct (existsb (fun p0 => N.eqb (p_c p0) c') (pre ++ p :: post)).
  - destruct (merge_req_stands pre p post c r c' rooms k Hc Hr Hn) as (pre' & p' & post' & A & B & C & D & E).
    exists pre', p', post'. repeat split; auto. lia.
  - exists pre, p, (post ++ [{| p_c := c'; p_rooms := rev rooms; p_gen := k |}]).
    rewrite <- app_assoc. repeat split; auto.
Qed.

Definition not_drop_of (c : N) (m : msg) : Prop := forall k, m <> DropChan c k.

Lemma step_epoch : forall c r s n m s' g,
  stands c r s n -> untainted c (dead s) -> not_drop_of c m -> step s m = (s', g) -> existsb (to_c c) g = false ->
  stands c r s' (n - ovl c r g) /\ ovl c r g <= n /\ untainted c (dead s').
Proof.
  intros c r s n m s' g Hst Hu Hnd H Hno. destruct m as [c' rooms k|who r'|c' k]; cbn [step] in H.
  - eapply acquire_n_epoch; [| |exact H|exact Hno]; [|exact Hu].
    unfold stands. cbn [queue]. apply (enqueue_stands c r (queue s) n c' rooms k). exact Hst.
  - destruct (memN r' (locked s)).
    + eapply acquire_lock_epoch; [| |exact H|exact Hno]; [exact Hst | exact Hu].
    + inversion H; subst. cbn [ovl filter length]. rewrite Nat.sub_0_r. auto with arith.
  - inversion H; subst. cbn [ovl filter length dead queue]. rewrite Nat.sub_0_r. split; [exact Hst|]. split; [lia|].
    intros k0 [Hk|Hk]; [inversion Hk; subst; apply (Hnd k0); reflexivity | exact (Hu k0 Hk)].
Qed.

(* THE liveness half, per waiting period: while connection c waits for room r on live channels and
   is granted nothing, room r is given to other connections at most as many times as there are
   entries before c's in the queue *)
Theorem bounded_overtaking : forall tr c r s n,
  stands c r s n -> untainted c (dead s) -> (forall m, In m tr -> not_drop_of c m) ->
  (forall g, In g (concat (run_from s tr)) -> to_c c g = false) ->
  overtaken c r (run_from s tr) <= n.
Proof.
  induction tr as [|m tl IH]; intros c r s n Hst Hu Hnd Hno; [cbn; lia|].
  cbn [run_from] in *. destruct (step s m) as [s' g] eqn:Es. cbn [concat] in Hno.
  assert (Hg : existsb (to_c c) g = false).
  { destruct (existsb (to_c c) g) eqn:E; [|reflexivity]. apply existsb_exists in E. destruct E as (x & Hx & Ex).
    rewrite (Hno x (in_or_app _ _ _ (or_introl Hx))) in Ex. discriminate. }
  destruct (step_epoch c r s n m s' g Hst Hu (Hnd m (or_introl eq_refl)) Es Hg) as (St & L & U).
  assert (IH' := IH c r s' _ St U (fun m0 Hm0 => Hnd m0 (or_intror Hm0)) (fun x Hx => Hno x (in_or_app _ _ _ (or_intror Hx)))).
  unfold overtaken in *. cbn [concat]. rewrite filter_app, app_length. fold (ovl c r g). lia.
Qed.


(* ------------------------------------------------------------------ the overtaking bound of the oracle holds on every history *)
Lemma merge_req_circuits : forall q c rooms k, map p_c (merge_req q c rooms k) = map p_c q.
Proof.
  induction q as [|p q IH]; intros c rooms k; [reflexivity|]. cbn [merge_req].
  destruct (N.eqb (p_c p) c) eqn:E; cbn [map p_c]; [apply N.eqb_eq in E; rewrite E; reflexivity | rewrite IH; reflexivity].
Qed.
Lemma requeue_circuits : forall e p rs, exists l, map p_c (requeue e p rs) = map p_c e ++ l /\ (l = [] \/ l = [p_c p]).
Proof. intros. unfold requeue. destruct rs; [exists []; rewrite app_nil_r; auto | exists [p_c p]; rewrite map_app; auto]. Qed.

(* a scan keeps the circuits distinct, invents none, and does not lengthen the queue *)
Lemma scan_circuits : forall t e lk dd q' og, scan_q t e lk dd = (q', og) ->
  NoDup (map p_c (t ++ e)) ->
  NoDup (map p_c q') /\ incl (map p_c q') (map p_c (t ++ e)) /\ length q' <= length (t ++ e).
Proof.
  induction t as [|p t IH]; intros e lk dd q' og H Hnd; cbn [scan_q] in H.
  - inversion H; subst. cbn [app] in *. repeat split; auto. apply incl_refl.
  - destruct (try_rooms (length (p_rooms p)) (p_rooms p) lk (alive dd p)) as [rooms' g]. cbn [app map] in Hnd.
    destruct (requeue_circuits t p rooms') as (l1 & E1 & L1). destruct (requeue_circuits e p rooms') as (l2 & E2 & L2).
    assert (Hlen : forall a, length (requeue a p rooms') <= S (length a)).
    { intros a. unfold requeue. destruct rooms'; [lia | rewrite app_length; cbn; lia]. }
    destruct g.
    + inversion H; subst q' og. rewrite map_app, E1. repeat split.
      * assert (Hp : Permutation (p_c p :: map p_c (t ++ e)) (p_c p :: (map p_c e ++ map p_c t))).
        { apply perm_skip. rewrite map_app. apply Permutation_app_comm. }
        pose proof (Permutation_NoDup Hp Hnd) as Hn2. destruct L1 as [->| ->].
        -- rewrite app_nil_r. inversion Hn2; assumption.
        -- rewrite app_assoc. eapply Permutation_NoDup; [|exact Hn2]. apply Permutation_cons_append.
      * intros y Hy. cbn [app map]. rewrite map_app. apply in_app_or in Hy. destruct Hy as [Hy|Hy]; [right; apply in_or_app; right; exact Hy|].
        apply in_app_or in Hy. destruct Hy as [Hy|Hy]; [right; apply in_or_app; left; exact Hy|].
        destruct L1 as [->| ->]; [destruct Hy | destruct Hy as [Hy|[]]; left; exact Hy].
      * rewrite !app_length. specialize (Hlen t). cbn [length]. rewrite ?app_length. lia.
    + assert (Hnd' : NoDup (map p_c (t ++ requeue e p rooms'))).
      { rewrite map_app, E2. rewrite map_app in Hnd.
        assert (Hp : Permutation (p_c p :: (map p_c t ++ map p_c e)) ((map p_c t ++ map p_c e) ++ [p_c p])) by apply Permutation_cons_append.
        pose proof (Permutation_NoDup Hp Hnd) as Hn2. destruct L2 as [->| ->].
        - rewrite app_nil_r. inversion Hnd; assumption.
        - rewrite app_assoc. exact Hn2. }
      destruct (IH _ lk dd q' og H Hnd') as (A & B & C). split; [exact A|]. split.
      * intros y Hy. apply B in Hy. cbn [app map]. rewrite map_app in *. rewrite E2 in Hy.
        apply in_app_or in Hy. destruct Hy as [Hy|Hy]; [right; apply in_or_app; left; exact Hy|].
        apply in_app_or in Hy. destruct Hy as [Hy|Hy]; [right; apply in_or_app; right; exact Hy|].
        destruct L2 as [->| ->]; [destruct Hy | destruct Hy as [Hy|[]]; left; exact Hy].
      * rewrite app_length in *. specialize (Hlen e). cbn [length]. lia.
Qed.

Definition qwf (CS : list N) (s : st) : Prop := NoDup (map p_c (queue s)) /\ incl (map p_c (queue s)) CS.
Lemma qwf_length : forall CS s, qwf CS s -> length (queue s) <= length CS.
Proof. intros CS s [A B]. rewrite <- (map_length p_c). apply NoDup_incl_length; assumption. Qed.

Lemma acquire_lock_qwf : forall CS s s' g, qwf CS s -> acquire_lock s = (s', g) -> qwf CS s'.
Proof.
  intros CS s s' g [A B] H. apply acquire_lock_spec in H. destruct H as (q' & og & Hs & Hq & _).
  rewrite <- (app_nil_r (queue s)) in A. destruct (scan_circuits _ _ _ _ _ _ Hs A) as (A' & B' & _). rewrite app_nil_r in B'.
  unfold qwf. rewrite Hq. split; [exact A' | intros y Hy; apply B; apply B'; exact Hy].
Qed.
Lemma acquire_n_qwf : forall CS n s s' g, qwf CS s -> acquire_n n s = (s', g) -> qwf CS s'.
Proof.
  induction n as [|n IH]; intros s s' g Hw H; cbn [acquire_n] in H; [inversion H; subst; exact Hw|].
  destruct (acquire_lock s) as [s1 g1] eqn:E1. destruct (acquire_n n s1) as [s2 g2] eqn:E2. inversion H; subst.
  apply (IH s1 s' g2); [apply (acquire_lock_qwf CS s s1 g1 Hw E1) | exact E2].
Qed.
Lemma enqueue_qwf : forall CS q c rooms k, NoDup (map p_c q) -> incl (map p_c q) CS -> In c CS ->
  NoDup (map p_c (enqueue q c rooms k)) /\ incl (map p_c (enqueue q c rooms k)) CS.
Proof.
  intros CS q c rooms k A B Hc. unfold enqueue. destruct (existsb (fun p => N.eqb (p_c p) c) q) eqn:E.
  - rewrite merge_req_circuits. auto.
  - rewrite map_app. cbn [map p_c]. split.
    + eapply Permutation_NoDup; [apply Permutation_cons_append|]. constructor; [|exact A].
      intros Hin. apply in_map_iff in Hin. destruct Hin as (p & Hp & Hin).
      assert (existsb (fun p0 => N.eqb (p_c p0) c) q = true) by (apply existsb_exists; exists p; split; [exact Hin | apply N.eqb_eq; exact Hp]). congruence.
    + intros y Hy. apply in_app_or in Hy. destruct Hy as [Hy|[Hy|[]]]; [apply B; exact Hy | subst; exact Hc].
Qed.

(* with distinct circuits, the entry of c that wants r is the first (only) entry of c *)
Lemma exists_stands : forall c r s p, NoDup (map p_c (queue s)) -> In p (queue s) -> p_c p = c -> In r (p_rooms p) ->
  stands c r s (length (queue s) - 1).
Proof.
  intros c r s p Hnd Hin Hc Hr. apply in_split in Hin. destruct Hin as (pre & post & Hq).
  exists pre, p, post. split; [exact Hq|]. split; [exact Hc|]. split; [exact Hr|]. split.
  - rewrite Hq, map_app in Hnd. cbn [map] in Hnd. apply NoDup_remove_2 in Hnd. intros x Hx E. apply Hnd.
    apply in_or_app. left. rewrite Hc, <- E. apply in_map. exact Hx.
  - rewrite Hq, app_length. cbn [length]. lia.
Qed.

(* a live entry keeps a room it is not granted *)
Lemma acquire_lock_keeps : forall s s' g p r, acquire_lock s = (s', g) -> In p (queue s) -> alive (dead s) p = true -> In r (p_rooms p) ->
  ~ In (p_c p, r) (map cr g) -> exists p', In p' (queue s') /\ p_c p' = p_c p /\ In r (p_rooms p') /\ p_gen p' = p_gen p.
Proof.
  intros s s' g p r H Hp Hal Hr Hng. apply acquire_lock_spec in H. destruct H as (q' & og & Hs & Hq & _ & Hcase).
  apply scan_q_spec in Hs. destruct Hs as (_ & _ & _ & Q4 & _). rewrite app_nil_r in Q4.
  destruct (Q4 p Hp Hal r Hr) as [Hx|(p' & Hp' & [A B] & C)].
  - exfalso. apply Hng. destruct Hcase as [(Ho & _)|(c0 & k0 & r0 & Ho & Hg & _)]; [congruence|]. subst g. rewrite Ho in Hx. inversion Hx; subst. left. reflexivity.
  - exists p'. rewrite Hq. auto.
Qed.
Lemma acquire_n_keeps : forall n s s' g p r, acquire_n n s = (s', g) -> In p (queue s) -> alive (dead s) p = true -> In r (p_rooms p) ->
  ~ In (p_c p, r) (map cr g) -> exists p', In p' (queue s') /\ p_c p' = p_c p /\ In r (p_rooms p').
Proof.
  induction n as [|n IH]; intros s s' g p r H Hp Hal Hr Hng; cbn [acquire_n] in H; [inversion H; subst; exists p; auto|].
  destruct (acquire_lock s) as [s1 g1] eqn:E1. destruct (acquire_n n s1) as [s2 g2] eqn:E2. inversion H; subst.
  rewrite map_app in Hng.
  destruct (acquire_lock_keeps s s1 g1 p r E1 Hp Hal Hr ltac:(intros X; apply Hng; apply in_or_app; left; exact X)) as (p1 & A & B & C & D).
  assert (Hd : dead s1 = dead s).
  { apply acquire_lock_spec in E1. destruct E1 as (? & ? & _ & _ & Hd & _). exact Hd. }
  assert (Hal1 : alive (dead s1) p1 = true) by (rewrite Hd; unfold alive in *; rewrite B, D; exact Hal).
  destruct (IH s1 s' g2 p1 r E2 A Hal1 C ltac:(rewrite B; intros X; apply Hng; apply in_or_app; right; exact X)) as (p2 & A2 & B2 & C2).
  exists p2. split; [exact A2|]. split; [congruence | exact C2].
Qed.
Lemma acquire_n_dead : forall n s s' g, acquire_n n s = (s', g) -> dead s' = dead s.
Proof.
  induction n as [|n IH]; intros s s' g H; cbn [acquire_n] in H; [inversion H; reflexivity|].
  destruct (acquire_lock s) as [s1 g1] eqn:E1. destruct (acquire_n n s1) as [s2 g2] eqn:E2. inversion H; subst.
  rewrite (IH s1 s' g2 E2). apply acquire_lock_spec in E1. destruct E1 as (? & ? & _ & _ & Hd & _). exact Hd.
Qed.

(* the oracle's bookkeeping against the service state *)
Definition tracked (B : nat) (s : st) (t : list N) (x : N * N * nat) : Prop :=
  ~ In (fst (fst x)) t /\ exists m, stands (fst (fst x)) (snd (fst x)) s m /\ snd x + m < B.
Record KI (CS : list N) (s : st) (b : bpst) : Prop := {
  k_wf : qwf CS s;
  k_dead : forall c k, In (c, k) (dead s) -> In c (snd b);
  k_w : forall x, In x (fst b) -> tracked (length CS) s (snd b) x }.

Lemma untainted_of : forall CS s b c, KI CS s b -> ~ In c (snd b) -> untainted c (dead s).
Proof. intros CS s b c HK Hn k Hk. apply Hn. exact (k_dead _ _ _ HK _ _ Hk). Qed.

Lemma existsb_perm {A} (f : A -> bool) : forall l l', Permutation l l' -> existsb f l = existsb f l'.
Proof.
  induction 1; cbn; auto.
  - rewrite IHPermutation. reflexivity.
  - destruct (f x), (f y); reflexivity.
  - congruence.
Qed.
Lemma filter_length_perm {A} (f : A -> bool) : forall l l', Permutation l l' -> length (filter f l) = length (filter f l').
Proof.
  induction 1; cbn; auto.
  - destruct (f x); cbn; congruence.
  - destruct (f x), (f y); reflexivity.
  - congruence.
Qed.
Lemma bp_grants_perm : forall w g g', Permutation g g' -> bp_grants w g = bp_grants w g'.
Proof.
  intros w g g' HP. unfold bp_grants.
  rewrite (filter_ext _ (fun x => negb (existsb (fun g0 : grant => pair_eqb (fst (fst g0), snd g0) (fst x)) g'))).
  - apply map_ext. intros x. rewrite (existsb_perm _ _ _ HP).
    rewrite (filter_length_perm (fun g0 : grant => N.eqb (snd g0) (snd (fst x))) _ _ HP). reflexivity.
  - intros x. rewrite (existsb_perm _ _ _ HP). reflexivity.
Qed.

(* the acquire phase of one message *)
Lemma phase_tracked : forall CS k s1 s' g t w1,
  qwf CS s1 -> (forall c kk, In (c, kk) (dead s1) -> In c t) ->
  (forall x, In x w1 -> tracked (length CS) s1 t x) ->
  acquire_n k s1 = (s', g) ->
  qwf CS s' /\ (forall c kk, In (c, kk) (dead s') -> In c t) /\
  (forall x, In x (bp_grants w1 g) -> tracked (length CS) s' t x).
Proof.
  intros CS k s1 s' g t w1 Hwf Hd Hw H.
  pose proof (acquire_n_qwf CS k s1 s' g Hwf H) as Hwf'. pose proof (acquire_n_dead k s1 s' g H) as Hdd.
  split; [exact Hwf'|]. split; [rewrite Hdd; exact Hd|].
  intros x' Hx'. unfold bp_grants in Hx'. apply in_map_iff in Hx'. destruct Hx' as (x & Ex & Hx). apply filter_In in Hx. destruct Hx as [Hx Hkeep].
  destruct x as [[c r] n]. cbn [fst snd] in *. destruct (Hw _ Hx) as (Hnt & m & Hst & Hlt). cbn [fst snd] in *.
  assert (Hu : untainted c (dead s1)) by (intros kk Hk; apply Hnt; exact (Hd _ _ Hk)).
  apply negb_true_iff in Hkeep.
  assert (Hng : ~ In (c, r) (map cr g)).
  { intros Hin. apply in_map_iff in Hin. destruct Hin as (g0 & E0 & Hg0).
    assert (existsb (fun g1 : grant => pair_eqb (fst (fst g1), snd g1) (c, r)) g = true).
    { apply existsb_exists. exists g0. split; [exact Hg0|]. unfold cr in E0. rewrite E0. apply pair_eqb_refl. }
    congruence. }
  destruct (existsb (fun g0 : grant => N.eqb (fst (fst g0)) c) g) eqn:Eg; subst x'; unfold tracked; cbn [fst snd].
  - (* c was served another room: its entry is somewhere in the queue, the count starts again *)
    split; [exact Hnt|]. destruct Hst as (pre & p & post & Hq & Hc & Hr & _ & _).
    assert (Hp : In p (queue s1)) by (rewrite Hq; apply in_or_app; right; left; reflexivity).
    destruct (acquire_n_keeps k s1 s' g p r H Hp (untainted_alive_p c _ p Hu Hc) Hr ltac:(rewrite Hc; exact Hng)) as (p' & A & B & C).
    exists (length (queue s') - 1). split; [apply (exists_stands c r s' p' (proj1 Hwf') A); [congruence | exact C]|].
    pose proof (qwf_length CS s' Hwf'). destruct (queue s'); [destruct A|]. cbn [length] in *. lia.
  - split; [exact Hnt|].
    assert (Hg : existsb (to_c c) g = false) by exact Eg.
    destruct (acquire_n_epoch c r k s1 m s' g Hst Hu H Hg) as (St & L & _).
    exists (m - ovl c r g). split; [exact St|].
    assert (Hcount : length (filter (fun g0 : grant => N.eqb (snd g0) r) g) = ovl c r g).
    { unfold ovl. f_equal. apply filter_ext_in. intros g0 Hg0. unfold ov1.
      assert (to_c c g0 = false).
      { destruct (to_c c g0) eqn:E; [|reflexivity]. assert (existsb (to_c c) g = true) by (apply existsb_exists; exists g0; auto). congruence. }
      unfold to_c in H0. rewrite H0. cbn [negb]. rewrite andb_true_r. reflexivity. }
    rewrite Hcount. lia.
Qed.

Lemma bp_request_in : forall rooms w c x,
  In x (fold_left (fun acc r => if existsb (fun y : N * N * nat => pair_eqb (fst y) (c, r)) acc then acc else acc ++ [((c, r), O)]) rooms w) ->
  In x w \/ exists r, In r rooms /\ x = ((c, r), O).
Proof.
  induction rooms as [|r rooms IH]; intros w c x H; cbn [fold_left] in H; [left; exact H|].
  apply IH in H. destruct H as [H|(r0 & Hr0 & E)]; [|right; exists r0; split; [right; exact Hr0 | exact E]].
  destruct (existsb (fun y : N * N * nat => pair_eqb (fst y) (c, r)) w); [left; exact H|].
  apply in_app_or in H. destruct H as [H|[H|[]]]; [left; exact H | right; exists r; split; [left; reflexivity | symmetry; exact H]].
Qed.

Lemma stands_mono : forall c r s n n', stands c r s n -> n <= n' -> stands c r s n'.
Proof. intros c r s n n' (pre & p & post & A & B & C & D & E) H. exists pre, p, post. repeat split; auto. lia. Qed.

(* one message *)
Lemma step_KI : forall CS s b m s' g g',
  KI CS s b -> (forall c rooms k, m = Request c rooms k -> In c CS) ->
  step s m = (s', g) -> Permutation g g' ->
  KI CS s' (bp_grants (fst (bp_msg b m)) g', snd (bp_msg b m)).
Proof.
  intros CS s [w t] m s' g g' [Hwf Hd Hw] Hcs H HP. rewrite <- (bp_grants_perm _ _ _ HP). cbn [fst snd] in *.
  assert (Hnone : forall w1 t1, (forall c kk, In (c, kk) (dead s') -> In c t1) -> qwf CS s' ->
             (forall x, In x w1 -> tracked (length CS) s' t1 x) -> g = [] -> KI CS s' (bp_grants w1 g, t1)).
  { intros w1 t1 A B C ->. constructor; cbn [fst snd]; auto. intros x Hx. unfold bp_grants in Hx. cbn [existsb negb filter] in Hx.
    apply in_map_iff in Hx. destruct Hx as (y & Ey & Hy). apply filter_In in Hy. destruct Hy as [Hy _]. subst x.
    destruct (C _ Hy) as (T1 & mm & T2 & T3). cbn [filter length fst snd]. unfold tracked. cbn [fst snd]. split; [exact T1|]. exists mm. split; [exact T2 | lia]. }
  destruct m as [c rooms k|who r|c k]; cbn [step bp_msg] in *.
  - (* Request *)
    set (s1 := {| queue := enqueue (queue s) c rooms k; locked := locked s; avail := avail s; dead := dead s |}) in *.
    destruct Hwf as [Hnd Hin]. destruct (enqueue_qwf CS (queue s) c rooms k Hnd Hin (Hcs c rooms k eq_refl)) as [Hnd1 Hin1].
    assert (Hwf1 : qwf CS s1) by (split; assumption).
    destruct (memN c t) eqn:Et; cbn [fst snd].
    + assert (Hw1 : forall x, In x w -> tracked (length CS) s1 t x).
      { intros x Hx. destruct (Hw x Hx) as (A & mm & B & C). split; [exact A|]. exists mm. split; [|exact C].
        unfold stands. cbn [queue s1]. apply enqueue_stands. exact B. }
      destruct (phase_tracked CS (avail s) s1 s' g t w Hwf1 Hd Hw1 H) as (A & B & C). constructor; cbn [fst snd]; auto.
    + set (w1 := fold_left _ rooms w).
      assert (Hw1 : forall x, In x w1 -> tracked (length CS) s1 t x).
      { intros x Hx. apply bp_request_in in Hx. destruct Hx as [Hx|(r0 & Hr0 & Ex)].
        - destruct (Hw x Hx) as (A & mm & B & C). split; [exact A|]. exists mm. split; [|exact C].
          unfold stands. cbn [queue s1]. apply enqueue_stands. exact B.
        - subst x. unfold tracked. cbn [fst snd]. split; [apply memN_false; exact Et|].
          destruct (enqueue_has (queue s) c rooms k r0 Hr0) as (p & Hp & Hc & Hr).
          exists (length (queue s1) - 1). split; [apply (exists_stands c r0 s1 p Hnd1 Hp Hc Hr)|].
          pose proof (qwf_length CS s1 Hwf1). cbn [queue s1] in *. destruct (enqueue (queue s) c rooms k); [destruct Hp|]. cbn [length] in *. lia. }
      destruct (phase_tracked CS (avail s) s1 s' g t w1 Hwf1 Hd Hw1 H) as (A & B & C). constructor; cbn [fst snd]; auto.
  - (* Unlock *)
    destruct (memN r (locked s)) eqn:Er.
    + set (s1 := {| queue := queue s; locked := removeN r (locked s); avail := S (avail s); dead := dead s |}) in *.
      assert (H1 : acquire_n 1 s1 = (s', g)).
      { cbn [acquire_n]. rewrite H. rewrite app_nil_r. reflexivity. }
      assert (Hw1 : forall x, In x w -> tracked (length CS) s1 t x) by exact Hw.
      destruct (phase_tracked CS 1 s1 s' g t w Hwf Hd Hw1 H1) as (A & B & C). constructor; cbn [fst snd]; auto.
    + inversion H; subst. apply Hnone; auto.
  - (* DropChan *)
    inversion H; subst. apply Hnone; cbn [dead queue]; auto.
    + intros c0 kk [Hk|Hk]; [inversion Hk; subst; left; reflexivity | right; exact (Hd _ _ Hk)].
    + intros x Hx. apply filter_In in Hx. destruct Hx as [Hx Hne]. apply negb_true_iff in Hne. apply N.eqb_neq in Hne.
      destruct (Hw x Hx) as (A & mm & B & C). split; [|exists mm; split; [exact B | exact C]].
      intros [Hc|Hc]; [congruence | exact (A Hc)].
Qed.

Lemma KI_bound : forall CS s b, KI CS s b -> forallb (fun x : N * N * nat => Nat.leb (snd x) (length CS)) (fst b) = true.
Proof.
  intros CS s b HK. apply forallb_forall. intros x Hx. destruct (k_w _ _ _ HK x Hx) as (_ & m & _ & Hlt). apply Nat.leb_le. lia.
Qed.

Lemma dedupN_In : forall l x, In x l <-> In x (dedupN l).
Proof.
  induction l as [|y l IH]; intros x; [tauto|]. cbn [dedupN]. destruct (memN y l) eqn:E.
  - rewrite <- IH. split; [intros [H|H]; [subst; apply memN_In; exact E | exact H] | right; assumption].
  - cbn [In]. rewrite <- IH. tauto.
Qed.

Theorem overtaking_history : forall tr CS s b gss,
  KI CS s b -> (forall c rooms k, In (Request c rooms k) tr -> In c CS) ->
  Forall2 (@Permutation grant) (run_from s tr) gss ->
  bypass_from (length CS) b tr gss = true.
Proof.
  induction tr as [|m tl IH]; intros CS s b gss HK Hcs HF; cbn [run_from] in HF.
  - inversion HF; subst. reflexivity.
  - destruct (step s m) as [s' g] eqn:Es. inversion HF as [|g0 g' ? gtl HP HF']; subst. cbn [bypass_from].
    pose proof (step_KI CS s b m s' g g' HK (fun c rooms k E => Hcs c rooms k (or_introl E)) Es HP) as HK'.
    pose proof (KI_bound _ _ _ HK') as Hb. cbn [fst] in Hb. rewrite Hb. cbn [andb].
    apply (IH CS s' _ gtl HK'); [intros c rooms k Hin; apply (Hcs c rooms k); right; exact Hin | exact HF'].
Qed.

(* the overtaking bound of the oracle holds on what the model observes, for EVERY history *)
Theorem overtaking_oracle_holds : forall max tr, bypass_ok tr (run_lock max tr) = true.
Proof.
  intros max tr. unfold bypass_ok, run_lock.
  rewrite <- (run_from_length tr (init max)), <- (map_length sort_g), decode_encode. unfold ncirc.
  apply (overtaking_history tr (circuits_of tr) (init max) ([], [])).
  - constructor; cbn; [split; [constructor | intros x []] | intros c k [] | intros x []].
  - intros c rooms k Hin. unfold circuits_of. apply (proj1 (dedupN_In _ _)). apply in_flat_map. exists (Request c rooms k). split; [exact Hin | left; reflexivity].
  - apply Forall2_sort.
Qed.

(* the whole service oracle (exclusive, bounded, once, never lost, bounded overtaking) outside class 1 *)
Theorem outside_known_full : forall max tr,
  known_C20 (CLock max tr) = [] -> spec_C20 (CLock max tr) (run_C20 (CLock max tr)) = true.
Proof.
  intros max tr Hk. cbn [spec_C20 run_C20].
  assert (Hc : spec_core_lock max tr (run_lock max tr) = true).
  { apply outside_known_class1. rewrite Hk. intros []. }
  unfold spec_core_lock in Hc. destruct (spec_pair_lock max tr (run_lock max tr)) as [a b].
  rewrite Hc, (overtaking_oracle_holds max tr). reflexivity.
Qed.
Theorem conn_benign_service_full : forall max es,
  known_C20 (CConn max es) = [] ->
  spec_C20 (CLock max (conn_trace max es)) (run_C20 (CLock max (conn_trace max es))) = true.
Proof.
  intros max es Hk. destruct (conn_benign_service_ok max es Hk) as [Hf _]. apply outside_known_full.
  cbn [known_C20]. unfold known_lock. rewrite Hf. reflexivity.
Qed.

(* the schedule that starved connection 1 before 11e9468 (limit 2; 2 and 3 keep re-requesting the rooms
   6 and 5 they are synchronising; 6 is always released before 5): connection 1 is now served by the
   first release of room 5 *)
Definition starve_case : c20case :=
  CLock 2 [Request 3 [5] 0; Request 2 [6] 0; Request 1 [5] 0; Request 2 [6] 0; Request 3 [5] 0;
           Unlock 2 6; Request 2 [6] 0; Unlock 3 5; Request 3 [5] 0;
           Unlock 2 6; Request 2 [6] 0; Unlock 1 5; Request 1 [5] 0;
           Unlock 2 6; Unlock 3 5; Unlock 2 6; Unlock 1 5]%N.
Lemma former_starvation_schedule :
  spec_C20 starve_case (run_C20 starve_case) = true /\ known_C20 starve_case = [] /\
  run_from (init 2) [Request 3 [5] 0; Request 2 [6] 0; Request 1 [5] 0; Request 2 [6] 0; Request 3 [5] 0;
                     Unlock 2 6; Request 2 [6] 0; Unlock 3 5]%N =
    [[(3, 0, 5)]; [(2, 0, 6)]; []; []; []; [(2, 0, 6)]; []; [(1, 0, 5)]]%N.
Proof. vm_compute. repeat split. Qed.

(* ------------------------------------------------------------------ the pieces of the connection code the harness plays itself *)
(* what model/Lock.v (and the harness: loop branch, end of connection, quiescence by channel capacity)
   assume about the source, re-read from the source on every run (gen/C20ConnFacts.v) *)
Lemma conn_facts_as_modelled :
  unlock_carries_owner = false /\ Nat.ltb lock_channel_size 8 = true /\ task_always_unlocks = true /\
  loop_spawns_oldest_grant = true /\ end_unlocks_acquired = true /\ end_drains_lock_channel = true.
Proof. vm_compute. repeat split. Qed.

(* ------------------------------------------------------------------ witnesses *)
Definition k1_witness : c20case :=
  CLock 1 [Request 1 [5] 0; Unlock 1 5; Request 2 [5] 0; Unlock 1 5; Request 3 [5] 0]%N.
Lemma refuted : spec_C20 k1_witness (run_C20 k1_witness) = false /\ known_C20 k1_witness = [1%Z].
Proof. vm_compute. split; reflexivity. Qed.

(* the same defect reached through the connection code alone: a connection ends while its room task
   runs, cleanup unlocks, the room is granted again, the old task unlocks again *)
Definition k1_conn_witness : c20case :=
  CConn 1 [CRequest 1 [5]; CTake 1; CEnd 1; CRequest 2 [5]; CTake 2; CFinish 1 5; CRequest 3 [5]; CTake 3]%N.
(* the former K2 witness (a grant waits in the channel of a connection that ends): repaired by
   2487a5d, the room and the slot are free again *)
Definition k2_conn_witness : c20case :=
  CConn 1 [CRequest 1 [5]; CEnd 1; CRequest 9 [5]; CTake 9; CFinish 9 5; CRequest 8 [6]]%N.
Lemma refuted_conn :
  spec_C20 k1_conn_witness (run_C20 k1_conn_witness) = false /\ known_C20 k1_conn_witness = [1%Z].
Proof. vm_compute. repeat split. Qed.
Lemma end_releases_waiting_grants :
  known_C20 k2_conn_witness = [] /\ spec_C20 k2_conn_witness (run_C20 k2_conn_witness) = true /\
  conn_trace 1 [CRequest 1 [5]; CEnd 1; CRequest 9 [5]; CTake 9; CFinish 9 5; CRequest 8 [6]]%N =
    [Request 1 [5] 0; DropChan 1 0; Unlock 1 5; Request 9 [5] 0; Unlock 9 5; Request 8 [6] 0]%N.
Proof. vm_compute. repeat split. Qed.

Definition ok_witness : c20case :=
  CLock 2 [Request 1 [5; 6; 7] 0; Request 2 [5; 6] 0; Unlock 1 7; Unlock 1 6; Unlock 3 9; Unlock 1 5; Unlock 2 6; DropChan 2 0; Unlock 2 5]%N.
Lemma nonvacuous : known_C20 ok_witness = [] /\
  run_from (init 2) [Request 1 [5; 6; 7] 0; Request 2 [5; 6] 0; Unlock 1 7; Unlock 1 6; Unlock 3 9; Unlock 1 5; Unlock 2 6; DropChan 2 0; Unlock 2 5]%N = [[(1, 0, 7); (1, 0, 6)]; []; [(1, 0, 5)]; [(2, 0, 6)]; []; [(2, 0, 5)]; []; []; []]%N.
Proof. vm_compute. split; reflexivity. Qed.
