(* RightsP.v — proofs about Rights.v: the room built by the add_* functions decides exactly
   what the event history grants (RightsSpec.granted). *)
From DV Require Import RightsSpec.

(* ------------------------------------------------------------------ generic histories *)
Section Hist.
  Variable A : Type.
  Variable kf : A -> N.
  Variable df : A -> Z.

  Definition glookup (l : list A) (k : N) (d : Z) : option A :=
    find (fun x => N.eqb (kf x) k && Z.leb (df x) d) l.
  Definition glast (l : list A) (k : N) : option A := find (fun x => N.eqb (kf x) k) l.
  Definition gadd (l : list A) (x : A) : option (list A) :=
    match glast l (kf x) with
    | Some v => if Z.ltb (df x) (df v) then None else Some (x :: l)
    | None => Some (x :: l)
    end.

  (* strongly descending dates, newest first *)
  Fixpoint desc (l : list Z) : Prop :=
    match l with [] => True | x :: tl => Forall (fun y => y <= x) tl /\ desc tl end.
  Definition ksorted (l : list A) : Prop :=
    forall k, desc (map df (filter (fun x => N.eqb (kf x) k) l)).

  Lemma find_filter_hd (p : A -> bool) (l : list A) : find p l = hd_error (filter p l).
  Proof. induction l as [|a l IH]; simpl; [reflexivity|]. destruct (p a); simpl; auto. Qed.

  Lemma gadd_sorted l x l' : ksorted l -> gadd l x = Some l' -> ksorted l'.
  Proof.
    unfold gadd, glast. intros Hs Ha k.
    assert (Hl' : l' = x :: l /\ (forall v, find (fun y => N.eqb (kf y) (kf x)) l = Some v -> df v <= df x)).
    { destruct (find _ l) as [v|] eqn:Hf.
      - destruct (Z.ltb (df x) (df v)) eqn:Hlt; [discriminate|]. inversion Ha; subst. split; [reflexivity|].
        intros v' Hv'. inversion Hv'; subst. apply Z.ltb_ge in Hlt. exact Hlt.
      - inversion Ha; subst. split; [reflexivity|]. intros v' Hv'. discriminate. }
    destruct Hl' as [-> Hle]. simpl.
    destruct (N.eqb (kf x) k) eqn:Hk; [|apply Hs].
    apply N.eqb_eq in Hk. subst k. simpl. split; [|apply Hs].
    specialize (Hs (kf x)). rewrite find_filter_hd in Hle.
    destruct (filter (fun y => N.eqb (kf y) (kf x)) l) as [|v tl] eqn:Hfl; simpl; [constructor|].
    simpl in Hs. destruct Hs as [Hall _].
    specialize (Hle v eq_refl). constructor; [exact Hle|].
    eapply Forall_impl; [|exact Hall]. simpl. intros; lia.
  Qed.
End Hist.

(* ------------------------------------------------------------------ in_force vs find *)
Lemma in_force_snoc {A} (L : list (Z * A)) x v d :
  Forall (fun p => fst p <= x) L ->
  in_force (L ++ [(x, v)]) d = if Z.leb x d then Some (x, v) else in_force L d.
Proof.
  induction L as [|[y w] L IH]; intros HF; simpl.
  - reflexivity.
  - inversion HF as [|? ? Hy HF']; subst. simpl in Hy. rewrite (IH HF').
    destruct (Z.leb x d) eqn:Hxd.
    + assert (Z.ltb x y = false) by (apply Z.ltb_ge; lia). rewrite H, andb_false_r. reflexivity.
    + reflexivity.
Qed.

Lemma find_in_force {A} (l : list (Z * A)) d :
  desc (map fst l) -> find (fun p => Z.leb (fst p) d) l = in_force (rev l) d.
Proof.
  induction l as [|[x v] tl IH]; simpl; intros Hd; [reflexivity|].
  destruct Hd as [Hall Hd]. rewrite in_force_snoc.
  - simpl. destruct (Z.leb x d); [reflexivity|]. apply IH; exact Hd.
  - apply Forall_rev. rewrite Forall_map in Hall. exact Hall.
Qed.

Lemma find_map {A B} (f : A -> B) (p : B -> bool) (l : list A) :
  find p (map f l) = option_map f (find (fun x => p (f x)) l).
Proof. induction l as [|a l IH]; simpl; [reflexivity|]. destruct (p (f a)); simpl; auto. Qed.

Lemma find_and_filter {A} (p q : A -> bool) (l : list A) :
  find (fun x => p x && q x) l = find q (filter p l).
Proof. induction l as [|a l IH]; simpl; [reflexivity|]. destruct (p a); simpl; [destruct (q a)|]; auto. Qed.

Lemma filter_rev {A} (p : A -> bool) (l : list A) : filter p (rev l) = rev (filter p l).
Proof.
  induction l as [|a l IH]; simpl; [reflexivity|].
  rewrite filter_app, IH. simpl. destruct (p a); simpl; [reflexivity|apply app_nil_r].
Qed.

(* the entries of key k in an oldest-first list, as (date, payload) pairs *)
Definition entries_of {A B} (kf : A -> N) (df : A -> Z) (pf : A -> B) (L : list A) (k : N) : list (Z * B) :=
  map (fun x => (df x, pf x)) (filter (fun x => N.eqb (kf x) k) L).

Lemma lookup_in_force {A B} (kf : A -> N) (df : A -> Z) (pf : A -> B) (L : list A) k d :
  ksorted A kf df (rev L) ->
  option_map (fun x => (df x, pf x)) (glookup A kf df (rev L) k d) = in_force (entries_of kf df pf L k) d.
Proof.
  intros Hs. unfold glookup, entries_of.
  rewrite find_and_filter, filter_rev.
  specialize (Hs k). rewrite filter_rev in Hs.
  set (F := filter (fun x => N.eqb (kf x) k) L) in *.
  rewrite <- (rev_involutive (map _ F)), <- map_rev.
  rewrite <- find_in_force.
  - rewrite find_map. reflexivity.
  - rewrite map_map. simpl. exact Hs.
Qed.

(* ------------------------------------------------------------------ projections of a history *)
Definition admin_users (evs : list event) : list user :=
  flat_map (fun ev => match ev with EvAdmin k d b => [{| u_key := k; u_date := d; u_enabled := b |}] | _ => [] end) evs.
Definition group_users (evs : list event) (g : uid) : list user :=
  flat_map (fun ev => match ev with EvUser g' k d b => if N.eqb g' g then [{| u_key := k; u_date := d; u_enabled := b |}] else [] | _ => [] end) evs.
Definition group_uadmins (evs : list event) (g : uid) : list user :=
  flat_map (fun ev => match ev with EvUAdmin g' k d b => if N.eqb g' g then [{| u_key := k; u_date := d; u_enabled := b |}] else [] | _ => [] end) evs.
Definition group_rights (evs : list event) (g : uid) : list eright :=
  flat_map (fun ev => match ev with EvRight g' e d s a => if N.eqb g' g then [mk_right d e s a] else [] | _ => [] end) evs.

Definition auth_rep (evs : list event) (a : auth) : Prop :=
  a_users a = rev (group_users evs (a_id a)) /\
  a_uadmins a = rev (group_uadmins evs (a_id a)) /\
  a_rights a = rev (group_rights evs (a_id a)).
Definition auth_sorted (a : auth) : Prop :=
  ksorted user u_key u_date (a_users a) /\ ksorted user u_key u_date (a_uadmins a) /\
  ksorted eright r_ent r_from (a_rights a).

Lemma add_user_gadd l u : add_user l u = gadd user u_key u_date l u.
Proof. reflexivity. Qed.
Lemma add_right_gadd l r : add_right l r = gadd eright r_ent r_from l r.
Proof. reflexivity. Qed.

Definition no_orphans (evs : list event) : Prop :=
  forall g, ~ In g (groups evs) ->
    group_users evs g = [] /\ group_uadmins evs g = [] /\ group_rights evs g = [].

Definition Rep (evs : list event) (r : room) : Prop :=
  rm_admins r = rev (admin_users evs) /\
  map a_id (rm_auths r) = groups evs /\
  Forall (auth_rep evs) (rm_auths r) /\
  ksorted user u_key u_date (rm_admins r) /\
  Forall auth_sorted (rm_auths r) /\
  no_orphans evs.

Lemma ksorted_nil {A} kf df : ksorted A kf df [].
Proof. intros k. simpl. exact I. Qed.

Lemma Rep_empty id : Rep [] (empty_room id).
Proof. repeat split; simpl; auto using ksorted_nil. Qed.

Lemma flat_map_snoc {A B} (f : A -> list B) l x : flat_map f (l ++ [x]) = flat_map f l ++ f x.
Proof. rewrite flat_map_app. simpl. rewrite app_nil_r. reflexivity. Qed.

Lemma find_auth_in r g a : find_auth r g = Some a -> In a (rm_auths r) /\ a_id a = g.
Proof.
  unfold find_auth. intros H. apply find_some in H. destruct H as [Hin He].
  apply N.eqb_eq in He. auto.
Qed.

Lemma map_id_set_auth r a' :
  map a_id (rm_auths (set_auth r a')) = map a_id (rm_auths r).
Proof.
  unfold set_auth. simpl. rewrite map_map. apply map_ext_in. intros a _.
  destruct (N.eqb (a_id a) (a_id a')) eqn:He; [apply N.eqb_eq in He; congruence|reflexivity].
Qed.

Lemma rm_admins_set_auth r a' : rm_admins (set_auth r a') = rm_admins r.
Proof. reflexivity. Qed.
Arguments set_auth : simpl never.

Lemma Forall_set_auth (P Q : auth -> Prop) r a' :
  Forall P (rm_auths r) ->
  (forall a, In a (rm_auths r) -> P a -> a_id a <> a_id a' -> Q a) ->
  Q a' ->
  Forall Q (rm_auths (set_auth r a')).
Proof.
  intros HP Hother Hnew. unfold set_auth. simpl. rewrite Forall_map.
  rewrite Forall_forall in *. intros a Hin.
  destruct (N.eqb (a_id a) (a_id a')) eqn:He; [exact Hnew|].
  apply N.eqb_neq in He. apply Hother; auto.
Qed.

(* the four projections after one more event *)
Lemma proj_snoc evs ev :
  admin_users (evs ++ [ev]) = admin_users evs ++ admin_users [ev] /\
  groups (evs ++ [ev]) = groups evs ++ groups [ev] /\
  (forall g, group_users (evs ++ [ev]) g = group_users evs g ++ group_users [ev] g) /\
  (forall g, group_uadmins (evs ++ [ev]) g = group_uadmins evs g ++ group_uadmins [ev] g) /\
  (forall g, group_rights (evs ++ [ev]) g = group_rights evs g ++ group_rights [ev] g).
Proof.
  unfold admin_users, groups, group_users, group_uadmins, group_rights.
  repeat split; intros; rewrite flat_map_app; reflexivity.
Qed.

Lemma auth_rep_other evs ev a :
  auth_rep evs a ->
  group_users [ev] (a_id a) = [] -> group_uadmins [ev] (a_id a) = [] -> group_rights [ev] (a_id a) = [] ->
  auth_rep (evs ++ [ev]) a.
Proof.
  intros (H1 & H2 & H3) E1 E2 E3. destruct (proj_snoc evs ev) as (_ & _ & P1 & P2 & P3).
  unfold auth_rep. rewrite P1, P2, P3, E1, E2, E3, !app_nil_r. auto.
Qed.

Lemma no_orphans_step evs ev :
  no_orphans evs ->
  (forall g, ~ In g (groups evs ++ groups [ev]) ->
     group_users [ev] g = [] /\ group_uadmins [ev] g = [] /\ group_rights [ev] g = []) ->
  no_orphans (evs ++ [ev]).
Proof.
  intros Hno Hev g Hg. destruct (proj_snoc evs ev) as (_ & PG & P1 & P2 & P3).
  rewrite PG in Hg. destruct (Hev g Hg) as (E1 & E2 & E3).
  assert (Hg' : ~ In g (groups evs)) by (intros X; apply Hg; apply in_or_app; auto).
  destruct (Hno g Hg') as (N1 & N2 & N3).
  rewrite P1, P2, P3, E1, E2, E3, N1, N2, N3. auto.
Qed.

Lemma eqb_if_nil {B} (g g' : N) (x : list B) : g' <> g -> (if N.eqb g' g then x else []) = [].
Proof. intros H. apply N.eqb_neq in H. rewrite H. reflexivity. Qed.

Lemma apply_event_Rep evs r ev r' :
  Rep evs r -> apply_event r ev = Some r' -> Rep (evs ++ [ev]) r'.
Proof.
  intros (Had & Hids & Hrep & Hsa & Hss & Hno) Hap.
  destruct (proj_snoc evs ev) as (PA & PG & P1 & P2 & P3).
  destruct ev as [g|k d b|g k d b|g k d b|g e d s a0]; simpl in Hap.
  - (* EvGroup *)
    destruct (find_auth r g) eqn:Hf; [discriminate|]. inversion Hap; subst r'; clear Hap.
    assert (Hnog : ~ In g (groups evs)).
    { rewrite <- Hids. intros Hin. apply in_map_iff in Hin. destruct Hin as (a & Ha & Hin).
      unfold find_auth in Hf. eapply find_none in Hf; [|exact Hin]. apply N.eqb_neq in Hf. auto. }
    unfold Rep. simpl. rewrite PA, PG. simpl. rewrite app_nil_r.
    split; [exact Had|]. split; [rewrite map_app, Hids; reflexivity|].
    split; [|split; [exact Hsa|split]].
    + apply Forall_app. split.
      * eapply Forall_impl; [|exact Hrep]. intros a Ha. apply auth_rep_other; auto.
      * constructor; [|constructor]. destruct (Hno g Hnog) as (N1 & N2 & N3).
        unfold auth_rep. simpl. rewrite P1, P2, P3, N1, N2, N3. simpl. auto.
    + apply Forall_app. split; [exact Hss|]. constructor; [|constructor].
      repeat split; apply ksorted_nil.
    + apply no_orphans_step; [exact Hno|]. intros; simpl; auto.
  - (* EvAdmin *)
    rewrite add_user_gadd in Hap.
    destruct (gadd user u_key u_date (rm_admins r) _) as [l|] eqn:Hg; [|discriminate].
    inversion Hap; subst r'; clear Hap.
    assert (Hl : l = {| u_key := k; u_date := d; u_enabled := b |} :: rm_admins r).
    { unfold gadd in Hg. destruct (glast _ _ _ _); [destruct (Z.ltb _ _); [discriminate|]|]; inversion Hg; reflexivity. }
    unfold Rep. simpl. rewrite PA, PG. simpl. rewrite app_nil_r, rev_app_distr. simpl.
    split; [rewrite Hl, Had; reflexivity|]. split; [exact Hids|].
    split; [|split; [eapply gadd_sorted; eauto|split; [exact Hss|]]].
    + eapply Forall_impl; [|exact Hrep]. intros a Ha. apply auth_rep_other; auto.
    + apply no_orphans_step; [exact Hno|]. intros; simpl; auto.
  - (* EvUser *)
    destruct (find_auth r g) as [a|] eqn:Hf; [|discriminate].
    destruct (find_auth_in _ _ _ Hf) as [Hin Hid].
    rewrite add_user_gadd in Hap.
    destruct (gadd user u_key u_date (a_users a) _) as [l|] eqn:Hg; [|discriminate].
    inversion Hap; subst r'; clear Hap.
    assert (Hl : l = {| u_key := k; u_date := d; u_enabled := b |} :: a_users a).
    { unfold gadd in Hg. destruct (glast _ _ _ _); [destruct (Z.ltb _ _); [discriminate|]|]; inversion Hg; reflexivity. }
    assert (Ha_rep : auth_rep evs a) by (rewrite Forall_forall in Hrep; auto).
    assert (Ha_s : auth_sorted a) by (rewrite Forall_forall in Hss; auto).
    unfold Rep. rewrite map_id_set_auth, rm_admins_set_auth. rewrite PA, PG.
    match goal with |- context [admin_users [?e]] => change (admin_users [e]) with (@nil user); change (groups [e]) with (@nil uid) end.
    rewrite !app_nil_r.
    split; [exact Had|]. split; [exact Hids|].
    split; [|split; [exact Hsa|split]].
    + apply (Forall_set_auth (auth_rep evs) _ r _ Hrep).
      * intros a1 _ Ha1 Hne. simpl in Hne. apply auth_rep_other; auto. simpl. rewrite app_nil_r. apply eqb_if_nil. congruence.
      * destruct Ha_rep as (R1 & R2 & R3). unfold auth_rep. simpl. rewrite P1, P2, P3. simpl.
        rewrite Hid, N.eqb_refl, !app_nil_r, rev_app_distr. simpl. rewrite Hl, R1, Hid. rewrite Hid in R2, R3. auto.
    + apply (Forall_set_auth auth_sorted _ r _ Hss).
      * intros; assumption.
      * destruct Ha_s as (S1 & S2 & S3). unfold auth_sorted. simpl. split; [exact (gadd_sorted _ _ _ _ _ _ S1 Hg)|split; assumption].
    + apply no_orphans_step; [exact Hno|]. intros g0 Hg0. simpl. rewrite app_nil_r in *.
      assert (g <> g0). { intros ->. apply Hg0. rewrite <- Hids. apply in_map_iff. exists a. auto. }
      rewrite eqb_if_nil; auto.
  - (* EvUAdmin *)
    destruct (find_auth r g) as [a|] eqn:Hf; [|discriminate].
    destruct (find_auth_in _ _ _ Hf) as [Hin Hid].
    rewrite add_user_gadd in Hap.
    destruct (gadd user u_key u_date (a_uadmins a) _) as [l|] eqn:Hg; [|discriminate].
    inversion Hap; subst r'; clear Hap.
    assert (Hl : l = {| u_key := k; u_date := d; u_enabled := b |} :: a_uadmins a).
    { unfold gadd in Hg. destruct (glast _ _ _ _); [destruct (Z.ltb _ _); [discriminate|]|]; inversion Hg; reflexivity. }
    assert (Ha_rep : auth_rep evs a) by (rewrite Forall_forall in Hrep; auto).
    assert (Ha_s : auth_sorted a) by (rewrite Forall_forall in Hss; auto).
    unfold Rep. rewrite map_id_set_auth, rm_admins_set_auth. rewrite PA, PG.
    match goal with |- context [admin_users [?e]] => change (admin_users [e]) with (@nil user); change (groups [e]) with (@nil uid) end.
    rewrite !app_nil_r.
    split; [exact Had|]. split; [exact Hids|].
    split; [|split; [exact Hsa|split]].
    + apply (Forall_set_auth (auth_rep evs) _ r _ Hrep).
      * intros a1 _ Ha1 Hne. simpl in Hne. apply auth_rep_other; auto. simpl. rewrite app_nil_r. apply eqb_if_nil. congruence.
      * destruct Ha_rep as (R1 & R2 & R3). unfold auth_rep. simpl. rewrite P1, P2, P3. simpl.
        rewrite Hid, N.eqb_refl, !app_nil_r, rev_app_distr. simpl. rewrite Hl, R2, Hid. rewrite Hid in R1, R3. auto.
    + apply (Forall_set_auth auth_sorted _ r _ Hss).
      * intros; assumption.
      * destruct Ha_s as (S1 & S2 & S3). unfold auth_sorted. simpl. split; [assumption|split; [exact (gadd_sorted _ _ _ _ _ _ S2 Hg)|assumption]].
    + apply no_orphans_step; [exact Hno|]. intros g0 Hg0. simpl. rewrite app_nil_r in *.
      assert (g <> g0). { intros ->. apply Hg0. rewrite <- Hids. apply in_map_iff. exists a. auto. }
      rewrite eqb_if_nil; auto.
  - (* EvRight *)
    destruct (find_auth r g) as [a|] eqn:Hf; [|discriminate].
    destruct (find_auth_in _ _ _ Hf) as [Hin Hid].
    rewrite add_right_gadd in Hap.
    destruct (gadd eright r_ent r_from (a_rights a) _) as [l|] eqn:Hg; [|discriminate].
    inversion Hap; subst r'; clear Hap.
    assert (Hl : l = mk_right d e s a0 :: a_rights a).
    { unfold gadd in Hg. destruct (glast _ _ _ _); [destruct (Z.ltb _ _); [discriminate|]|]; inversion Hg; reflexivity. }
    assert (Ha_rep : auth_rep evs a) by (rewrite Forall_forall in Hrep; auto).
    assert (Ha_s : auth_sorted a) by (rewrite Forall_forall in Hss; auto).
    unfold Rep. rewrite map_id_set_auth, rm_admins_set_auth. rewrite PA, PG.
    match goal with |- context [admin_users [?e]] => change (admin_users [e]) with (@nil user); change (groups [e]) with (@nil uid) end.
    rewrite !app_nil_r.
    split; [exact Had|]. split; [exact Hids|].
    split; [|split; [exact Hsa|split]].
    + apply (Forall_set_auth (auth_rep evs) _ r _ Hrep).
      * intros a1 _ Ha1 Hne. simpl in Hne. apply auth_rep_other; auto. simpl. rewrite app_nil_r. apply eqb_if_nil. congruence.
      * destruct Ha_rep as (R1 & R2 & R3). unfold auth_rep. simpl. rewrite P1, P2, P3. simpl.
        rewrite Hid, N.eqb_refl, !app_nil_r, rev_app_distr. simpl. rewrite Hl, R3, Hid. rewrite Hid in R1, R2. auto.
    + apply (Forall_set_auth auth_sorted _ r _ Hss).
      * intros; assumption.
      * destruct Ha_s as (S1 & S2 & S3). unfold auth_sorted. simpl. split; [assumption|split; [assumption|exact (gadd_sorted _ _ _ _ _ _ S3 Hg)]].
    + apply no_orphans_step; [exact Hno|]. intros g0 Hg0. simpl. rewrite app_nil_r in *.
      assert (g <> g0). { intros ->. apply Hg0. rewrite <- Hids. apply in_map_iff. exists a. auto. }
      rewrite eqb_if_nil; auto.
Qed.

(* ------------------------------------------------------------------ strict replay *)
Fixpoint build_strict (r : room) (evs : list event) : option room :=
  match evs with
  | [] => Some r
  | ev :: tl => match apply_event r ev with Some r' => build_strict r' tl | None => None end
  end.

Lemma build_strict_Rep evs : forall evs0 r0 r,
  Rep evs0 r0 -> build_strict r0 evs = Some r -> Rep (evs0 ++ evs) r.
Proof.
  induction evs as [|ev tl IH]; simpl; intros evs0 r0 r HR Hb.
  - inversion Hb; subst. rewrite app_nil_r. exact HR.
  - destruct (apply_event r0 ev) as [r'|] eqn:Ha; [|discriminate].
    replace (evs0 ++ ev :: tl) with ((evs0 ++ [ev]) ++ tl) by (rewrite <- app_assoc; reflexivity).
    eapply IH; [|exact Hb]. eapply apply_event_Rep; eauto.
Qed.

Lemma build_from_strict evs : forall r,
  build_strict r (map fst (filter snd (combine evs (snd (build_from r evs))))) = Some (fst (build_from r evs)).
Proof.
  induction evs as [|ev tl IH]; intros r; simpl; [reflexivity|].
  destruct (apply_event r ev) as [r'|] eqn:Ha.
  - specialize (IH r'). destruct (build_from r' tl) as [rf oks] eqn:Hb. simpl in *. rewrite Ha. exact IH.
  - specialize (IH r). destruct (build_from r tl) as [rf oks] eqn:Hb. simpl in *. exact IH.
Qed.

Lemma build_Rep id evs : Rep (accepted id evs) (build id evs).
Proof.
  unfold accepted, build.
  pose proof (build_from_strict evs (empty_room id)) as H.
  apply (build_strict_Rep _ [] (empty_room id) _ (Rep_empty id)) in H. exact H.
Qed.

(* ------------------------------------------------------------------ decisions *)
Lemma existsb_map {A B} (f : B -> bool) (g : A -> B) l : existsb f (map g l) = existsb (fun x => f (g x)) l.
Proof. induction l as [|a l IH]; simpl; [reflexivity|]. rewrite IH. reflexivity. Qed.
Lemma existsb_ext_in {A} (f g : A -> bool) l : (forall a, In a l -> f a = g a) -> existsb f l = existsb g l.
Proof.
  induction l as [|a l IH]; simpl; intros H; [reflexivity|].
  rewrite (H a (or_introl eq_refl)), IH; auto.
Qed.

Lemma entries_of_app {A B} (kf : A -> N) (df : A -> Z) (pf : A -> B) L1 L2 k :
  entries_of kf df pf (L1 ++ L2) k = entries_of kf df pf L1 k ++ entries_of kf df pf L2 k.
Proof. unfold entries_of. rewrite filter_app, map_app. reflexivity. Qed.

Lemma in_force_map {A B} (h : A -> B) (L : list (Z * A)) d :
  in_force (map (fun p => (fst p, h (snd p))) L) d = option_map (fun p => (fst p, h (snd p))) (in_force L d).
Proof.
  induction L as [|[x v] L IH]; simpl; [reflexivity|]. rewrite IH.
  destruct (in_force L d) as [[y w]|]; simpl.
  - destruct (Z.leb x d && Z.ltb y x); reflexivity.
  - destruct (Z.leb x d); reflexivity.
Qed.

Lemma admin_entries_of evs k :
  entries_of u_key u_date u_enabled (admin_users evs) k = admin_entries evs k.
Proof.
  unfold admin_users, admin_entries. induction evs as [|ev tl IH]; simpl; [reflexivity|].
  rewrite entries_of_app, IH. f_equal. destruct ev; simpl; try reflexivity.
  unfold entries_of; simpl. destruct (N.eqb k0 k); reflexivity.
Qed.
Lemma user_entries_of evs g k :
  entries_of u_key u_date u_enabled (group_users evs g) k = user_entries evs g k.
Proof.
  unfold group_users, user_entries. induction evs as [|ev tl IH]; simpl; [reflexivity|].
  rewrite entries_of_app, IH. f_equal. destruct ev; simpl; try reflexivity.
  destruct (N.eqb g0 g); simpl; [|reflexivity].
  unfold entries_of; simpl. destruct (N.eqb k0 k); reflexivity.
Qed.
Lemma uadmin_entries_of evs g k :
  entries_of u_key u_date u_enabled (group_uadmins evs g) k = uadmin_entries evs g k.
Proof.
  unfold group_uadmins, uadmin_entries. induction evs as [|ev tl IH]; simpl; [reflexivity|].
  rewrite entries_of_app, IH. f_equal. destruct ev; simpl; try reflexivity.
  destruct (N.eqb g0 g); simpl; [|reflexivity].
  unfold entries_of; simpl. destruct (N.eqb k0 k); reflexivity.
Qed.
Lemma right_entries_of evs g e :
  entries_of r_ent r_from (fun r => (r_self r, r_all r)) (group_rights evs g) e =
  map (fun p => (fst p, (fst (snd p) || snd (snd p), snd (snd p)))) (right_entries evs g e).
Proof.
  unfold group_rights, right_entries. induction evs as [|ev tl IH]; simpl; [reflexivity|].
  rewrite entries_of_app, IH, map_app. f_equal. destruct ev; simpl; try reflexivity.
  destruct (N.eqb g0 g); simpl; [|reflexivity].
  unfold entries_of; simpl. destruct (N.eqb e0 e); reflexivity.
Qed.

Lemma enabled_at_in_force L k d :
  ksorted user u_key u_date (rev L) ->
  enabled_at (rev L) k d = flag_in_force (entries_of u_key u_date u_enabled L k) d.
Proof.
  intros Hs. unfold enabled_at, flag_in_force.
  rewrite <- (lookup_in_force u_key u_date u_enabled L k d Hs).
  unfold lookup_user, glookup. destruct (find _ (rev L)); reflexivity.
Qed.

Lemma auth_can_granted evs a e d t :
  auth_rep evs a -> auth_sorted a -> auth_can a e d t = right_granted evs (a_id a) e d t.
Proof.
  intros (_ & _ & R3) (_ & _ & S3). unfold auth_can, right_granted.
  rewrite R3 in *.
  assert (HL : forall e0, option_map (fun x => (r_from x, (r_self x, r_all x)))
                 (lookup_right (rev (group_rights evs (a_id a))) e0 d) =
               option_map (fun p => (fst p, (fst (snd p) || snd (snd p), snd (snd p))))
                 (in_force (right_entries evs (a_id a) e0) d)).
  { intros e0.
    pose proof (lookup_in_force r_ent r_from (fun r => (r_self r, r_all r)) (group_rights evs (a_id a)) e0 d S3) as H.
    rewrite right_entries_of, (in_force_map (fun sa => (fst sa || snd sa, snd sa))) in H. exact H. }
  pose proof (HL e) as He. pose proof (HL wildcard) as Hw.
  destruct (lookup_right _ e d) as [r|]; destruct (in_force (right_entries evs (a_id a) e) d) as [[y [s a1]]|]; simpl in He; try discriminate.
  - inversion He as [[H0 H1 H2]]. destruct t; simpl; congruence.
  - destruct (lookup_right _ wildcard d) as [r|]; destruct (in_force (right_entries evs (a_id a) wildcard) d) as [[y [s a1]]|]; simpl in Hw; try discriminate.
    + inversion Hw as [[H0 H1 H2]]. destruct t; simpl; congruence.
    + reflexivity.
Qed.

Theorem Rep_can evs r k e d t : Rep evs r -> can r k e d t = granted evs k e d t.
Proof.
  intros (Had & Hids & Hrep & Hsa & Hss & _). unfold can, granted.
  rewrite <- Hids, existsb_map. apply existsb_ext_in. intros a Hin.
  rewrite Forall_forall in Hrep, Hss. pose proof (Hrep a Hin) as Ra. pose proof (Hss a Hin) as Sa.
  rewrite (auth_can_granted evs a e d t Ra Sa).
  destruct Ra as (R1 & R2 & _). destruct Sa as (S1 & S2 & _).
  unfold is_admin, auth_user_valid, admin_at, member_at.
  rewrite Had in *. rewrite R1 in *. rewrite R2 in *.
  rewrite !enabled_at_in_force by assumption.
  rewrite admin_entries_of, user_entries_of, uadmin_entries_of. reflexivity.
Qed.

Theorem Rep_is_admin evs r k d : Rep evs r -> is_admin r k d = admin_at evs k d.
Proof.
  intros (Had & _ & _ & Hsa & _). unfold is_admin, admin_at. rewrite Had in *.
  rewrite enabled_at_in_force by assumption. rewrite admin_entries_of. reflexivity.
Qed.

(* the room that room.rs builds from any sequence of add_* calls (refused ones skipped) decides
   exactly what the accepted history grants *)
Theorem can_granted id evs k e d t :
  can (build id evs) k e d t = granted (accepted id evs) k e d t.
Proof. apply Rep_can. apply build_Rep. Qed.
Theorem is_admin_admin_at id evs k d :
  is_admin (build id evs) k d = admin_at (accepted id evs) k d.
Proof. apply Rep_is_admin. apply build_Rep. Qed.
