(* C05Agg.v — tier T3, first slice: the aggregates query.rs computes (SQL aggregates over the SQL values of the member,
   NULL left out) are the aggregates of the values, so the whole answer (having, order, first / skip) is the direct
   evaluation.  Classes 9 and 10 were repaired in /repo (b717988): no exclusion is left. *)
From DV Require Import Agg Run_C05 C05Order C05P C05Top.
Open Scope list_scope.

Lemma sql_values_nonnull : forall rows f, sql_values rows f = nonnull (column rows f).
Proof.
  intros rows f. unfold sql_values, nonnull, column. induction rows as [|r t IH]. reflexivity.
  cbn [flat_map map filter]. rewrite IH. destruct (fval r f); reflexivity.
Qed.
Lemma sum4_cons : forall v t, sum4 (v :: t) = match num4 v with Some x => x + sum4 t | None => sum4 t end.
Proof. reflexivity. Qed.
Lemma sum4_nonnull : forall vs, sum4 (nonnull vs) = sum4 vs.
Proof.
  induction vs as [|v t IH]. reflexivity.
  unfold nonnull in *. cbn [filter]. destruct (is_null v) eqn:E; cbn [negb].
  - destruct v; try discriminate. rewrite sum4_cons. cbn [num4]. exact IH.
  - rewrite !sum4_cons. rewrite IH. reflexivity.
Qed.

(* every aggregate, every group *)
Theorem agg_holds : forall g a, agg_impl g a = agg_spec g a.
Proof.
  intros g a. destruct a as [|f|f|f|f]; cbn [agg_impl agg_spec]; rewrite ?sql_values_nonnull; try reflexivity.
  rewrite sum4_nonnull. reflexivity.
Qed.

Lemma row_cells_agree : forall cols g, row_cells agg_impl cols g = row_cells agg_spec cols g.
Proof.
  intros cols g. unfold row_cells. apply map_ext. intros c. destruct c as [f|a]. reflexivity. apply agg_holds.
Qed.

Theorem T3_holds : forall rows q, eval_agg agg_impl rows q = eval_agg agg_spec rows q.
Proof. intros rows q. unfold eval_agg. f_equal. apply map_ext. intros g. apply row_cells_agree. Qed.

Theorem T3_spec : forall rows q, spec_C05 (CAgg rows q) (run_C05 (CAgg rows q)) = true.
Proof. intros rows q. cbn [spec_C05 run_C05]. rewrite (T3_holds rows q). apply zlist_eqb_refl5. Qed.

(* json selectors: the model of the implementation is the reference evaluator itself (tied to the code by the runs only) *)
Theorem T3_jsel_partial : forall docs sels fs, spec_C05 (CJsel docs sels fs) (run_C05 (CJsel docs sels fs)) = true.
Proof. intros. cbn [spec_C05 run_C05]. apply zlist_eqb_refl5. Qed.
