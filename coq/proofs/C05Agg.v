(* C05Agg.v — tier T3, first slice: outside the two listed classes the aggregates query.rs computes are the aggregates
   of the values, so the whole answer (having, order, first / skip) is the direct evaluation. *)
From DV Require Import Agg Run_C05 C05Order C05P C05Top.
Open Scope list_scope.

Lemma val_eqb_eq : forall a b, val_eqb a b = true -> a = b.
Proof.
  intros a b H. destruct a, b; cbn [val_eqb] in H; try discriminate; try reflexivity.
  - apply Bool.eqb_prop in H. subst. reflexivity.
  - apply Z.eqb_eq in H. subst. reflexivity.
  - apply Z.eqb_eq in H. subst. reflexivity.
  - apply str_eqb_eq in H. subst. reflexivity.
Qed.
Lemma cell_eqb_eq : forall a b, cell_eqb a b = true -> a = b.
Proof.
  intros a b H. destruct a, b; cbn [cell_eqb] in H; try discriminate.
  - apply val_eqb_eq in H. subst. reflexivity.
  - apply andb_prop in H. destruct H as [H1 H2]. apply Z.eqb_eq in H1. apply Z.eqb_eq in H2. subst. reflexivity.
Qed.

Lemma existsb_false_in : forall {A} (p : A -> bool) l x, existsb p l = false -> In x l -> p x = false.
Proof.
  intros A p l x H Hin. destruct (p x) eqn:E; [|reflexivity].
  assert (existsb p l = true) by (apply existsb_exists; exists x; split; assumption). congruence.
Qed.

(* one group: every cell of the selection agrees *)
Lemma row_cells_agree : forall cols g,
  (forall a, In (GAgg a) cols -> agg_impl g a = agg_spec g a) -> row_cells agg_impl cols g = row_cells agg_spec cols g.
Proof.
  intros cols g H. unfold row_cells. apply map_ext_in. intros c Hc. destruct c as [f|a]. reflexivity. apply H. exact Hc.
Qed.

Theorem T3_outside_known : forall rows q, known_C05 (CAgg rows q) = [] -> eval_agg agg_impl rows q = eval_agg agg_spec rows q.
Proof.
  intros rows q Hk. cbn [known_C05] in Hk. unfold known_agg in Hk. apply cls_nil in Hk. destruct Hk as [K9 K10]. apply cls_nil1 in K10.
  unfold eval_agg. f_equal. apply map_ext_in. intros g Hg. apply row_cells_agree. intros a Ha.
  unfold agg_differs in K9, K10.
  pose proof (existsb_false_in _ _ g K9 Hg) as G9. pose proof (existsb_false_in _ _ g K10 Hg) as G10. cbv beta in G9, G10.
  pose proof (existsb_false_in _ _ (GAgg a) G9 Ha) as A9. pose proof (existsb_false_in _ _ (GAgg a) G10 Ha) as A10. cbv beta iota in A9, A10.
  destruct a as [|f|f|f|f]; try reflexivity.
  - cbn [is_avg andb] in A10. apply Bool.negb_false_iff in A10. apply cell_eqb_eq. exact A10.
  - cbn [is_minmax andb] in A9. apply Bool.negb_false_iff in A9. apply cell_eqb_eq. exact A9.
  - cbn [is_minmax andb] in A9. apply Bool.negb_false_iff in A9. apply cell_eqb_eq. exact A9.
Qed.

Theorem T3_spec : forall rows q, known_C05 (CAgg rows q) = [] -> spec_C05 (CAgg rows q) (run_C05 (CAgg rows q)) = true.
Proof.
  intros rows q Hk. cbn [spec_C05 run_C05]. rewrite (T3_outside_known rows q Hk). apply zlist_eqb_refl5.
Qed.

(* count and sum never deviate *)
Theorem T3_count_sum_holds : forall g a, match a with ACount | ASum _ => True | _ => False end -> agg_impl g a = agg_spec g a.
Proof. intros g a H. destruct a; try contradiction; reflexivity. Qed.

(* json selectors: the model of the implementation is the reference evaluator itself (tied to the code by the runs only) *)
Theorem T3_jsel_partial : forall docs sels fs, spec_C05 (CJsel docs sels fs) (run_C05 (CJsel docs sels fs)) = true.
Proof. intros. cbn [spec_C05 run_C05]. apply zlist_eqb_refl5. Qed.
